#!/usr/bin/env python3
"""Regenerate MANIFEST.json from checks/*.py (each exposes META) and properties.jsonl."""
import importlib, json, os, sys, glob
sys.path.insert(0, os.path.dirname(os.path.abspath(__file__)))
os.chdir(os.path.dirname(os.path.abspath(__file__)))
props = [json.loads(l) for l in open("properties.jsonl")]
checks, claimed = [], set()
for p in props:
    pid = p["id"]
    if not os.path.exists(f"checks/{pid}.py"):
        continue
    m = importlib.import_module(f"checks.{pid}")
    meta = getattr(m, "META", None)
    if not meta:
        continue
    claimed.add(pid)
    checks.append({
        "property_id": pid,
        "quick_cmd": f"./check {pid} --tier quick",
        "thorough_cmd": f"./check {pid} --tier thorough",
        "evidence_file": f"/verif/evidence/{pid}.json",
        "replay_cmd_template": f"./check {pid} --replay {{path}}",
        "engine": meta.get("engine", "lean-proof+differential"),
        "level_claimed": {"category": meta.get("category", "proof"), "text": meta["text"], "design_ref": meta.get("design_ref", "DESIGN.md §4")},
        "level_note": meta["note"],
        "technique": meta["technique"],
    })
na_reasons = json.load(open("not_applicable.json")) if os.path.exists("not_applicable.json") else {}
na = [{"property_id": p["id"], "reason": na_reasons.get(p["id"], "check not built yet (work in progress, planned in DESIGN.md §4); not claimed until its theorem and its tie to the code run")}
      for p in props if p["id"] not in claimed]
hooks_commits = os.popen("git -C /repo log --format=%h --grep='^verif hooks' 2>/dev/null").read().split()
man = {
    "version": 1,
    "setup_cmd": "./setup",
    "hooks": {
        "guard": "cargo feature `mmtk_verif`",
        "enable": "harness depends on mmtk with features=[\"mmtk_verif\", ...] (path dependency on /repo); nothing else sets it",
        "baseline_off_cmd": "cd /repo && cargo test --workspace --no-fail-fast --offline",
        "source_commits": hooks_commits,
        "add_only": True,
    },
    "engines": [
        {"name": "lean-proof+differential", "path": "/verif/lean, /verif/harness, /verif/vlib",
         "serves_properties": sorted(claimed),
         "kind_free_text": "Lean 4 theorems about hand-written executable models (lake build + #print axioms audit), tied to /repo by a line-protocol differential: the compiled Lean model (mmtk_model) and the real code (hx_unit / hx_gc / hx_race built against /repo's working tree with feature mmtk_verif) run the same generated cases; constants/tables are regenerated from the code (Generated/*.lean)."}],
    "checks": checks,
    "not_applicable": na,
    "notes": "All checks are `./check <id> --tier quick|thorough`; seed via VERIF_SEED; known findings in known_findings.json; see DESIGN.md.",
}
json.dump(man, open("MANIFEST.json", "w"), indent=1)
print(f"claimed {len(checks)} / {len(props)}")
