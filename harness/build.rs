//! Derives `cfg`s from the harness feature set so that the binding can follow mmtk-core's own
//! feature-dependent trait members (a dependent crate cannot test `cfg(feature = "mmtk/..")`).
//!   has_vo_bit   <- any feature set that enables mmtk/vo_bit
//!   has_pinning  <- any feature set that enables mmtk/object_pinning
//!   hdr_specs    <- feature `hdr_specs` or env VERIF_HDR_SPECS=1
//!   unified_ref  <- feature `unified_ref` or env VERIF_UNIFIED_REF=1
fn main() {
    let has = |f: &str| std::env::var_os(format!("CARGO_FEATURE_{}", f.to_uppercase())).is_some();
    let env1 = |v: &str| std::env::var(v).map(|s| s == "1").unwrap_or(false);
    println!("cargo:rustc-check-cfg=cfg(has_vo_bit)");
    println!("cargo:rustc-check-cfg=cfg(has_pinning)");
    println!("cargo:rustc-check-cfg=cfg(hdr_specs)");
    println!("cargo:rustc-check-cfg=cfg(unified_ref)");
    println!("cargo:rerun-if-env-changed=VERIF_HDR_SPECS");
    println!("cargo:rerun-if-env-changed=VERIF_UNIFIED_REF");
    if ["fs_main", "fs_ms_nonmoving", "fs_imm_nonmoving", "fs_small", "vo_bit"].iter().any(|f| has(f)) {
        println!("cargo:rustc-cfg=has_vo_bit");
    }
    if ["fs_main", "fs_ms_nonmoving", "object_pinning"].iter().any(|f| has(f)) {
        println!("cargo:rustc-cfg=has_pinning");
    }
    if has("hdr_specs") || env1("VERIF_HDR_SPECS") {
        println!("cargo:rustc-cfg=hdr_specs");
    }
    if has("unified_ref") || env1("VERIF_UNIFIED_REF") {
        println!("cargo:rustc-cfg=unified_ref");
    }
}
