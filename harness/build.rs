//! Derives `cfg(has_vo_bit)` from the harness feature set (a dependent crate cannot test
//! `cfg(feature = "mmtk/vo_bit")`): set for every feature set that enables mmtk/vo_bit.
//! (Pinning / unified_ref / hdr_specs are plain harness features: `has_pinning`, `unified_ref`, `hdr_specs`.)
fn main() {
    let has = |f: &str| std::env::var_os(format!("CARGO_FEATURE_{}", f.to_uppercase())).is_some();
    println!("cargo:rustc-check-cfg=cfg(has_vo_bit)");
    if ["fs_main", "fs_ms_nonmoving", "fs_imm_nonmoving", "fs_small"].iter().any(|f| has(f)) {
        println!("cargo:rustc-cfg=has_vo_bit");
    }
}
