#!/usr/bin/env python3
"""Deterministic hx_gc smoke program generator.
usage: smoke_gen.py <plan> <workers> <heapMB> <nobjs> [nonmoving 0|1] [seed] [stress bytes] [yield seed]
Shapes: a long linked list (cycles + shared referents through second fields), garbage of mixed
sizes from a second mutator, LOS / immortal (/ nonmoving) objects, wide objects, region copies,
weak references, finalizers, ephemerons, pinning, user GCs (exhaustive and not) + natural GCs."""
import sys, random
a = sys.argv
plan, workers, heap, n = a[1], int(a[2]), int(a[3]), int(a[4])
nonmoving = len(a) > 5 and a[5] == '1'
seed = int(a[6]) if len(a) > 6 else 1
stress = int(a[7]) if len(a) > 7 else 0
yseed = int(a[8]) if len(a) > 8 else 0
rnd = random.Random(seed)
out = []
p = out.append
p(f"cfg plan {plan}"); p(f"cfg heap {heap<<20}"); p(f"cfg workers {workers}"); p("cfg watchdog 120")
if stress: p(f"cfg stress {stress}")
if yseed: p(f"cfg yield {yseed}")
p("init"); p("bind 0"); p("bind 1"); p("constraints")
nid = [0]
def alloc(m, nf, payload, sem="Default", slot=None, align=8, offset=0):
    nid[0] += 1
    if slot is None: slot = rnd.randrange(0, 8)
    p(f"alloc {m} {nid[0]} {nf} {payload} {align} {offset} {sem} {slot}")
    return nid[0]
head = None
chain = []     # ids on the live list (all reachable from root 0.60)
for i in range(n):
    nf = rnd.choice([1, 2, 2, 3, 8, 64 if i % 500 == 7 else 2])
    payload = rnd.choice([0, 8, 24, 100, 500, 2000])
    al = rnd.choice([8, 8, 8, 16, 32, 64]); off = rnd.choice([0, 0, 8, 16])
    x = alloc(0, nf, payload, slot=61, align=al, offset=off)
    if head is not None:
        p(f"write 0 {x} 0 {head}")
    if nf >= 2 and len(chain) > 4 and rnd.random() < 0.5:
        p(f"write 0 {x} 1 {rnd.choice(chain[-50:])}")   # shared referent / back edge
    if nf >= 8 and len(chain) > 8:
        src = next((c for c in reversed(chain[-200:]) if c[1] >= 8), None) if False else None
    p(f"root 0 60 {x}")
    head = x; chain.append(x)
    if rnd.random() < 0.7:
        alloc(1, rnd.choice([0, 0, 1]), rnd.choice([16, 64, 1024, 6000]), slot=rnd.randrange(0, 4))
    if i % 97 == 50:
        alloc(0, 2, 40000, sem="Los", slot=10 + (i // 97) % 8)
    if i % 211 == 100:
        alloc(0, 1, 64, sem="Immortal", slot=20)
    if nonmoving and i % 151 == 75:
        y = alloc(0, 1, 64, sem="NonMoving", slot=21)
        p(f"write 0 {y} 0 {head}")
    if i % 173 == 20:      # weak reference object to a garbage referent and to a live referent
        ref = alloc(0, 1, 8, slot=30 + (i // 173) % 8)
        tgt = alloc(0, 0, 8, slot=40)
        p(f"mkref {ref}"); p(f"write 0 {ref} 0 {tgt if rnd.random() < 0.5 else head}")
        p(f"addref 0 {ref} {rnd.choice(['soft', 'weak', 'phantom'])}")
        p("root 0 40 null")
    if i % 131 == 30:      # finalizable garbage
        f = alloc(0, 1, 8, slot=41)
        p(f"write 0 {f} 0 {head}"); p(f"addfin 0 {f}"); p("root 0 41 null")
    if i % 191 == 40:      # ephemeron: key on the live list, value otherwise unreachable
        v = alloc(0, 0, 40, slot=42)
        p(f"ephemeron {head} {v}"); p("root 0 42 null")
    if i % 157 == 60:
        p(f"pin {head}")
    if i % 400 == 399:
        p(f"gc 0 {rnd.randrange(2)}"); p("snap"); p("copies"); p("getfin"); p("enqueued")
    if i % 1000 == 999:    # drop the list: keeps the live set bounded
        p("root 0 60 null"); head = None; chain = []
p("root 0 61 null")
p("snap"); p("gc 0 1"); p("snap"); p("stats"); p("copies"); p("ephdump"); p("getallfin")
p("quit")
print("\n".join(out))
