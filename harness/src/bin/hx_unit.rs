//! hx_unit: line-protocol driver for pure functions and data structures of mmtk-core.
use std::io::{BufRead, Write};
use vvm::proto::*;

fn main() {
    install_quiet_panic_hook();
    let stdin = std::io::stdin();
    let stdout = std::io::stdout();
    let mut out = std::io::BufWriter::new(stdout.lock());
    for line in stdin.lock().lines() {
        let line = line.unwrap();
        let line = line.trim();
        if line.is_empty() || line.starts_with('#') {
            continue;
        }
        let toks: Vec<&str> = line.split_ascii_whitespace().collect();
        if toks[0] == "cfg" {
            // shared configuration lines: validated against what this binary really is
            use mmtk::vm::VMBinding;
            let ok = match toks[1] {
                "debug" => (toks[2] == "1") == cfg!(debug_assertions),
                "vm_align" => {
                    unum(toks[2]) == vvm::VerifVM::MIN_ALIGNMENT && unum(toks[3]) == vvm::VerifVM::MAX_ALIGNMENT
                }
                _ => vvm::comp::cfg(&toks[1..]),
            };
            writeln!(out, "{}", if ok { "ok" } else { "cfg-mismatch" }).unwrap();
            continue;
        }
        let res = guarded(|| vvm::comp::dispatch(&toks).unwrap_or_else(|| "bad-op".to_string()));
        writeln!(out, "{res}").unwrap();
    }
    out.flush().unwrap();
}
