//! hx_unit: line-protocol driver for pure functions and data structures of mmtk-core.
use std::io::{BufRead, Write};
use vvm::proto::*;

fn main() {
    install_quiet_panic_hook();
    let stdin = std::io::stdin();
    let stdout = std::io::stdout();
    let mut out = std::io::BufWriter::new(stdout.lock());
    for line in stdin.lock().lines() {
        let line = line.unwrap();
        let line = line.trim();
        if line.is_empty() || line.starts_with('#') {
            continue;
        }
        let toks: Vec<&str> = line.split_ascii_whitespace().collect();
        let res = guarded(|| vvm::comp::dispatch(&toks).unwrap_or_else(|| "bad-op".to_string()));
        writeln!(out, "{res}").unwrap();
    }
    out.flush().unwrap();
}
