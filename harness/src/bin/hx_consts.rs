//! hx_consts: the translator front end. Prints constants and tables of the linked mmtk-core as
//! JSON lines; `gen/emit_*.py` turn them into `lean/MmtkModel/Generated/*.lean` on every run.
//!
//!   hx_consts specs <Plan>     one process per plan (an MMTk instance is process-global)
//!   hx_consts vmplacements     every side/in-header placement of the VM specs (real side_first/side_after)
//!   hx_consts core             the core spec table and layout constants
//!   hx_consts stages           the WorkBucketStage table (order + predicates) and scheduler constants
use mmtk::util::metadata::side_metadata::SideMetadataSpec;
use mmtk::util::metadata::MetadataSpec;
use mmtk::vm::*;

fn spec_json(s: &SideMetadataSpec) -> String {
    format!(
        "{{\"name\":\"{}\",\"global\":{},\"offset\":{},\"log_bits\":{},\"log_region\":{}}}",
        s.name, s.is_global, s.offset, s.log_num_of_bits, s.log_bytes_in_region
    )
}

fn list_json(v: &[SideMetadataSpec]) -> String {
    format!("[{}]", v.iter().map(spec_json).collect::<Vec<_>>().join(","))
}

fn side(m: &MetadataSpec) -> SideMetadataSpec {
    *m.extract_side_spec()
}

/// All orders of the chosen subset of the four local VM specs that can live on the side
/// (the forwarding pointer cannot: 64 bits per 8 bytes exceeds the local budget).
fn local_placements() -> Vec<Vec<SideMetadataSpec>> {
    // kind: 0 = forwarding bits, 1 = mark bit, 2 = pinning bit, 3 = LOS mark/nursery
    fn first(kind: usize) -> MetadataSpec {
        match kind {
            0 => *VMLocalForwardingBitsSpec::side_first().as_spec(),
            1 => *VMLocalMarkBitSpec::side_first().as_spec(),
            2 => *VMLocalPinningBitSpec::side_first().as_spec(),
            _ => *VMLocalLOSMarkNurserySpec::side_first().as_spec(),
        }
    }
    fn after(kind: usize, prev: &MetadataSpec) -> MetadataSpec {
        match kind {
            0 => *VMLocalForwardingBitsSpec::side_after(prev).as_spec(),
            1 => *VMLocalMarkBitSpec::side_after(prev).as_spec(),
            2 => *VMLocalPinningBitSpec::side_after(prev).as_spec(),
            _ => *VMLocalLOSMarkNurserySpec::side_after(prev).as_spec(),
        }
    }
    fn rec(used: &mut Vec<usize>, chain: &mut Vec<MetadataSpec>, out: &mut Vec<Vec<SideMetadataSpec>>) {
        out.push(chain.iter().map(side).collect());
        for k in 0..4 {
            if used.contains(&k) {
                continue;
            }
            let next = match chain.last() {
                None => first(k),
                Some(p) => after(k, p),
            };
            used.push(k);
            chain.push(next);
            rec(used, chain, out);
            chain.pop();
            used.pop();
        }
    }
    let mut out = vec![];
    rec(&mut vec![], &mut vec![], &mut out);
    out
}

fn main() {
    let args: Vec<String> = std::env::args().collect();
    match args.get(1).map(|s| s.as_str()) {
        Some("specs") => {
            std::env::set_var("VERIF_PLAN", &args[2]);
            let mmtk = vvm::ensure_mmtk();
            let (reserved, gvm, lvm, gran) = mmtk::verif::meta::side_metadata_layout_consts();
            println!("{{\"plan\":\"{}\",\"reserved\":{},\"global_vm_base\":{},\"local_vm_base\":{},\"granularity\":{},\"spaces\":[{}]}}",
                args[2], reserved, gvm, lvm, gran,
                mmtk::verif::meta::plan_side_metadata_specs(mmtk).iter().map(|(n, g, l)| {
                    format!("{{\"space\":\"{}\",\"global\":{},\"local\":{}}}", n, list_json(g), list_json(l))
                }).collect::<Vec<_>>().join(","));
        }
        Some("vmplacements") => {
            let log_side = side(VMGlobalLogBitSpec::side_first().as_spec());
            for locals in local_placements() {
                for log_on_side in [false, true] {
                    let g = if log_on_side { vec![log_side] } else { vec![] };
                    println!("{{\"global\":{},\"local\":{}}}", list_json(&g), list_json(&locals));
                }
            }
        }
        Some("vmreserved") => {
            // placement index → the reserved size the REAL start-up code computes for it. The VM specs
            // are passed in the order `initialize_side_metadata` lists them: log bit, forwarding pointer
            // (never on the side here), forwarding bits, mark bit, pinning bit, LOS mark/nursery.
            let idx: usize = args[2].parse().unwrap();
            let log_side = side(VMGlobalLogBitSpec::side_first().as_spec());
            let mut i = 0;
            for locals in local_placements() {
                for log_on_side in [false, true] {
                    if i == idx {
                        let mut specs = vec![];
                        if log_on_side {
                            specs.push(log_side);
                        }
                        for name in ["VMLocalForwardingBitsSpec", "VMLocalMarkBitSpec", "VMLocalPinningBitSpec", "VMLocalLOSMarkNurserySpec"] {
                            if let Some(s) = locals.iter().find(|s| s.name == name) {
                                specs.push(*s);
                            }
                        }
                        println!("{{\"placement\":{},\"reserved\":{}}}", idx, mmtk::verif::meta::reserved_bytes_for_vm_specs(&specs));
                        return;
                    }
                    i += 1;
                }
            }
            eprintln!("no such placement");
            std::process::exit(2);
        }
        Some("core") => {
            println!("{{\"core\":{}}}", list_json(&mmtk::verif::meta::core_side_metadata_specs()));
        }
        Some("immix") => {
            let c = mmtk::verif::immix::consts();
            println!(
                "{{\"line_log_bytes\":{},\"block_log_bytes\":{},\"block_lines\":{},\"block_pages\":{},\"reset_mark_state\":{},\"max_mark_state\":{},\"mark_unallocated\":{},\"mark_unmarked\":{},\"mark_marked\":{},\"block_only\":{},\"mark_line_at_scan_time\":{},\"max_object_size\":{}}}",
                c.line_log_bytes, c.block_log_bytes, c.block_lines, c.block_pages, c.reset_mark_state, c.max_mark_state,
                c.mark_unallocated, c.mark_unmarked, c.mark_marked, c.block_only, c.mark_line_at_scan_time, c.max_object_size
            );
        }
        Some("stages") => {
            // the WorkBucketStage table of the linked crate (order, predicates) + scheduler constants
            let rows = mmtk::verif::sched::stages();
            println!(
                "{{\"local_cache\":{},\"stages\":[{}]}}",
                mmtk::verif::sched::locally_cached_work_packets::<vvm::VerifVM>(),
                rows.iter()
                    .map(|r| format!(
                        "{{\"index\":{},\"name\":\"{}\",\"is_stw\":{},\"is_sequentially_opened\":{},\"is_first_stw\":{},\"is_always_open\":{},\"is_open_by_default\":{},\"is_enabled_by_default\":{}}}",
                        r.index, r.name, r.is_stw, r.is_sequentially_opened, r.is_first_stw,
                        r.is_always_open, r.is_open_by_default, r.is_enabled_by_default
                    ))
                    .collect::<Vec<_>>()
                    .join(",")
            );
        }
        _ => {
            eprintln!("usage: hx_consts specs <Plan> | vmplacements | core | immix | stages");
            std::process::exit(2);
        }
    }
}
