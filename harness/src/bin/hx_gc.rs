//! hx_gc: a mutator-program interpreter over VerifVM (a real MMTk binding).
//! Protocol: see harness/HX_GC.md. One input line -> exactly one output line.
use mmtk::util::alloc::AllocationOptions;
use mmtk::util::{Address, ObjectReference};
use mmtk::verif::gc as vg;
use mmtk::vm::slot::SimpleSlot;
use mmtk::{memory_manager as mm, AllocationSemantics, MMTKBuilder, Mutator};
use std::collections::{BTreeMap, HashMap, HashSet};
use std::io::{BufRead, Write};
use std::sync::atomic::{AtomicBool, AtomicU64, AtomicUsize, Ordering};
use vvm::proto::unum;
use vvm::rt;
use vvm::vm::{obj, to_ref, VSlice, VerifVM, FLAG_REFOBJ, OBJECT_REF_OFFSET};

// ---------------------------------------------------------------------------------------------
// output, watchdog, panics
// ---------------------------------------------------------------------------------------------

fn emit(s: &str) {
    let out = std::io::stdout();
    let mut l = out.lock();
    let _ = writeln!(l, "{s}");
    let _ = l.flush();
}

/// ms since start at which the current op began (0 = idle)
static OP_STARTED_MS: AtomicU64 = AtomicU64::new(0);
static OP_SEQ: AtomicUsize = AtomicUsize::new(0);
static WATCHDOG_MS: AtomicU64 = AtomicU64::new(30_000);
static QUITTING: AtomicBool = AtomicBool::new(false);

thread_local! {
    static GUARDED: std::cell::Cell<bool> = const { std::cell::Cell::new(false) };
    static LAST_PANIC: std::cell::RefCell<String> = const { std::cell::RefCell::new(String::new()) };
}

fn now_ms(t0: std::time::Instant) -> u64 {
    t0.elapsed().as_millis() as u64 + 1
}

fn start_watchdog(t0: std::time::Instant) {
    std::thread::Builder::new()
        .name("watchdog".into())
        .spawn(move || loop {
            std::thread::sleep(std::time::Duration::from_millis(50));
            let st = OP_STARTED_MS.load(Ordering::SeqCst);
            if st != 0 && !QUITTING.load(Ordering::SeqCst) {
                let lim = WATCHDOG_MS.load(Ordering::SeqCst);
                if now_ms(t0).saturating_sub(st) > lim {
                    // the event log up to the hang (empty `ev` line if the log is off): lets the monitors
                    // replay the run up to the point where it got stuck
                    emit(&do_events());
                    emit(&format!("timeout # op {} exceeded {} ms", OP_SEQ.load(Ordering::SeqCst), lim));
                    std::process::exit(3);
                }
            }
        })
        .unwrap();
}

fn install_panic_hook() {
    std::panic::set_hook(Box::new(|info| {
        let msg = if let Some(s) = info.payload().downcast_ref::<&str>() {
            s.to_string()
        } else if let Some(s) = info.payload().downcast_ref::<String>() {
            s.clone()
        } else {
            "?".to_string()
        };
        let loc = info.location().map(|l| format!(" @{}:{}", l.file(), l.line())).unwrap_or_default();
        let mut short: String = msg.chars().take(400).collect();
        if short.len() < msg.len() {
            short.push_str("...");
        }
        let full = format!("{short}{loc}").replace('\n', " ");
        if GUARDED.with(|g| g.get()) {
            LAST_PANIC.with(|p| *p.borrow_mut() = full);
        } else {
            // a panic in a GC thread or in an unguarded op: the process state is unusable
            let th = std::thread::current();
            emit(&format!("fatal panic thread={} # {}", th.name().unwrap_or("?"), full));
            std::process::exit(4);
        }
    }));
}

/// Run a probe under catch_unwind: `panic:<kind>` on panic.
fn guarded<F: FnOnce() -> String>(f: F) -> String {
    GUARDED.with(|g| g.set(true));
    let r = std::panic::catch_unwind(std::panic::AssertUnwindSafe(f));
    GUARDED.with(|g| g.set(false));
    match r {
        Ok(s) => s,
        Err(_) => {
            let msg = LAST_PANIC.with(|p| p.borrow().clone());
            format!("{} # {}", vvm::proto::classify_panic(&msg), msg)
        }
    }
}

// ---------------------------------------------------------------------------------------------
// interpreter state
// ---------------------------------------------------------------------------------------------

struct Cfg {
    plan: String,
    heap: usize,
    workers: usize,
    stress: usize,
    yield_seed: u64,
    nofinalizer: bool,
    noreference: bool,
    extra: Vec<(String, String)>,
}

struct Interp {
    cfg: Cfg,
    inited: bool,
    /// id -> raw ref; valid for epoch `ids_epoch`
    ids: HashMap<u32, usize>,
    ids_epoch: usize,
    /// ids whose latest walk found two distinct objects
    dups: Vec<u32>,
}

fn sem_of(s: &str) -> Option<AllocationSemantics> {
    Some(match s {
        "Default" => AllocationSemantics::Default,
        "Immortal" => AllocationSemantics::Immortal,
        "Los" => AllocationSemantics::Los,
        "Code" => AllocationSemantics::Code,
        "ReadOnly" => AllocationSemantics::ReadOnly,
        "LargeCode" => AllocationSemantics::LargeCode,
        "NonMoving" => AllocationSemantics::NonMoving,
        _ => return None,
    })
}

fn space_letter(name: &str) -> char {
    match name {
        "immortal" => 'I',
        "los" => 'L',
        "nonmoving" => 'N',
        "code_space" | "large_code_space" | "code" => 'C',
        "ro_space" | "ro" => 'R',
        "vm_space" => 'V',
        "" | "empty" => '?',
        _ => 'D',
    }
}

/// Is `r` plausibly an object we can read? (mapped, in MMTk spaces, and with vo_bit: a valid object)
fn readable(r: usize) -> bool {
    if r == 0 || r % 8 != 0 || r < OBJECT_REF_OFFSET + 8 {
        return false;
    }
    let a = unsafe { Address::from_usize(r) };
    // (malloc mark-sweep objects live outside MMTk-mapped memory: ask the SFT as well)
    if !mm::is_mapped_address(a) && !mm::is_in_mmtk_spaces(to_ref(r)) {
        return false;
    }
    #[cfg(has_vo_bit)]
    {
        if mm::is_mmtk_object(a).is_none() {
            return false;
        }
    }
    true
}

struct Walk {
    /// ref -> (id, size, nfields, flags)
    objs: BTreeMap<usize, (u32, usize, usize, u16)>,
}

/// Walk real memory from the real roots.
fn walk() -> Walk {
    let mut objs = BTreeMap::new();
    let mut stack: Vec<usize> = Vec::new();
    let mut seen: HashSet<usize> = HashSet::new();
    let mut push = |r: usize, stack: &mut Vec<usize>| {
        if r != 0 && seen.insert(r) && readable(r) {
            stack.push(r);
        }
    };
    for m in 0..rt::MAX_MUT {
        for c in rt::ROOTS[m].iter() {
            push(c.load(Ordering::SeqCst), &mut stack);
        }
    }
    for c in rt::VM_ROOTS.iter() {
        push(c.load(Ordering::SeqCst), &mut stack);
    }
    while let Some(r) = stack.pop() {
        let nf = obj::nfields(r);
        let fl = obj::flags(r);
        objs.insert(r, (obj::id(r), obj::size(r), nf, fl));
        // sanity: do not follow fields of an object whose shape is corrupt
        if obj::size(r) < vvm::vm::HEADER_BYTES + 8 * nf {
            continue;
        }
        let first = if fl & FLAG_REFOBJ != 0 { 1 } else { 0 };
        for i in first..nf {
            push(obj::field(r, i), &mut stack);
        }
    }
    Walk { objs }
}

fn field_str(v: usize) -> String {
    if v == 0 {
        "-".to_string()
    } else if readable(v) {
        format!("{}", obj::id(v))
    } else {
        format!("!{v:x}")
    }
}

impl Interp {
    fn refresh_ids(&mut self) {
        let w = walk();
        self.ids.clear();
        self.dups.clear();
        for (r, (id, ..)) in w.objs.iter() {
            if let Some(prev) = self.ids.insert(*id, *r) {
                if prev != *r {
                    self.dups.push(*id);
                    // keep the lower address deterministic
                    self.ids.insert(*id, prev.min(*r));
                }
            }
        }
        self.ids_epoch = rt::gcs();
    }
    fn lookup(&mut self, id: u32) -> Option<usize> {
        if self.ids_epoch != rt::gcs() {
            self.refresh_ids();
        }
        self.ids.get(&id).copied()
    }
    fn id_or_null(&mut self, s: &str) -> Result<usize, String> {
        if s == "null" || s == "-" {
            Ok(0)
        } else {
            let id = unum(s) as u32;
            self.lookup(id).ok_or_else(|| "err unknown-id".to_string())
        }
    }
    fn addrexpr(&mut self, s: &str) -> Result<usize, String> {
        let (base_is_start, rest) = if let Some(r) = s.strip_prefix("s@") {
            (true, Some(r))
        } else if let Some(r) = s.strip_prefix('@') {
            (false, Some(r))
        } else {
            (false, None)
        };
        match rest {
            None => Ok(unum(s)),
            Some(rest) => {
                let (idpart, off): (&str, i64) = if let Some(p) = rest.find(['+', '-']) {
                    let n = unum(&rest[p + 1..]) as i64;
                    (&rest[..p], if &rest[p..p + 1] == "-" { -n } else { n })
                } else {
                    (rest, 0)
                };
                let r = self.lookup(unum(idpart) as u32).ok_or_else(|| "err unknown-id".to_string())?;
                let base = if base_is_start { obj::start(r) } else { r };
                Ok((base as i64).wrapping_add(off) as usize)
            }
        }
    }
}

fn mutator(m: usize) -> Result<&'static mut Mutator<VerifVM>, String> {
    if m >= rt::MAX_MUT {
        return Err("err bad-mutator".into());
    }
    let p = rt::mutator_ptr(m);
    if p.is_null() {
        Err("err unbound-mutator".into())
    } else {
        Ok(unsafe { &mut *p })
    }
}

fn do_init(it: &mut Interp) -> String {
    if it.inited {
        return "err already-inited".into();
    }
    let mut b = MMTKBuilder::new_no_env_vars();
    let mut set = |k: &str, v: &str| -> Result<(), String> {
        if b.set_option(k, v) {
            Ok(())
        } else {
            Err(format!("err bad-option {k}={v}"))
        }
    };
    let r = (|| {
        set("plan", &it.cfg.plan)?;
        // deterministic metadata addresses (same constant as the unit components)
        set("side_metadata_base_address", &vvm::SIDE_METADATA_BASE.to_string())?;
        set("gc_trigger", &format!("FixedHeapSize:{}", it.cfg.heap))?;
        set("threads", &format!("{}", it.cfg.workers))?;
        if it.cfg.stress != 0 {
            set("stress_factor", &format!("{}", it.cfg.stress))?;
        }
        set("no_finalizer", if it.cfg.nofinalizer { "true" } else { "false" })?;
        set("no_reference_types", if it.cfg.noreference { "true" } else { "false" })?;
        for (k, v) in &it.cfg.extra {
            set(k, v)?;
        }
        Ok::<(), String>(())
    })();
    if let Err(e) = r {
        return e;
    }
    let m = mm::mmtk_init::<VerifVM>(&b);
    rt::set_mmtk(m);
    vg::set_tid(0);
    vg::arm_yield(it.cfg.yield_seed);
    mm::initialize_collection(rt::mmtk(), rt::mut_tls(0).0);
    it.inited = true;
    "ok".into()
}

fn alloc_common(it: &mut Interp, t: &[&str], opts: Option<AllocationOptions>) -> Result<String, String> {
    let m = unum(t[1]);
    let id = unum(t[2]) as u32;
    let nfields = unum(t[3]);
    let payload = unum(t[4]);
    let align = unum(t[5]);
    let offset = unum(t[6]);
    let sem = sem_of(t[7]).ok_or("err bad-semantics")?;
    let slot = unum(t[8]);
    if slot >= rt::ROOT_SLOTS {
        return Err("err bad-slot".into());
    }
    if nfields > 0xffff {
        return Err("err bad-nfields".into());
    }
    let size = obj::size_for(nfields, payload);
    if size > u32::MAX as usize {
        return Err("err bad-size".into());
    }
    let mu = mutator(m)?;
    let oom0 = rt::OOMS.load(Ordering::SeqCst);
    let blk0 = rt::BLOCKS.load(Ordering::SeqCst);
    vg::ev(vg::Kind::VmAllocCall, m, size);
    let addr = match opts {
        None => mm::alloc(mu, size, align, offset, sem),
        Some(o) => mm::alloc_with_options(mu, size, align, offset, sem, o),
    };
    vg::ev(vg::Kind::VmAllocRet, m, addr.as_usize());
    let ooms = rt::OOMS.load(Ordering::SeqCst) - oom0;
    let blks = rt::BLOCKS.load(Ordering::SeqCst) - blk0;
    let mut line = if addr.is_zero() {
        "null".to_string()
    } else {
        let a = addr.as_usize();
        let mut zero = true;
        let mut k = 0;
        while k < size {
            if obj::rd::<u64>(a + k) != 0 {
                zero = false;
                break;
            }
            k += 8;
        }
        let r = obj::init(a, id, nfields, size, align, offset);
        let oref = to_ref(r);
        mm::post_alloc(mu, oref, size, sem);
        rt::ROOTS[m][slot].store(r, Ordering::SeqCst);
        if it.ids_epoch == rt::gcs() {
            it.ids.insert(id, r);
        }
        format!(
            "a={:#x} r={:#x} sz={} space={} zero={} inmmtk={} gcs={}",
            a,
            r,
            size,
            vg::acc::sft_name(addr),
            zero as u8,
            mm::is_in_mmtk_spaces(oref) as u8,
            rt::gcs()
        )
    };
    if ooms > 0 {
        line.push_str(&format!(" oom={ooms}"));
    }
    if opts.is_some() {
        line.push_str(&format!(" blocked={blks}"));
    }
    Ok(line)
}

fn do_snap(it: &mut Interp) -> String {
    let w = walk();
    let mut roots = Vec::new();
    for m in 0..rt::MAX_MUT {
        for (s, c) in rt::ROOTS[m].iter().enumerate() {
            let v = c.load(Ordering::SeqCst);
            if v != 0 {
                roots.push(format!("{m}.{s}:{}", field_str(v)));
            }
        }
    }
    let mut vmr = Vec::new();
    for (k, c) in rt::VM_ROOTS.iter().enumerate() {
        let v = c.load(Ordering::SeqCst);
        if v != 0 {
            vmr.push(format!("vm.{k}:{}", field_str(v)));
        }
    }
    let mut objs: Vec<(u32, usize, String)> = Vec::with_capacity(w.objs.len());
    for (r, (id, size, nf, _fl)) in w.objs.iter() {
        let a = unsafe { Address::from_usize(*r) };
        let letter = space_letter(vg::acc::sft_name(a));
        let shape_ok = *size >= vvm::vm::HEADER_BYTES + 8 * nf;
        let fields: Vec<String> = if shape_ok { (0..*nf).map(|i| field_str(obj::field(*r, i))).collect() } else { vec!["!shape".into()] };
        let hashok = shape_ok && obj::hash_ok(*r);
        objs.push((*id, *r, format!("{}:{:x}:{}:{}:{}:{}", id, r, size, letter, hashok as u8, fields.join("/"))));
    }
    objs.sort_by(|a, b| (a.0, a.1).cmp(&(b.0, b.1)));
    // refresh the id table as a side effect (same walk)
    it.ids.clear();
    it.dups.clear();
    for (id, r, _) in &objs {
        if it.ids.contains_key(id) {
            it.dups.push(*id);
        } else {
            it.ids.insert(*id, *r);
        }
    }
    it.ids_epoch = rt::gcs();
    let mut line = format!(
        "snap gcs={} roots={}|{} objs={}",
        rt::gcs(),
        roots.join(","),
        vmr.join(","),
        objs.iter().map(|o| o.2.as_str()).collect::<Vec<_>>().join(";")
    );
    if !it.dups.is_empty() {
        line.push_str(&format!(" # dup-ids {:?}", it.dups));
    }
    line
}

fn do_stats() -> String {
    let m = rt::mmtk();
    let sp: Vec<String> = vg::acc::spaces(m)
        .iter()
        .map(|s| format!("{}:{}:{}", s.name, s.reserved_pages, s.committed_pages))
        .collect();
    format!(
        "used={} total={} free={} gcs={} spaces={}",
        mm::used_bytes(m),
        mm::total_bytes(m),
        mm::free_bytes(m),
        rt::gcs(),
        sp.join(",")
    )
}

fn do_events() -> String {
    let evs = vg::drain();
    let mut s = String::with_capacity(evs.len() * 24 + 8);
    s.push_str("ev");
    for e in evs {
        s.push_str(&format!(" {}:{}:{}:{}:{}", e.seq, e.tid, e.kind, e.a, e.b));
    }
    if vg::dropped() > 0 {
        s.push_str(&format!(" # dropped {}", vg::dropped()));
    }
    s
}

// ---------------------------------------------------------------------------------------------
// `gc2` / `gcn`: several mutators request a collection at the same moment
// ---------------------------------------------------------------------------------------------

/// one requester of a `gc2` / `gcn` round: mutator `m`; after the rendezvous it spins `skew` iterations (running,
/// i.e. the world cannot be stopped meanwhile) or, with `safe`, sleeps `skew` microseconds inside a safe region
#[derive(Clone, Copy)]
struct ReqSpec {
    m: usize,
    skew: usize,
    safe: bool,
}

/// what one requester observed: return value, `block_for_gc` calls made for it during the call, `gcs` right before
/// the call and right after it returned
#[derive(Clone, Copy, Default)]
struct ReqOut {
    ret: bool,
    blocked: usize,
    before: usize,
    after: usize,
}

static GCN_READY: AtomicUsize = AtomicUsize::new(0);

/// The user-GC call of mutator `m` on the calling thread, bracketed by `VmMisc(4, m)` / `VmMisc(5, 2m + ret)`.
fn user_gc_call(m: usize, force: bool, exhaustive: bool) -> ReqOut {
    let mmtk = rt::mmtk();
    let b0 = rt::my_blocks();
    let before = rt::gcs();
    vg::ev(vg::Kind::VmMisc, 4, m);
    let ret = if !force && !exhaustive {
        mm::handle_user_collection_request(mmtk, rt::mut_tls(m))
    } else {
        mmtk.handle_user_collection_request(rt::mut_tls(m), force, exhaustive)
    };
    let after = rt::gcs();
    vg::ev(vg::Kind::VmMisc, 5, 2 * m + ret as usize);
    ReqOut { ret, blocked: rt::my_blocks() - b0, before, after }
}

/// spin rendezvous of `n` threads, then the requester's skew
fn rendezvous_and_skew(n: usize, sp: ReqSpec, jitter: usize, helper: bool) {
    GCN_READY.fetch_add(1, Ordering::SeqCst);
    while GCN_READY.load(Ordering::SeqCst) < n {
        std::hint::spin_loop();
    }
    if sp.safe {
        // "native code": the world may be stopped (and a whole collection may run) while this requester is away
        if helper {
            rt::helper_enter_safe_region();
        } else {
            rt::enter_safe_region();
        }
        std::thread::sleep(std::time::Duration::from_micros((sp.skew + jitter) as u64));
        if helper {
            rt::helper_leave_safe_region();
        } else {
            rt::leave_safe_region();
        }
    } else {
        for _ in 0..sp.skew + jitter {
            std::hint::spin_loop();
        }
    }
}

/// Would a user collection request be honoured right now? (`GCTrigger::handle_user_collection_request`'s own condition)
fn user_gc_enabled(force: bool) -> bool {
    use mmtk::vm::Collection;
    let mmtk = rt::mmtk();
    mmtk.get_plan().constraints().collects_garbage
        && (force || (!*mmtk.get_options().ignore_system_gc && vvm::vm::VCollection::is_collection_enabled()))
}

/// `specs[0]` is played by the driver thread, every other requester by a helper mutator thread (event-log tid
/// `10 + m`). All call `handle_user_collection_request` after a spin rendezvous + their skew.
fn do_gcn(yield_seed: u64, force: bool, exhaustive: bool, specs: &[ReqSpec], labels: &[String]) -> String {
    let n = specs.len();
    let en = user_gc_enabled(force);
    GCN_READY.store(0, Ordering::SeqCst);
    // seeded jitter (only with `cfg yield <seed>`): up to ~2000 extra spins / microseconds per requester
    let mut x = yield_seed ^ (OP_SEQ.load(Ordering::SeqCst) as u64 + 1).wrapping_mul(0x9E37_79B9_7F4A_7C15);
    let mut jit = |k: usize| -> usize {
        if yield_seed == 0 {
            return 0;
        }
        x ^= x << 13;
        x ^= x >> 7;
        x ^= x << 17;
        (x.wrapping_add(k as u64) % 2000) as usize
    };
    let jitters: Vec<usize> = (0..n).map(&mut jit).collect();
    let mut handles = Vec::new();
    for (k, sp) in specs.iter().enumerate().skip(1) {
        let sp = *sp;
        let j = jitters[k];
        // the driver is running here, so the world is not stopped: one more running mutator thread
        rt::helper_register();
        let h = std::thread::Builder::new()
            .name(format!("mut{}", sp.m))
            .spawn(move || {
                vg::set_tid(10 + sp.m);
                rt::helper_thread_init();
                rendezvous_and_skew(n, sp, j, true);
                let out = user_gc_call(sp.m, force, exhaustive);
                // the call has returned: from here on this mutator thread runs native code (it is not inside an MMTk
                // call, does not touch the heap and will not come back) — recorded as VmMisc(3, m)
                vg::ev(vg::Kind::VmMisc, 3, sp.m);
                rt::helper_enter_safe_region();
                out
            })
            .expect("spawn helper mutator thread");
        handles.push(h);
    }
    rendezvous_and_skew(n, specs[0], jitters[0], false);
    let mut outs = vec![user_gc_call(specs[0].m, force, exhaustive)];
    // the helpers may still be blocked for a collection that needs the driver parked
    rt::enter_safe_region();
    for h in handles {
        outs.push(h.join().unwrap_or_default());
    }
    rt::leave_safe_region();
    let mut line = format!("ok gcs={} en={}", rt::gcs(), en as u8);
    for (l, o) in labels.iter().zip(outs.iter()) {
        line.push_str(&format!(" {}={},{},{},{}", l, o.ret, o.blocked, o.before, o.after));
    }
    line
}

fn exec(it: &mut Interp, t: &[&str]) -> Result<String, String> {
    let need = |n: usize| -> Result<(), String> {
        if t.len() < n + 1 {
            Err("err bad-args".to_string())
        } else {
            Ok(())
        }
    };
    if t[0] == "cfg" {
        need(2)?;
        if it.inited && !matches!(t[1], "watchdog" | "yield" | "events" | "roots") {
            return Err("err cfg-after-init".into());
        }
        match t[1] {
            "plan" => it.cfg.plan = t[2].to_string(),
            "heap" => it.cfg.heap = unum(t[2]),
            "workers" => it.cfg.workers = unum(t[2]),
            "stress" => it.cfg.stress = unum(t[2]),
            "yield" => {
                it.cfg.yield_seed = unum(t[2]) as u64;
                if it.inited {
                    vg::arm_yield(it.cfg.yield_seed);
                }
            }
            "watchdog" => WATCHDOG_MS.store(unum(t[2]) as u64 * 1000, Ordering::SeqCst),
            "nofinalizer" => it.cfg.nofinalizer = t[2] == "1",
            "noreference" => it.cfg.noreference = t[2] == "1",
            "events" => vg::enable(t[2] == "1"),
            "roots" => rt::ROOTS_MODE.store(
                match t[2] {
                    "normal" => 0,
                    "pinning" => 1,
                    "tpinning" => 2,
                    _ => return Err("err bad-roots-mode".into()),
                },
                Ordering::SeqCst,
            ),
            "layout" => {
                // process-wide and only before the VM layout is first used (see comp::layout::cfg)
                if !vvm::comp::layout::cfg(&["layout", t[2]]) {
                    return Err("err bad-layout".into());
                }
            }
            "opt" => {
                need(3)?;
                it.cfg.extra.push((t[2].to_string(), t[3].to_string()))
            }
            _ => return Err("err bad-cfg".into()),
        }
        return Ok("ok".into());
    }
    if t[0] == "init" {
        return Ok(do_init(it));
    }
    if t[0] == "quit" {
        return Ok("ok".into());
    }
    if !it.inited {
        return Err("err not-inited".into());
    }
    let mmtk = rt::mmtk();
    match t[0] {
        "bind" => {
            need(1)?;
            let m = unum(t[1]);
            if m >= rt::MAX_MUT {
                return Err("err bad-mutator".into());
            }
            if !rt::mutator_ptr(m).is_null() {
                return Err("err already-bound".into());
            }
            let b = mm::bind_mutator(mmtk, rt::mut_tls(m));
            rt::set_mutator(m, Box::into_raw(b));
            Ok("ok".into())
        }
        "destroy" => {
            need(1)?;
            let m = unum(t[1]);
            let mu = mutator(m)?;
            mm::destroy_mutator(mu);
            rt::set_mutator(m, std::ptr::null_mut());
            for c in rt::ROOTS[m].iter() {
                c.store(0, Ordering::SeqCst);
            }
            // the Mutator box is leaked on purpose (GC threads may still hold a reference during
            // a concurrent phase); it is small.
            Ok("ok".into())
        }
        "alloc" => {
            need(8)?;
            alloc_common(it, t, None)
        }
        "rawalloc" => {
            // EXTENSION (C08): `rawalloc m size sem` = `memory_manager::alloc` WITHOUT object initialisation and WITHOUT
            // `post_alloc`: the state a conservative scanner sees between the two calls (memory handed out, no VO bit,
            // LOS: not on the treadmill). The region is never turned into an object (it is leaked).
            need(3)?;
            let m = unum(t[1]);
            let size = unum(t[2]);
            let sem = sem_of(t[3]).ok_or("err bad-semantics")?;
            if size == 0 || size > u32::MAX as usize {
                return Err("err bad-size".into());
            }
            let mu = mutator(m)?;
            let addr = mm::alloc(mu, size, 8, 0, sem);
            if addr.is_zero() {
                return Ok(format!("null gcs={}", rt::gcs()));
            }
            Ok(format!("raw={:#x} sz={} space={} gcs={}", addr.as_usize(), size, vg::acc::sft_name(addr), rt::gcs()))
        }
        "alloco" => {
            need(11)?;
            let o = AllocationOptions {
                allow_overcommit: t[9] == "1",
                at_safepoint: t[10] == "1",
                allow_oom_call: t[11] == "1",
            };
            alloc_common(it, t, Some(o))
        }
        "root" => {
            need(3)?;
            let m = unum(t[1]);
            let slot = unum(t[2]);
            if m >= rt::MAX_MUT || slot >= rt::ROOT_SLOTS {
                return Err("err bad-slot".into());
            }
            let r = it.id_or_null(t[3])?;
            rt::ROOTS[m][slot].store(r, Ordering::SeqCst);
            Ok("ok".into())
        }
        "vmroot" => {
            need(2)?;
            let k = unum(t[1]);
            if k >= rt::VM_ROOT_SLOTS {
                return Err("err bad-slot".into());
            }
            let r = it.id_or_null(t[2])?;
            rt::VM_ROOTS[k].store(r, Ordering::SeqCst);
            Ok("ok".into())
        }
        "write" => {
            need(4)?;
            let mu = mutator(unum(t[1]))?;
            let src = it.lookup(unum(t[2]) as u32).ok_or("err unknown-id")?;
            let f = unum(t[3]);
            if f >= obj::nfields(src) {
                return Err("err bad-field".into());
            }
            let dst = it.id_or_null(t[4])?;
            let slot = SimpleSlot::from_address(unsafe { Address::from_usize(obj::slot(src, f)) });
            let srcref = to_ref(src);
            if it.cfg.plan == "ConcurrentImmix" {
                // DEVIATION: SATBBarrier::object_reference_write_post is `unimplemented!()` in
                // mmtk-core (barriers.rs), so the subsuming barrier panics; use pre-barrier + store.
                let tgt = ObjectReference::from_raw_address(unsafe { Address::from_usize(dst) });
                mm::object_reference_write_pre(mu, srcref, slot, tgt);
                obj::wr::<usize>(obj::slot(src, f), dst);
            } else if dst != 0 {
                #[allow(deprecated)]
                mm::object_reference_write(mu, srcref, slot, to_ref(dst));
            } else {
                mm::object_reference_write_pre(mu, srcref, slot, None);
                obj::wr::<usize>(obj::slot(src, f), 0);
                mm::object_reference_write_post(mu, srcref, slot, None);
            }
            Ok("ok".into())
        }
        "copyrange" => {
            need(6)?;
            let mu = mutator(unum(t[1]))?;
            let src = it.lookup(unum(t[2]) as u32).ok_or("err unknown-id")?;
            let sf = unum(t[3]);
            let dst = it.lookup(unum(t[4]) as u32).ok_or("err unknown-id")?;
            let df = unum(t[5]);
            let n = unum(t[6]);
            if sf + n > obj::nfields(src) || df + n > obj::nfields(dst) {
                return Err("err bad-field".into());
            }
            let mk = |o: usize, f: usize| VSlice {
                start: unsafe { Address::from_usize(obj::slot(o, f)) },
                end: unsafe { Address::from_usize(obj::slot(o, f + n)) },
                object: o,
            };
            mm::memory_region_copy(mu, mk(src, sf), mk(dst, df));
            Ok("ok".into())
        }
        "gc" => {
            need(2)?;
            let m = unum(t[1]);
            mutator(m)?;
            vg::ev(vg::Kind::VmMisc, 4, m);
            let ret = mmtk.handle_user_collection_request(rt::mut_tls(m), true, t[2] == "1");
            vg::ev(vg::Kind::VmMisc, 5, 2 * m + ret as usize);
            Ok(format!("ok gcs={}", rt::gcs()))
        }
        // `gc2 mA mB exhaustive [force [skewA [skewB [safeA [safeB]]]]]`: the driver (as mutator mA) and a helper
        // mutator thread (as mB) call `handle_user_collection_request` at the same moment (see HX_GC.md)
        "gc2" => {
            need(3)?;
            let num = |i: usize, d: usize| if t.len() > i { unum(t[i]) } else { d };
            let (ma, mb) = (unum(t[1]), unum(t[2]));
            mutator(ma)?;
            mutator(mb)?;
            if ma == mb {
                return Err("err bad-args".into());
            }
            let specs = [
                ReqSpec { m: ma, skew: num(5, 0), safe: num(7, 0) == 1 },
                ReqSpec { m: mb, skew: num(6, 0), safe: num(8, 0) == 1 },
            ];
            Ok(do_gcn(it.cfg.yield_seed, num(4, 1) == 1, t[3] == "1", &specs, &["a".to_string(), "b".to_string()]))
        }
        // `gcn exhaustive force m[:skew[:safe]] m[:skew[:safe]] ...`: the generalisation; the first requester is the driver
        "gcn" => {
            need(3)?;
            let mut specs = Vec::new();
            for a in &t[3..] {
                let f: Vec<&str> = a.split(':').collect();
                let m = unum(f[0]);
                mutator(m)?;
                if specs.iter().any(|s: &ReqSpec| s.m == m) {
                    return Err("err bad-args".into());
                }
                specs.push(ReqSpec {
                    m,
                    skew: if f.len() > 1 { unum(f[1]) } else { 0 },
                    safe: f.len() > 2 && f[2] == "1",
                });
            }
            let labels: Vec<String> = specs.iter().map(|s| format!("r{}", s.m)).collect();
            Ok(do_gcn(it.cfg.yield_seed, t[2] == "1", t[1] == "1", &specs, &labels))
        }
        "snap" => Ok(do_snap(it)),
        "stats" => Ok(do_stats()),
        "events" => Ok(do_events()),
        "ptypes" => {
            let mut v = vg::packet_type_names();
            v.sort();
            Ok(format!(
                "ptypes {}",
                v.iter().map(|(h, n)| format!("{:x}={}", h, n.replace(' ', ""))).collect::<Vec<_>>().join(" ")
            ))
        }
        "kinds" => Ok(format!(
            "kinds {}",
            vg::KIND_NAMES.iter().map(|(k, n)| format!("{k}={n}")).collect::<Vec<_>>().join(" ")
        )),
        "copies" => Ok(format!(
            "copies {}",
            rt::copies_last_gc().iter().map(|(id, n)| format!("{id}:{n}")).collect::<Vec<_>>().join(",")
        )),
        "pin" | "unpin" | "ispinned" => {
            need(1)?;
            #[cfg(feature = "has_pinning")]
            {
                let r = it.lookup(unum(t[1]) as u32).ok_or("err unknown-id")?;
                let o = to_ref(r);
                let op = t[0].to_string();
                Ok(guarded(move || {
                    let b = match op.as_str() {
                        "pin" => mm::pin_object(o),
                        "unpin" => mm::unpin_object(o),
                        _ => mm::is_pinned(o),
                    };
                    format!("{b}")
                }))
            }
            #[cfg(not(feature = "has_pinning"))]
            {
                Ok("unsupported".into())
            }
        }
        "mkref" => {
            need(1)?;
            let r = it.lookup(unum(t[1]) as u32).ok_or("err unknown-id")?;
            if obj::nfields(r) == 0 {
                return Err("err no-field".into());
            }
            obj::set_flags(r, obj::flags(r) | FLAG_REFOBJ);
            Ok("ok".into())
        }
        "addref" => {
            need(3)?;
            mutator(unum(t[1]))?;
            let r = it.lookup(unum(t[2]) as u32).ok_or("err unknown-id")?;
            if obj::flags(r) & FLAG_REFOBJ == 0 {
                return Err("err not-a-reference-object".into());
            }
            let o = to_ref(r);
            match t[3] {
                "soft" => mm::add_soft_candidate(mmtk, o),
                "weak" => mm::add_weak_candidate(mmtk, o),
                "phantom" => mm::add_phantom_candidate(mmtk, o),
                _ => return Err("err bad-strength".into()),
            }
            Ok("ok".into())
        }
        "referent" => {
            need(1)?;
            let r = it.lookup(unum(t[1]) as u32).ok_or("err unknown-id")?;
            if obj::nfields(r) == 0 {
                return Err("err no-field".into());
            }
            Ok(field_str(obj::field(r, 0)))
        }
        "addfin" => {
            need(2)?;
            mutator(unum(t[1]))?;
            let r = it.lookup(unum(t[2]) as u32).ok_or("err unknown-id")?;
            mm::add_finalizer(mmtk, to_ref(r));
            Ok("ok".into())
        }
        "getfin" => Ok(match mm::get_finalized_object(mmtk) {
            Some(o) => {
                let r = o.to_raw_address().as_usize();
                // NOTE: the object is NOT rooted by this op; `finroot` variant stores it
                if t.len() >= 3 {
                    let m = unum(t[1]);
                    let s = unum(t[2]);
                    if m < rt::MAX_MUT && s < rt::ROOT_SLOTS {
                        rt::ROOTS[m][s].store(r, Ordering::SeqCst);
                        if it.ids_epoch == rt::gcs() {
                            it.ids.insert(obj::id(r), r);
                        }
                    }
                }
                format!("{}", obj::id(r))
            }
            None => "none".into(),
        }),
        "getallfin" => {
            let v = mm::get_all_finalizers(mmtk);
            let mut ids: Vec<u32> = v.iter().map(|o| obj::id(o.to_raw_address().as_usize())).collect();
            ids.sort_unstable();
            Ok(format!("fin {}", ids.iter().map(|i| i.to_string()).collect::<Vec<_>>().join(",")))
        }
        "ephemeron" => {
            need(2)?;
            let kid = unum(t[1]) as u32;
            let vid = unum(t[2]) as u32;
            let k = it.lookup(kid).ok_or("err unknown-id")?;
            let v = it.lookup(vid).ok_or("err unknown-id")?;
            rt::EPH.lock().unwrap().push(rt::Eph { key: k, val: v, key_id: kid, val_id: vid, traced_in: 0 });
            Ok("ok".into())
        }
        "ephdump" => {
            let tab = rt::EPH.lock().unwrap();
            let live: Vec<String> = tab.iter().map(|e| format!("{}>{}", field_str(e.key), field_str(e.val))).collect();
            let dr = rt::EPH_DROPPED.lock().unwrap();
            let dropped: Vec<String> = dr.iter().map(|(k, v)| format!("{k}>{v}")).collect();
            Ok(format!("eph live={} dropped={}", live.join(","), dropped.join(",")))
        }
        "enqueued" => {
            let v: Vec<u32> = std::mem::take(&mut *rt::ENQUEUED.lock().unwrap());
            Ok(format!("enq {}", v.iter().map(|i| i.to_string()).collect::<Vec<_>>().join(",")))
        }
        "enum" => {
            #[cfg(has_vo_bit)]
            {
                let mut v: Vec<(u32, usize)> = Vec::new();
                mmtk.enumerate_objects(|o: ObjectReference| {
                    let r = o.to_raw_address().as_usize();
                    v.push((obj::id(r), r));
                });
                v.sort_unstable();
                Ok(format!("enum {}", v.iter().map(|(i, r)| format!("{i}:{r:x}")).collect::<Vec<_>>().join(",")))
            }
            #[cfg(not(has_vo_bit))]
            {
                Ok("unsupported".into())
            }
        }
        "ismo" => {
            need(1)?;
            #[cfg(has_vo_bit)]
            {
                let a = it.addrexpr(t[1])?;
                Ok(guarded(move || match mm::is_mmtk_object(unsafe { Address::from_usize(a) }) {
                    Some(o) => format!("{}", obj::id(o.to_raw_address().as_usize())),
                    None => "none".into(),
                }))
            }
            #[cfg(not(has_vo_bit))]
            {
                Ok("unsupported".into())
            }
        }
        "findint" => {
            need(2)?;
            #[cfg(has_vo_bit)]
            {
                let a = it.addrexpr(t[1])?;
                let n = unum(t[2]);
                Ok(guarded(move || match mm::find_object_from_internal_pointer(unsafe { Address::from_usize(a) }, n) {
                    Some(o) => format!("{}", obj::id(o.to_raw_address().as_usize())),
                    None => "none".into(),
                }))
            }
            #[cfg(not(has_vo_bit))]
            {
                Ok("unsupported".into())
            }
        }
        "inspaces" => {
            need(1)?;
            let a = it.addrexpr(t[1])?;
            Ok(guarded(move || {
                if a == 0 || a % 8 != 0 {
                    return "false # not-a-ref".into();
                }
                format!("{}", mm::is_in_mmtk_spaces(to_ref(a)))
            }))
        }
        "ismapped" => {
            need(1)?;
            let a = it.addrexpr(t[1])?;
            Ok(guarded(move || format!("{}", mm::is_mapped_address(unsafe { Address::from_usize(a) }))))
        }
        "sftname" => {
            need(1)?;
            let a = it.addrexpr(t[1])?;
            Ok(guarded(move || {
                let n = vg::acc::sft_name(unsafe { Address::from_usize(a) });
                if n.is_empty() {
                    "-".into()
                } else {
                    n.to_string()
                }
            }))
        }
        "desc" => {
            need(1)?;
            let a = it.addrexpr(t[1])?;
            Ok(guarded(move || format!("{:#x}", vg::acc::descriptor_for_address(unsafe { Address::from_usize(a) }))))
        }
        "addr" => {
            need(1)?;
            let a = it.addrexpr(t[1])?;
            Ok(format!("{a:#x}"))
        }
        // a reader of the forwarding state (SFT::get_forwarded_object) at every point of the winner's critical section, on a real
        // object of a real space: before the CAS, in the BEING_FORWARDED window, after the pointer store (bits still 10),
        // after the winner released the bits (declined to move).  `won=false` = the object was already (being) forwarded.
        "fwdwin" => {
            need(1)?;
            let r = it.lookup(unum(t[1]) as u32).ok_or("err unknown-id")?;
            let o = to_ref(r);
            Ok(guarded(move || {
                use mmtk::verif::conc::fwd as vc;
                let f = |x: Option<ObjectReference>| x.map_or("-".to_string(), |y| format!("{:#x}", y.to_raw_address().as_usize()));
                let q0 = f(o.get_forwarded_object());
                let bits = vc::attempt_to_forward::<VerifVM>(o);
                if vc::state_is_forwarded_or_being_forwarded(bits) {
                    return format!("fwdwin won=false bits={bits} q0={q0}");
                }
                let q1 = f(o.get_forwarded_object());
                vc::write_forwarding_pointer::<VerifVM>(o, o);
                let q2 = f(o.get_forwarded_object());
                vc::clear_forwarding_bits::<VerifVM>(o);
                let q3 = f(o.get_forwarded_object());
                format!("fwdwin won=true self={:#x} q0={q0} q1={q1} q2={q2} q3={q3}", o.to_raw_address().as_usize())
            }))
        }
        "islive" => {
            need(1)?;
            let r = it.lookup(unum(t[1]) as u32).ok_or("err unknown-id")?;
            Ok(guarded(move || format!("{}", mm::is_live_object(to_ref(r)))))
        }
        "unlogged" => {
            need(1)?;
            let r = it.lookup(unum(t[1]) as u32).ok_or("err unknown-id")?;
            use mmtk::vm::ObjectModel;
            Ok(guarded(move || {
                format!(
                    "{}",
                    vvm::vm::VObjectModel::GLOBAL_LOG_BIT_SPEC.is_unlogged::<VerifVM>(to_ref(r), std::sync::atomic::Ordering::SeqCst)
                )
            }))
        }
        "spaces" => {
            let sp: Vec<String> = vg::acc::spaces(mmtk)
                .iter()
                .map(|s| {
                    format!(
                        "{}:{:x}:{:x}:{}:{:x}:{}",
                        s.name,
                        s.start.as_usize(),
                        s.extent,
                        s.contiguous as u8,
                        s.descriptor,
                        s.index
                    )
                })
                .collect();
            Ok(format!("spaces {}", sp.join(",")))
        }
        "regions" => {
            // EXTENSION: per space `name:descriptorhex:head:start+chunks/start+chunks…` — the region list of
            // every discontiguous space walked from its page resource's own head through VM_MAP (≤ 4096
            // regions; `-` = empty list; contiguous spaces print `name:descriptorhex:contig`)
            let v: Vec<String> = mmtk::verif::layout::regions::space_regions(mmtk, 4096)
                .iter()
                .map(|s| {
                    if s.contiguous {
                        return format!("{}:{:x}:contig", s.name, s.descriptor);
                    }
                    let rs: Vec<String> = s.regions.iter().map(|(a, n)| format!("{:x}+{}", a.as_usize(), n)).collect();
                    format!("{}:{:x}:{:x}:{}", s.name, s.descriptor, s.head.as_usize(), if rs.is_empty() { "-".to_string() } else { rs.join("/") })
                })
                .collect();
            Ok(format!("regions avail={} {}", mmtk::verif::layout::regions::available_chunks(), v.join(" ")))
        }
        "allocmap" => {
            need(1)?;
            let mu = mutator(unum(t[1]))?;
            let v: Vec<String> = vg::acc::allocator_mapping(mu)
                .iter()
                .map(|(sem, sel, sp)| format!("{:?}={}@{}", sem, sel.replace(' ', ""), sp))
                .collect();
            Ok(format!("allocmap {}", v.join(" ")))
        }
        "immix" => {
            let d = vg::acc::immix_dump(mmtk);
            if d.is_empty() {
                return Ok("unsupported".into());
            }
            let mut parts = Vec::new();
            for ix in d {
                let blocks: Vec<String> = ix
                    .blocks
                    .iter()
                    .map(|b| {
                        let hex: String = b.lines.iter().map(|x| format!("{x:02x}")).collect();
                        format!("{:x}:{}:{}", b.start.as_usize(), b.state, hex)
                    })
                    .collect();
                parts.push(format!(
                    "space={} cur={} unavail={} blocks={}",
                    ix.name,
                    ix.line_mark_state,
                    ix.line_unavail_state,
                    blocks.join(";")
                ));
            }
            Ok(format!("immix {}", parts.join(" ")))
        }
        "holes" => {
            need(2)?;
            let b = unum(t[1]);
            let l = unum(t[2]);
            Ok(guarded(move || match vg::acc::immix_holes(mmtk, unsafe { Address::from_usize(b) }, l) {
                Ok(Some((s, e))) => format!("{s}-{e}"),
                Ok(None) => "none".into(),
                Err(e) => format!("err {e}"),
            }))
        }
        "fork" => {
            mmtk.prepare_to_fork();
            // the driver is not a GC thread; wait for every GC thread to exit
            rt::enter_safe_region();
            let n = rt::join_gc_threads();
            rt::leave_safe_region();
            mmtk.after_fork(rt::mut_tls(0).0);
            Ok(format!("ok # joined {n}"))
        }
        // `forkgc m exhaustive [point]` / `shutdowngc m exhaustive [point]`: a StopForFork / Shutdown request
        // made WHILE a collection is in progress (see HX_GC.md); `shutdown`: the request between collections.
        "forkgc" | "shutdowngc" => {
            need(2)?;
            let m = unum(t[1]);
            mutator(m)?;
            let shutdown = t[0] == "shutdowngc";
            let point = if t.len() > 3 { unum(t[3]) } else { rt::PT_STOP };
            if point >= rt::PT_COUNT {
                return Err("err bad-args".into());
            }
            rt::arm_stop_request(point, shutdown);
            mmtk.handle_user_collection_request(rt::mut_tls(m), true, t[2] == "1");
            // the pause is over; if this GC never reached the point (no GC at all, or a plan whose first pause
            // does not get there) the request is made now, by the driver
            let at = match rt::disarm_stop_request() {
                Some(p) => p.to_string(),
                None => {
                    if shutdown {
                        mm::mmtk_shutdown(mmtk);
                    } else {
                        mmtk.prepare_to_fork();
                    }
                    "after".to_string()
                }
            };
            // every GC thread must exit (the watchdog turns a hang into `timeout` + exit code 3)
            rt::enter_safe_region();
            rt::join_stop_helper();
            let n = rt::join_gc_threads();
            rt::leave_safe_region();
            if !shutdown {
                mmtk.after_fork(rt::mut_tls(0).0);
            }
            Ok(format!("ok gcs={} # joined {n} at={at}", rt::gcs()))
        }
        "shutdown" => {
            mm::mmtk_shutdown(mmtk);
            rt::enter_safe_region();
            let n = rt::join_gc_threads();
            rt::leave_safe_region();
            Ok(format!("ok # joined {n}"))
        }
        "flush" => {
            need(1)?;
            let mu = mutator(unum(t[1]))?;
            mm::flush_mutator(mu);
            Ok("ok".into())
        }
        "poll" => {
            need(1)?;
            let m = unum(t[1]);
            mutator(m)?;
            mm::gc_poll(mmtk, rt::mut_tls(m));
            Ok(format!("ok gcs={}", rt::gcs()))
        }
        "sleep" => {
            need(1)?;
            // lets concurrent GC phases make progress; the driver is at a safepoint meanwhile
            rt::enter_safe_region();
            std::thread::sleep(std::time::Duration::from_millis(unum(t[1]) as u64));
            rt::leave_safe_region();
            Ok(format!("ok gcs={}", rt::gcs()))
        }
        "yieldhits" => Ok(format!("{}", vg::yield_hits())),
        "constraints" => {
            let c = mmtk.get_plan().constraints();
            Ok(format!(
                "constraints collects={} moves={} maxnonlos={} maxnonloscopy={} logbit={} barrier={:?} fwdafterliveness={} generational={} concurrent={} refoff={} hdrspecs={} vobit={} pinning={}",
                c.collects_garbage as u8,
                c.moves_objects as u8,
                c.max_non_los_default_alloc_bytes,
                c.max_non_los_copy_bytes,
                c.needs_log_bit as u8,
                c.barrier,
                c.needs_forward_after_liveness as u8,
                c.generational as u8,
                c.needs_concurrent_workers as u8,
                OBJECT_REF_OFFSET,
                cfg!(feature = "hdr_specs") as u8,
                cfg!(has_vo_bit) as u8,
                cfg!(feature = "has_pinning") as u8
            ))
        }
        _ => Err("bad-op".into()),
    }
}

fn main() {
    install_panic_hook();
    vg::set_tid(0);
    let t0 = std::time::Instant::now();
    start_watchdog(t0);
    let mut it = Interp {
        cfg: Cfg {
            plan: "SemiSpace".into(),
            heap: 64 << 20,
            workers: 1,
            stress: 0,
            yield_seed: 0,
            nofinalizer: false,
            noreference: false,
            extra: vec![],
        },
        inited: false,
        ids: HashMap::new(),
        ids_epoch: 0,
        dups: vec![],
    };
    let stdin = std::io::stdin();
    let mut input = stdin.lock();
    let mut line = String::new();
    loop {
        line.clear();
        // op boundary: the driver is at a safepoint while it waits for input
        rt::enter_safe_region();
        let n = input.read_line(&mut line).unwrap_or(0);
        rt::leave_safe_region();
        if n == 0 {
            break;
        }
        let l = line.trim();
        if l.is_empty() || l.starts_with('#') {
            continue;
        }
        let toks: Vec<&str> = l.split_ascii_whitespace().collect();
        let seq = OP_SEQ.fetch_add(1, Ordering::SeqCst) + 1;
        OP_STARTED_MS.store(now_ms(t0), Ordering::SeqCst);
        vg::ev(vg::Kind::OpBegin, seq, 0);
        let res = guarded(|| match exec(&mut it, &toks) {
            Ok(s) => s,
            Err(e) => e,
        });
        vg::ev(vg::Kind::OpEnd, seq, 0);
        OP_STARTED_MS.store(0, Ordering::SeqCst);
        emit(&res);
        if toks[0] == "quit" {
            QUITTING.store(true, Ordering::SeqCst);
            std::process::exit(0);
        }
    }
    QUITTING.store(true, Ordering::SeqCst);
    std::process::exit(0);
}
