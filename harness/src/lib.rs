//! vvm: VerifVM (a real MMTk binding used only by the verification harness) and the
//! line-protocol components that drive real mmtk-core code.
pub mod vm;
pub mod rt;
pub mod comp;
pub mod proto;

pub use vm::VerifVM;
