//! vvm: VerifVM (a real MMTk binding used only by the verification harness) and the
//! line-protocol components that drive real mmtk-core code.
pub mod vm;
pub mod rt;
pub mod comp;
pub mod proto;

pub use vm::VerifVM;

use std::sync::OnceLock;

/// Fixed side-metadata base address used by the unit components (48 TiB; far from heap and stack).
pub const SIDE_METADATA_BASE: usize = 0x3000_0000_0000;

static MMTK_INSTANCE: OnceLock<Box<mmtk::MMTK<VerifVM>>> = OnceLock::new();

/// Some unit components need the global state an MMTk instance sets up (side-metadata base
/// address, mmapper, VM map). Create one NoGC instance lazily; no GC thread is ever started.
pub fn ensure_mmtk() -> &'static mmtk::MMTK<VerifVM> {
    MMTK_INSTANCE.get_or_init(|| {
        let mut b = mmtk::MMTKBuilder::new_no_env_vars();
        let plan = std::env::var("VERIF_PLAN").unwrap_or_else(|_| "NoGC".to_string());
        assert!(b.set_option("plan", &plan));
        assert!(b.set_option("gc_trigger", "FixedHeapSize:67108864"));
        // a fixed side-metadata base makes every metadata address deterministic (the models use it)
        assert!(b.set_option("side_metadata_base_address", &SIDE_METADATA_BASE.to_string()));
        mmtk::memory_manager::mmtk_init::<VerifVM>(&b)
    })
}
