//! C36 (LOS stream): `los <op> …` drives the real `LargeObjectSpace<VerifVM>` of the process's MMTk
//! instance exactly as a collection would — `prepare(full)`, `trace_object(queue, obj)` with a
//! Vec-backed queue, `release(full)` — single-threaded, without ever running a GC.  Objects are
//! real large objects allocated through a bound mutator (`alloc(.., Los)` + `post_alloc`); the
//! pages of swept objects are really released, so a swept object is never touched again (the
//! component keeps a table of ids and answers `dead` / `unknown` itself).
//!
//!   los reset <Plan>     instance of <Plan> (created on first use; `bad-plan` if the process already
//!                        runs another plan); returns the real LOS to the empty state with
//!                        mark_state = 0 by sweeping everything (one or two full GCs without traces)
//!   los alloc <id>       fresh large object <id> (1..3 pages); `dup` if the id was used in this
//!                        case; `refused` during a GC unless allocation as live is on
//!   los aslive <0|1>     `Space::set_allocate_as_live` (what ConcurrentImmix does while marking)
//!   los prepare <full>   `LargeObjectSpace::prepare(full)`; `refused` during a GC
//!   los trace <id>       `trace_object`: `enq` / `skip`; `unknown`, `dead`, `refused` (no GC)
//!   los release <full>   `LargeObjectSpace::release(full)`: `swept=[ids]` = the pages handed to
//!                        `release_pages` (event log of the sweep closure, with multiplicity);
//!                        `refused` unless a GC with the same flag is running
//!
//! Every answer is `<result> | ms=<mark_state> ng=<in_nursery_gc> F=[..] T=[..] C=[..] A=[..] bits=[id:b,..]`
//! (sorted ids of from_space, to_space, collect_nursery, alloc_nursery; raw mark/nursery bits of
//! every object that was not swept).
use crate::proto::*;
use crate::vm::{obj, to_ref};
use crate::VerifVM;
use mmtk::util::{Address, ObjectReference, OpaquePointer, VMMutatorThread, VMThread};
use mmtk::verif::gc as evlog;
use mmtk::verif::los as hook;
use mmtk::{AllocationSemantics, Mutator, MMTK};
use std::cell::RefCell;
use std::collections::{BTreeMap, HashMap};

pub const PLANS: [&str; 6] = ["GenCopy", "GenImmix", "StickyImmix", "SemiSpace", "Immix", "MarkSweep"];

struct Entry {
    obj: ObjectReference,
    live: bool,
}

#[derive(Default)]
struct St {
    started: bool,
    gc: Option<bool>,
    aslive: bool,
    table: BTreeMap<usize, Entry>,
    by_addr: HashMap<usize, usize>,
    by_page: HashMap<usize, usize>,
}

thread_local! {
    static ST: RefCell<St> = RefCell::new(St::default());
    static MUTATOR: RefCell<Option<Box<Mutator<VerifVM>>>> = const { RefCell::new(None) };
}

fn instance(plan: &str) -> Option<&'static MMTK<VerifVM>> {
    if !PLANS.contains(&plan) {
        return None;
    }
    if std::env::var_os("VERIF_PLAN").is_none() {
        std::env::set_var("VERIF_PLAN", plan);
    }
    let m = crate::ensure_mmtk();
    if format!("{:?}", *m.get_options().plan) != plan || !hook::has_los(m) {
        return None;
    }
    Some(m)
}

fn mmtk() -> &'static MMTK<VerifVM> {
    crate::ensure_mmtk()
}

fn show_ids(mut ids: Vec<String>) -> String {
    ids.sort_by_key(|s| s.parse::<usize>().unwrap_or(usize::MAX));
    format!("[{}]", ids.join(","))
}

fn state(st: &St) -> String {
    let m = mmtk();
    let (ms, ng) = hook::state(m).unwrap();
    let sets = hook::sets(m).unwrap();
    let name = |o: &ObjectReference| match st.by_addr.get(&o.to_raw_address().as_usize()) {
        Some(id) => id.to_string(),
        None => format!("?{:x}", o.to_raw_address().as_usize()),
    };
    let [f, t, c, a] = sets.map(|v| show_ids(v.iter().map(name).collect()));
    let bits: Vec<String> = st
        .table
        .iter()
        .filter(|(_, e)| e.live)
        .map(|(id, e)| format!("{}:{}", id, hook::bits(m, e.obj).unwrap()))
        .collect();
    format!("ms={} ng={} F={} T={} C={} A={} bits=[{}]", ms, ng as u8, f, t, c, a, bits.join(","))
}

/// `release(full)` with the event log on: the ids whose pages the sweep closure released.
fn do_release(st: &mut St, full: bool) -> Vec<String> {
    let m = mmtk();
    evlog::drain();
    evlog::enable(true);
    let r = std::panic::catch_unwind(std::panic::AssertUnwindSafe(|| unsafe { hook::release(m, full) }));
    evlog::enable(false);
    let evs = evlog::drain();
    let mut swept = vec![];
    for e in evs.iter().filter(|e| e.kind == evlog::Kind::PrReleasePages as u32) {
        match st.by_page.get(&e.b) {
            Some(id) => {
                swept.push(id.to_string());
                if let Some(en) = st.table.get_mut(id) {
                    en.live = false;
                }
            }
            None => swept.push(format!("?{:x}", e.b)),
        }
    }
    if let Err(p) = r {
        std::panic::resume_unwind(p);
    }
    swept
}

fn reset(st: &mut St) {
    let m = mmtk();
    if let Some(f) = st.gc.take() {
        do_release(st, f);
    }
    hook::set_allocate_as_live(m, false);
    for _ in 0..2 {
        let (ms, _) = hook::state(m).unwrap();
        let empty = hook::sets(m).unwrap().iter().all(|s| s.is_empty());
        if empty && ms == 0 {
            break;
        }
        unsafe { hook::prepare(m, true) };
        do_release(st, true);
    }
    // a fresh LargeObjectSpace has in_nursery_gc = false; so has one whose last GC was a full one
    if hook::state(m).unwrap().1 {
        unsafe { hook::prepare(m, true) };
        do_release(st, true);
        unsafe { hook::prepare(m, true) };
        do_release(st, true);
    }
    *st = St { started: true, ..St::default() };
}

fn alloc(st: &mut St, id: usize) {
    let m = mmtk();
    MUTATOR.with(|cell| {
        let mut g = cell.borrow_mut();
        if g.is_none() {
            let tls = VMMutatorThread(VMThread(OpaquePointer::from_address(unsafe { Address::from_usize(0x1000) })));
            *g = Some(mmtk::memory_manager::bind_mutator(m, tls));
        }
        let mutator = g.as_mut().unwrap();
        let size = 64 + (id % 3) * 4096;
        let a = mmtk::memory_manager::alloc(mutator, size, 8, 0, AllocationSemantics::Los);
        assert!(!a.is_zero(), "los: allocation failed");
        let r = obj::init(a.as_usize(), id as u32, 0, size, 8, 0);
        let o = to_ref(r);
        mmtk::memory_manager::post_alloc(mutator, o, size, AllocationSemantics::Los);
        let page = a.as_usize() & !4095;
        st.by_addr.insert(r, id);
        st.by_page.insert(page, id);
        st.table.insert(id, Entry { obj: o, live: true });
    })
}

pub fn run(args: &[&str]) -> String {
    ST.with(|cell| {
        let mut st = cell.borrow_mut();
        let st = &mut *st;
        if args.is_empty() {
            return "bad-op".to_string();
        }
        if args[0] == "reset" {
            if args.len() != 2 || instance(args[1]).is_none() {
                return "bad-plan".to_string();
            }
            reset(st);
            return format!("ok | {}", state(st));
        }
        if !st.started {
            return "bad-op no-reset".to_string();
        }
        let m = mmtk();
        let arg = |i: usize| -> Option<usize> { args.get(i).and_then(|s| s.parse::<usize>().ok()) };
        if args.len() != 2 || arg(1).is_none() {
            return "bad-op".to_string();
        }
        let n = arg(1).unwrap();
        let res: String = match args[0] {
            "alloc" => {
                if st.table.contains_key(&n) {
                    "dup".into()
                } else if st.gc.is_some() && !st.aslive {
                    "refused".into()
                } else {
                    alloc(st, n);
                    "ok".into()
                }
            }
            "aslive" => {
                // (the LOS of every plan is created with unlog_allocated_object = false, so the
                // debug assertion of initialize_object_metadata about allocation as live cannot fire)
                debug_assert!(!hook::unlog_allocated_object(m).unwrap());
                hook::set_allocate_as_live(m, n != 0);
                st.aslive = n != 0;
                "ok".into()
            }
            "prepare" => {
                if st.gc.is_some() {
                    "refused".into()
                } else {
                    unsafe { hook::prepare(m, n != 0) };
                    st.gc = Some(n != 0);
                    "ok".into()
                }
            }
            "trace" => match st.table.get(&n) {
                None => "unknown".into(),
                Some(e) if !e.live => "dead".into(),
                Some(_) if st.gc.is_none() => "refused".into(),
                Some(e) => {
                    let (ret, enq) = hook::trace_object(m, e.obj).unwrap();
                    if ret != e.obj {
                        "ret-mismatch".into()
                    } else if enq.is_empty() {
                        "skip".into()
                    } else if enq.len() == 1 && enq[0] == e.obj {
                        "enq".into()
                    } else {
                        format!("enq-other:{}", enq.len())
                    }
                }
            },
            "release" => {
                if st.gc != Some(n != 0) {
                    "refused".into()
                } else {
                    let swept = do_release(st, n != 0);
                    st.gc = None;
                    format!("swept={}", show_ids(swept))
                }
            }
            _ => return "bad-op".to_string(),
        };
        format!("{res} | {}", state(st))
    })
}
