//! package `los` (see CONVENTIONS.md): components that drive the REAL `LargeObjectSpace` of a
//! real `MMTK<VerifVM>` instance by hand (no GC is ever run).
pub mod los;

pub fn dispatch(tokens: &[&str]) -> Option<String> {
    let (c, args) = tokens.split_first()?;
    Some(match *c {
        "los" => los::run(args),
        _ => return None,
    })
}
