//! package `layout` (see CONVENTIONS.md): register components here.
//! C32 desc, C30 csm, C29 map32, C31 sft
pub mod csm;
pub mod desc;
pub mod dpr;
pub mod map32;
pub mod resolve;

use mmtk::util::heap::vm_layout::VMLayout;
use mmtk::util::Address;
use std::sync::Mutex;

/// The layout this process was configured with by a `cfg layout …` line (None = untouched default).
static LAYOUT_CFG: Mutex<Option<String>> = Mutex::new(None);

fn addr(x: usize) -> Address {
    unsafe { Address::from_usize(x) }
}

/// The 32-bit-style layout installed by `cfg layout 32` (same constants as `VMLayout::new_32bit()`;
/// the Lean side has the same record in `Mmtk.Layout.layout32`).
pub fn layout32() -> VMLayout {
    VMLayout {
        log_address_space: 32,
        heap_start: addr(0x8000_0000),
        heap_end: addr(0xd000_0000),
        log_space_extent: 31,
        force_use_contiguous_spaces: false,
    }
}

/// The compressed-pointer style layout installed by `cfg layout compressed` (the constants of mmtk-core's
/// own `mock_test_vm_layout_compressed_pointer`: 35-bit address space, heap 0x4000_0000..4 GB, non-contiguous
/// spaces => VM map = `Map32`, SFT map = `SFTSparseChunkMap`).
pub fn layout_compressed() -> VMLayout {
    VMLayout {
        log_address_space: 35,
        heap_start: addr(0x4000_0000),
        heap_end: addr(4usize << 30),
        log_space_extent: 31,
        force_use_contiguous_spaces: false,
    }
}

/// `cfg` lines of this package. `cfg layout 32|64|compressed` must be the first thing that touches the VM
/// layout in this process: the layout is process-global and (in debug builds) may only be set before
/// its first use. Repeating the same line is a no-op; asking for a different layout is a mismatch.
pub fn cfg(tokens: &[&str]) -> bool {
    match tokens {
        ["layout", which] => {
            let mut cur = LAYOUT_CFG.lock().unwrap();
            if let Some(c) = cur.as_ref() {
                return c == which;
            }
            match *which {
                "32" => {
                    mmtk::MMTKBuilder::new_no_env_vars().set_vm_layout(layout32());
                }
                "compressed" => {
                    mmtk::MMTKBuilder::new_no_env_vars().set_vm_layout(layout_compressed());
                }
                "64" => {}
                _ => return false,
            }
            *cur = Some(which.to_string());
            // validate what the process really uses now
            let l = mmtk::util::heap::vm_layout::vm_layout();
            match *which {
                "32" => !l.force_use_contiguous_spaces && l.heap_end == addr(0xd000_0000),
                "compressed" => !l.force_use_contiguous_spaces && l.heap_start == addr(0x4000_0000) && l.heap_end == addr(4usize << 30),
                _ => l.force_use_contiguous_spaces && l.heap_end == addr(0x2200_0000_0000) && l.log_space_extent == 41,
            }
        }
        _ => true,
    }
}

pub fn dispatch(tokens: &[&str]) -> Option<String> {
    let (c, args) = tokens.split_first()?;
    Some(match *c {
        "desc" => desc::run(args),
        "csm" => csm::run(args),
        "map32" => map32::run(args),
        "dpr" => dpr::run(args),
        "resolve" => resolve::run(args),
        _ => return None,
    })
}
