//! C29: a private `Map32` finalised over a small discontiguous range (chunk indices FIRST..=LAST).
//! Runs under the default (64-bit) layout so that the global SFT map that `free_contiguous_chunks`
//! clears is the 32-entry space map. Regions are named by their first chunk index.
//!
//!   map32 new                        fresh Map32 + finalize_static_space_map(FIRST, LAST)
//!   map32 alloc <raw desc> <chunks> <head chunk|0>   → first chunk of the region | 0 (exhausted)
//!   map32 free <chunk>               free_contiguous_chunks → number of chunks
//!   map32 freeall <chunk>            free_all_chunks
//!   map32 walk <head chunk>          regions from `head` following next links: `c:n:prev,…` (≤ 64)
//!   map32 state                      `avail=<n> desc=<d(FIRST-1)>,…,<d(LAST+1)>`
use crate::proto::*;
use mmtk::util::Address;
use mmtk::verif::layout::map32::{ensure_global_sft_map, M32};
use std::cell::RefCell;

pub const FIRST: usize = 100;
pub const LAST: usize = 131;
const LOG_CHUNK: usize = 22;

thread_local! {
    static M: RefCell<Option<M32>> = const { RefCell::new(None) };
}

fn ca(chunk: usize) -> Address {
    unsafe { Address::from_usize(chunk << LOG_CHUNK) }
}

fn state(m: &M32) -> String {
    let ds: Vec<String> = (FIRST - 1..=LAST + 1).map(|c| m.descriptor(ca(c)).to_string()).collect();
    format!("avail={} desc={}", m.available(), ds.join(","))
}

pub fn run(args: &[&str]) -> String {
    if let ["new"] = args {
        ensure_global_sft_map();
        M.with(|m| *m.borrow_mut() = None); // drop the old tables first
        let m = M32::new();
        m.finalize(ca(FIRST), ca(LAST));
        let s = state(&m);
        M.with(|x| *x.borrow_mut() = Some(m));
        return format!("ok {s}");
    }
    M.with(|m| {
        let m = m.borrow();
        let Some(m) = m.as_ref() else { return "no-instance".to_string() };
        match args {
            ["alloc", d, n, h] => {
                let r = m.allocate(unum(d), unum(n), ca(unum(h)));
                format!("{} {}", r.as_usize() >> LOG_CHUNK, state(m))
            }
            ["free", c] => {
                let n = m.free(ca(unum(c)));
                format!("{} {}", n, state(m))
            }
            ["freeall", c] => {
                m.free_all(ca(unum(c)));
                format!("ok {}", state(m))
            }
            ["walk", h] => {
                let mut c = unum(h);
                let mut out = Vec::new();
                while c != 0 && out.len() < 64 {
                    out.push(format!("{}:{}:{}", c, m.region_chunks(ca(c)), m.prev_link(c)));
                    c = m.next_region(ca(c)).as_usize() >> LOG_CHUNK;
                }
                if out.is_empty() { "-".to_string() } else { out.join(",") }
            }
            ["state"] => state(m),
            _ => "bad-op".to_string(),
        }
    })
}
