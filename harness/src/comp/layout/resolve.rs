//! C31 (unit part): address-to-space resolution.
//!   resolve new                       fresh private SFTSpaceMap + Map64 (layout 64) or Map32 (layout 32)
//!   resolve sft <addr>                `<has_entry> <addr_to_index> <get_checked name>` (layout 64 only)
//!   resolve bounds                    `<table len> <space_address_start> <space_address_end>`
//!   resolve insert <start> <extent> <raw>   VMMap::insert
//!   resolve desc <addr>               private map's get_descriptor_for_address → raw | panic:oob
//!   resolve gdesc <addr>              the global VM_MAP's get_descriptor_for_address
use crate::proto::*;
use mmtk::util::heap::vm_layout::vm_layout;
use mmtk::util::Address;
use mmtk::verif::layout::resolve::{global_descriptor_for_address, SpaceMap, VmMap};
use std::cell::RefCell;

thread_local! {
    static ST: RefCell<Option<(Option<SpaceMap>, VmMap)>> = const { RefCell::new(None) };
}

fn addr(x: usize) -> Address {
    unsafe { Address::from_usize(x) }
}

pub fn run(args: &[&str]) -> String {
    match args {
        ["new"] => {
            let contiguous = vm_layout().force_use_contiguous_spaces;
            let v = if contiguous { (Some(SpaceMap::new()), VmMap::new64()) } else { (None, VmMap::new32()) };
            ST.with(|s| *s.borrow_mut() = Some(v));
            "ok".to_string()
        }
        ["gdesc", a] => global_descriptor_for_address(addr(unum(a))).to_string(),
        _ => ST.with(|s| {
            let s = s.borrow();
            let Some((sm, vm)) = s.as_ref() else { return "no-instance".to_string() };
            match args {
                ["sft", a] => match sm {
                    Some(sm) => {
                        let a = addr(unum(a));
                        format!("{} {} {}", sm.has_sft_entry(a), SpaceMap::addr_to_index(a), sm.get_checked_name(a))
                    }
                    None => "n/a".to_string(),
                },
                ["bounds"] => match sm {
                    Some(sm) => {
                        let (n, s, e) = sm.bounds();
                        format!("{n} {s} {e}")
                    }
                    None => "n/a".to_string(),
                },
                ["insert", st, ext, raw] => {
                    vm.insert(addr(unum(st)), unum(ext), unum(raw));
                    "ok".to_string()
                }
                ["desc", a] => vm.get_descriptor_for_address(addr(unum(a))).to_string(),
                _ => "bad-op".to_string(),
            }
        }),
    }
}
