//! C32: space descriptors.
//!   desc range <start> <end>   → `<raw> <empty> <contig> <hi> <start|panic:…> <extent|panic:…> <index>`
//!   desc decode <raw>          → `<empty> <contig> <hi> <start|panic:…> <extent|panic:…> <index>`
//!   desc discontig <counter|-> <n> → set the global counter (`-` = initial value), create n
//!                                descriptors: `raw:empty:contig:hi:index` joined by `;`
use crate::proto::*;
use mmtk::verif::layout::desc as h;

fn decode(raw: usize) -> String {
    format!(
        "{} {} {} {} {} {}",
        h::is_empty(raw),
        h::is_contiguous(raw),
        h::is_contiguous_hi(raw),
        guarded(|| h::get_start(raw).to_string()),
        guarded(|| h::get_extent(raw).to_string()),
        h::get_index(raw)
    )
}

pub fn run(args: &[&str]) -> String {
    match args {
        ["range", s, e] => {
            let raw = h::create_from_heap_range(unum(s), unum(e));
            format!("{} {}", raw, decode(raw))
        }
        ["decode", r] => decode(unum(r)),
        ["discontig", c, n] => {
            h::set_discontiguous_counter(if *c == "-" { None } else { Some(unum(c)) });
            let n = unum(n);
            if n == 0 {
                return "-".to_string();
            }
            (0..n)
                .map(|_| {
                    let raw = h::create_discontiguous();
                    format!(
                        "{}:{}:{}:{}:{}",
                        raw,
                        h::is_empty(raw),
                        h::is_contiguous(raw),
                        h::is_contiguous_hi(raw),
                        h::get_index(raw)
                    )
                })
                .collect::<Vec<_>>()
                .join(";")
        }
        _ => "bad-op".to_string(),
    }
}
