//! C32: space descriptors.
//!   desc range <start> <end>   → `<raw> <empty> <contig> <hi> <start|panic:…> <extent|panic:…> <index>`
//!   desc decode <raw>          → `<empty> <contig> <hi> <start|panic:…> <extent|panic:…> <index>`
//!   desc discontig <counter|-> <n> → set the global counter (`-` = initial value), create n
//!                                descriptors: `raw:empty:contig:hi:index` joined by `;`
//!   desc discrace <counter> <threads> <per> → set the counter; `threads` real threads leave a spin start line and
//!                                create `per` descriptors each; the descriptors of all threads, sorted by raw
//!                                value, in the format of `discontig` (equal to `discontig <counter> threads*per`
//!                                iff every create was atomic: no duplicate, no gap)
use crate::proto::*;
use mmtk::verif::layout::desc as h;

fn decode(raw: usize) -> String {
    format!(
        "{} {} {} {} {} {}",
        h::is_empty(raw),
        h::is_contiguous(raw),
        h::is_contiguous_hi(raw),
        guarded(|| h::get_start(raw).to_string()),
        guarded(|| h::get_extent(raw).to_string()),
        h::get_index(raw)
    )
}

pub fn run(args: &[&str]) -> String {
    match args {
        ["range", s, e] => {
            let raw = h::create_from_heap_range(unum(s), unum(e));
            format!("{} {}", raw, decode(raw))
        }
        ["decode", r] => decode(unum(r)),
        ["discontig", c, n] => {
            h::set_discontiguous_counter(if *c == "-" { None } else { Some(unum(c)) });
            let n = unum(n);
            if n == 0 {
                return "-".to_string();
            }
            (0..n)
                .map(|_| {
                    let raw = h::create_discontiguous();
                    format!(
                        "{}:{}:{}:{}:{}",
                        raw,
                        h::is_empty(raw),
                        h::is_contiguous(raw),
                        h::is_contiguous_hi(raw),
                        h::get_index(raw)
                    )
                })
                .collect::<Vec<_>>()
                .join(";")
        }
        ["discrace", c, t, per] => {
            use std::sync::atomic::{AtomicUsize, Ordering};
            use std::sync::{Arc, Barrier};
            let (t, per) = (unum(t), unum(per));
            if t == 0 || t > 32 || per == 0 || t * per > 100_000 {
                return "bad-op".to_string();
            }
            h::set_discontiguous_counter(Some(unum(c)));
            let barrier = Arc::new(Barrier::new(t));
            let go = Arc::new(AtomicUsize::new(0));
            let hs: Vec<_> = (0..t)
                .map(|_| {
                    let (barrier, go) = (barrier.clone(), go.clone());
                    std::thread::spawn(move || {
                        barrier.wait();
                        go.fetch_add(1, Ordering::SeqCst);
                        while go.load(Ordering::SeqCst) < t {
                            std::hint::spin_loop();
                        }
                        (0..per).map(|_| h::create_discontiguous()).collect::<Vec<usize>>()
                    })
                })
                .collect();
            let mut raws: Vec<usize> = vec![];
            for x in hs {
                match x.join() {
                    Ok(v) => raws.extend(v),
                    Err(_) => return "panic".to_string(),
                }
            }
            raws.sort_unstable();
            raws.iter()
                .map(|&raw| format!("{}:{}:{}:{}:{}", raw, h::is_empty(raw), h::is_contiguous(raw), h::is_contiguous_hi(raw), h::get_index(raw)))
                .collect::<Vec<_>>()
                .join(";")
        }
        _ => "bad-op".to_string(),
    }
}
