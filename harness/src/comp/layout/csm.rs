//! C30: chunk-state mmapper on a private `ChunkStateMmapper`, driven over a dedicated address
//! window `[BASE - 8 chunks, BASE + 8 chunks)` where `BASE = 2^40` is a slab boundary (2^35-aligned)
//! far from the heap (2^41..) and from anything a Linux process maps.
//!
//!   csm new                      fresh mmapper; the window is unmapped first
//!   csm foreign <chunk> <n>      map n chunks (window index) PROT_NONE *outside* the mmapper
//!                                (makes the mmapper's NOREPLACE mmap of those chunks fail)
//!   csm q <start> <pages>        quarantine_address_range
//!   csm em <start> <pages>       ensure_mapped (ReadWrite)
//!   csm mark <start> <bytes>     mark_as_mapped
//!   csm probe <addr>             `state is_mapped` of an arbitrary address (no window restriction)
//! Every op except `probe` answers `<ok|err> <states> <is_mapped bits> <rw bits>` over the 16 window chunks.
use crate::proto::*;
use mmtk::util::Address;
use mmtk::verif::layout::csm::Csm;
use std::cell::RefCell;

pub const BASE: usize = 1 << 40;
pub const CHUNK: usize = 1 << 22;
pub const WIN_CHUNKS: usize = 16;
pub const WIN_START: usize = BASE - 8 * CHUNK;

thread_local! {
    static M: RefCell<Option<Csm>> = const { RefCell::new(None) };
}

fn addr(x: usize) -> Address {
    unsafe { Address::from_usize(x) }
}

/// Can one byte at `a` be read and written? Observed through a pipe: the kernel returns EFAULT
/// instead of raising SIGSEGV.
fn rw_probe(a: usize) -> bool {
    unsafe {
        let mut fds = [0i32; 2];
        if libc::pipe(fds.as_mut_ptr()) != 0 {
            panic!("pipe failed");
        }
        // readable: write(2) from the address into the pipe
        let r = libc::write(fds[1], a as *const libc::c_void, 1);
        // writable: read(2) from the pipe into the address (the byte we just wrote, or a fresh one)
        let w = if r == 1 {
            libc::read(fds[0], a as *mut libc::c_void, 1)
        } else {
            let b = 0u8;
            libc::write(fds[1], &b as *const u8 as *const libc::c_void, 1);
            libc::read(fds[0], a as *mut libc::c_void, 1)
        };
        libc::close(fds[0]);
        libc::close(fds[1]);
        r == 1 && w == 1
    }
}

fn dump(m: &Csm) -> String {
    let mut st = String::new();
    let mut im = String::new();
    let mut rw = String::new();
    for i in 0..WIN_CHUNKS {
        let c = WIN_START + i * CHUNK;
        st.push((b'0' + m.get_state(addr(c))) as char);
        // is_mapped_address on an address inside the chunk
        im.push(if m.is_mapped_address(addr(c)) { '1' } else { '0' });
        rw.push(if rw_probe(c) && rw_probe(c + CHUNK - 1) { '1' } else { '0' });
    }
    format!("{st} {im} {rw}")
}

fn with<F: FnOnce(&Csm) -> String>(f: F) -> String {
    M.with(|m| match m.borrow().as_ref() {
        Some(m) => f(m),
        None => "no-instance".to_string(),
    })
}

pub fn run(args: &[&str]) -> String {
    match args {
        ["new"] => {
            unsafe { libc::munmap(WIN_START as *mut libc::c_void, WIN_CHUNKS * CHUNK) };
            M.with(|m| *m.borrow_mut() = Some(Csm::new()));
            with(|m| format!("ok {} lmb={}", dump(m), m.log_mappable_bytes()))
        }
        ["foreign", c, n] => {
            let (c, n) = (unum(c), unum(n));
            if c + n > WIN_CHUNKS || n == 0 {
                return "bad-op".to_string();
            }
            let p = unsafe {
                libc::mmap(
                    (WIN_START + c * CHUNK) as *mut libc::c_void,
                    n * CHUNK,
                    libc::PROT_NONE,
                    libc::MAP_PRIVATE | libc::MAP_ANONYMOUS | libc::MAP_NORESERVE | libc::MAP_FIXED_NOREPLACE,
                    -1,
                    0,
                )
            };
            let ok = p as usize == WIN_START + c * CHUNK;
            with(|m| format!("{} {}", if ok { "ok" } else { "err" }, dump(m)))
        }
        ["q", s, p] => with(|m| {
            let r = m.quarantine(addr(unum(s)), unum(p));
            format!("{} {}", if r.is_ok() { "ok" } else { "err" }, dump(m))
        }),
        ["em", s, p] => with(|m| {
            let r = m.ensure_mapped(addr(unum(s)), unum(p));
            format!("{} {}", if r.is_ok() { "ok" } else { "err" }, dump(m))
        }),
        ["mark", s, b] => with(|m| {
            m.mark_as_mapped(addr(unum(s)), unum(b));
            format!("ok {}", dump(m))
        }),
        ["probe", a] => with(|m| {
            let a = unum(a);
            format!("{} {}", m.get_state(addr(a & !(CHUNK - 1))), m.is_mapped_address(addr(a)))
        }),
        ["dump"] => with(|m| format!("ok {}", dump(m))),
        _ => "bad-op".to_string(),
    }
}
