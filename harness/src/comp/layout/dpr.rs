//! C29 / C31: the page-resource layer over a private `Map32` — several `CommonPageResource`s (one per
//! discontiguous "space") share one map finalised over chunk indices FIRST..=LAST, each with its own
//! `head_discontiguous_region` — plus the process-global SFT map, which is chunk-granular
//! (`SFTSparseChunkMap`) under `cfg layout 32`: `grow` writes it the way `Space::grow_space` does,
//! `Map32::free_contiguous_chunks` clears it. Regions are named by their first chunk index.
//!
//!   dpr new <spaces>                 fresh Map32 + page resources; SFT entries of the range cleared → `ok <state>`
//!   dpr grow <sp> <raw desc> <chunks>   grow_discontiguous_space (+ SFT_MAP.update for the new region
//!                                    when the SFT map is chunk-granular) → `<first chunk|0> <state>`
//!   dpr release <sp> <chunk>         release_discontiguous_chunks → `ok <state>`
//!   dpr releaseall <sp>              release_all_chunks → `ok <state>`
//!   dpr state                        `<state>`
//!   dpr sft <addr>                   `<has_sft_entry> <get_checked name>` of the global SFT map (`n/a` if not sparse)
//!
//! `<state>` = `avail=<n> heads=<h0>,<h1>,… lists=<c:n:prev/c:n:prev|->;… desc=<d(FIRST-1)>,…,<d(LAST+1)>
//! sft=<s(FIRST-1)>,…,<s(LAST+1)>|n/a` — `lists`: per space the regions reached from its REAL head by
//! `get_next_contiguous_region` (≤ 64) with `get_contiguous_region_chunks` and `prev_link`; `sft`: per
//! chunk `-` (empty SFT) or the id `d` of the stand-in space `s<d>` stored there.
use crate::proto::*;
use mmtk::util::Address;
use mmtk::verif::layout::dpr as hook;
use std::cell::RefCell;

pub const FIRST: usize = 100;
pub const LAST: usize = 131;
const LOG_CHUNK: usize = 22;

thread_local! {
    static D: RefCell<Option<hook::Dpr>> = const { RefCell::new(None) };
}

fn ca(chunk: usize) -> Address {
    unsafe { Address::from_usize(chunk << LOG_CHUNK) }
}

fn state(d: &hook::Dpr, sparse: bool) -> String {
    let heads: Vec<String> = (0..d.spaces()).map(|s| (d.head(s).as_usize() >> LOG_CHUNK).to_string()).collect();
    let lists: Vec<String> = (0..d.spaces())
        .map(|s| {
            let mut c = d.head(s).as_usize() >> LOG_CHUNK;
            let mut out = Vec::new();
            while c != 0 && out.len() < 64 {
                out.push(format!("{}:{}:{}", c, d.region_chunks(ca(c)), d.prev_link(c)));
                c = d.next_region(ca(c)).as_usize() >> LOG_CHUNK;
            }
            if out.is_empty() { "-".to_string() } else { out.join("/") }
        })
        .collect();
    let ds: Vec<String> = (FIRST - 1..=LAST + 1).map(|c| d.descriptor(ca(c)).to_string()).collect();
    let sft = if sparse {
        let v: Vec<String> = (FIRST - 1..=LAST + 1)
            .map(|c| {
                let n = hook::sft_name(ca(c));
                if n == "empty" { "-".to_string() } else { n.trim_start_matches('s').to_string() }
            })
            .collect();
        v.join(",")
    } else {
        "n/a".to_string()
    };
    format!("avail={} heads={} lists={} desc={} sft={}", d.available(), heads.join(","), lists.join(";"), ds.join(","), sft)
}

pub fn run(args: &[&str]) -> String {
    let sparse = hook::sft_is_sparse();
    if let ["new", n] = args {
        D.with(|d| *d.borrow_mut() = None); // drop the old tables first
        if sparse {
            for c in FIRST - 1..=LAST + 1 {
                hook::sft_clear(ca(c));
            }
        }
        let d = hook::Dpr::new(ca(FIRST), ca(LAST), unum(n).min(8));
        let s = state(&d, sparse);
        D.with(|x| *x.borrow_mut() = Some(d));
        return format!("ok {s}");
    }
    if let ["sft", a] = args {
        if !sparse {
            return "n/a".to_string();
        }
        let a = unsafe { Address::from_usize(unum(a)) };
        return format!("{} {}", hook::sft_has_entry(a), hook::sft_name(a));
    }
    D.with(|d| {
        let d = d.borrow();
        let Some(d) = d.as_ref() else { return "no-instance".to_string() };
        let sp_ok = |s: &str| unum(s) < d.spaces();
        match args {
            ["grow", sp, raw, n] if sp_ok(sp) => {
                let r = d.grow(unum(sp), unum(raw), unum(n));
                if sparse && !r.is_zero() {
                    // Space::acquire → grow_space(res.start, bytes, new_chunk = true)
                    hook::sft_update(unum(raw), r, unum(n) << LOG_CHUNK);
                }
                format!("{} {}", r.as_usize() >> LOG_CHUNK, state(d, sparse))
            }
            ["release", sp, c] if sp_ok(sp) => {
                d.release(unum(sp), ca(unum(c)));
                format!("ok {}", state(d, sparse))
            }
            ["releaseall", sp] if sp_ok(sp) => {
                d.release_all(unum(sp));
                format!("ok {}", state(d, sparse))
            }
            ["state"] => state(d, sparse),
            _ => "bad-op".to_string(),
        }
    })
}
