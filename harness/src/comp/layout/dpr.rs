//! C29 / C31: the page-resource layer over a private `Map32` — several `CommonPageResource`s (one per
//! discontiguous "space") share one map finalised over chunk indices FIRST..=LAST, each with its own
//! `head_discontiguous_region` — plus the process-global SFT map, which is chunk-granular
//! (`SFTSparseChunkMap`) under `cfg layout 32`: `grow` writes it the way `Space::grow_space` does,
//! `Map32::free_contiguous_chunks` clears it. Regions are named by their first chunk index.
//!
//!   dpr new <spaces>                 fresh Map32 + page resources; SFT entries of the range cleared → `ok <state>`
//!   dpr grow <sp> <raw desc> <chunks>   grow_discontiguous_space (+ SFT_MAP.update for the new region
//!                                    when the SFT map is chunk-granular) → `<first chunk|0> <state>`
//!   dpr release <sp> <chunk>         release_discontiguous_chunks → `ok <state>`
//!   dpr releaseall <sp>              release_all_chunks → `ok <state>`
//!   dpr state                        `<state>`
//!   dpr sft <addr>                   `<has_sft_entry> <get_checked name>` of the global SFT map (`n/a` if not sparse)
//!
//! C28 (discontiguous monotone spaces): stand-alone `MonotonePageResource::new_discontiguous`s over the SAME private
//! `Map32` (they share the pool of chunks with the page resources above):
//!   dpr mnew <raw desc>              a new monotone page resource (at most 4) → `ok <state>`
//!   dpr malloc <k> <pages>           what `Space::acquire` does: reserve_pages, get_new_pages, clear_request on failure
//!                                    → `ok <chunk>+<byte offset in chunk> <pages> new_chunk=<0|1> <state>` | `fail <state>`
//!   dpr mreset <k>                   `MonotonePageResource::reset()` (CopySpace::release) → `ok <state>`
//! With at least one monotone resource `<state>` ends with ` mono=<m0>;<m1>…`, one entry per resource:
//! `<cursor>,<sentinel>,<current chunk index>,<reserved>,<committed>,<head>,<c:n:prev/…|->,<chunk+off*pages/…|->`
//! (cursor / sentinel: byte addresses; the region list walked from the resource's own head; the live grants = the
//! grants answered since the last `mreset`, in the order they were made).
//!
//! `<state>` = `avail=<n> heads=<h0>,<h1>,… lists=<c:n:prev/c:n:prev|->;… desc=<d(FIRST-1)>,…,<d(LAST+1)>
//! sft=<s(FIRST-1)>,…,<s(LAST+1)>|n/a` — `lists`: per space the regions reached from its REAL head by
//! `get_next_contiguous_region` (≤ 64) with `get_contiguous_region_chunks` and `prev_link`; `sft`: per
//! chunk `-` (empty SFT) or the id `d` of the stand-in space `s<d>` stored there.
use crate::proto::*;
use mmtk::util::Address;
use mmtk::verif::layout::dpr as hook;
use std::cell::RefCell;

pub const FIRST: usize = 100;
pub const LAST: usize = 131;
const LOG_CHUNK: usize = 22;

/// One monotone page resource + the grants it answered since its last reset (start address, pages).
struct MonoRes {
    pr: hook::Mono<crate::VerifVM>,
    grants: Vec<(usize, usize)>,
}

thread_local! {
    static D: RefCell<Option<hook::Dpr>> = const { RefCell::new(None) };
    // always emptied before `D` is replaced: the resources point into `D`'s map
    static M: RefCell<Vec<MonoRes>> = const { RefCell::new(Vec::new()) };
}

const MAX_MONO: usize = 4;

thread_local! {
    // set when the guard below answered `deadlock`: the real process would never answer again
    static HUNG: std::cell::Cell<bool> = const { std::cell::Cell::new(false) };
}

/// Debug builds: `alloc_pages` calls `log_chunk_fields` — which locks `self.sync` — while it holds that very mutex,
/// whenever the cursor is neither in `current_chunk` nor in the chunk after it. The call would never return (shown
/// once per check run by a probe under a timeout, with VERIF_NO_DEADLOCK_GUARD set), so the harness answers
/// `deadlock` INSTEAD of calling; the condition is read from the real fields.
fn would_self_deadlock(m: &hook::Mono<crate::VerifVM>) -> bool {
    if !cfg!(debug_assertions) || std::env::var_os("VERIF_NO_DEADLOCK_GUARD").is_some() {
        return false;
    }
    let (cur, _, cc) = m.fields();
    let al = cur.as_usize() & !((1 << LOG_CHUNK) - 1);
    cc.as_usize() > cur.as_usize() || (al != cc.as_usize() && al != cc.as_usize() + (1 << LOG_CHUNK))
}

fn lenient(s: &str) -> Option<usize> {
    if let Some(h) = s.strip_prefix("0x") {
        usize::from_str_radix(h, 16).ok()
    } else {
        s.parse::<usize>().ok()
    }
}

fn walk(d: &hook::Dpr, head: Address) -> String {
    let mut c = head.as_usize() >> LOG_CHUNK;
    let mut out = Vec::new();
    while c != 0 && out.len() < 64 {
        out.push(format!("{}:{}:{}", c, d.region_chunks(ca(c)), d.prev_link(c)));
        c = d.next_region(ca(c)).as_usize() >> LOG_CHUNK;
    }
    if out.is_empty() { "-".to_string() } else { out.join("/") }
}

fn grant_str(start: usize, pages: usize) -> String {
    format!("{}+{}*{}", start >> LOG_CHUNK, start & ((1 << LOG_CHUNK) - 1), pages)
}

fn mono_state(d: &hook::Dpr, ms: &[MonoRes]) -> String {
    if ms.is_empty() {
        return String::new();
    }
    let v: Vec<String> = ms
        .iter()
        .map(|m| {
            let (cur, sen, cc) = m.pr.fields();
            let (res, com) = m.pr.counters();
            let grants: Vec<String> = m.grants.iter().map(|&(s, p)| grant_str(s, p)).collect();
            format!(
                "{},{},{},{},{},{},{},{}",
                cur.as_usize(),
                sen.as_usize(),
                if cc.as_usize() & ((1 << LOG_CHUNK) - 1) == 0 { (cc.as_usize() >> LOG_CHUNK).to_string() } else { format!("{:#x}", cc.as_usize()) },
                res,
                com,
                m.pr.head().as_usize() >> LOG_CHUNK,
                walk(d, m.pr.head()),
                if grants.is_empty() { "-".to_string() } else { grants.join("/") }
            )
        })
        .collect();
    format!(" mono={}", v.join(";"))
}

fn ca(chunk: usize) -> Address {
    unsafe { Address::from_usize(chunk << LOG_CHUNK) }
}

fn state(d: &hook::Dpr, sparse: bool) -> String {
    let heads: Vec<String> = (0..d.spaces()).map(|s| (d.head(s).as_usize() >> LOG_CHUNK).to_string()).collect();
    let lists: Vec<String> = (0..d.spaces())
        .map(|s| {
            let mut c = d.head(s).as_usize() >> LOG_CHUNK;
            let mut out = Vec::new();
            while c != 0 && out.len() < 64 {
                out.push(format!("{}:{}:{}", c, d.region_chunks(ca(c)), d.prev_link(c)));
                c = d.next_region(ca(c)).as_usize() >> LOG_CHUNK;
            }
            if out.is_empty() { "-".to_string() } else { out.join("/") }
        })
        .collect();
    let ds: Vec<String> = (FIRST - 1..=LAST + 1).map(|c| d.descriptor(ca(c)).to_string()).collect();
    let sft = if sparse {
        let v: Vec<String> = (FIRST - 1..=LAST + 1)
            .map(|c| {
                let n = hook::sft_name(ca(c));
                if n == "empty" { "-".to_string() } else { n.trim_start_matches('s').to_string() }
            })
            .collect();
        v.join(",")
    } else {
        "n/a".to_string()
    };
    let mono = M.with(|m| mono_state(d, &m.borrow()));
    format!("avail={} heads={} lists={} desc={} sft={}{}", d.available(), heads.join(","), lists.join(";"), ds.join(","), sft, mono)
}

pub fn run(args: &[&str]) -> String {
    let sparse = hook::sft_is_sparse();
    if let ["new", n] = args {
        M.with(|m| m.borrow_mut().clear()); // the monotone resources point into the old map: drop them first
        D.with(|d| *d.borrow_mut() = None); // drop the old tables first
        HUNG.with(|h| h.set(false));
        if sparse {
            for c in FIRST - 1..=LAST + 1 {
                hook::sft_clear(ca(c));
            }
        }
        let d = hook::Dpr::new(ca(FIRST), ca(LAST), unum(n).min(8));
        let s = state(&d, sparse);
        D.with(|x| *x.borrow_mut() = Some(d));
        return format!("ok {s}");
    }
    if let ["sft", a] = args {
        if !sparse {
            return "n/a".to_string();
        }
        let a = unsafe { Address::from_usize(unum(a)) };
        return format!("{} {}", hook::sft_has_entry(a), hook::sft_name(a));
    }
    D.with(|d| {
        let d = d.borrow();
        let Some(d) = d.as_ref() else { return "no-instance".to_string() };
        let hung = HUNG.with(|h| h.get());
        if hung && matches!(args, ["grow", _, _, _] | ["release", _, _] | ["releaseall", _] | ["state"]) && args.iter().skip(1).take(1).all(|s| args[0] == "state" || unum(s) < d.spaces()) {
            return "panic:other".to_string();
        }
        let sp_ok = |s: &str| unum(s) < d.spaces();
        match args {
            ["grow", sp, raw, n] if sp_ok(sp) => {
                let r = d.grow(unum(sp), unum(raw), unum(n));
                if sparse && !r.is_zero() {
                    // Space::acquire → grow_space(res.start, bytes, new_chunk = true)
                    hook::sft_update(unum(raw), r, unum(n) << LOG_CHUNK);
                }
                format!("{} {}", r.as_usize() >> LOG_CHUNK, state(d, sparse))
            }
            ["release", sp, c] if sp_ok(sp) => {
                d.release(unum(sp), ca(unum(c)));
                format!("ok {}", state(d, sparse))
            }
            ["releaseall", sp] if sp_ok(sp) => {
                d.release_all(unum(sp));
                format!("ok {}", state(d, sparse))
            }
            ["state"] => state(d, sparse),
            ["mnew", raw] => {
                let Some(raw) = lenient(raw) else { return "bad-op".to_string() };
                if M.with(|m| m.borrow().len()) >= MAX_MONO {
                    return "bad-op".to_string();
                }
                let pr = d.new_mono::<crate::VerifVM>(raw);
                M.with(|m| m.borrow_mut().push(MonoRes { pr, grants: Vec::new() }));
                if hung {
                    return "panic:other".to_string();
                }
                format!("ok {}", state(d, sparse))
            }
            ["malloc", k, pages] => {
                let (Some(k), Some(pages)) = (lenient(k), lenient(pages)) else { return "bad-op".to_string() };
                if k >= M.with(|m| m.borrow().len()) || pages >= 1 << 32 {
                    return "bad-op".to_string();
                }
                if hung {
                    return "panic:other".to_string();
                }
                // the RefCell borrow is released before the call: a panic inside must not leave it borrowed
                let r = {
                    let p: *const hook::Mono<crate::VerifVM> = M.with(|m| &m.borrow()[k].pr as *const _);
                    let p = unsafe { &*p };
                    if would_self_deadlock(p) {
                        HUNG.with(|h| h.set(true));
                        return "deadlock".to_string();
                    }
                    p.acquire(pages)
                };
                match r {
                    Some((start, n, new_chunk)) => {
                        M.with(|m| m.borrow_mut()[k].grants.push((start.as_usize(), n)));
                        let a = start.as_usize();
                        format!("ok {}+{} {} new_chunk={} {}", a >> LOG_CHUNK, a & ((1 << LOG_CHUNK) - 1), n, new_chunk as usize, state(d, sparse))
                    }
                    None => format!("fail {}", state(d, sparse)),
                }
            }
            ["mreset", k] => {
                let Some(k) = lenient(k) else { return "bad-op".to_string() };
                if k >= M.with(|m| m.borrow().len()) {
                    return "bad-op".to_string();
                }
                if hung {
                    return "panic:other".to_string();
                }
                let p: *const hook::Mono<crate::VerifVM> = M.with(|m| &m.borrow()[k].pr as *const _);
                unsafe { &*p }.reset();
                M.with(|m| m.borrow_mut()[k].grants.clear());
                format!("ok {}", state(d, sparse))
            }
            _ => "bad-op".to_string(),
        }
    })
}
