//! package `meta`: side / header metadata (C20–C25)
pub mod hdr;
pub mod sanity;
pub mod side;

pub fn dispatch(tokens: &[&str]) -> Option<String> {
    let (c, args) = tokens.split_first()?;
    Some(match *c {
        "sanity" => sanity::run(args),
        "hdr" => hdr::run(args),
        "side" => side::run(args),
        _ => return None,
    })
}
