//! C20–C22: the real side-metadata accessors, bulk operations and searches on a private window.
//!
//! Fixed layout (mirrored by `lean/Driver/Meta/Side.lean`):
//!   * data area  : 64 chunks at `DATA_BASE = 0x1f0_0000_0000` (below the heap start, used by no space);
//!                  which chunks the real `MMAPPER` records as mapped is chosen per case (`dmap`);
//!                  the data itself is never touched.
//!   * meta area  : 4 chunks at `SIDE_METADATA_BASE + 2 TiB`; chunks 1 and 2 are really mapped (through
//!                  `SideMetadataContext::try_map_metadata_space`), chunks 0 and 3 never are.
//! All data addresses on the wire are byte offsets from `DATA_BASE`.
//!
//!   side new <logbits> <logregion> <offset> <d0> <nregions> <dmap> <offset2|->
//!        → `ok <win lo> <win hi> <dmap read back> <meta chunk map read back>` | bad-window
//!        the window = metadata bytes of the data range `[d0, d0 + n·2^logregion)` plus 16 guard bytes
//!        on both sides (clipped to the mapped meta chunks); a second spec with the same geometry at
//!        `offset2` is the source of `bcopy`.
//!   side fill <hex> | fill2 <hex>            → ok          (raw bytes of window 1 / 2 incl. guards)
//!   side dump                                → `<hex1>[ <hex2>]`
//!   side load|load_atomic <a>                → `<v>`
//!   side store|store_atomic <a> <v> | set_zero|set_zero_atomic <a> | raw <a>   → `- <hex1>`
//!   side cmpxchg <a> <old> <new>             → `ok:<v> <hex1>` | `err:<v> <hex1>`
//!   side fetch_add|fetch_sub|fetch_and|fetch_or <a> <v>                         → `<old> <hex1>`
//!   side fetch_update <a> none | const <k> | add <k>                            → `ok:<v> <hex1>` | `err:<v> <hex1>`
//!   side addr <a>                            → `<meta address> <lshift>`
//!   side bbr <sa> <sb> <ea> <eb> <fwd> <stop> → `<ret> B:<s>-<e> b:<a>:<s>-<e> …`
//!   side bzero|bset <start> <size> | bcopy <start> <size>                       → `- <hex1>`
//!   side find_prev[_fast|_simple] | find_next[_fast|_simple] <a> <limit>        → none | `<addr>`
//!   side scan[_fast|_simple] <start> <end>   → `<n>:<a1>,<a2>,…`
//! A panic inside an op prints `panic <hex1>` (`panic:assert` etc. for the searches).
use crate::proto::*;
use mmtk::util::metadata::side_metadata::SideMetadataSpec;
use mmtk::util::metadata::MetadataValue;
use mmtk::util::Address;
use mmtk::verif::meta::side as hook;
use std::cell::RefCell;
use std::sync::atomic::Ordering;
use std::sync::Once;

const DATA_BASE: usize = 0x1f0_0000_0000;
const CHUNK: usize = 1 << 22;
const META_AREA: usize = crate::SIDE_METADATA_BASE + 0x200_0000_0000;
const META_LO: usize = META_AREA + CHUNK;
const META_HI: usize = META_AREA + 3 * CHUNK;
const GUARD: usize = 16;

#[derive(Clone, Copy, Default)]
struct Win {
    lo: usize,
    hi: usize,
}

#[derive(Clone, Copy)]
struct St {
    s1: SideMetadataSpec,
    s2: Option<SideMetadataSpec>,
    w1: Win,
    w2: Win,
    ready: bool,
}

thread_local! {
    static ST: RefCell<St> = RefCell::new(St {
        s1: spec("side1", 0, 0, 3), s2: None, w1: Win::default(), w2: Win::default(), ready: false });
}

fn spec(name: &'static str, offset: usize, lb: usize, lr: usize) -> SideMetadataSpec {
    SideMetadataSpec { name, is_global: true, offset, log_num_of_bits: lb, log_bytes_in_region: lr }
}

fn addr(a: usize) -> Address {
    unsafe { Address::from_usize(a) }
}

static INIT: Once = Once::new();

fn init() {
    INIT.call_once(|| {
        crate::ensure_mmtk();
        assert_eq!(hook::base_address().as_usize(), crate::SIDE_METADATA_BASE);
        assert_eq!(hook::mmap_granularity(), CHUNK);
        // the private meta area lies inside the range MMTk reserved (quarantined) for side metadata
        assert!(hook::reserved_bytes() >= META_AREA + 4 * CHUNK - crate::SIDE_METADATA_BASE);
        // map meta chunks 1 and 2 through the real mapping code: a 64-bit-per-8-byte spec whose metadata
        // for the first two data chunks is exactly [META_LO, META_HI)
        let s = spec("sidemap", META_LO - crate::SIDE_METADATA_BASE - DATA_BASE, 6, 3);
        assert!(hook::map_metadata(s, addr(DATA_BASE), 2 * CHUNK));
    });
}

fn window(s: &SideMetadataSpec, ds: usize, de: usize) -> Option<Win> {
    let (ma, _) = hook::meta_address(s, addr(ds));
    let (mb, sh) = hook::meta_address(s, addr(de));
    let wlo = ma.as_usize();
    let whi = mb.as_usize() + if sh > 0 { 1 } else { 0 };
    if wlo < META_LO || whi > META_HI || whi < wlo || whi - wlo > 4096 {
        return None;
    }
    Some(Win { lo: (wlo - GUARD).max(META_LO), hi: (whi + GUARD).min(META_HI) })
}

fn hex(w: Win) -> String {
    let mut s = String::with_capacity(2 * (w.hi - w.lo));
    for a in w.lo..w.hi {
        let b = unsafe { *(a as *const u8) };
        s.push_str(&format!("{b:02x}"));
    }
    s
}

fn fill(w: Win, h: &str) -> bool {
    let h = h.as_bytes();
    if h.len() != 2 * (w.hi - w.lo) {
        return false;
    }
    for i in 0..(w.hi - w.lo) {
        let b = u8::from_str_radix(std::str::from_utf8(&h[2 * i..2 * i + 2]).unwrap(), 16).unwrap();
        unsafe { *((w.lo + i) as *mut u8) = b };
    }
    true
}

fn zero(w: Win) {
    if w.hi > w.lo {
        unsafe { std::ptr::write_bytes(w.lo as *mut u8, 0, w.hi - w.lo) };
    }
}

fn val<T: MetadataValue>(s: &str) -> T {
    T::from_u64(num(s)).unwrap_or_else(|| panic!("value does not fit the type"))
}

fn res<T: MetadataValue>(r: Result<T, T>) -> String {
    match r {
        Ok(v) => format!("ok:{v}"),
        Err(v) => format!("err:{v}"),
    }
}

fn opt(a: Option<Address>) -> String {
    match a {
        Some(a) => a.as_usize().wrapping_sub(DATA_BASE).to_string(),
        None => "none".to_string(),
    }
}

/// The accessors; returns (result, mutating?).
fn access<T: MetadataValue>(s: &SideMetadataSpec, op: &str, a: &[&str]) -> String {
    let o = Ordering::SeqCst;
    let d = addr(DATA_BASE + unum(a[0]));
    match op {
        "load" => unsafe { s.load::<T>(d) }.to_string(),
        "load_atomic" => s.load_atomic::<T>(d, o).to_string(),
        "store" => {
            unsafe { s.store::<T>(d, val::<T>(a[1])) };
            "-".to_string()
        }
        "store_atomic" => {
            s.store_atomic::<T>(d, val::<T>(a[1]), o);
            "-".to_string()
        }
        "set_zero" => {
            unsafe { s.set_zero(d) };
            "-".to_string()
        }
        "set_zero_atomic" => {
            s.set_zero_atomic(d, o);
            "-".to_string()
        }
        "raw" => {
            unsafe { s.set_raw_byte_atomic(d, o) };
            "-".to_string()
        }
        "cmpxchg" => res(s.compare_exchange_atomic::<T>(d, val::<T>(a[1]), val::<T>(a[2]), o, o)),
        "fetch_add" => s.fetch_add_atomic::<T>(d, val::<T>(a[1]), o).to_string(),
        "fetch_sub" => s.fetch_sub_atomic::<T>(d, val::<T>(a[1]), o).to_string(),
        "fetch_and" => s.fetch_and_atomic::<T>(d, val::<T>(a[1]), o).to_string(),
        "fetch_or" => s.fetch_or_atomic::<T>(d, val::<T>(a[1]), o).to_string(),
        "fetch_update" => {
            let kind = a[1].to_string();
            let k: Option<T> = a.get(2).map(|x| val::<T>(x));
            let kind = kind.as_str();
            if !matches!(kind, "none" | "const" | "add") || (kind != "none" && k.is_none()) {
                panic!("bad fetch_update");
            }
            res(s.fetch_update_atomic::<T, _>(d, o, o, |x: T| match kind {
                "none" => None,
                "const" => k,
                _ => Some(x.wrapping_add(&k.unwrap())),
            }))
        }
        "find_prev" => opt(unsafe { s.find_prev_non_zero_value::<T>(d, unum(a[1])) }),
        "find_prev_fast" => opt(s.verif_find_prev_fast::<T>(d, unum(a[1]))),
        "find_prev_simple" => opt(s.verif_find_prev_simple::<T>(d, unum(a[1]))),
        "find_next" => opt(unsafe { s.find_next_non_zero_value::<T>(d, unum(a[1])) }),
        "find_next_fast" => opt(s.verif_find_next_fast::<T>(d, unum(a[1]))),
        "find_next_simple" => opt(s.verif_find_next_simple::<T>(d, unum(a[1]))),
        "scan" | "scan_fast" | "scan_simple" => {
            let e = addr(DATA_BASE + unum(a[1]));
            let mut v: Vec<String> = vec![];
            let mut visit = |x: Address| v.push((x.as_usize().wrapping_sub(DATA_BASE)).to_string());
            match op {
                "scan" => s.scan_non_zero_values::<T>(d, e, &mut visit),
                "scan_fast" => s.verif_scan_fast(d, e, &mut visit),
                _ => s.verif_scan_simple::<T>(d, e, &mut visit),
            }
            format!("{}:{}", v.len(), v.join(","))
        }
        other => format!("bad-op {other}"),
    }
}

fn dispatch(s: &SideMetadataSpec, op: &str, a: &[&str]) -> String {
    match s.log_num_of_bits {
        0..=3 => access::<u8>(s, op, a),
        4 => access::<u16>(s, op, a),
        5 => access::<u32>(s, op, a),
        _ => access::<u64>(s, op, a),
    }
}

fn do_new(a: &[&str]) -> String {
    if a.len() != 7 {
        return "bad-op".to_string();
    }
    let (lb, lr, off, d0, n) = (unum(a[0]), unum(a[1]), unum(a[2]), unum(a[3]), unum(a[4]));
    let dmap = num(a[5]);
    ST.with(|st| {
        let mut st = st.borrow_mut();
        // leave the metadata of the previous case zeroed: everything mapped outside the current windows reads 0
        zero(st.w1);
        zero(st.w2);
        st.ready = false;
        st.w1 = Win::default();
        st.w2 = Win::default();
        if lb > 6 || lr < 3 || lr > 22 || d0 % (1 << lr) != 0 || off % 8 != 0 {
            return "bad-window".to_string();
        }
        let ds = DATA_BASE + d0;
        let de = ds + (n << lr);
        if de > DATA_BASE + 64 * CHUNK {
            return "bad-window".to_string();
        }
        let s1 = spec("side1", off, lb, lr);
        let Some(w1) = window(&s1, ds, de) else { return "bad-window".to_string() };
        let (s2, w2) = if a[6] == "-" {
            (None, Win::default())
        } else {
            let o2 = unum(a[6]);
            if o2 % 8 != 0 {
                return "bad-window".to_string();
            }
            let s2 = spec("side2", o2, lb, lr);
            let Some(w2) = window(&s2, ds, de) else { return "bad-window".to_string() };
            if w2.lo < w1.hi && w1.lo < w2.hi {
                return "bad-window".to_string();
            }
            (Some(s2), w2)
        };
        for k in 0..64 {
            let c = addr(DATA_BASE + k * CHUNK);
            if (dmap >> k) & 1 == 1 {
                hook::mark_data_mapped(c, CHUNK);
            } else {
                hook::mark_data_unmapped(c, CHUNK);
            }
        }
        zero(w1);
        zero(w2);
        *st = St { s1, s2, w1, w2, ready: true };
        let mut back = 0u64;
        for k in 0..64 {
            if hook::is_mapped(addr(DATA_BASE + k * CHUNK + 8 * k)) {
                back |= 1 << k;
            }
        }
        let mut mm = 0u64;
        for j in 0..4 {
            if hook::is_mapped(addr(META_AREA + j * CHUNK + 4096 * j)) {
                mm |= 1 << j;
            }
        }
        format!("ok {:#x} {:#x} {:#x} {:#x}", w1.lo, w1.hi, back, mm)
    })
}

/// `side race <iters> <thread> <thread> …`, thread = `op/arg/arg,op/arg,…`: every thread repeats its list of atomic
/// accessor calls `iters` times, all threads at once (spin start line). Answer: per thread the results of its calls in
/// order (`;`-separated), then the window. With one owner per field the answers are those of any sequential order.
fn race(st: &St, a: &[&str]) -> String {
    use std::sync::atomic::AtomicUsize;
    use std::sync::{Arc, Barrier};
    if a.len() < 2 || a.len() > 17 {
        return "bad-op".to_string();
    }
    let iters = unum(a[0]);
    const OK: [&str; 9] = ["load_atomic", "store_atomic", "set_zero_atomic", "cmpxchg", "fetch_add", "fetch_sub", "fetch_and", "fetch_or", "fetch_update"];
    let mut progs: Vec<Vec<Vec<String>>> = vec![];
    for t in &a[1..] {
        let mut p = vec![];
        for c in t.split(',') {
            let f: Vec<String> = c.split('/').map(|x| x.to_string()).collect();
            if f.len() < 2 || !OK.contains(&f[0].as_str()) {
                return "bad-op".to_string();
            }
            p.push(f);
        }
        progs.push(p);
    }
    let n = progs.len();
    let s1 = st.s1;
    let barrier = Arc::new(Barrier::new(n));
    let go = Arc::new(AtomicUsize::new(0));
    let handles: Vec<_> = progs
        .into_iter()
        .map(|p| {
            let barrier = barrier.clone();
            let go = go.clone();
            std::thread::spawn(move || {
                let mut out: Vec<String> = Vec::with_capacity(iters * p.len());
                barrier.wait();
                go.fetch_add(1, Ordering::SeqCst);
                while go.load(Ordering::SeqCst) < n {
                    std::hint::spin_loop();
                }
                for _ in 0..iters {
                    for c in &p {
                        let args: Vec<&str> = c[1..].iter().map(|x| x.as_str()).collect();
                        out.push(dispatch(&s1, c[0].as_str(), &args));
                    }
                }
                out.join(";")
            })
        })
        .collect();
    let mut rs = vec![];
    for h in handles {
        rs.push(h.join().unwrap_or_else(|_| "panic".to_string()));
    }
    format!("race {} {}", rs.join(" "), hex(st.w1))
}

const MUTATING: [&str; 14] = [
    "store", "store_atomic", "set_zero", "set_zero_atomic", "raw", "cmpxchg", "fetch_add", "fetch_sub", "fetch_and",
    "fetch_or", "fetch_update", "bzero", "bset", "bcopy",
];

pub fn run(args: &[&str]) -> String {
    init();
    let op = args[0];
    if op == "new" {
        return do_new(&args[1..]);
    }
    let st = ST.with(|s| *s.borrow());
    if !st.ready {
        return "bad-op".to_string();
    }
    match op {
        "fill" => return if args.len() == 2 && fill(st.w1, args[1]) { "ok" } else { "bad-op" }.to_string(),
        "fill2" => {
            return if args.len() == 2 && st.s2.is_some() && fill(st.w2, args[1]) { "ok" } else { "bad-op" }.to_string()
        }
        "dump" => return if st.s2.is_some() { format!("{} {}", hex(st.w1), hex(st.w2)) } else { hex(st.w1) },
        "addr" => {
            let (m, sh) = hook::meta_address(&st.s1, addr(DATA_BASE + unum(args[1])));
            return format!("{:#x} {}", m.as_usize(), sh);
        }
        "bbr" => {
            let (r, v) = hook::break_range(
                addr(unum(args[1])), unum(args[2]) as u8, addr(unum(args[3])), unum(args[4]) as u8,
                args[5] == "1", unum(args[6]));
            let mut s = r.to_string();
            for (b, x, y, z) in v {
                if b {
                    s.push_str(&format!(" B:{x}-{y}"));
                } else {
                    s.push_str(&format!(" b:{x}:{y}-{z}"));
                }
            }
            return s;
        }
        _ => {}
    }
    if op == "race" {
        return race(&st, &args[1..]);
    }
    let a = &args[1..];
    let r = guarded(|| match op {
        "bzero" => {
            st.s1.bzero_metadata(addr(DATA_BASE + unum(a[0])), unum(a[1]));
            "-".to_string()
        }
        "bset" => {
            st.s1.bset_metadata(addr(DATA_BASE + unum(a[0])), unum(a[1]));
            "-".to_string()
        }
        "bcopy" => {
            let s2 = st.s2.expect("no second spec");
            st.s1.bcopy_metadata_contiguous(addr(DATA_BASE + unum(a[0])), unum(a[1]), &s2);
            "-".to_string()
        }
        _ => dispatch(&st.s1, op, a),
    });
    if r.starts_with("bad-op") {
        return r;
    }
    if MUTATING.contains(&op) {
        let r = if r.starts_with("panic") { "panic".to_string() } else { r };
        format!("{r} {}", hex(st.w1))
    } else if (op == "load" || op == "load_atomic") && r.starts_with("panic") {
        format!("panic {}", hex(st.w1))
    } else {
        r
    }
}
