//! C25: side-metadata sanity overlap predicate.
//!   sanity pair <off1> <logbits1> <logregion1> <off2> <logbits2> <logregion2>   → true|false
//!   sanity ctx <ng> (off lb lr)*ng <nl> (off lb lr)*nl                          → ok | panic:*
//!   sanity range <logbits> <logregion>                                          → size of the range
//!   sanity multi <ng> (off lb lr)*ng <np> (<nl> (off lb lr)*nl)*np              → ok | panic:*   (one checker, np policies)
use crate::proto::*;
use mmtk::util::metadata::side_metadata::SideMetadataSpec;

const NAMES: [&str; 16] = [
    "s0", "s1", "s2", "s3", "s4", "s5", "s6", "s7", "s8", "s9", "s10", "s11", "s12", "s13", "s14", "s15",
];

fn spec(i: usize, global: bool, t: &[&str]) -> SideMetadataSpec {
    SideMetadataSpec {
        name: NAMES[i % 16],
        is_global: global,
        offset: unum(t[0]),
        log_num_of_bits: unum(t[1]),
        log_bytes_in_region: unum(t[2]),
    }
}

pub fn run(args: &[&str]) -> String {
    crate::ensure_mmtk();
    match args[0] {
        "pair" => {
            let a = spec(0, true, &args[1..4]);
            let b = spec(1, true, &args[4..7]);
            mmtk::verif::sanity_no_overlap_contiguous(&a, &b).to_string()
        }
        "range" => {
            let a = spec(0, true, &["0", args[1], args[2]]);
            mmtk::verif::metadata_address_range_size(&a).to_string()
        }
        "ctx" => {
            let ng = unum(args[1]);
            let mut g = vec![];
            let mut p = 2;
            for i in 0..ng {
                g.push(spec(i, true, &args[p..p + 3]));
                p += 3;
            }
            let nl = unum(args[p]);
            p += 1;
            let mut l = vec![];
            for i in 0..nl {
                l.push(spec(8 + i, false, &args[p..p + 3]));
                p += 3;
            }
            mmtk::verif::meta::sanity_verify_context(g, l);
            "ok".to_string()
        }
        "multi" => {
            let ng = unum(args[1]);
            let mut g = vec![];
            let mut p = 2;
            for i in 0..ng {
                g.push(spec(i, true, &args[p..p + 3]));
                p += 3;
            }
            let np = unum(args[p]);
            p += 1;
            if np > 8 {
                return "bad-op".to_string();
            }
            let (mut ls, mut k) = (vec![], 0);
            for _ in 0..np {
                let nl = unum(args[p]);
                p += 1;
                let mut l = vec![];
                for _ in 0..nl {
                    l.push(spec(8 + k, false, &args[p..p + 3]));
                    k += 1;
                    p += 3;
                }
                ls.push(l);
            }
            if k > 8 {
                return "bad-op".to_string();     // spec names s8..s15 must stay distinct (the checker dedups equal specs)
            }
            mmtk::verif::meta::sanity_verify_contexts(g, ls);
            "ok".to_string()
        }
        other => format!("bad-op {other}"),
    }
}
