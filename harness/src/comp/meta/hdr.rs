//! C23: in-header metadata accessors on a private 64-byte window (header at window+32).
//!   hdr new <128 hex chars>                           → ok
//!   hdr <op> <bit_offset> <num_bits> <tbytes> <args…> → `<ret> <window hex>`
//! ops: load m|-  load_atomic m|-  store v m|-  store_atomic v m|-  cmpxchg old new m|-
//!      fetch_add v  fetch_sub v  fetch_and v  fetch_or v  fetch_update add <k>|none|const <k>
//! `ret`: value (decimal) — `-` for stores — or `ok:<v>` / `err:<v>` for cmpxchg / fetch_update.
use crate::proto::*;
use mmtk::util::metadata::header_metadata::HeaderMetadataSpec;
use mmtk::util::metadata::MetadataValue;
use mmtk::util::Address;
use std::cell::RefCell;
use std::sync::atomic::Ordering;

#[repr(align(64))]
struct Window([u8; 64]);

thread_local! {
    static WIN: RefCell<Box<Window>> = RefCell::new(Box::new(Window([0; 64])));
}

fn hex(w: &[u8; 64]) -> String {
    w.iter().map(|b| format!("{b:02x}")).collect()
}

fn mask<T: MetadataValue>(s: &str) -> Option<T> {
    if s == "-" {
        None
    } else {
        Some(T::from_u64(num(s)).unwrap_or_else(|| panic!("mask does not fit")))
    }
}

fn val<T: MetadataValue>(s: &str) -> T {
    T::from_u64(num(s)).unwrap_or_else(|| panic!("value does not fit the type"))
}

fn go<T: MetadataValue>(spec: HeaderMetadataSpec, header: Address, op: &str, a: &[&str]) -> String {
    let o = Ordering::SeqCst;
    match op {
        "load" => unsafe { spec.load::<T>(header, mask::<T>(a[0])) }.to_string(),
        "load_atomic" => spec.load_atomic::<T>(header, mask::<T>(a[0]), o).to_string(),
        "store" => {
            unsafe { spec.store::<T>(header, val::<T>(a[0]), mask::<T>(a[1])) };
            "-".to_string()
        }
        "store_atomic" => {
            spec.store_atomic::<T>(header, val::<T>(a[0]), mask::<T>(a[1]), o);
            "-".to_string()
        }
        "cmpxchg" => match spec.compare_exchange::<T>(header, val::<T>(a[0]), val::<T>(a[1]), mask::<T>(a[2]), o, o) {
            Ok(v) => format!("ok:{v}"),
            Err(v) => format!("err:{v}"),
        },
        "fetch_add" => spec.fetch_add::<T>(header, val::<T>(a[0]), o).to_string(),
        "fetch_sub" => spec.fetch_sub::<T>(header, val::<T>(a[0]), o).to_string(),
        "fetch_and" => spec.fetch_and::<T>(header, val::<T>(a[0]), o).to_string(),
        "fetch_or" => spec.fetch_or::<T>(header, val::<T>(a[0]), o).to_string(),
        "fetch_update" => {
            let kind = a[0].to_string();
            let k: Option<T> = a.get(1).map(|s| val::<T>(s));
            let r = spec.fetch_update::<T, _>(header, o, o, |x: T| match kind.as_str() {
                "none" => None,
                "const" => k,
                _ => Some(x.wrapping_add(&k.unwrap())),
            });
            match r {
                Ok(v) => format!("ok:{v}"),
                Err(v) => format!("err:{v}"),
            }
        }
        other => format!("bad-op {other}"),
    }
}

pub fn run(args: &[&str]) -> String {
    WIN.with(|w| {
        let mut w = w.borrow_mut();
        if args[0] == "new" {
            let h = args[1].as_bytes();
            for i in 0..64 {
                w.0[i] = u8::from_str_radix(std::str::from_utf8(&h[2 * i..2 * i + 2]).unwrap(), 16).unwrap();
            }
            return "ok".to_string();
        }
        let spec = HeaderMetadataSpec { bit_offset: inum(args[1]) as isize, num_of_bits: unum(args[2]) };
        let header = Address::from_mut_ptr(w.0.as_mut_ptr()) + 32usize;
        // run the op under its own catch_unwind so that the window is still printed after a panic
        let r = guarded(|| match unum(args[3]) {
            1 => go::<u8>(spec, header, args[0], &args[4..]),
            2 => go::<u16>(spec, header, args[0], &args[4..]),
            4 => go::<u32>(spec, header, args[0], &args[4..]),
            8 => go::<u64>(spec, header, args[0], &args[4..]),
            _ => "bad-op".to_string(),
        });
        let r = if r.starts_with("panic") { "panic".to_string() } else { r };
        format!("{r} {}", hex(&w.0))
    })
}
