//! package `misc` (see CONVENTIONS.md): C35 bins, C38 membal, C37 xducer, C39 opts.
pub mod bins;
pub mod inst;
pub mod membal;
pub mod opts;
pub mod xducer;

pub fn dispatch(tokens: &[&str]) -> Option<String> {
    let (c, args) = tokens.split_first()?;
    Some(match *c {
        "bins" => bins::run(args),
        "membal" => membal::run(args),
        "opts" => opts::run(args),
        "xducer" => xducer::run(args),
        _ => return None,
    })
}
