//! package `misc` (see CONVENTIONS.md): register components here.

pub fn dispatch(tokens: &[&str]) -> Option<String> {
    let (c, _args) = tokens.split_first()?;
    #[allow(clippy::match_single_binding)]
    Some(match *c {
        _ => return None,
    })
}
