//! C39: options. `opts <op> <args…>`; string arguments are hex-encoded UTF-8 with an `x` prefix
//! (`x` alone = empty string) so that they may contain blanks, commas and non-ASCII characters.
//!   env                    → build/machine facts the validators and defaults depend on
//!   reset                  → Options::default(); prints the dump
//!   set <key> <val>        → set_from_string; prints `<bool> <dump>`
//!   bulk <s>               → set_bulk_from_string; prints `<bool> <dump>` (panic on an unknown key)
//!   trigger|nursery|cpulist <s> → the `FromStr` impl alone (no validation): value or `err`
use crate::proto::*;
use mmtk::util::options::*;
use std::cell::RefCell;

thread_local! {
    static O: RefCell<Options> = RefCell::new(Options::default());
}

fn unhex(tok: &str) -> String {
    let h = tok.strip_prefix('x').unwrap_or_else(|| panic!("bad string token {tok}"));
    let bytes: Vec<u8> = (0..h.len() / 2).map(|i| u8::from_str_radix(&h[2 * i..2 * i + 2], 16).unwrap()).collect();
    String::from_utf8(bytes).expect("utf8")
}

fn fbits(x: f64) -> String {
    if x.is_nan() {
        "0x7ff8000000000000".into()
    } else {
        format!("{:#x}", x.to_bits())
    }
}

fn nursery(n: &NurserySize) -> String {
    match n {
        NurserySize::Bounded { min, max } => format!("Bounded({min};{max})"),
        NurserySize::ProportionalBounded { min, max } => format!("Prop({};{})", fbits(*min), fbits(*max)),
        NurserySize::Fixed(s) => format!("Fixed({s})"),
    }
}

fn trigger(t: &GCTriggerSelector) -> String {
    match t {
        GCTriggerSelector::FixedHeapSize(s) => format!("Fixed({s})"),
        GCTriggerSelector::DynamicHeapSize(a, b) => format!("Dynamic({a};{b})"),
        GCTriggerSelector::Delegated => "Delegated".into(),
    }
}

fn affinity(a: &AffinityKind) -> String {
    let l = |v: &Vec<u16>| v.iter().map(|c| c.to_string()).collect::<Vec<_>>().join(";");
    match a {
        AffinityKind::OsDefault => "OsDefault".into(),
        AffinityKind::RoundRobin(v) => format!("RoundRobin[{}]", l(v)),
        AffinityKind::AllInSet(v) => format!("AllInSet[{}]", l(v)),
    }
}

fn dump(o: &Options) -> String {
    format!(
        "plan={:?} threads={} use_short_stack_scans={} use_return_barrier={} eager_complete_sweep={} ignore_system_gc={} \
         nursery={} full_heap_system_gc={} no_finalizer={} no_reference_types={} nursery_zeroing={:?} stress_factor={} \
         analysis_factor={} precise_stress={} vm_space_start={} vm_space_size={} side_metadata_base_address={} \
         work_perf_events=Perf[{}] phase_perf_events=Perf[{}] perf_exclude_kernel={} thread_affinity={} gc_trigger={} \
         transparent_hugepages={} count_live_bytes_in_gc={} immix_always_defrag={} immix_defrag_every_block={} \
         immix_defrag_headroom_percent={} concurrent_immix_disable_concurrent_marking={}",
        *o.plan, *o.threads, *o.use_short_stack_scans, *o.use_return_barrier, *o.eager_complete_sweep,
        *o.ignore_system_gc, nursery(&o.nursery), *o.full_heap_system_gc, *o.no_finalizer, *o.no_reference_types,
        *o.nursery_zeroing, *o.stress_factor, *o.analysis_factor, *o.precise_stress, o.vm_space_start.as_usize(),
        *o.vm_space_size, o.side_metadata_base_address.as_usize(), o.work_perf_events.events.len(),
        o.phase_perf_events.events.len(), *o.perf_exclude_kernel, affinity(&o.thread_affinity), trigger(&o.gc_trigger),
        *o.transparent_hugepages, *o.count_live_bytes_in_gc, *o.immix_always_defrag, *o.immix_defrag_every_block,
        *o.immix_defrag_headroom_percent, *o.concurrent_immix_disable_concurrent_marking
    )
}

pub fn run(args: &[&str]) -> String {
    match (args[0], args.len() - 1) {
        ("env", 0) => {
            let d = Options::default();
            let heap = match *d.gc_trigger {
                GCTriggerSelector::FixedHeapSize(s) => s,
                _ => 0,
            };
            // a RoundRobin core list is valid iff every core id is below the number of CPUs
            let ncpus = (0..=u16::MAX).find(|c| !AffinityKind::RoundRobin(vec![*c]).validate()).unwrap_or(u16::MAX);
            let mut probe = Options::default();
            let perf = probe.set_from_string("perf_exclude_kernel", "true");
            let wps = probe.set_from_string("work_perf_events", "");
            format!(
                "ncpus={ncpus} threads={} heap={heap} perf={perf} wps={wps} linux={}",
                *d.threads,
                cfg!(target_os = "linux")
            )
        }
        ("reset", 0) => O.with(|o| {
            *o.borrow_mut() = Options::default();
            dump(&o.borrow())
        }),
        ("set", 2) => {
            let (k, v) = (unhex(args[1]), unhex(args[2]));
            O.with(|o| {
                let r = o.borrow_mut().set_from_string(&k, &v);
                format!("{r} {}", dump(&o.borrow()))
            })
        }
        ("bulk", 1) => {
            let s = unhex(args[1]);
            // run on a copy: a panic must not leave the RefCell borrowed
            let mut copy = O.with(|o| o.borrow().clone());
            let r = std::panic::catch_unwind(std::panic::AssertUnwindSafe(|| copy.set_bulk_from_string(&s)));
            match r {
                Ok(b) => {
                    O.with(|o| *o.borrow_mut() = copy);
                    O.with(|o| format!("{b} {}", dump(&o.borrow())))
                }
                Err(_) => {
                    // the options set before the unknown key stay set (the panic unwinds out of the loop)
                    O.with(|o| *o.borrow_mut() = copy);
                    O.with(|o| format!("panic {}", dump(&o.borrow())))
                }
            }
        }
        ("trigger", 1) => unhex(args[1]).parse::<GCTriggerSelector>().map(|t| trigger(&t)).unwrap_or("err".into()),
        ("nursery", 1) => unhex(args[1]).parse::<NurserySize>().map(|t| nursery(&t)).unwrap_or("err".into()),
        ("cpulist", 1) => unhex(args[1]).parse::<AffinityKind>().map(|t| affinity(&t)).unwrap_or("err".into()),
        _ => "bad-op".to_string(),
    }
}
