//! C35: mark-sweep size classes. `bins <op> <args…>`.
//!   consts                → MAX_BIN MI_BIN_FULL MAX_BIN_SIZE MI_LARGE_OBJ_SIZE_MAX Block::BYTES MI_INTPTR_SIZE MIN_ALIGNMENT MAX_ALIGNMENT
//!   table                 → the 49 cell sizes
//!   from_size <size>      → mi_bin_from_size(size)
//!   bin <size> <align>    → mi_bin::<VM>(size, align)
//!   scanfs <lo> <hi>      → run-length encoded mi_bin_from_size over every size in lo..=hi
//!   scan <align> <lo> <hi>→ run-length encoded mi_bin::<VM>(size, align) over every size in lo..=hi
//!   block <size> <align>  → a real allocation by a fresh FreeListAllocator (fresh block): geometry
use crate::proto::*;
use crate::VerifVM;
use mmtk::util::{Address, OpaquePointer, VMMutatorThread, VMThread};
use mmtk::verif;
use mmtk::vm::VMBinding;

/// Run-length encode tokens: `tok*count` joined by `,`.
fn rle(toks: impl Iterator<Item = String>) -> String {
    let mut out: Vec<(String, usize)> = vec![];
    for t in toks {
        match out.last_mut() {
            Some((p, n)) if *p == t => *n += 1,
            _ => out.push((t, 1)),
        }
    }
    out.iter().map(|(t, n)| format!("{t}*{n}")).collect::<Vec<_>>().join(",")
}

/// Drop the ` # detail` suffix `guarded` may append.
fn short(s: String) -> String {
    s.split(" #").next().unwrap().to_string()
}

/// Arithmetic runs of a sequence: `first:stride:count` (stride as a signed decimal), joined by `,`.
fn runs(xs: &[usize]) -> String {
    let mut out = vec![];
    let mut i = 0;
    while i < xs.len() {
        if i + 1 == xs.len() {
            out.push(format!("{}:0:1", xs[i]));
            break;
        }
        let d = xs[i + 1] as i64 - xs[i] as i64;
        let mut j = i + 1;
        while j + 1 < xs.len() && xs[j + 1] as i64 - xs[j] as i64 == d {
            j += 1;
        }
        out.push(format!("{}:{}:{}", xs[i], d, j - i + 1));
        i = j + 1;
    }
    if out.is_empty() {
        "-".to_string()
    } else {
        out.join(",")
    }
}

fn block(size: usize, align: usize) -> String {
    let mmtk = super::inst::mmtk("MarkSweep");
    // a fresh mutator ⇒ empty local block lists ⇒ the allocation initialises a fresh block
    let tls = VMMutatorThread(VMThread(OpaquePointer::from_address(unsafe { Address::from_usize(0x1000) })));
    let mut mutator = mmtk::memory_manager::bind_mutator(mmtk, tls);
    let res = mmtk::memory_manager::alloc(&mut mutator, size, align, 0, mmtk::AllocationSemantics::Default);
    if res.is_zero() {
        return "null".to_string();
    }
    let (start, cs, free) = verif::misc::msbins::block_geometry(res, 1 << 20);
    let rel: Vec<usize> = free.iter().map(|c| c.wrapping_sub(start)).collect();
    // zeroed grant?
    let zero = (0..size / 8).all(|i| unsafe { (res + i * 8).load::<usize>() } == 0);
    std::mem::forget(mutator);
    format!(
        "cs={cs} res={} nfree={} free={} zero={zero} startmod={}",
        res.as_usize().wrapping_sub(start),
        rel.len(),
        runs(&rel),
        start % 65536
    )
}

pub fn run(args: &[&str]) -> String {
    let n: Vec<usize> = args[1..].iter().map(|s| unum(s)).collect();
    match (args[0], n.as_slice()) {
        ("consts", []) => {
            let (a, b, c, d, e) = verif::mi_consts();
            format!(
                "{a} {b} {c} {d} {e} {} {} {}",
                verif::misc::msbins::intptr_size(),
                VerifVM::MIN_ALIGNMENT,
                VerifVM::MAX_ALIGNMENT
            )
        }
        ("table", []) => verif::mi_bin_sizes().iter().map(|s| s.to_string()).collect::<Vec<_>>().join(" "),
        ("from_size", [s]) => verif::mi_bin_from_size(*s).to_string(),
        ("bin", [s, a]) => verif::mi_bin::<VerifVM>(*s, *a).to_string(),
        ("scanfs", [lo, hi]) => rle((*lo..=*hi).map(|s| short(guarded(|| verif::mi_bin_from_size(s).to_string())))),
        ("scan", [a, lo, hi]) => {
            rle((*lo..=*hi).map(|s| short(guarded(|| verif::mi_bin::<VerifVM>(s, *a).to_string()))))
        }
        ("block", [s, a]) => block(*s, *a),
        _ => "bad-op".to_string(),
    }
}
