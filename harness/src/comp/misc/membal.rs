//! C38: heap-size trigger policies. `membal <op> <args…>` on one thread-local trigger.
//!   new <min> <max>         → a fresh MemBalancerTrigger
//!   newfixed <pages>        → a fresh FixedHeapSizeTrigger
//!   stats <8 tokens>        → overwrite the f64 statistics; token = `none` or the f64's bits (0x…);
//!                             order: alloc_pages_prev alloc_time_prev coll_pages_prev coll_time_prev
//!                                    alloc_pages alloc_time coll_pages coll_time
//!   pending <pages>         → GCTriggerPolicy::on_pending_allocation
//!   compute <live> <extra>  → compute_new_heap_limit(live, extra, stats) as on_gc_end calls it
//!   ev_start|ev_release|ev_end → the real on_gc_start/release/end with the process's MMTk instance
//!                             (a plan that has allocated nothing: reserved pages 0)
//!   obs                     → observation only
//!                             the two wall-clock-derived statistics are normalised to 0 afterwards
//! Every op answers with the observation line (or `panic:*`).
use crate::proto::*;
use crate::VerifVM;
use mmtk::util::heap::GCTriggerPolicy;
use mmtk::verif::misc::membal as hook;
use std::cell::RefCell;

enum Trig {
    Mem(hook::MemBalancerTrigger),
    Fixed(hook::FixedHeapSizeTrigger),
}

thread_local! {
    static T: RefCell<Option<Trig>> = const { RefCell::new(None) };
}

/// Bit pattern of an `f64`; every NaN is printed as the canonical quiet NaN (payloads are not part
/// of the protocol: the model's `Float.toBits` canonicalises them).
fn bits(x: f64) -> String {
    if x.is_nan() {
        "0x7ff8000000000000".to_string()
    } else {
        format!("{:#x}", x.to_bits())
    }
}

fn obs(t: &Trig, with_stats: bool) -> String {
    match t {
        Trig::Mem(m) => {
            let (cur, max, grow) = hook::observe::<VerifVM>(m);
            let (fmin, fmax, fcur, pend) = hook::membalancer_fields(m);
            let mut s = format!("cur={cur} max={max} grow={grow} min={fmin} fmax={fmax} fcur={fcur} pend={pend}");
            if with_stats {
                let (prev, now) = hook::membalancer_get_stats(m);
                let p: Vec<String> = prev.iter().map(|o| o.map(bits).unwrap_or("none".into())).collect();
                let n: Vec<String> = now.iter().map(|x| bits(*x)).collect();
                s += &format!(" stats={},{}", p.join(","), n.join(","));
            }
            s
        }
        Trig::Fixed(f) => {
            let (cur, max, grow) = hook::observe::<VerifVM>(f);
            format!("cur={cur} max={max} grow={grow}")
        }
    }
}

fn policy(t: &Trig) -> &dyn GCTriggerPolicy<VerifVM> {
    match t {
        Trig::Mem(m) => m,
        Trig::Fixed(f) => f,
    }
}

fn f64tok(s: &str) -> f64 {
    f64::from_bits(num(s))
}

pub fn run(args: &[&str]) -> String {
    match (args[0], args.len() - 1) {
        ("new", 2) => {
            let t = Trig::Mem(hook::membalancer_new(unum(args[1]), unum(args[2])));
            let o = obs(&t, true);
            T.with(|c| *c.borrow_mut() = Some(t));
            return o;
        }
        ("newfixed", 1) => {
            let t = Trig::Fixed(hook::fixed_new(unum(args[1])));
            let o = obs(&t, false);
            T.with(|c| *c.borrow_mut() = Some(t));
            return o;
        }
        _ => {}
    }
    // A panic inside an op must not leave the RefCell borrowed: take the trigger out while running.
    let t = T.with(|c| c.borrow_mut().take());
    let Some(t) = t else { return "no-trigger".to_string() };
    let r = guarded(|| match (args[0], args.len() - 1, &t) {
        ("stats", 8, Trig::Mem(m)) => {
            let opt = |s: &str| if s == "none" { None } else { Some(f64tok(s)) };
            hook::membalancer_set_stats(
                m,
                (
                    [opt(args[1]), opt(args[2]), opt(args[3]), opt(args[4])],
                    [f64tok(args[5]), f64tok(args[6]), f64tok(args[7]), f64tok(args[8])],
                ),
            );
            obs(&t, true)
        }
        ("pending", 1, _) => {
            hook::on_pending_allocation::<VerifVM>(policy(&t), unum(args[1]));
            obs(&t, false)
        }
        ("compute", 2, Trig::Mem(m)) => {
            hook::membalancer_compute(m, unum(args[1]), unum(args[2]));
            obs(&t, true)
        }
        ("ev_start" | "ev_release" | "ev_end", 0, _) => {
            let mmtk = super::inst::mmtk("MarkSweep");
            if hook::plan_pages(mmtk) != (0, 0) {
                return format!("plan-pages-nonzero {:?}", hook::plan_pages(mmtk));
            }
            let which = match args[0] {
                "ev_start" => 0,
                "ev_release" => 1,
                _ => 2,
            };
            hook::on_gc_event::<VerifVM>(policy(&t), mmtk, which);
            // wall-clock durations are not reproducible: normalise the two fields the handlers
            // derive from `Instant::now()` (everything else they write is kept and compared)
            if let Trig::Mem(m) = &t {
                let (mut prev, mut now) = hook::membalancer_get_stats(m);
                match which {
                    0 => now[1] = 0.0,           // allocation_time += gc_start - gc_end
                    2 => prev[3] = Some(0.0),    // collection_time += gc_end - gc_start, then rotated into *_prev
                    _ => {}
                }
                hook::membalancer_set_stats(m, (prev, now));
            }
            obs(&t, true)
        }
        ("obs", 0, _) => obs(&t, false),
        _ => "bad-op".to_string(),
    });
    // After a panic inside compute the AtomicRefCell of the real trigger stays borrowed (poisoned);
    // the history ends there: drop the trigger.
    if !r.starts_with("panic") {
        T.with(|c| *c.borrow_mut() = Some(t));
    } else {
        std::mem::forget(t);
    }
    r
}
