//! One real MMTk instance per process, created lazily by the first component that needs one
//! (mmtk-core supports a single instance per process). Unit components never start GC threads.
use crate::VerifVM;
use mmtk::util::options::{GCTriggerSelector, PlanSelector};
use mmtk::{MMTKBuilder, MMTK};
use std::sync::OnceLock;

static INSTANCE: OnceLock<(String, &'static MMTK<VerifVM>)> = OnceLock::new();

/// The process-wide MMTk instance running `plan`; panics if another plan was already instantiated.
pub fn mmtk(plan: &str) -> &'static MMTK<VerifVM> {
    let (p, m) = INSTANCE.get_or_init(|| {
        let mut builder = MMTKBuilder::new_no_env_vars();
        let sel = match plan {
            "MarkSweep" => PlanSelector::MarkSweep,
            "Compressor" => PlanSelector::Compressor,
            "NoGC" => PlanSelector::NoGC,
            other => panic!("inst: unknown plan {other}"),
        };
        assert!(builder.options.plan.set(sel));
        assert!(builder.options.threads.set(1));
        assert!(builder
            .options
            .gc_trigger
            .set(GCTriggerSelector::FixedHeapSize(4usize << 30)));
        let m: &'static MMTK<VerifVM> = Box::leak(mmtk::memory_manager::mmtk_init::<VerifVM>(&builder));
        (plan.to_string(), m)
    });
    assert!(p == plan, "inst: this process already runs plan {p}, asked for {plan}");
    m
}
