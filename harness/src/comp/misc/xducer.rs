//! C37: Compressor forwarding. One op = one layout in a real region with real mark bits:
//!   xducer run <cursor_blocks> <nobj> <s1> <n1> … <sk> <nk> <p1> … <pm>
//! object `i` starts at word offset `s_i` of the region and is `n_i` words long (first and last
//! word get a mark bit; any layout, also malformed ones); `p_j` are extra probe word offsets.
//! Output: `ov=<offset vector entries - region start> fwd=<forward(start_i) - region start> probe=<…>`
use crate::proto::*;
use crate::VerifVM;
use mmtk::util::{Address, OpaquePointer, VMMutatorThread, VMThread};
use mmtk::verif::misc::xducer as hook;
use std::sync::OnceLock;

static REGION: OnceLock<usize> = OnceLock::new();

/// A real 1 MiB-aligned region of heap address space with the Compressor's side metadata mapped.
/// The Compressor *plan* cannot be instantiated with VerifVM (it asserts a unified object-reference
/// address model; VerifVM's references are `start + 8`), so the region is carved out of a
/// large-object allocation of the MarkSweep instance and the two compressor tables are mapped for it
/// by the hook, exactly as `CompressorSpace`'s `SideMetadataContext` would.
fn region() -> Address {
    let r = *REGION.get_or_init(|| {
        let mmtk = super::inst::mmtk("MarkSweep");
        let tls = VMMutatorThread(VMThread(OpaquePointer::from_address(unsafe { Address::from_usize(0x1000) })));
        let mut mutator = mmtk::memory_manager::bind_mutator(mmtk, tls);
        let a = mmtk::memory_manager::alloc(&mut mutator, 2 * hook::REGION_BYTES, 8, 0, mmtk::AllocationSemantics::Los);
        assert!(!a.is_zero());
        std::mem::forget(mutator);
        let r = (a.as_usize() + hook::REGION_BYTES - 1) & !(hook::REGION_BYTES - 1);
        hook::map_metadata(unsafe { Address::from_usize(r) }, hook::REGION_BYTES);
        r
    });
    unsafe { Address::from_usize(r) }
}

fn list(xs: &[usize]) -> String {
    if xs.is_empty() {
        "-".to_string()
    } else {
        xs.iter().map(|x| x.to_string()).collect::<Vec<_>>().join(",")
    }
}

pub fn run(args: &[&str]) -> String {
    if args.is_empty() || args[0] != "run" || args.len() < 3 {
        return "bad-op".to_string();
    }
    let n: Vec<usize> = args[1..].iter().map(|s| unum(s)).collect();
    let (cursor_blocks, nobj) = (n[0], n[1]);
    if n.len() < 2 + 2 * nobj || cursor_blocks * hook::BLOCK_BYTES > hook::REGION_BYTES {
        return "bad-op".to_string();
    }
    let objs: Vec<(usize, usize)> = (0..nobj).map(|i| (n[2 + 2 * i], n[3 + 2 * i])).collect();
    let probes = &n[2 + 2 * nobj..];
    let words = hook::REGION_BYTES / 8;
    if objs.iter().any(|(s, k)| *k == 0 || s + k > words) || probes.iter().any(|p| *p >= words) {
        return "bad-op".to_string();
    }
    let r = region();
    hook::clear(r, hook::REGION_BYTES);
    for (s, k) in &objs {
        hook::set_mark(r + s * 8);
        hook::set_mark(r + (s + k - 1) * 8);
    }
    // results relative to the region start; beyond the cursor the offset vector is stale/zero and
    // `forward` returns an address below the region, which depends on where the region lies: `stale`
    let rel = |a: Address| if a < r { "stale".to_string() } else { (a - r).to_string() };
    let fwd = hook::Fwd::<VerifVM>::new();
    fwd.calculate_offset_vector(r, r + cursor_blocks * hook::BLOCK_BYTES);
    let ov: Vec<usize> = (0..cursor_blocks)
        .map(|b| hook::offset_entry(r + b * hook::BLOCK_BYTES).wrapping_sub(r.as_usize()))
        .collect();
    let f: Vec<String> = objs.iter().map(|(s, _)| rel(fwd.forward(r + s * 8))).collect();
    let p: Vec<String> = probes.iter().map(|p| rel(fwd.forward(r + p * 8))).collect();
    fwd.release();
    let strs = |v: &[String]| if v.is_empty() { "-".to_string() } else { v.join(",") };
    format!("ov={} fwd={} probe={}", list(&ov), strs(&f), strs(&p))
}
