//! C37: Compressor forwarding. One op = one layout in a real region with real mark bits:
//!   xducer run <cursor_blocks> <nobj> <s1> <n1> … <sk> <nk> <p1> … <pm>
//! object `i` starts at word offset `s_i` of the region and is `n_i` words long (first and last
//! word get a mark bit; any layout, also malformed ones); `p_j` are extra probe word offsets.
//! Output: `ov=<offset vector entries - region start> fwd=<forward(start_i) - region start> probe=<…>`
use crate::proto::*;
use crate::VerifVM;
use mmtk::util::{Address, OpaquePointer, VMMutatorThread, VMThread};
use mmtk::verif::misc::xducer as hook;
use std::sync::OnceLock;

static REGION: OnceLock<usize> = OnceLock::new();

/// Two adjacent real 1 MiB-aligned regions (`run` uses the first) of heap address space with the Compressor's side metadata mapped.
/// The Compressor *plan* cannot be instantiated with VerifVM (it asserts a unified object-reference
/// address model; VerifVM's references are `start + 8`), so the region is carved out of a
/// large-object allocation of the MarkSweep instance and the two compressor tables are mapped for it
/// by the hook, exactly as `CompressorSpace`'s `SideMetadataContext` would.
fn region() -> Address {
    let r = *REGION.get_or_init(|| {
        let mmtk = super::inst::mmtk("MarkSweep");
        let tls = VMMutatorThread(VMThread(OpaquePointer::from_address(unsafe { Address::from_usize(0x1000) })));
        let mut mutator = mmtk::memory_manager::bind_mutator(mmtk, tls);
        let a = mmtk::memory_manager::alloc(&mut mutator, 3 * hook::REGION_BYTES, 8, 0, mmtk::AllocationSemantics::Los);
        assert!(!a.is_zero());
        std::mem::forget(mutator);
        let r = (a.as_usize() + hook::REGION_BYTES - 1) & !(hook::REGION_BYTES - 1);
        hook::map_metadata(unsafe { Address::from_usize(r) }, 2 * hook::REGION_BYTES);
        r
    });
    unsafe { Address::from_usize(r) }
}

fn list(xs: &[usize]) -> String {
    if xs.is_empty() {
        "-".to_string()
    } else {
        xs.iter().map(|x| x.to_string()).collect::<Vec<_>>().join(",")
    }
}

/// `xducer run2 <nA> <sA nA>… <cursor_blocks_B> <nB> <sB nB>…`: region A is FULL (cursor = A.end),
/// region B is the address-adjacent next region; B's offset vector is calculated first, then A's
/// (the order two workers may run the per-region packets in), then every object start of both
/// regions is forwarded. Output `fwdA=… fwdB=…`, each relative to its own region start.
fn run2(args: &[&str]) -> String {
    let n: Vec<usize> = args.iter().map(|s| unum(s)).collect();
    let words = hook::REGION_BYTES / 8;
    let mut i = 0;
    let mut take = |cnt: usize, i: &mut usize| -> Option<Vec<(usize, usize)>> {
        if n.len() < *i + 2 * cnt { return None; }
        let v = (0..cnt).map(|k| (n[*i + 2 * k], n[*i + 2 * k + 1])).collect();
        *i += 2 * cnt;
        Some(v)
    };
    if n.is_empty() { return "bad-op".to_string(); }
    let na = n[0]; i += 1;
    let Some(a) = take(na, &mut i) else { return "bad-op".to_string() };
    if n.len() < i + 2 { return "bad-op".to_string(); }
    let (cb, nb) = (n[i], n[i + 1]); i += 2;
    let Some(b) = take(nb, &mut i) else { return "bad-op".to_string() };
    if i != n.len() || cb * hook::BLOCK_BYTES > hook::REGION_BYTES
        || a.iter().chain(b.iter()).any(|(s, k)| *k == 0 || s + k > words) {
        return "bad-op".to_string();
    }
    let ra = region();
    let rb = ra + hook::REGION_BYTES;
    hook::clear(ra, 2 * hook::REGION_BYTES);
    for (r, objs) in [(ra, &a), (rb, &b)] {
        for (s, k) in objs.iter() {
            hook::set_mark(r + s * 8);
            hook::set_mark(r + (s + k - 1) * 8);
        }
    }
    let fwd = hook::Fwd::<VerifVM>::new();
    fwd.calculate_offset_vector(rb, rb + cb * hook::BLOCK_BYTES);
    fwd.calculate_offset_vector(ra, ra + hook::REGION_BYTES);
    let rel = |r: Address, x: Address| if x < r { "stale".to_string() } else { (x - r).to_string() };
    let fa: Vec<String> = a.iter().map(|(s, _)| rel(ra, fwd.forward(ra + s * 8))).collect();
    let fb: Vec<String> = b.iter().map(|(s, _)| rel(rb, fwd.forward(rb + s * 8))).collect();
    fwd.release();
    let strs = |v: &[String]| if v.is_empty() { "-".to_string() } else { v.join(",") };
    format!("fwdA={} fwdB={}", strs(&fa), strs(&fb))
}

pub fn run(args: &[&str]) -> String {
    if !args.is_empty() && args[0] == "run2" {
        return run2(&args[1..]);
    }
    if args.is_empty() || args[0] != "run" || args.len() < 3 {
        return "bad-op".to_string();
    }
    let n: Vec<usize> = args[1..].iter().map(|s| unum(s)).collect();
    let (cursor_blocks, nobj) = (n[0], n[1]);
    if n.len() < 2 + 2 * nobj || cursor_blocks * hook::BLOCK_BYTES > hook::REGION_BYTES {
        return "bad-op".to_string();
    }
    let objs: Vec<(usize, usize)> = (0..nobj).map(|i| (n[2 + 2 * i], n[3 + 2 * i])).collect();
    let probes = &n[2 + 2 * nobj..];
    let words = hook::REGION_BYTES / 8;
    if objs.iter().any(|(s, k)| *k == 0 || s + k > words) || probes.iter().any(|p| *p >= words) {
        return "bad-op".to_string();
    }
    let r = region();
    hook::clear(r, hook::REGION_BYTES);
    for (s, k) in &objs {
        hook::set_mark(r + s * 8);
        hook::set_mark(r + (s + k - 1) * 8);
    }
    // results relative to the region start; beyond the cursor the offset vector is stale/zero and
    // `forward` returns an address below the region, which depends on where the region lies: `stale`
    let rel = |a: Address| if a < r { "stale".to_string() } else { (a - r).to_string() };
    let fwd = hook::Fwd::<VerifVM>::new();
    fwd.calculate_offset_vector(r, r + cursor_blocks * hook::BLOCK_BYTES);
    let ov: Vec<usize> = (0..cursor_blocks)
        .map(|b| hook::offset_entry(r + b * hook::BLOCK_BYTES).wrapping_sub(r.as_usize()))
        .collect();
    let f: Vec<String> = objs.iter().map(|(s, _)| rel(fwd.forward(r + s * 8))).collect();
    let p: Vec<String> = probes.iter().map(|p| rel(fwd.forward(r + p * 8))).collect();
    fwd.release();
    let strs = |v: &[String]| if v.is_empty() { "-".to_string() } else { v.join(",") };
    format!("ov={} fwd={} probe={}", list(&ov), strs(&f), strs(&p))
}
