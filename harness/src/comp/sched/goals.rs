//! `WorkerGoals` (scheduler/worker_goals.rs): request set + current goal, priority Gc > Shutdown > StopForFork.
//!   goals new | set <g> | poll | current | complete | isreq <g>      (g: 0 Gc, 1 Shutdown, 2 StopForFork)
use crate::proto::*;
use std::cell::RefCell;

thread_local! {
    static G: RefCell<mmtk::verif::sched::Goals> = RefCell::new(mmtk::verif::sched::Goals::new());
}

fn show(g: Option<usize>) -> String {
    g.map(|x| x.to_string()).unwrap_or_else(|| "none".to_string())
}

pub fn run(args: &[&str]) -> String {
    G.with(|g| {
        let mut g = g.borrow_mut();
        match args[0] {
            "new" => {
                *g = mmtk::verif::sched::Goals::new();
                "ok".to_string()
            }
            "set" => g.set_request(unum(args[1])).to_string(),
            "poll" => show(g.poll_next_goal()),
            "current" => show(g.current()),
            "complete" => {
                g.complete();
                "ok".to_string()
            }
            "isreq" => g.is_requested(unum(args[1])).to_string(),
            _ => "bad-op".to_string(),
        }
    })
}
