//! package `sched`: unit components of the work-packet scheduler (the whole-GC tie is `hx_gc` + `schedm`)
pub mod goals;

pub fn dispatch(tokens: &[&str]) -> Option<String> {
    let (c, args) = tokens.split_first()?;
    Some(match *c {
        "goals" => goals::run(args),
        _ => return None,
    })
}
