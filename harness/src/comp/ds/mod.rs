//! package `ds` (see CONVENTIONS.md): register components here.
pub mod fl;
pub mod tread;

pub fn dispatch(tokens: &[&str]) -> Option<String> {
    let (c, args) = tokens.split_first()?;
    Some(match *c {
        "fl" => fl::run(args),
        "tread" => tread::run(args),
        _ => return None,
    })
}
