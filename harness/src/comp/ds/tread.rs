//! C36: the large-object treadmill.  `tread <op> <args…>` drives a real `util::treadmill::TreadMill`.
//!
//! Objects are fake `ObjectReference`s: object id `i` ↦ address `(i + 1) * 8` — non-zero,
//! word-aligned and in the never-mapped first pages of the address space, so a dereference by the
//! treadmill would crash the process (it never does: it only hashes and compares them).
//!
//! Every op answers `<result> | F=[…] T=[…] C=[…] A=[…]` with the sorted ids of from_space,
//! to_space, collect_nursery, alloc_nursery after the op; `collect_*` results are sorted id lists.
use crate::proto::*;
use mmtk::util::{Address, ObjectReference};
use mmtk::verif::ds::TreadMill;
use std::cell::RefCell;

thread_local! {
    static TM: RefCell<Option<TreadMill>> = const { RefCell::new(None) };
}

fn obj(id: usize) -> ObjectReference {
    ObjectReference::from_raw_address(unsafe { Address::from_usize((id + 1) << 3) }).unwrap()
}

fn id(o: ObjectReference) -> usize {
    (o.to_raw_address().as_usize() >> 3) - 1
}

fn show(v: impl IntoIterator<Item = ObjectReference>) -> String {
    let mut ids: Vec<usize> = v.into_iter().map(id).collect();
    ids.sort_unstable();
    format!("[{}]", ids.iter().map(|x| x.to_string()).collect::<Vec<_>>().join(","))
}

fn sets(t: &TreadMill) -> String {
    let [f, to, c, a] = t.verif_sets();
    format!("F={} T={} C={} A={}", show(f), show(to), show(c), show(a))
}

pub fn run(args: &[&str]) -> String {
    TM.with(|cell| {
        let mut guard = cell.borrow_mut();
        if args[0] == "new" {
            *guard = Some(TreadMill::new());
            return format!("ok | {}", sets(guard.as_ref().unwrap()));
        }
        let t = match guard.as_mut() {
            Some(t) => t,
            None => return "bad-op no-treadmill".to_string(),
        };
        let b = |s: &str| unum(s) != 0;
        let res = match args[0] {
            "add" => {
                t.add_to_treadmill(obj(unum(args[1])), b(args[2]));
                "ok".to_string()
            }
            "flip" => {
                t.flip(b(args[1]));
                "ok".to_string()
            }
            "copy" => {
                t.copy(obj(unum(args[1])), b(args[2]));
                "ok".to_string()
            }
            "collect_nursery" => show(t.collect_nursery()),
            "collect_mature" => show(t.collect_mature()),
            "empties" => format!(
                "{} {} {} {}",
                t.is_from_space_empty(),
                t.is_to_space_empty(),
                t.is_collect_nursery_empty(),
                t.is_alloc_nursery_empty()
            ),
            other => return format!("bad-op {other}"),
        };
        format!("{res} | {}", sets(t))
    })
}
