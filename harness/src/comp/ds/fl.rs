//! C26 / C27: the generic free list on its two implementations.
//!
//! `fl new ia <units> <grain> <heads>`            IntArrayFreeList::new (child lists share its table)
//! `fl new rm <units> <grain> <heads> <ppb> <limit_pages>`   RawMemoryFreeList::new over a private window
//! `fl alloc <k> <n>` · `fl afu <k> <n> <unit>` · `fl free <k> <unit> <rcs>`   through the list with
//!        head `-(1+k)` (k = 0: the parent; k ≥ 1: `IntArrayFreeList::from_parent(parent, k)`,
//!        for `rm` the pub field `head` is set)
//! `fl size <unit>` · `fl setunc <unit>` · `fl clrunc <unit>` · `fl info <k> <unit>` · `fl dump`
//! `fl resize <k> <units> <grain>` (ia) · `fl grow <units>` · `fl fields` (rm)
//! `fl map64 <space> <units> <grain>`: parameters Map64::create_parent_freelist hands to the list
//!
//! Any panic drops the list (later ops answer `bad-op no-list` until the next `new`): a panic in
//! the middle of an operation leaves the table half-updated, which is outside the property.
use crate::proto::*;
use mmtk::util::Address;
use mmtk::verif::ds::{FreeList, IntArrayFreeList, RawMemoryFreeList};
use std::cell::RefCell;
use std::panic::{catch_unwind, resume_unwind, AssertUnwindSafe};

const WINDOW: usize = 256 << 20;
const BASE_OFF: usize = 64 << 20;

enum L {
    Ia {
        parent: Box<IntArrayFreeList>,
        kids: Vec<Option<IntArrayFreeList>>,
    },
    Rm(Box<RawMemoryFreeList>),
}

thread_local! {
    static ST: RefCell<Option<L>> = const { RefCell::new(None) };
    static WIN: RefCell<usize> = const { RefCell::new(0) };
}

/// Reserve (once) and reset (every `new rm`) the private address window: PROT_NONE, so only what
/// the free list maps itself is accessible; anything it touches outside its own mappings faults.
fn window() -> usize {
    WIN.with(|w| {
        let mut w = w.borrow_mut();
        unsafe {
            if *w == 0 {
                let p = libc::mmap(
                    std::ptr::null_mut(),
                    WINDOW,
                    libc::PROT_NONE,
                    libc::MAP_PRIVATE | libc::MAP_ANONYMOUS | libc::MAP_NORESERVE,
                    -1,
                    0,
                );
                assert!(p != libc::MAP_FAILED);
                *w = p as usize;
            } else {
                let p = libc::mmap(
                    *w as *mut libc::c_void,
                    WINDOW,
                    libc::PROT_NONE,
                    libc::MAP_PRIVATE | libc::MAP_ANONYMOUS | libc::MAP_NORESERVE | libc::MAP_FIXED,
                    -1,
                    0,
                );
                assert!(p as usize == *w);
            }
        }
        *w
    })
}

fn with_list<R>(l: &mut L, k: i32, f: impl FnOnce(&mut dyn FreeList) -> R) -> R {
    match l {
        L::Ia { parent, kids } => {
            if k == 0 {
                f(parent.as_mut())
            } else {
                let k = k as usize;
                if kids.len() <= k {
                    kids.resize_with(k + 1, || None);
                }
                if kids[k].is_none() {
                    kids[k] = Some(IntArrayFreeList::from_parent(parent, k as i32));
                }
                f(kids[k].as_mut().unwrap())
            }
        }
        L::Rm(rm) => {
            rm.head = -(1 + k);
            let r = f(rm.as_mut());
            rm.head = -1;
            r
        }
    }
}

fn dump(l: &L) -> String {
    let t: &[i32] = match l {
        L::Ia { parent, .. } => parent.table.as_ref().unwrap(),
        L::Rm(rm) => rm.verif_table(),
    };
    // trailing zero entries (never-touched tail of the mapped table) are elided; `len` is exact
    let n = t.iter().rposition(|x| *x != 0).map_or(0, |p| p + 1);
    format!(
        "len={} [{}]",
        t.len(),
        t[..n].iter().map(|x| x.to_string()).collect::<Vec<_>>().join(",")
    )
}

fn op(l: &mut L, a: &[&str]) -> String {
    let i = |s: &str| inum(s) as i32;
    match a[0] {
        "alloc" => with_list(l, i(a[1]), |f| f.alloc(i(a[2]))).to_string(),
        "afu" => with_list(l, i(a[1]), |f| f.alloc_from_unit(i(a[2]), i(a[3]))).to_string(),
        "free" => with_list(l, i(a[1]), |f| f.free(i(a[2]), i(a[3]) != 0)).to_string(),
        "size" => with_list(l, 0, |f| f.size(i(a[1]))).to_string(),
        "setunc" => {
            with_list(l, 0, |f| f.set_uncoalescable(i(a[1])));
            "ok".into()
        }
        "clrunc" => {
            with_list(l, 0, |f| f.clear_uncoalescable(i(a[1])));
            "ok".into()
        }
        "info" => with_list(l, i(a[1]), |f| {
            let u = i(a[2]);
            format!(
                "free={} size={} coal={} multi={} left={} right={} next={} prev={}",
                f.get_free(u),
                f.get_size(u),
                f.is_coalescable(u),
                f.is_multi(u),
                f.get_left(u),
                f.get_right(u),
                f.get_next(u),
                f.get_prev(u)
            )
        }),
        "dump" => dump(l),
        "resize" => match l {
            L::Ia { .. } => {
                with_list(l, i(a[1]), |f| {
                    f.downcast_mut::<IntArrayFreeList>()
                        .unwrap()
                        .resize_freelist(unum(a[2]), i(a[3]))
                });
                "ok".into()
            }
            _ => "bad-op".into(),
        },
        "grow" => match l {
            L::Rm(rm) => rm.grow_freelist(i(a[1])).to_string(),
            _ => "bad-op".into(),
        },
        "fields" => match l {
            L::Rm(rm) => {
                let (base, limit, hw, max_units, grain, cur, ppb, len) = rm.verif_fields();
                format!(
                    "hw={} limit={} max={} grain={} cur={} ppb={} len={} cap={} upb={} uifb={}",
                    hw.as_usize().wrapping_sub(base.as_usize()),
                    limit.as_usize().wrapping_sub(base.as_usize()),
                    max_units,
                    grain,
                    cur,
                    ppb,
                    len,
                    rm.verif_current_capacity(),
                    rm.verif_units_per_block(),
                    rm.verif_units_in_first_block()
                )
            }
            _ => "bad-op".into(),
        },
        other => format!("bad-op {other}"),
    }
}

pub fn run(a: &[&str]) -> String {
    let i = |s: &str| inum(s) as i32;
    if a[0] == "map64" {
        // space index, units (pages), grain
        let start = unsafe { Address::from_usize(unum(a[1]) << 41) };
        let (base, limit, max_units, grain, heads, ppb, disp) =
            mmtk::verif::ds::map64_parent_freelist_params(start, unum(a[2]), i(a[3]));
        return format!(
            "base={} limit={} max={} grain={} heads={} ppb={} disp={} sip={} dbs={}",
            base - start.as_usize(),
            limit - start.as_usize(),
            max_units,
            grain,
            heads,
            ppb,
            disp,
            RawMemoryFreeList::size_in_pages(max_units, heads),
            RawMemoryFreeList::default_block_size(max_units, heads)
        );
    }
    if a[0] == "new" {
        ST.with(|s| *s.borrow_mut() = None);
        let l = match a[1] {
            "ia" => L::Ia {
                parent: Box::new(IntArrayFreeList::new(unum(a[2]), i(a[3]), unum(a[4]))),
                kids: Vec::new(),
            },
            "rm" => {
                let base = window() + BASE_OFF;
                let (units, grain, heads) = (i(a[2]), i(a[3]), i(a[4]));
                // `-1` = the code's own derivation (what Map64::create_parent_freelist passes)
                let ppb = if a[5] == "-1" { RawMemoryFreeList::default_block_size(units, heads) } else { i(a[5]) };
                let limit_pages = if a[6] == "-1" { RawMemoryFreeList::size_in_pages(units, heads) as usize } else { unum(a[6]) };
                let b = unsafe { Address::from_usize(base) };
                L::Rm(Box::new(mmtk::verif::ds::new_raw_memory_freelist(
                    b,
                    b + (limit_pages << 12),
                    ppb,
                    units,
                    grain,
                    heads,
                )))
            }
            _ => return "bad-op".into(),
        };
        ST.with(|s| *s.borrow_mut() = Some(l));
        return "ok".into();
    }
    let taken = ST.with(|s| s.borrow_mut().take());
    let mut l = match taken {
        Some(l) => l,
        None => return "bad-op no-list".into(),
    };
    match catch_unwind(AssertUnwindSafe(|| op(&mut l, a))) {
        Ok(r) => {
            ST.with(|s| *s.borrow_mut() = Some(l));
            r
        }
        Err(p) => {
            std::mem::forget(l); // half-updated: never touched again
            resume_unwind(p)
        }
    }
}
