//! C28: a REAL contiguous `BlockPageResource<VerifVM, immix::Block>` (32 KiB blocks, 8 pages) on a private
//! space slot, allocated from by several real threads at once.
//!
//!   bpr race <threads> <rounds> <seed> <release_pct>
//!
//! One process-wide page resource (created on first use, slot 13 of the 64-bit layout, 8 GiB of address range).
//! Per round: (1) the block pool is drained by the calling thread (blocks are granted until the pool is empty), so
//! that (2) `threads` threads released by a barrier all miss the fast path of `alloc_pages` at the same time and meet
//! in `alloc_pages_slow_sync`: one grows the space by a chunk and refills the pool, the ones already waiting for the
//! mutex are served by its "retry fast allocation" branch. Each thread does what `Space::acquire` does for one
//! block: `reserve_pages(8)` + `get_new_pages(desc, 8, 8)`. After the last round `release_pct` percent of the blocks
//! granted by this op are given back with `release_block`. Yield points (incl. the one before the slow-path mutex)
//! are armed with `seed`.
//!
//! Answer (every field is determined by the arguments when the accounting is exact, except slow= / retry=):
//!   granted=<blocks granted by this op> failed=<requests refused> dup=<blocks granted twice>
//!   misaligned=<grants not 32 KiB aligned> outside=<grants outside the slot> badpages=<grants with pages != 8>
//!   res_mid=<reserved - 8*live before the releases> com_mid=<committed - 8*live …>
//!   released=<blocks released; none if res_mid / com_mid are not 0> res_end=<reserved - 8*live after them> com_end=<…>  slow=<entries into
//!   alloc_pages_slow_sync> retry=<of which served by the retry branch = slow - chunks grown>
//! where live = blocks granted and not released since the page resource was created (the deltas are printed as
//! signed numbers: 0 = exact).
use crate::proto::*;
use crate::VerifVM;
use mmtk::util::Address;
use mmtk::verif::gcfix::{bpr_slow_entries, UnitBpr};
use std::collections::HashSet;
use std::sync::{Arc, Barrier, Mutex, OnceLock};

const SLOT: usize = 13;
const CHUNKS: usize = 2048;

struct Shared {
    pr: UnitBpr<VerifVM>,
    live: Mutex<HashSet<usize>>,
}

static PR: OnceLock<Arc<Shared>> = OnceLock::new();

fn instance() -> Arc<Shared> {
    PR.get_or_init(|| {
        crate::ensure_mmtk();
        let start = unsafe { Address::from_usize(SLOT << 41) };
        Arc::new(Shared { pr: UnitBpr::new(start, CHUNKS, 1), live: Mutex::new(HashSet::new()) })
    })
    .clone()
}

pub fn run(args: &[&str]) -> String {
    if args.len() == 5 && args[0] == "race" {
        let (t, rounds, seed, pct) = (unum(args[1]), unum(args[2]), num(args[3]), unum(args[4]));
        if t == 0 || t > 32 || rounds == 0 || rounds > 64 || pct > 100 {
            return "bad-op".into();
        }
        return race(t, rounds, seed, pct);
    }
    "bad-op".into()
}

fn race(threads: usize, rounds: usize, seed: u64, pct: usize) -> String {
    let sh = instance();
    let pages = UnitBpr::<VerifVM>::PAGES as i64;
    let (start, extent) = sh.pr.range();
    let slow0 = bpr_slow_entries();
    let mut grants: Vec<(usize, usize, bool)> = vec![];
    let mut failed = 0usize;
    if sh.live.lock().unwrap().len() + (rounds + 1) * 128 > CHUNKS * 128 {
        return "err space-used-up".into();
    }
    for _ in 0..rounds {
        // (1) drain the pool
        while sh.pr.pool_len() > 0 {
            match sh.pr.acquire_block() {
                Some((a, n, nc)) => grants.push((a.as_usize(), n, nc)),
                None => failed += 1,
            }
        }
        // (2) all threads at once on the empty pool
        let barrier = Arc::new(Barrier::new(threads));
        mmtk::verif::gc::arm_yield(seed | 1);
        let hs: Vec<_> = (0..threads)
            .map(|i| {
                let (sh, barrier) = (sh.clone(), barrier.clone());
                std::thread::spawn(move || {
                    mmtk::verif::gc::set_tid(700 + i + (seed as usize % 977) * 64);
                    barrier.wait();
                    sh.pr.acquire_block().map(|(a, n, nc)| (a.as_usize(), n, nc))
                })
            })
            .collect();
        for h in hs {
            match h.join() {
                Ok(Some(g)) => grants.push(g),
                Ok(None) => failed += 1,
                Err(_) => {
                    mmtk::verif::gc::arm_yield(0);
                    return "panic".into();
                }
            }
        }
        mmtk::verif::gc::arm_yield(0);
    }
    let slow = bpr_slow_entries() - slow0;
    let grown = grants.iter().filter(|g| g.2).count();
    let mut live = sh.live.lock().unwrap();
    let (mut dup, mut misaligned, mut outside, mut badpages) = (0, 0, 0, 0);
    for (a, n, _) in &grants {
        if !live.insert(*a) {
            dup += 1;
        }
        if a % (1 << 15) != 0 {
            misaligned += 1;
        }
        if *a < start.as_usize() || a + (1 << 15) > start.as_usize() + extent {
            outside += 1;
        }
        if *n as i64 != pages {
            badpages += 1;
        }
    }
    let delta = |live_n: usize| {
        let (r, c) = sh.pr.counters();
        (r as i64 - pages * live_n as i64, c as i64 - pages * live_n as i64)
    };
    let (res_mid, com_mid) = delta(live.len());
    // releases: every k-th grant of this op (`BlockPool::push` needs a GC-worker ordinal: the pool was made for one worker)
    mmtk::verif::conc::bpool::set_worker_ordinal(0);
    let mut released = 0usize;
    let mut rel = |a: usize| {
        if live.remove(&a) {
            sh.pr.release_block(unsafe { Address::from_usize(a) });
            released += 1;
        }
    };
    let mut acc = 0usize;
    // (no release once the counters are off: `release_block` would only trip over its own debug assertion)
    for (a, _, _) in grants.iter().filter(|_| res_mid == 0 && com_mid == 0) {
        acc += pct;
        if acc >= 100 {
            acc -= 100;
            rel(*a);
        }
    }
    sh.pr.flush_all();
    let (res_end, com_end) = delta(live.len());
    format!(
        "granted={} failed={} dup={} misaligned={} outside={} badpages={} res_mid={} com_mid={} released={} res_end={} com_end={} slow={} retry={}",
        grants.len(), failed, dup, misaligned, outside, badpages, res_mid, com_mid, released, res_end, com_end, slow,
        slow as i64 - grown as i64
    )
}
