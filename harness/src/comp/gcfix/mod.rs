//! package `gcfix`: strengthened whole-collector checks. C28 (`bpr …`: real-thread race on a private
//! BlockPageResource, see bpr.rs).
pub mod bpr;

pub fn dispatch(tokens: &[&str]) -> Option<String> {
    let (c, args) = tokens.split_first()?;
    Some(match *c {
        "bpr" => bpr::run(args),
        _ => return None,
    })
}
