//! C17 / C18: races on a GROUP of objects whose side-metadata fields share ONE metadata byte.
//!
//! The single-object races of `cell.rs` put every thread on one object. Here `k` ∈ {2,4,8} adjacent
//! 8-byte-spaced objects (slots `0..k-1` of `cell.rs`; layout 0 = everything on the side) are raced at the
//! same moment: 1-bit specs (mark / log / pin) keep 8 objects in one metadata byte, the 2-bit forwarding
//! bits 4 objects (`k = 8`: two bytes, four objects each); the 2-bit LOS mark/nursery field is per 4 KiB
//! page, so the LOS group is `k ≤ 4` objects one page apart (`WIN + 0x40 + 4096·j`; `j = 1` is slot 0).
//! `T` persistent OS threads run `rounds` rounds; in each round every thread works through ALL objects
//! of the group, thread `t` starting at object `t mod k` (rotation), after a spinning rendezvous, so
//! that threads are inside the byte-wide compare-exchange of DIFFERENT objects of the SAME byte at the
//! same time. Every callee is the real mmtk-core function (see `cell.rs`).
//!
//!   fwd mrace copy|immix <T> <seed> <k> <rounds> <declinemask>
//!        → rounds joined by ` ;; `, objects by ` ; `; object = `r=<ref>,… copies=<n> q=<ref>,… | <cell of that object>`
//!   casbit mrace mark|immix|los|log|pin|unpin <T> <seed> <k> <rounds> <arg> <nursery>
//!        → same shape; object = `t=<#true> f=<#false> | <cell of that object>`
//!
//! The template (`cell set 0 0 <w0> <w1> <w2> <mf> <mm> <mg> <mp> <ml>`) gives, for every round, the
//! initial value of the forwarding-pointer words (`w0`) and of the five metadata bytes — i.e. the
//! initial field of EVERY object of the group and the bits of the objects that are not raced.
//! `<seed>` 0 leaves the yield points unarmed (pure real parallelism). The copy made by thread `t` of
//! object `j` is `new:<1 + 64·j + t>`. A race that does not finish within 10 s answers `hang` (and so does every later
//! group race of the process: the stuck threads cannot be killed).
use super::cell::{addr, cas_call, init, new_addr, obj_addr, oref, rd64, rd8, side_specs, trace_copy, trace_immix, wr64, wr8, NEW, ST, WIN};
use super::vms::{CVm, COPIES_AT, NEXT_COPY};
use crate::proto::*;
use crate::VerifVM;
use mmtk::verif::conc::casbit as hc;
use mmtk::verif::meta::side as hook;
use std::panic::{catch_unwind, AssertUnwindSafe};
use std::sync::atomic::{AtomicBool, AtomicUsize, Ordering};
use std::sync::Arc;
use std::time::{Duration, Instant};

/// A sense-reversing spinning barrier (threads meet within nanoseconds; falls back to `yield_now`).
pub struct SpinBarrier {
    n: usize,
    count: AtomicUsize,
    gen: AtomicUsize,
}

impl SpinBarrier {
    pub fn new(n: usize) -> Self {
        SpinBarrier { n, count: AtomicUsize::new(0), gen: AtomicUsize::new(0) }
    }
    /// `false`: gave up after 10 s (a peer is stuck).
    pub fn wait(&self) -> bool {
        let g = self.gen.load(Ordering::SeqCst);
        if self.count.fetch_add(1, Ordering::SeqCst) + 1 == self.n {
            self.count.store(0, Ordering::SeqCst);
            self.gen.store(g.wrapping_add(1), Ordering::SeqCst);
            return true;
        }
        let mut spins = 0u64;
        let t0 = Instant::now();
        while self.gen.load(Ordering::SeqCst) == g {
            spins += 1;
            if spins % 512 == 0 {
                std::thread::yield_now();
                if spins % (512 * 64) == 0 && t0.elapsed() > Duration::from_secs(10) {
                    return false;
                }
            } else {
                std::hint::spin_loop();
            }
        }
        true
    }
}

/// Set once a race did not finish (a thread is stuck inside mmtk-core, e.g. spinning on BEING_FORWARDED
/// for ever): the stuck threads cannot be killed, so every later group race of this process answers
/// `hang` at once instead of waiting again.
static HUNG: AtomicBool = AtomicBool::new(false);

const PANICKED: usize = usize::MAX - 1;
const UNSET: usize = usize::MAX;

fn grp_addr(los: bool, j: usize) -> usize {
    if los {
        WIN + 0x40 + 4096 * j
    } else {
        obj_addr(j)
    }
}

fn meta_at(i: usize, a: usize) -> usize {
    hook::meta_address(&side_specs()[i], addr(a)).0.as_usize()
}

fn cell_hex_at(a: usize) -> String {
    let mut s = format!("{:x} {:x} {:x}", rd64(a - 8), rd64(a), rd64(a + 8));
    for i in 0..5 {
        s.push_str(&format!(" {:x}", rd8(meta_at(i, a))));
    }
    s
}

fn fmt_ref_at(obj: usize, a: usize) -> String {
    if a == PANICKED {
        "panic".to_string()
    } else if a == UNSET {
        "unset".to_string()
    } else if a == obj {
        "orig".to_string()
    } else if a > NEW && a < NEW + 64 * 4096 && (a - NEW) % 64 == 0 {
        format!("new:{}", (a - NEW) / 64)
    } else {
        format!("raw:{a:x}")
    }
}

struct Tpl {
    w: [usize; 3],
    m: [u8; 5],
}

fn template() -> Option<Tpl> {
    let st = ST.with(|s| *s.borrow());
    if !st.ready || st.l != 0 || st.slot != 0 {
        return None;
    }
    let r = obj_addr(0);
    let mut m = [0u8; 5];
    for (i, b) in m.iter_mut().enumerate() {
        *b = rd8(meta_at(i, r));
    }
    Some(Tpl { w: [rd64(r - 8), rd64(r), rd64(r + 8)], m })
}

fn reset(tpl: &Tpl, addrs: &[usize]) {
    let k = addrs.len();
    for a in addrs {
        wr64(a - 8, tpl.w[0]);
    }
    wr64(addrs[k - 1], tpl.w[1]);
    wr64(addrs[k - 1] + 8, tpl.w[2]);
    for a in addrs {
        for i in 0..5 {
            wr8(meta_at(i, *a), tpl.m[i]);
        }
    }
    for c in COPIES_AT.iter() {
        c.store(0, Ordering::SeqCst);
    }
}

struct Shared {
    start: SpinBarrier,
    end: SpinBarrier,
    stop: AtomicBool,
    res: Vec<AtomicUsize>,
    q: Vec<AtomicUsize>,
}

/// Run `rounds` rounds of `body(t, j)` (thread `t` on object `j`; returns (result, queued)) on `nt`
/// persistent threads; `collect(round)` is called by the coordinator while the threads are parked.
fn run_rounds(
    nt: usize,
    k: usize,
    seed: u64,
    rounds: usize,
    tid_base: usize,
    body: Arc<dyn Fn(usize, usize) -> (usize, usize) + Send + Sync>,
    mut before: impl FnMut(),
    mut collect: impl FnMut(&Shared),
) -> bool {
    if HUNG.load(Ordering::SeqCst) {
        return false;
    }
    let sh = Arc::new(Shared {
        start: SpinBarrier::new(nt + 1),
        end: SpinBarrier::new(nt + 1),
        stop: AtomicBool::new(false),
        res: (0..nt * k).map(|_| AtomicUsize::new(UNSET)).collect(),
        q: (0..nt * k).map(|_| AtomicUsize::new(0)).collect(),
    });
    mmtk::verif::gc::arm_yield(if seed == 0 { 0 } else { seed | 1 });
    let handles: Vec<_> = (0..nt)
        .map(|t| {
            let sh = sh.clone();
            let body = body.clone();
            std::thread::spawn(move || {
                mmtk::verif::gc::set_tid(tid_base + t + (seed as usize % 977) * 64);
                loop {
                    if !sh.start.wait() || sh.stop.load(Ordering::SeqCst) {
                        break;
                    }
                    for i in 0..k {
                        let j = (t + i) % k;
                        let (r, q) = match catch_unwind(AssertUnwindSafe(|| body(t, j))) {
                            Ok(x) => x,
                            Err(_) => (PANICKED, 0),
                        };
                        sh.res[t * k + j].store(r, Ordering::SeqCst);
                        sh.q[t * k + j].store(q, Ordering::SeqCst);
                    }
                    if !sh.end.wait() {
                        break;
                    }
                }
            })
        })
        .collect();
    let mut ok = true;
    for _ in 0..rounds {
        before();
        for x in sh.res.iter() {
            x.store(UNSET, Ordering::SeqCst);
        }
        for x in sh.q.iter() {
            x.store(0, Ordering::SeqCst);
        }
        if !sh.start.wait() || !sh.end.wait() {
            ok = false;
            HUNG.store(true, Ordering::SeqCst);
            break;
        }
        collect(&sh);
    }
    before(); // leave the template state behind
    sh.stop.store(true, Ordering::SeqCst);
    if ok {
        sh.start.wait();
        for h in handles {
            let _ = h.join();
        }
    }
    mmtk::verif::gc::arm_yield(0);
    ok
}

pub fn mrace_fwd(args: &[&str]) -> String {
    init();
    if args.len() != 7 {
        return "bad-op".to_string();
    }
    let immix = match args[1] {
        "copy" => false,
        "immix" => true,
        _ => return "bad-op".to_string(),
    };
    let (nt, seed, k, rounds, mask) = (unum(args[2]), num(args[3]), unum(args[4]), unum(args[5]), unum(args[6]));
    if nt == 0 || nt > 64 || ![2, 4, 8].contains(&k) || rounds == 0 || rounds > 100_000 {
        return "bad-op".to_string();
    }
    let tpl = match template() {
        Some(t) => t,
        None => return "bad-op no-group-template".to_string(),
    };
    type VM = CVm<0>;
    let addrs: Vec<usize> = (0..k).map(|j| grp_addr(false, j)).collect();
    let addrs2 = addrs.clone();
    let body = Arc::new(move |t: usize, j: usize| {
        NEXT_COPY.with(|c| c.set(new_addr(1 + 64 * j + t)));
        let o = oref(addrs2[j]);
        let mut q = vec![];
        let r = if immix { trace_immix::<VM>(o, (mask >> t) & 1 != 0, &mut q) } else { trace_copy::<VM>(o, &mut q) };
        (r.to_raw_address().as_usize(), q.first().map(|x| x.to_raw_address().as_usize()).unwrap_or(0))
    });
    let mut out: Vec<String> = Vec::with_capacity(rounds);
    let ok = run_rounds(
        nt,
        k,
        seed,
        rounds,
        200,
        body,
        || reset(&tpl, &addrs),
        |sh| {
            let mut objs = vec![];
            for (j, a) in addrs.iter().enumerate() {
                let rs: Vec<String> = (0..nt).map(|t| fmt_ref_at(*a, sh.res[t * k + j].load(Ordering::SeqCst))).collect();
                let q: Vec<String> = (0..nt).map(|t| sh.q[t * k + j].load(Ordering::SeqCst)).filter(|x| *x != 0).map(|x| fmt_ref_at(*a, x)).collect();
                objs.push(format!(
                    "r={} copies={} q={} | {}",
                    rs.join(","),
                    COPIES_AT[j].load(Ordering::SeqCst),
                    if q.is_empty() { "-".to_string() } else { q.join(",") },
                    cell_hex_at(*a)
                ));
            }
            out.push(objs.join(" ; "));
        },
    );
    if !ok {
        return "hang".to_string();
    }
    out.join(" ;; ")
}

pub fn mrace_cas(args: &[&str]) -> String {
    init();
    if args.len() != 8 {
        return "bad-op".to_string();
    }
    let kind = args[1].to_string();
    let (nt, seed, k, rounds, arg, nursery) = (unum(args[2]), num(args[3]), unum(args[4]), unum(args[5]), unum(args[6]), unum(args[7]) != 0);
    if nt == 0 || nt > 64 || ![2, 4, 8].contains(&k) || rounds == 0 || rounds > 100_000 || !["mark", "immix", "los", "log", "pin", "unpin"].contains(&kind.as_str()) {
        return "bad-op".to_string();
    }
    let los = kind == "los";
    if los && k > 4 {
        return "bad-op".to_string();
    }
    let tpl = match template() {
        Some(t) => t,
        None => return "bad-op no-group-template".to_string(),
    };
    if (kind == "immix" || los) && cfg!(feature = "hdr_specs") {
        return "unsupported".to_string();
    }
    if los && !unsafe { hc::los_set_in_nursery_gc::<VerifVM>(crate::ensure_mmtk(), nursery) } {
        return "unsupported".to_string();
    }
    type VM = CVm<0>;
    let addrs: Vec<usize> = (0..k).map(|j| grp_addr(los, j)).collect();
    // probe once (on a scratch object far away from the group) that the helper exists under this plan
    if (kind == "immix" || los) && cas_call::<VM>(0, &kind, oref(WIN + 0x20_0040), arg).is_none() {
        return "unsupported".to_string();
    }
    let addrs2 = addrs.clone();
    let kind2 = kind.clone();
    let body = Arc::new(move |_t: usize, j: usize| (usize::from(cas_call::<VM>(0, &kind2, oref(addrs2[j]), arg).unwrap()), 0));
    let mut out: Vec<String> = Vec::with_capacity(rounds);
    let ok = run_rounds(
        nt,
        k,
        seed,
        rounds,
        300,
        body,
        || reset(&tpl, &addrs),
        |sh| {
            let mut objs = vec![];
            for (j, a) in addrs.iter().enumerate() {
                let (mut nt1, mut nf, mut np) = (0, 0, 0);
                for t in 0..nt {
                    match sh.res[t * k + j].load(Ordering::SeqCst) {
                        1 => nt1 += 1,
                        0 => nf += 1,
                        _ => np += 1,
                    }
                }
                let p = if np > 0 { format!(" p={np}") } else { String::new() };
                objs.push(format!("t={nt1} f={nf}{p} | {}", cell_hex_at(*a)));
            }
            out.push(objs.join(" ; "));
        },
    );
    if !ok {
        return "hang".to_string();
    }
    out.join(" ;; ")
}
