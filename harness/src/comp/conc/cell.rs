//! C17 / C18: the real forwarding and mark/log/pin functions on ONE fake object in a private window.
//!
//! The object lives in a privately mapped data page at `WIN` (below the heap, used by no space); its
//! side metadata is mapped through the real `SideMetadataContext::try_map_metadata_space`.
//! `ref(slot) = WIN + 0x1040 + 8*slot` (slot 0..7), `w0` = word at `ref-8`, `w1` at `ref`, `w2` at
//! `ref+8`; the five side-metadata bytes that hold this object's forwarding bits (`mf`), mark bit
//! (`mm`), log bit (`mg`), pin bit (`mp`) and LOS mark/nursery bits (`ml`) — each byte also holds the
//! bits of the neighbouring objects. Layouts `L` 0..3: see `vms.rs`.
//!
//!   cell set <L> <slot> <w0> <w1> <w2> <mf> <mm> <mg> <mp> <ml>          → ok
//!   fwd offs | status | attempt | spin <bits> | forward <k> | clear | readptr | writeptr <k> | is
//!   fwd trace_copy <k> | trace_immix <k> <decline>        (compositions, see below)
//!   casbit mark <flips> | ismarked | immix <state> | los <value> <nursery> | log | pin | unpin | ispinned
//!        → `<result> | <w0> <w1> <w2> <mf> <mm> <mg> <mp> <ml>`   (hex, the cell after the call)
//!   fwd race copy|immix <n> <seed> <declinemask>
//!        → `r=<ref>,… copies=<n> q=<ref>,… | <cell>`      (n real threads, yield points armed)
//!   casbit race mark|immix|los|log|pin|unpin <n> <seed> <env> <arg> <nursery>
//!        → `t=<#true> f=<#false> | <cell>`
//!   fwd mrace … | casbit mrace …      (races on a GROUP of objects sharing one metadata byte: `group.rs`)
//! `<ref>`: `orig` (the object itself) | `new:<k>` (copy target k = NEW + 64k) | `raw:<hex>`.
//!
//! `trace_copy` is `CopySpace::trace_object` from `attempt_to_forward` on (copyspace.rs), `trace_immix`
//! is `ImmixSpace::trace_object_with_opportunistic_copy` from `attempt_to_forward` on (immixspace.rs)
//! with `self.is_marked` = `MarkState::is_marked`, `self.attempt_mark` = `MarkState::test_and_mark`
//! (the same loop; `ImmixSpace::attempt_mark` itself is driven by `casbit immix`), and
//! `is_pinned || space_exhausted` = the `decline` argument. A space instance with real blocks is
//! impractical here; every function called inside IS the real one.
//!
//! `casbit immix|los` call the private methods of the `ImmixSpace` / `LargeObjectSpace` instances of the
//! process's MMTk instance: run `hx_unit` with `VERIF_PLAN=Immix` (checks/C17.py, C18.py do); under the
//! default NoGC plan there is no such space and they answer `unsupported`.
use super::vms::{CVm, COPIES, NEXT_COPY};
use crate::proto::*;
use crate::VerifVM;
use mmtk::util::copy::CopySemantics;
use mmtk::util::metadata::side_metadata::SideMetadataSpec;
use mmtk::util::metadata::MetadataSpec;
use mmtk::util::{Address, ObjectReference};
use mmtk::verif::conc::{casbit as hc, fwd as hf};
use mmtk::verif::meta::side as hook;
use mmtk::vm::{ObjectModel, VMBinding};
use std::cell::RefCell;
use std::sync::atomic::Ordering;
use std::sync::{Arc, Barrier, Mutex, Once};

pub const WIN: usize = 0x1e0_0000_0000;
const WIN_BYTES: usize = 1 << 22;
const OBJ0: usize = WIN + 0x1040;
pub(super) const NEW: usize = WIN + 0x10000;

#[derive(Clone, Copy)]
pub(super) struct St {
    pub(super) l: u8,
    pub(super) slot: usize,
    pub(super) ready: bool,
}

thread_local! {
    pub(super) static ST: RefCell<St> = const { RefCell::new(St { l: 0, slot: 0, ready: false }) };
}

macro_rules! with_vm {
    ($l:expr, $vm:ident, $body:expr) => {
        match $l {
            0 => {
                type $vm = CVm<0>;
                $body
            }
            1 => {
                type $vm = CVm<1>;
                $body
            }
            2 => {
                type $vm = CVm<2>;
                $body
            }
            _ => {
                type $vm = CVm<3>;
                $body
            }
        }
    };
}

pub(super) fn addr(a: usize) -> Address {
    unsafe { Address::from_usize(a) }
}

pub(super) fn oref(a: usize) -> ObjectReference {
    unsafe { ObjectReference::from_raw_address_unchecked(addr(a)) }
}

fn side(m: MetadataSpec) -> SideMetadataSpec {
    match m {
        MetadataSpec::OnSide(s) => s,
        _ => panic!("not a side spec"),
    }
}

/// The five side specs of layout 0 (= VerifVM's): fwd bits, mark, log, pin, los.
pub(super) fn side_specs() -> [SideMetadataSpec; 5] {
    type V = CVm<0>;
    [
        side(*<V as VMBinding>::VMObjectModel::LOCAL_FORWARDING_BITS_SPEC),
        side(*<V as VMBinding>::VMObjectModel::LOCAL_MARK_BIT_SPEC),
        side(*<V as VMBinding>::VMObjectModel::GLOBAL_LOG_BIT_SPEC),
        side(*<V as VMBinding>::VMObjectModel::LOCAL_PINNING_BIT_SPEC),
        side(*<V as VMBinding>::VMObjectModel::LOCAL_LOS_MARK_NURSERY_SPEC),
    ]
}

static INIT: Once = Once::new();

pub(super) fn init() {
    INIT.call_once(|| {
        crate::ensure_mmtk();
        let p = unsafe {
            libc::mmap(
                WIN as *mut libc::c_void,
                WIN_BYTES,
                libc::PROT_READ | libc::PROT_WRITE,
                libc::MAP_PRIVATE | libc::MAP_ANONYMOUS | libc::MAP_FIXED_NOREPLACE,
                -1,
                0,
            )
        };
        assert_eq!(p as usize, WIN, "cannot map the private data window");
        for s in side_specs() {
            assert!(hook::map_metadata(s, addr(WIN), WIN_BYTES), "cannot map side metadata {}", s.name);
        }
        // layout 0 must be VerifVM's layout: `casbit immix|los` run on VerifVM-typed spaces
        type V = CVm<0>;
        assert!(cfg!(feature = "hdr_specs") || side(*<V as VMBinding>::VMObjectModel::LOCAL_MARK_BIT_SPEC) == side(*<VerifVM as VMBinding>::VMObjectModel::LOCAL_MARK_BIT_SPEC));
        assert!(cfg!(feature = "hdr_specs") || side(*<V as VMBinding>::VMObjectModel::LOCAL_LOS_MARK_NURSERY_SPEC) == side(*<VerifVM as VMBinding>::VMObjectModel::LOCAL_LOS_MARK_NURSERY_SPEC));
    });
}

pub(super) fn obj_addr(slot: usize) -> usize {
    OBJ0 + 8 * slot
}

fn meta_byte_addr(i: usize, slot: usize) -> usize {
    hook::meta_address(&side_specs()[i], addr(obj_addr(slot))).0.as_usize()
}

pub(super) fn rd8(a: usize) -> u8 {
    unsafe { (*(a as *const std::sync::atomic::AtomicU8)).load(Ordering::SeqCst) }
}
pub(super) fn wr8(a: usize, v: u8) {
    unsafe { (*(a as *const std::sync::atomic::AtomicU8)).store(v, Ordering::SeqCst) }
}
pub(super) fn rd64(a: usize) -> usize {
    unsafe { (*(a as *const std::sync::atomic::AtomicUsize)).load(Ordering::SeqCst) }
}
pub(super) fn wr64(a: usize, v: usize) {
    unsafe { (*(a as *const std::sync::atomic::AtomicUsize)).store(v, Ordering::SeqCst) }
}

fn cell_hex(slot: usize) -> String {
    let r = obj_addr(slot);
    let mut s = format!("{:x} {:x} {:x}", rd64(r - 8), rd64(r), rd64(r + 8));
    for i in 0..5 {
        s.push_str(&format!(" {:x}", rd8(meta_byte_addr(i, slot))));
    }
    s
}

fn fmt_ref(slot: usize, o: ObjectReference) -> String {
    let a = o.to_raw_address().as_usize();
    if a == obj_addr(slot) {
        "orig".to_string()
    } else if a > NEW && a < NEW + 64 * 4096 && (a - NEW) % 64 == 0 {
        format!("new:{}", (a - NEW) / 64)
    } else {
        format!("raw:{a:x}")
    }
}

pub(super) fn new_addr(k: usize) -> usize {
    NEW + 64 * k
}

/// `CopySpace::trace_object` from `attempt_to_forward` on.
pub(super) fn trace_copy<VM: VMBinding>(object: ObjectReference, queue: &mut Vec<ObjectReference>) -> ObjectReference {
    let forwarding_status = hf::attempt_to_forward::<VM>(object);
    if hf::state_is_forwarded_or_being_forwarded(forwarding_status) {
        hf::spin_and_get_forwarded_object::<VM>(object, forwarding_status)
    } else {
        let mut ctx = hf::new_non_copy_context::<VM>();
        let new_object = hf::forward_object::<VM>(object, CopySemantics::DefaultCopy, &mut ctx, |_| {});
        queue.push(new_object);
        new_object
    }
}

/// `ImmixSpace::trace_object_with_opportunistic_copy` from `attempt_to_forward` on.
pub(super) fn trace_immix<VM: VMBinding>(object: ObjectReference, decline: bool, queue: &mut Vec<ObjectReference>) -> ObjectReference {
    let forwarding_status = hf::attempt_to_forward::<VM>(object);
    if hf::state_is_forwarded_or_being_forwarded(forwarding_status) {
        hf::spin_and_get_forwarded_object::<VM>(object, forwarding_status)
    } else if hc::mark_state_is_marked::<VM>(object) {
        hf::clear_forwarding_bits::<VM>(object);
        object
    } else {
        let new_object = if decline {
            hc::mark_state_test_and_mark::<VM>(0, object);
            hf::clear_forwarding_bits::<VM>(object);
            object
        } else {
            let mut ctx = hf::new_non_copy_context::<VM>();
            hf::forward_object::<VM>(object, CopySemantics::DefaultCopy, &mut ctx, |_| {})
        };
        queue.push(new_object);
        new_object
    }
}

pub fn run_cell(args: &[&str]) -> String {
    init();
    match args[0] {
        "set" if args.len() == 11 => {
            let l = unum(args[1]) as u8;
            let slot = unum(args[2]);
            if l > 3 || slot > 7 {
                return "bad-op".to_string();
            }
            let r = obj_addr(slot);
            wr64(r - 8, unum(args[3]));
            wr64(r, unum(args[4]));
            wr64(r + 8, unum(args[5]));
            for i in 0..5 {
                wr8(meta_byte_addr(i, slot), unum(args[6 + i]) as u8);
            }
            ST.with(|s| *s.borrow_mut() = St { l, slot, ready: true });
            "ok".to_string()
        }
        _ => "bad-op".to_string(),
    }
}

fn with_cell(f: impl FnOnce(St) -> String) -> String {
    init();
    let st = ST.with(|s| *s.borrow());
    if !st.ready {
        return "bad-op no-cell".to_string();
    }
    let r = f(st);
    if r.starts_with("bad-op") {
        r
    } else {
        format!("{r} | {}", cell_hex(st.slot))
    }
}

pub fn run_fwd(args: &[&str]) -> String {
    if args[0] == "mrace" {
        return super::group::mrace_fwd(args);
    }
    with_cell(|st| {
        let o = oref(obj_addr(st.slot));
        let slot = st.slot;
        with_vm!(st.l, VM, {
            match (args[0], args.len()) {
                ("offs", 1) => match hf::forwarding_bits_offset_in_forwarding_pointer::<VM>() {
                    Some(n) => format!("some:{n}"),
                    None => "none".to_string(),
                },
                ("status", 1) => hf::get_forwarding_status::<VM>(o).to_string(),
                ("is", 1) => format!("{} {}", hf::is_forwarded::<VM>(o), hf::is_forwarded_or_being_forwarded::<VM>(o)),
                ("attempt", 1) => hf::attempt_to_forward::<VM>(o).to_string(),
                ("spin", 2) => {
                    let b = unum(args[1]) as u8;
                    if b == 2 && hf::get_forwarding_status::<VM>(o) == 2 {
                        "would-spin".to_string()
                    } else {
                        fmt_ref(slot, hf::spin_and_get_forwarded_object::<VM>(o, b))
                    }
                }
                ("forward", 2) => {
                    NEXT_COPY.with(|c| c.set(new_addr(unum(args[1]))));
                    let mut ctx = hf::new_non_copy_context::<VM>();
                    fmt_ref(slot, hf::forward_object::<VM>(o, CopySemantics::DefaultCopy, &mut ctx, |_| {}))
                }
                ("clear", 1) => {
                    hf::clear_forwarding_bits::<VM>(o);
                    "-".to_string()
                }
                ("readptr", 1) => fmt_ref(slot, hf::read_forwarding_pointer::<VM>(o)),
                ("writeptr", 2) => {
                    hf::write_forwarding_pointer::<VM>(o, oref(new_addr(unum(args[1]))));
                    "-".to_string()
                }
                ("trace_copy", 2) | ("trace_immix", 3) => {
                    if hf::get_forwarding_status::<VM>(o) == 2 {
                        return "would-spin".to_string();
                    }
                    NEXT_COPY.with(|c| c.set(new_addr(unum(args[1]))));
                    COPIES.store(0, Ordering::SeqCst);
                    let mut q = vec![];
                    let r = if args[0] == "trace_copy" {
                        trace_copy::<VM>(o, &mut q)
                    } else {
                        trace_immix::<VM>(o, unum(args[2]) != 0, &mut q)
                    };
                    let qs: Vec<String> = q.iter().map(|x| fmt_ref(slot, *x)).collect();
                    format!("{} q={} copies={}", fmt_ref(slot, r), if qs.is_empty() { "-".to_string() } else { qs.join(",") }, COPIES.load(Ordering::SeqCst))
                }
                ("race", 5) => race_fwd::<VM>(st, args),
                _ => "bad-op".to_string(),
            }
        })
    })
}

/// Start line of a race: the OS barrier (wake-ups are staggered by microseconds) followed by a spin rendezvous, so that
/// the racing calls begin within nanoseconds of each other (windows of a few instructions — two consecutive loads, a
/// load and its CAS — are hit by real parallelism).
fn start_line(barrier: &Barrier, go: &std::sync::atomic::AtomicUsize, total: usize) {
    barrier.wait();
    go.fetch_add(1, Ordering::SeqCst);
    let mut spins = 0u64;
    while go.load(Ordering::SeqCst) < total {
        std::hint::spin_loop();
        spins += 1;
        if spins % 4096 == 0 {
            std::thread::yield_now();
        }
    }
}

fn race_fwd<VM: VMBinding>(st: St, args: &[&str]) -> String {
    let immix = match args[1] {
        "copy" => false,
        "immix" => true,
        _ => return "bad-op".to_string(),
    };
    let n = unum(args[2]);
    let seed = num(args[3]);
    let mask = unum(args[4]);
    if n == 0 || n > 64 {
        return "bad-op".to_string();
    }
    let slot = st.slot;
    let o_addr = obj_addr(slot);
    COPIES.store(0, Ordering::SeqCst);
    let queue = Arc::new(Mutex::new(Vec::<usize>::new()));
    let barrier = Arc::new(Barrier::new(n));
    let go = Arc::new(std::sync::atomic::AtomicUsize::new(0));
    mmtk::verif::gc::arm_yield(seed | 1);
    let handles: Vec<_> = (0..n)
        .map(|t| {
            let queue = queue.clone();
            let barrier = barrier.clone();
            let go = go.clone();
            std::thread::spawn(move || {
                mmtk::verif::gc::set_tid(200 + t + (seed as usize % 977) * 64);
                NEXT_COPY.with(|c| c.set(new_addr(t + 1)));
                let o = oref(o_addr);
                let mut q = vec![];
                start_line(&barrier, &go, n);
                let r = if immix { trace_immix::<VM>(o, (mask >> t) & 1 != 0, &mut q) } else { trace_copy::<VM>(o, &mut q) };
                queue.lock().unwrap().extend(q.iter().map(|x| x.to_raw_address().as_usize()));
                r.to_raw_address().as_usize()
            })
        })
        .collect();
    let mut rs = vec![];
    let mut panicked = false;
    for h in handles {
        match h.join() {
            Ok(r) => rs.push(fmt_ref(slot, oref(r))),
            Err(_) => {
                panicked = true;
                rs.push("panic".to_string())
            }
        }
    }
    mmtk::verif::gc::arm_yield(0);
    let _ = panicked;
    let q: Vec<String> = queue.lock().unwrap().iter().map(|x| fmt_ref(slot, oref(*x))).collect();
    format!("r={} copies={} q={}", rs.join(","), COPIES.load(Ordering::SeqCst), if q.is_empty() { "-".to_string() } else { q.join(",") })
}

/// One call of the named helper on `o` (VerifVM-typed space methods only on layout 0).
pub(super) fn cas_call<VM: VMBinding>(l: u8, kind: &str, o: ObjectReference, arg: usize) -> Option<bool> {
    Some(match kind {
        "mark" => hc::mark_state_test_and_mark::<VM>(arg, o),
        "log" => hc::log_object::<VM>(o),
        "pin" => <VM as VMBinding>::VMObjectModel::LOCAL_PINNING_BIT_SPEC.pin_object::<VM>(o),
        "unpin" => <VM as VMBinding>::VMObjectModel::LOCAL_PINNING_BIT_SPEC.unpin_object::<VM>(o),
        "immix" if l == 0 && !cfg!(feature = "hdr_specs") => hc::immix_attempt_mark::<VerifVM>(crate::ensure_mmtk(), o, arg as u8)?,
        "los" if l == 0 && !cfg!(feature = "hdr_specs") => hc::los_test_and_mark::<VerifVM>(crate::ensure_mmtk(), o, arg as u8)?,
        _ => return None,
    })
}

pub fn run_casbit(args: &[&str]) -> String {
    if args[0] == "mrace" {
        return super::group::mrace_cas(args);
    }
    with_cell(|st| {
        let o = oref(obj_addr(st.slot));
        with_vm!(st.l, VM, {
            match (args[0], args.len()) {
                ("ismarked", 1) => hc::mark_state_is_marked::<VM>(o).to_string(),
                ("ispinned", 1) => <VM as VMBinding>::VMObjectModel::LOCAL_PINNING_BIT_SPEC.is_object_pinned::<VM>(o).to_string(),
                ("mark", 2) | ("immix", 2) => match cas_call::<VM>(st.l, args[0], o, unum(args[1])) {
                    Some(b) => b.to_string(),
                    None => "unsupported".to_string(),
                },
                ("log", 1) | ("pin", 1) | ("unpin", 1) => cas_call::<VM>(st.l, args[0], o, 0).unwrap().to_string(),
                ("los", 3) => {
                    if st.l != 0 || cfg!(feature = "hdr_specs") {
                        return "unsupported".to_string();
                    }
                    if !unsafe { hc::los_set_in_nursery_gc::<VerifVM>(crate::ensure_mmtk(), unum(args[2]) != 0) } {
                        return "unsupported".to_string();
                    }
                    match cas_call::<VM>(st.l, "los", o, unum(args[1])) {
                        Some(b) => b.to_string(),
                        None => "unsupported".to_string(),
                    }
                }
                ("race", 7) => race_cas::<VM>(st, args),
                _ => "bad-op".to_string(),
            }
        })
    })
}

fn race_cas<VM: VMBinding>(st: St, args: &[&str]) -> String {
    let kind = args[1].to_string();
    let n = unum(args[2]);
    let seed = num(args[3]);
    let env = unum(args[4]) != 0;
    let arg = unum(args[5]);
    let nursery = unum(args[6]) != 0;
    if n == 0 || n > 64 || !["mark", "immix", "los", "log", "pin", "unpin"].contains(&kind.as_str()) {
        return "bad-op".to_string();
    }
    let l = st.l;
    if (kind == "immix" || kind == "los") && (l != 0 || cfg!(feature = "hdr_specs")) {
        return "unsupported".to_string();
    }
    if kind == "los" && !unsafe { hc::los_set_in_nursery_gc::<VerifVM>(crate::ensure_mmtk(), nursery) } {
        return "unsupported".to_string();
    }
    if cas_call_probe::<VM>(l, &kind).is_none() {
        return "unsupported".to_string();
    }
    let slot = st.slot;
    let o_addr = obj_addr(slot);
    // the environment: another object whose bits share the byte (the neighbouring slot) is
    // marked / logged / pinned … and reset concurrently
    // (the LOS mark/nursery spec has one 2-bit field per PAGE: its neighbour is the next page's object)
    let nb_addr = if kind == "los" { o_addr + 4096 } else { obj_addr(slot ^ 1) };
    let total = n + usize::from(env);
    let barrier = Arc::new(Barrier::new(total));
    let go = Arc::new(std::sync::atomic::AtomicUsize::new(0));
    mmtk::verif::gc::arm_yield(seed | 1);
    let mut handles = vec![];
    for t in 0..n {
        let barrier = barrier.clone();
        let go = go.clone();
        let kind = kind.clone();
        handles.push(std::thread::spawn(move || {
            mmtk::verif::gc::set_tid(300 + t + (seed as usize % 977) * 64);
            start_line(&barrier, &go, total);
            cas_call::<VM>(l, &kind, oref(o_addr), arg).unwrap()
        }));
    }
    let envh = if env {
        let barrier = barrier.clone();
        let go = go.clone();
        let kind = kind.clone();
        Some(std::thread::spawn(move || {
            mmtk::verif::gc::set_tid(399 + (seed as usize % 977) * 64);
            start_line(&barrier, &go, total);
            // side layout: the neighbouring object's field of the same spec (same byte);
            // header layouts: another field of the SAME object (same byte in layouts 1 and 2)
            let nb = oref(if l == 0 { nb_addr } else { o_addr });
            let k2 = if l == 0 {
                kind.as_str()
            } else {
                match kind.as_str() {
                    "pin" | "unpin" => "log",
                    _ => "pin",
                }
            };
            for i in 0..(8 + seed % 24) {
                // flip that field back and forth with the real atomic store of its spec
                let v = (i % 2) as u8;
                match k2 {
                    "mark" | "immix" => <VM as VMBinding>::VMObjectModel::LOCAL_MARK_BIT_SPEC.store_atomic::<VM, u8>(nb, v, None, Ordering::SeqCst),
                    "log" => <VM as VMBinding>::VMObjectModel::GLOBAL_LOG_BIT_SPEC.store_atomic::<VM, u8>(nb, v, None, Ordering::SeqCst),
                    "los" => <VM as VMBinding>::VMObjectModel::LOCAL_LOS_MARK_NURSERY_SPEC.store_atomic::<VM, u8>(nb, v * 3, None, Ordering::SeqCst),
                    _ => <VM as VMBinding>::VMObjectModel::LOCAL_PINNING_BIT_SPEC.store_atomic::<VM, u8>(nb, v, None, Ordering::SeqCst),
                }
                if i % 3 == 0 {
                    std::thread::yield_now();
                }
            }
        }))
    } else {
        None
    };
    let (mut nt, mut nf) = (0, 0);
    for h in handles {
        match h.join() {
            Ok(true) => nt += 1,
            Ok(false) => nf += 1,
            Err(_) => return "panic".to_string(),
        }
    }
    if let Some(h) = envh {
        let _ = h.join();
    }
    mmtk::verif::gc::arm_yield(0);
    format!("t={nt} f={nf}")
}

fn cas_call_probe<VM: VMBinding>(l: u8, kind: &str) -> Option<()> {
    match kind {
        "immix" | "los" if l != 0 => None,
        _ => Some(()),
    }
}
