//! C19: a real `BlockPool` (src/util/heap/blockpageresource.rs) with a settable worker ordinal.
//!
//! Blocks are numbers (`n` ↦ the never-dereferenced 32 KiB region at `(n+1) << 15`).
//!
//!   bpool new <workers>         → `ok | <dump>`
//!   bpool push <worker> <n>     → `ok | <dump>`      (`BlockPool::push` by worker ordinal <worker>)
//!   bpool pushn <worker> <n0> <k> → `ok | <dump>`    (k pushes n0, n0+1, …: reaches CAPACITY cheaply)
//!   bpool pop                   → `<n>|none | <dump>`
//!   bpool popn <k>              → `<n>,<n>,…|- | <dump>`  (k pops; `none`s are printed as `x`)
//!   bpool flush                 → `ok | <dump>`      (`flush_all`)
//!   bpool len                   → `<count> | <dump>`
//!   bpool iter                  → `<n>,<n>,… | <dump>`    (`iterate_blocks`, internal order)
//!   bpool cap                   → `<CAPACITY>`
//!   bpool race <workers> <poppers> <seed> <per_worker> <flush>   → see `race`
//! `<dump>` = `c=<count> h=<head|-> g=<q;q;…|-> l=<q;q;…>` where a queue `q` is `[n,n,…]` bottom
//! first; to keep lines short a run of consecutive numbers `a,a+1,…,b` is printed `a..b`.
use crate::proto::*;
use mmtk::verif::conc::bpool::{set_worker_ordinal, Pool};
use std::cell::RefCell;
use std::sync::{Arc, Barrier};

thread_local! {
    static POOL: RefCell<Option<(Pool, usize)>> = const { RefCell::new(None) };
}

fn runs(v: &[usize]) -> String {
    let mut out = vec![];
    let mut i = 0;
    while i < v.len() {
        let mut j = i;
        while j + 1 < v.len() && v[j + 1] == v[j] + 1 {
            j += 1;
        }
        if j >= i + 2 {
            out.push(format!("{}..{}", v[i], v[j]));
        } else {
            for x in &v[i..=j] {
                out.push(x.to_string());
            }
        }
        i = j + 1;
    }
    format!("[{}]", out.join(","))
}

fn dump(p: &Pool) -> String {
    let (c, h, g, l) = p.dump();
    let qs = |v: &Vec<Vec<usize>>| if v.is_empty() { "-".to_string() } else { v.iter().map(|q| runs(q)).collect::<Vec<_>>().join(";") };
    format!("c={} h={} g={} l={}", c, h.map(|q| runs(&q)).unwrap_or_else(|| "-".to_string()), qs(&g), qs(&l))
}

pub fn run(args: &[&str]) -> String {
    if args[0] == "cap" {
        return Pool::capacity().to_string();
    }
    if args[0] == "race" && args.len() == 6 {
        return race(unum(args[1]), unum(args[2]), num(args[3]), unum(args[4]), unum(args[5]) != 0);
    }
    POOL.with(|cell| {
        let mut g = cell.borrow_mut();
        if args[0] == "new" && args.len() == 2 {
            let w = unum(args[1]);
            if w == 0 || w > 64 {
                return "bad-op".to_string();
            }
            *g = Some((Pool::new(w), w));
            return format!("ok | {}", dump(&g.as_ref().unwrap().0));
        }
        let (p, w) = match g.as_ref() {
            Some((p, w)) => (p, *w),
            None => return "bad-op no-pool".to_string(),
        };
        let res = match (args[0], args.len()) {
            ("push", 3) | ("pushn", 4) => {
                let id = unum(args[1]);
                if id >= w {
                    return "bad-op worker".to_string();
                }
                set_worker_ordinal(id);
                let k = if args[0] == "push" { 1 } else { unum(args[3]) };
                for i in 0..k {
                    p.push(unum(args[2]) + i);
                }
                "ok".to_string()
            }
            ("pop", 1) => p.pop().map(|n| n.to_string()).unwrap_or_else(|| "none".to_string()),
            ("popn", 2) => {
                let v: Vec<String> = (0..unum(args[1])).map(|_| p.pop().map(|n| n.to_string()).unwrap_or_else(|| "x".to_string())).collect();
                if v.is_empty() {
                    "-".to_string()
                } else {
                    v.join(",")
                }
            }
            ("flush", 1) => {
                p.flush_all();
                "ok".to_string()
            }
            ("len", 1) => p.len().to_string(),
            ("iter", 1) => {
                let v = p.iterate_blocks();
                if v.is_empty() {
                    "-".to_string()
                } else {
                    v.iter().map(|x| x.to_string()).collect::<Vec<_>>().join(",")
                }
            }
            _ => return "bad-op".to_string(),
        };
        format!("{res} | {}", dump(p))
    })
}

/// Real-thread history: `workers` pusher threads (ordinal = index; worker `i` pushes the blocks
/// `i*per .. (i+1)*per`), `poppers` threads popping concurrently until the pushers are done and a pop
/// fails; then (optionally) `flush_all` and a final sequential drain. Yield points armed with `seed`.
/// Prints `pushed=<n> popped=<sorted…> conc=<#popped concurrently> len_after_conc=<len> held=<sorted…>
/// drained=<sorted…> len_end=<len>` with number runs compressed.
fn race(workers: usize, poppers: usize, seed: u64, per: usize, flush: bool) -> String {
    if workers == 0 || workers > 32 || poppers > 32 || per > 4096 {
        return "bad-op".to_string();
    }
    let pool = Arc::new(Pool::new(workers));
    let barrier = Arc::new(Barrier::new(workers + poppers));
    let done = Arc::new(std::sync::atomic::AtomicUsize::new(0));
    mmtk::verif::gc::arm_yield(seed | 1);
    let mut hs = vec![];
    for i in 0..workers {
        let (pool, barrier, done) = (pool.clone(), barrier.clone(), done.clone());
        hs.push(std::thread::spawn(move || {
            mmtk::verif::gc::set_tid(500 + i + (seed as usize % 977) * 64);
            set_worker_ordinal(i);
            barrier.wait();
            for k in 0..per {
                pool.push(i * per + k);
            }
            done.fetch_add(1, std::sync::atomic::Ordering::SeqCst);
            vec![]
        }));
    }
    for j in 0..poppers {
        let (pool, barrier, done) = (pool.clone(), barrier.clone(), done.clone());
        hs.push(std::thread::spawn(move || {
            mmtk::verif::gc::set_tid(600 + j + (seed as usize % 977) * 64);
            barrier.wait();
            let mut got = vec![];
            loop {
                let fin = done.load(std::sync::atomic::Ordering::SeqCst) == workers;
                match pool.pop() {
                    Some(n) => got.push(n),
                    None => {
                        if fin {
                            break;
                        }
                        std::thread::yield_now();
                    }
                }
            }
            got
        }));
    }
    let mut popped: Vec<usize> = vec![];
    for h in hs {
        match h.join() {
            Ok(v) => popped.extend(v),
            Err(_) => {
                mmtk::verif::gc::arm_yield(0);
                return "panic".to_string();
            }
        }
    }
    mmtk::verif::gc::arm_yield(0);
    let conc = popped.len();
    let len_after = pool.len();
    let mut held = pool.iterate_blocks();
    held.sort_unstable();
    if flush {
        pool.flush_all();
    }
    let mut drained = vec![];
    while let Some(n) = pool.pop() {
        drained.push(n);
    }
    popped.sort_unstable();
    drained.sort_unstable();
    format!(
        "pushed={} popped={} conc={} len_after_conc={} held={} drained={} len_end={}",
        workers * per,
        runs(&popped),
        conc,
        len_after,
        runs(&held),
        runs(&drained),
        pool.len()
    )
}
