//! Four stub bindings `CVm<L>` that differ only in WHERE the per-object metadata lives, so that one
//! `hx_unit` binary drives the real generic functions (`object_forwarding::*::<VM>`,
//! `MarkState::test_and_mark::<VM>`, `ObjectBarrier::log_object`, `pin_object::<VM>`) through every
//! branch of the side / in-header accessors and both `forwarding_bits_offset_in_forwarding_pointer`
//! cases. No MMTk instance of these bindings is ever created; every callback except
//! `ObjectModel::copy` is unreachable.
//!
//! Object picture (`ref` = object reference; `w0` = word at `ref-8`, `w1` at `ref`, `w2` at `ref+8`):
//!
//! | L | forwarding pointer | forwarding bits       | offset-in-pointer | mark         | log          | pin          | LOS mark/nursery |
//! |---|--------------------|-----------------------|-------------------|--------------|--------------|--------------|------------------|
//! | 0 | w0                 | side (2 bit / 8 B)    | None              | side         | side (global)| side         | side             |
//! | 1 | w1                 | w1 bits 0-1           | Some(0)           | w2 bit 2     | w2 bit 5     | w2 bit 7     | w2 bits 8-9      |
//! | 2 | w0                 | w1 bits 2-3           | None (shift 66)   | w1 bit 7     | w1 bit 0     | w1 bit 1     | w1 bits 4-5      |
//! | 3 | w1                 | w1 bits 56-57         | Some(56)          | w2 bit 63    | w2 bit 8     | w2 bit 15    | w2 bits 22-23    |
//!
//! Layout 0 is exactly VerifVM's default layout (same side specs, same offsets).
use mmtk::util::alloc::AllocationError;
use mmtk::util::copy::{CopySemantics, GCWorkerCopyContext};
use mmtk::util::opaque_pointer::*;
use mmtk::util::{Address, ObjectReference};
use mmtk::vm::slot::SimpleSlot;
use mmtk::vm::*;
use mmtk::Mutator;
use std::cell::Cell;
use std::sync::atomic::{AtomicUsize, Ordering};

#[derive(Default)]
pub struct CVm<const L: u8>;

impl<const L: u8> VMBinding for CVm<L> {
    type VMObjectModel = COm<L>;
    type VMScanning = CScan<L>;
    type VMCollection = CColl<L>;
    type VMActivePlan = CPlan<L>;
    type VMReferenceGlue = CGlue<L>;
    type VMSlot = SimpleSlot;
    type VMMemorySlice = crate::vm::VSlice;
    const MIN_ALIGNMENT: usize = 8;
    const MAX_ALIGNMENT: usize = 64;
}

pub struct COm<const L: u8>;

const fn fwd_bits(l: u8) -> VMLocalForwardingBitsSpec {
    match l {
        0 => VMLocalForwardingBitsSpec::side_first(),
        1 => VMLocalForwardingBitsSpec::in_header(0),
        2 => VMLocalForwardingBitsSpec::in_header(2),
        _ => VMLocalForwardingBitsSpec::in_header(56),
    }
}
const fn fwd_ptr(l: u8) -> VMLocalForwardingPointerSpec {
    match l {
        0 | 2 => VMLocalForwardingPointerSpec::in_header(-64),
        _ => VMLocalForwardingPointerSpec::in_header(0),
    }
}
const fn mark(l: u8) -> VMLocalMarkBitSpec {
    match l {
        0 => VMLocalMarkBitSpec::side_after(fwd_bits(0).as_spec()),
        1 => VMLocalMarkBitSpec::in_header(64 + 2),
        2 => VMLocalMarkBitSpec::in_header(7),
        _ => VMLocalMarkBitSpec::in_header(64 + 63),
    }
}
const fn log(l: u8) -> VMGlobalLogBitSpec {
    match l {
        0 => VMGlobalLogBitSpec::side_first(),
        1 => VMGlobalLogBitSpec::in_header(64 + 5),
        2 => VMGlobalLogBitSpec::in_header(0),
        _ => VMGlobalLogBitSpec::in_header(64 + 8),
    }
}
const fn pin(l: u8) -> VMLocalPinningBitSpec {
    match l {
        0 => VMLocalPinningBitSpec::side_after(mark(0).as_spec()),
        1 => VMLocalPinningBitSpec::in_header(64 + 7),
        2 => VMLocalPinningBitSpec::in_header(1),
        _ => VMLocalPinningBitSpec::in_header(64 + 15),
    }
}
const fn los(l: u8) -> VMLocalLOSMarkNurserySpec {
    match l {
        0 => VMLocalLOSMarkNurserySpec::side_after(pin(0).as_spec()),
        1 => VMLocalLOSMarkNurserySpec::in_header(64 + 8),
        2 => VMLocalLOSMarkNurserySpec::in_header(4),
        _ => VMLocalLOSMarkNurserySpec::in_header(64 + 22),
    }
}

thread_local! {
    /// The "new object" the next `ObjectModel::copy` on this thread returns.
    pub static NEXT_COPY: Cell<usize> = const { Cell::new(0) };
}
/// Number of `ObjectModel::copy` calls since the last reset.
pub static COPIES: AtomicUsize = AtomicUsize::new(0);
/// The same count per copied object: index = `(address >> 3) & 7` (the slot of `cell.rs`' objects).
pub static COPIES_AT: [AtomicUsize; 8] = [const { AtomicUsize::new(0) }; 8];

impl<const L: u8> ObjectModel<CVm<L>> for COm<L> {
    const GLOBAL_LOG_BIT_SPEC: VMGlobalLogBitSpec = log(L);
    const LOCAL_FORWARDING_POINTER_SPEC: VMLocalForwardingPointerSpec = fwd_ptr(L);
    const LOCAL_FORWARDING_BITS_SPEC: VMLocalForwardingBitsSpec = fwd_bits(L);
    const LOCAL_MARK_BIT_SPEC: VMLocalMarkBitSpec = mark(L);
    #[cfg(feature = "has_pinning")]
    const LOCAL_PINNING_BIT_SPEC: VMLocalPinningBitSpec = pin(L);
    const LOCAL_LOS_MARK_NURSERY_SPEC: VMLocalLOSMarkNurserySpec = los(L);
    const OBJECT_REF_OFFSET_LOWER_BOUND: isize = 8;

    fn copy(_from: ObjectReference, _semantics: CopySemantics, _ctx: &mut GCWorkerCopyContext<CVm<L>>) -> ObjectReference {
        COPIES.fetch_add(1, Ordering::SeqCst);
        COPIES_AT[(_from.to_raw_address().as_usize() >> 3) & 7].fetch_add(1, Ordering::SeqCst);
        let a = NEXT_COPY.with(|c| c.get());
        assert!(a != 0, "no copy target arranged");
        unsafe { ObjectReference::from_raw_address_unchecked(Address::from_usize(a)) }
    }
    fn copy_to(_from: ObjectReference, _to: ObjectReference, _region: Address) -> Address {
        unreachable!()
    }
    fn get_current_size(_object: ObjectReference) -> usize {
        32
    }
    fn get_size_when_copied(_object: ObjectReference) -> usize {
        32
    }
    fn get_align_when_copied(_object: ObjectReference) -> usize {
        8
    }
    fn get_align_offset_when_copied(_object: ObjectReference) -> usize {
        0
    }
    fn get_reference_when_copied_to(_from: ObjectReference, to: Address) -> ObjectReference {
        unsafe { ObjectReference::from_raw_address_unchecked(to + 8usize) }
    }
    fn get_type_descriptor(_reference: ObjectReference) -> &'static [i8] {
        &[]
    }
    fn ref_to_object_start(object: ObjectReference) -> Address {
        object.to_raw_address().sub(8)
    }
    fn ref_to_header(object: ObjectReference) -> Address {
        object.to_raw_address()
    }
    fn dump_object(_object: ObjectReference) {}
}

pub struct CScan<const L: u8>;
impl<const L: u8> Scanning<CVm<L>> for CScan<L> {
    fn scan_roots_in_mutator_thread(_tls: VMWorkerThread, _mutator: &'static mut Mutator<CVm<L>>, _factory: impl RootsWorkFactory<SimpleSlot>) {
        unreachable!()
    }
    fn scan_vm_specific_roots(_tls: VMWorkerThread, _factory: impl RootsWorkFactory<SimpleSlot>) {
        unreachable!()
    }
    fn scan_object<SV: SlotVisitor<SimpleSlot>>(_tls: VMWorkerThread, _object: ObjectReference, _slot_visitor: &mut SV) {
        unreachable!()
    }
    fn notify_initial_thread_scan_complete(_partial_scan: bool, _tls: VMWorkerThread) {}
    fn supports_return_barrier() -> bool {
        false
    }
    fn prepare_for_roots_re_scanning() {}
}

pub struct CColl<const L: u8>;
impl<const L: u8> Collection<CVm<L>> for CColl<L> {
    fn stop_all_mutators<F>(_tls: VMWorkerThread, _mutator_visitor: F)
    where
        F: FnMut(&'static mut Mutator<CVm<L>>),
    {
        unreachable!()
    }
    fn resume_mutators(_tls: VMWorkerThread) {
        unreachable!()
    }
    fn block_for_gc(_tls: VMMutatorThread) {
        unreachable!()
    }
    fn spawn_gc_thread(_tls: VMThread, _ctx: GCThreadContext<CVm<L>>) {
        unreachable!()
    }
    fn out_of_memory(_tls: VMThread, _err_kind: AllocationError) {
        unreachable!()
    }
}

pub struct CPlan<const L: u8>;
impl<const L: u8> ActivePlan<CVm<L>> for CPlan<L> {
    fn number_of_mutators() -> usize {
        0
    }
    fn is_mutator(_tls: VMThread) -> bool {
        false
    }
    fn mutator(_tls: VMMutatorThread) -> &'static mut Mutator<CVm<L>> {
        unreachable!()
    }
    fn mutators<'a>() -> Box<dyn Iterator<Item = &'a mut Mutator<CVm<L>>> + 'a> {
        unreachable!()
    }
}

pub struct CGlue<const L: u8>;
impl<const L: u8> ReferenceGlue<CVm<L>> for CGlue<L> {
    type FinalizableType = ObjectReference;
    fn set_referent(_reference: ObjectReference, _referent: ObjectReference) {
        unreachable!()
    }
    fn get_referent(_object: ObjectReference) -> Option<ObjectReference> {
        unreachable!()
    }
    fn clear_referent(_object: ObjectReference) {
        unreachable!()
    }
    fn enqueue_references(_references: &[ObjectReference], _tls: VMWorkerThread) {
        unreachable!()
    }
}
