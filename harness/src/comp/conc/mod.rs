//! package `conc` (see CONVENTIONS.md): register components here.
//!
//! * `cell` / `fwd` / `casbit` (C17, C18): `cell.rs` over the stub bindings of `vms.rs`
//!   (need the pinning bit spec: feature sets with `has_pinning`).
//!   `group.rs`: races on a group of objects whose side-metadata fields share one byte (`fwd mrace`, `casbit mrace`).
//! * `bpool` (C19): `bpool.rs`.
//! * `satb` (C12, racing SATB barriers on a real ConcurrentImmix instance): `satb.rs`.
#[cfg(feature = "has_pinning")]
pub mod cell;
#[cfg(feature = "has_pinning")]
pub mod group;
#[cfg(feature = "has_pinning")]
pub mod vms;
pub mod bpool;
pub mod satb;

pub fn dispatch(tokens: &[&str]) -> Option<String> {
    let (c, args) = tokens.split_first()?;
    if args.is_empty() {
        return match *c {
            "cell" | "fwd" | "casbit" | "bpool" | "satb" => Some("bad-op".to_string()),
            _ => None,
        };
    }
    Some(match *c {
        #[cfg(feature = "has_pinning")]
        "cell" => cell::run_cell(args),
        #[cfg(feature = "has_pinning")]
        "fwd" => cell::run_fwd(args),
        #[cfg(feature = "has_pinning")]
        "casbit" => cell::run_casbit(args),
        "bpool" => bpool::run(args),
        "satb" => satb::run(args),
        _ => return None,
    })
}
