//! C12 (strengthened): the SATB pre-write barrier of ConcurrentImmix under REAL mutator threads.
//!
//! A real `MMTK<VerifVM>` running the ConcurrentImmix plan (`VERIF_PLAN=ConcurrentImmix`; no GC thread is ever
//! started) is put into the "concurrent marking active" state (`ConcurrentImmix::set_concurrent_marking_state(true)`,
//! what the InitialMark pause does). One object `src` with `k` reference fields lives in the Immix space; its fields
//! hold the *snapshot* referents and its unlog bit is SET (= not yet recorded). `T` threads, each with its OWN bound
//! mutator (own `SATBBarrier` + own SATB buffer), store into fields of the SAME `src` at the same moment, every store
//! being `memory_manager::object_reference_write_pre(mutator, src, slot, target)` followed by the store (the
//! documented use of the pre-barrier; what hx_gc's `write` does on this plan). After the round the coordinator takes
//! every mutator's SATB buffer (`mmtk::verif::conc::satb::take_satb_buffer`: exactly what `flush_satb` would hand to a
//! `ProcessModBufSATB` packet), reads the fields and the unlog bit, and prints them.
//!
//! Values are small integers: `0` = null, `i ≥ 1` = the i-th pre-allocated referent object (32-byte objects without
//! fields in the same Immix space).
//!
//!   satb reset <k> <unlog> <v0> … <v(k-1)>       fresh `src` state, all SATB buffers emptied           → ok
//!   satb write <t> <f> <v>                       mutator t: pre-barrier + store src.f := v              → <state> n=<length of t's buffer>
//!   satb probable <t>                            mutator t: `object_probable_write(src)`                → <state> n=<length of t's buffer>
//!   satb take <t>                                take (and empty) mutator t's SATB buffer               → b=<…>
//!   satb state                                                                                          → <state>
//!   satb race <T> <seed> <rounds> <stagger> <k> <snap v0,…> <w0> … <w(T-1)>
//!        w_t = `f=v,f=v,…` (the stores of thread t, in order) or `-`; every round starts from fields = snap, unlog
//!        bit set, buffers empty. Answer: the DISTINCT round outcomes, ` ;; `-joined, each
//!        `<count>x@<first round> u=<unlog> f=<fields> b0=<buffer 0> b1=… [p=<panicked threads>]`.
//!        `<seed>` 0 leaves the yield points unarmed; `<stagger>` = upper bound of the per-thread random spin
//!        before its first store (so that one thread's unlog-bit test falls between the two halves of another's
//!        barrier). A race that does not finish within 10 s answers `hang`.
//! `<state>` = `u=<0|1> f=<v0,v1,…>`; a buffer is `v,v,…` or `-`; an address that is no referent object prints `raw:<hex>`.
use crate::proto::*;
use crate::vm::{obj, to_ref, VObjectModel};
use crate::VerifVM;
use mmtk::util::opaque_pointer::*;
use mmtk::util::{Address, ObjectReference};
use mmtk::vm::slot::{SimpleSlot, Slot};
use mmtk::vm::ObjectModel;
use mmtk::verif::conc::satb as hook;
use mmtk::{AllocationSemantics, Mutator};
use std::collections::HashMap;
use std::panic::{catch_unwind, AssertUnwindSafe};
use std::sync::atomic::{AtomicBool, AtomicUsize, Ordering};
use std::sync::{Arc, Mutex};
use std::time::{Duration, Instant};

const MAXT: usize = 8;
const MAXK: usize = 16;
const NVALS: usize = 96;

struct World {
    muts: Vec<usize>,             // leaked Box<Mutator<VerifVM>>
    vals: Vec<usize>,             // raw refs of the referent objects; vals[0] = 0 (null)
    by_addr: HashMap<usize, usize>,
    srcs: Vec<usize>,             // srcs[k] = raw ref of the object with k fields (0 = not yet allocated)
    k: usize,
}

static WORLD: Mutex<Option<World>> = Mutex::new(None);
static HUNG: AtomicBool = AtomicBool::new(false);

fn mutator(w: &World, t: usize) -> &'static mut Mutator<VerifVM> {
    unsafe { &mut *(w.muts[t] as *mut Mutator<VerifVM>) }
}

fn alloc_obj(m: &mut Mutator<VerifVM>, id: u32, nfields: usize) -> usize {
    let size = obj::size_for(nfields, 0);
    let a = mmtk::memory_manager::alloc(m, size, 8, 0, AllocationSemantics::Default);
    assert!(!a.is_zero(), "satb: allocation failed");
    let r = obj::init(a.as_usize(), id, nfields, size, 8, 0);
    mmtk::memory_manager::post_alloc(m, to_ref(r), size, AllocationSemantics::Default);
    r
}

/// `None`: this process does not run ConcurrentImmix.
fn with_world<R>(f: impl FnOnce(&mut World) -> R) -> Option<R> {
    if std::env::var_os("VERIF_PLAN").is_none() {
        std::env::set_var("VERIF_PLAN", "ConcurrentImmix");
    }
    let mmtk = crate::ensure_mmtk();
    let mut g = WORLD.lock().unwrap_or_else(|e| e.into_inner());
    if g.is_none() {
        // InitialMark's effect on the plan state: concurrent marking active, spaces allocate as live
        if !hook::set_concurrent_marking_state::<VerifVM>(mmtk, true) {
            return None;
        }
        assert_eq!(hook::concurrent_marking_in_progress::<VerifVM>(mmtk), Some(true));
        let muts: Vec<usize> = (0..MAXT)
            .map(|t| {
                let tls = VMMutatorThread(VMThread(OpaquePointer::from_address(unsafe { Address::from_usize(0x2000 + 8 * t) })));
                Box::into_raw(mmtk::memory_manager::bind_mutator(mmtk, tls)) as usize
            })
            .collect();
        let mut w = World { muts, vals: vec![0], by_addr: HashMap::new(), srcs: vec![0; MAXK + 1], k: 0 };
        for i in 1..=NVALS {
            let r = alloc_obj(mutator(&w, 0), 1000 + i as u32, 0);
            w.vals.push(r);
            w.by_addr.insert(r, i);
        }
        *g = Some(w);
    }
    Some(f(g.as_mut().unwrap()))
}

fn src_of(w: &mut World, k: usize) -> usize {
    if w.srcs[k] == 0 {
        w.srcs[k] = alloc_obj(mutator(w, 0), k as u32, k);
    }
    w.srcs[k]
}

fn set_field(src: usize, f: usize, raw: usize) {
    unsafe { (*(obj::slot(src, f) as *const AtomicUsize)).store(raw, Ordering::SeqCst) }
}

fn get_field(src: usize, f: usize) -> usize {
    unsafe { (*(obj::slot(src, f) as *const AtomicUsize)).load(Ordering::SeqCst) }
}

fn set_unlog(src: usize, unlog: bool) {
    if unlog {
        VObjectModel::GLOBAL_LOG_BIT_SPEC.mark_as_unlogged::<VerifVM>(to_ref(src), Ordering::SeqCst);
    } else {
        VObjectModel::GLOBAL_LOG_BIT_SPEC.clear::<VerifVM>(to_ref(src), Ordering::SeqCst);
    }
}

fn is_unlog(src: usize) -> bool {
    VObjectModel::GLOBAL_LOG_BIT_SPEC.is_unlogged::<VerifVM>(to_ref(src), Ordering::SeqCst)
}

fn name(by_addr: &HashMap<usize, usize>, raw: usize) -> String {
    if raw == 0 {
        "0".to_string()
    } else if let Some(i) = by_addr.get(&raw) {
        i.to_string()
    } else {
        format!("raw:{raw:x}")
    }
}

fn list(by_addr: &HashMap<usize, usize>, xs: impl Iterator<Item = usize>) -> String {
    let v: Vec<String> = xs.map(|x| name(by_addr, x)).collect();
    if v.is_empty() {
        "-".to_string()
    } else {
        v.join(",")
    }
}

fn state(w: &World, src: usize) -> String {
    format!("u={} f={}", usize::from(is_unlog(src)), list(&w.by_addr, (0..w.k).map(|f| get_field(src, f))))
}

fn take(w: &World, t: usize) -> Vec<usize> {
    hook::take_satb_buffer::<VerifVM>(mutator(w, t))
        .expect("not a ConcurrentImmix mutator")
        .into_iter()
        .map(|o: ObjectReference| o.to_raw_address().as_usize())
        .collect()
}

/// the mutator's reference store: pre-write barrier, then the store
fn write(m: &mut Mutator<VerifVM>, src: usize, f: usize, raw: usize) {
    let slot = SimpleSlot::from_address(unsafe { Address::from_usize(obj::slot(src, f)) });
    let target = if raw == 0 { None } else { Some(to_ref(raw)) };
    mmtk::memory_manager::object_reference_write_pre::<VerifVM>(m, to_ref(src), slot, target);
    match target {
        Some(o) => slot.store(o),
        None => set_field(src, f, 0),
    }
}

struct SpinBarrier {
    n: usize,
    count: AtomicUsize,
    gen: AtomicUsize,
}

impl SpinBarrier {
    fn new(n: usize) -> Self {
        SpinBarrier { n, count: AtomicUsize::new(0), gen: AtomicUsize::new(0) }
    }
    fn wait(&self) -> bool {
        let g = self.gen.load(Ordering::SeqCst);
        if self.count.fetch_add(1, Ordering::SeqCst) + 1 == self.n {
            self.count.store(0, Ordering::SeqCst);
            self.gen.store(g.wrapping_add(1), Ordering::SeqCst);
            return true;
        }
        let mut spins = 0u64;
        let t0 = Instant::now();
        while self.gen.load(Ordering::SeqCst) == g {
            spins += 1;
            if spins % 512 == 0 {
                std::thread::yield_now();
                if spins % (512 * 64) == 0 && t0.elapsed() > Duration::from_secs(10) {
                    return false;
                }
            } else {
                std::hint::spin_loop();
            }
        }
        true
    }
}

fn parse_writes(s: &str, k: usize) -> Option<Vec<(usize, usize)>> {
    if s == "-" {
        return Some(vec![]);
    }
    let mut v = vec![];
    for p in s.split(',') {
        let (f, x) = p.split_once('=')?;
        let (f, x) = (f.parse::<usize>().ok()?, x.parse::<usize>().ok()?);
        if f >= k || x > NVALS {
            return None;
        }
        v.push((f, x));
    }
    Some(v)
}

fn race(w: &mut World, args: &[&str]) -> String {
    if args.len() < 7 {
        return "bad-op".to_string();
    }
    let (nt, seed, rounds, stagger, k) = (unum(args[1]), num(args[2]), unum(args[3]), unum(args[4]), unum(args[5]));
    if nt == 0 || nt > MAXT || k == 0 || k > MAXK || rounds == 0 || rounds > 200_000 || args.len() != 7 + nt {
        return "bad-op".to_string();
    }
    let snap: Vec<usize> = match args[6].split(',').map(|x| x.parse::<usize>().ok().filter(|v| *v <= NVALS)).collect::<Option<Vec<_>>>() {
        Some(v) if v.len() == k => v,
        _ => return "bad-op".to_string(),
    };
    let mut writes = vec![];
    for t in 0..nt {
        match parse_writes(args[7 + t], k) {
            Some(v) => writes.push(v),
            None => return "bad-op".to_string(),
        }
    }
    if HUNG.load(Ordering::SeqCst) {
        return "hang".to_string();
    }
    let src = src_of(w, k);
    w.k = k;
    for t in 0..MAXT {
        take(w, t);
    }
    let reset = |w: &World| {
        for (f, v) in snap.iter().enumerate() {
            set_field(src, f, w.vals[*v]);
        }
        set_unlog(src, true);
    };
    let start = Arc::new(SpinBarrier::new(nt + 1));
    let end = Arc::new(SpinBarrier::new(nt + 1));
    let stop = Arc::new(AtomicBool::new(false));
    let panicked: Arc<Vec<AtomicBool>> = Arc::new((0..nt).map(|_| AtomicBool::new(false)).collect());
    mmtk::verif::gc::arm_yield(if seed == 0 { 0 } else { seed | 1 });
    let handles: Vec<_> = (0..nt)
        .map(|t| {
            let (start, end, stop, panicked) = (start.clone(), end.clone(), stop.clone(), panicked.clone());
            let mp = w.muts[t];
            let ws: Vec<(usize, usize)> = writes[t].iter().map(|(f, v)| (*f, w.vals[*v])).collect();
            std::thread::spawn(move || {
                mmtk::verif::gc::set_tid(400 + t + (seed as usize % 977) * 64);
                let m = unsafe { &mut *(mp as *mut Mutator<VerifVM>) };
                let mut x: u64 = (seed ^ 0x9E37_79B9_7F4A_7C15).wrapping_mul(t as u64 * 2 + 3) | 1;
                loop {
                    if !start.wait() || stop.load(Ordering::SeqCst) {
                        break;
                    }
                    x ^= x << 13;
                    x ^= x >> 7;
                    x ^= x << 17;
                    if stagger > 0 {
                        for _ in 0..(x >> 11) as usize % (stagger + 1) {
                            std::hint::spin_loop();
                        }
                    }
                    let r = catch_unwind(AssertUnwindSafe(|| {
                        for (f, raw) in ws.iter() {
                            write(m, src, *f, *raw);
                        }
                    }));
                    if r.is_err() {
                        panicked[t].store(true, Ordering::SeqCst);
                    }
                    if !end.wait() {
                        break;
                    }
                }
            })
        })
        .collect();
    let mut order: Vec<String> = vec![];
    let mut seen: HashMap<String, (usize, usize)> = HashMap::new();
    let mut ok = true;
    for r in 0..rounds {
        reset(w);
        for p in panicked.iter() {
            p.store(false, Ordering::SeqCst);
        }
        if !start.wait() || !end.wait() {
            ok = false;
            HUNG.store(true, Ordering::SeqCst);
            break;
        }
        let mut s = state(w, src);
        for t in 0..nt {
            s.push_str(&format!(" b{t}={}", list(&w.by_addr, take(w, t).into_iter())));
        }
        let ps: Vec<String> = (0..nt).filter(|t| panicked[*t].load(Ordering::SeqCst)).map(|t| t.to_string()).collect();
        if !ps.is_empty() {
            s.push_str(&format!(" p={}", ps.join(",")));
        }
        match seen.get_mut(&s) {
            Some(e) => e.0 += 1,
            None => {
                seen.insert(s.clone(), (1, r));
                order.push(s);
            }
        }
    }
    stop.store(true, Ordering::SeqCst);
    if ok {
        start.wait();
        for h in handles {
            let _ = h.join();
        }
        reset(w);
    }
    mmtk::verif::gc::arm_yield(0);
    if !ok {
        return "hang".to_string();
    }
    order.iter().map(|s| format!("{}x@{} {}", seen[s].0, seen[s].1, s)).collect::<Vec<_>>().join(" ;; ")
}

fn buf_len(w: &World, t: usize) -> usize {
    hook::satb_buffer_len::<VerifVM>(mutator(w, t)).expect("not a ConcurrentImmix mutator")
}

pub fn run(args: &[&str]) -> String {
    let r = with_world(|w| match args[0] {
        "reset" => {
            if args.len() < 3 {
                return "bad-op".to_string();
            }
            let (k, unlog) = (unum(args[1]), unum(args[2]));
            if k == 0 || k > MAXK || unlog > 1 || args.len() != 3 + k || args[3..].iter().any(|v| unum(v) > NVALS) {
                return "bad-op".to_string();
            }
            let src = src_of(w, k);
            w.k = k;
            for (f, v) in args[3..].iter().enumerate() {
                set_field(src, f, w.vals[unum(v)]);
            }
            set_unlog(src, unlog == 1);
            for t in 0..MAXT {
                take(w, t);
            }
            "ok".to_string()
        }
        "write" if args.len() == 4 && w.k > 0 => {
            let (t, f, v) = (unum(args[1]), unum(args[2]), unum(args[3]));
            if t >= MAXT || f >= w.k || v > NVALS {
                return "bad-op".to_string();
            }
            let src = w.srcs[w.k];
            write(mutator(w, t), src, f, w.vals[v]);
            format!("{} n={}", state(w, src), buf_len(w, t))
        }
        "probable" if args.len() == 2 && w.k > 0 => {
            let t = unum(args[1]);
            if t >= MAXT {
                return "bad-op".to_string();
            }
            let src = w.srcs[w.k];
            mutator(w, t).barrier.object_probable_write(to_ref(src));
            format!("{} n={}", state(w, src), buf_len(w, t))
        }
        "take" if args.len() == 2 => {
            let t = unum(args[1]);
            if t >= MAXT {
                return "bad-op".to_string();
            }
            format!("b={}", list(&w.by_addr, take(w, t).into_iter()))
        }
        "state" if args.len() == 1 && w.k > 0 => state(w, w.srcs[w.k]),
        "race" => race(w, args),
        _ => "bad-op".to_string(),
    });
    r.unwrap_or_else(|| "unsupported".to_string())
}
