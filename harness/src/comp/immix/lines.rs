//! C34 unit component. `immix <op> …`:
//!   consts                                 constants of the linked crate
//!   bstate <byte>                          BlockState::from(u8) and back
//!   tobyte <kind 0..3> <n>                 u8::from(BlockState) and back
//!   holes <cur> <unavail> <start> <hex>    real get_next_available_lines on a block with that line table
//!   sweep <cur> <hex>                      real Block::sweep (block state Unmarked, defrag byte 0 before)
//!   marklines <cur> <offset> <size> <hex>  real Line::mark_lines_for_object for an object at block+offset
use crate::proto::*;
use crate::vm::{obj, to_ref};
use crate::VerifVM;
use mmtk::util::{Address, VMThread};
use mmtk::verif::immix as ix;
use std::sync::Mutex;

static BLOCK: Mutex<usize> = Mutex::new(0);

fn kind_name(k: u8) -> &'static str {
    match k {
        0 => "unallocated",
        1 => "unmarked",
        2 => "marked",
        _ => "reusable",
    }
}

fn parse_hex(s: &str) -> Option<Vec<u8>> {
    if s.len() % 2 != 0 {
        return None;
    }
    (0..s.len() / 2).map(|i| u8::from_str_radix(&s[2 * i..2 * i + 2], 16).ok()).collect()
}

fn hex(v: &[u8]) -> String {
    v.iter().map(|x| format!("{x:02x}")).collect()
}

/// The process-wide MMTk instance; the `Immix` plan unless `VERIF_PLAN` says otherwise (NoGC has no
/// ImmixSpace). No GC thread is ever started.
fn instance() -> &'static mmtk::MMTK<VerifVM> {
    if std::env::var_os("VERIF_PLAN").is_none() {
        std::env::set_var("VERIF_PLAN", "Immix");
    }
    mmtk::scheduler::verif_set_worker_ordinal(0);
    crate::ensure_mmtk()
}

/// A block of a real ImmixSpace that is currently allocated (re-acquired after a sweep freed it).
fn block() -> Address {
    let mmtk = instance();
    let mut b = BLOCK.lock().unwrap();
    if *b == 0 || ix::unit_block_state(unsafe { Address::from_usize(*b) }) == 0 {
        let a = ix::unit_acquire_block(mmtk, VMThread::UNINITIALIZED).expect("no ImmixSpace / no block");
        *b = a.as_usize();
    }
    unsafe { Address::from_usize(*b) }
}

pub fn run(args: &[&str]) -> String {
    let c = ix::consts();
    match args[0] {
        "consts" => format!(
            "line_log={} block_log={} lines={} pages={} reset={} max={} unallocated={} unmarked={} marked={} block_only={} max_object={}",
            c.line_log_bytes,
            c.block_log_bytes,
            c.block_lines,
            c.block_pages,
            c.reset_mark_state,
            c.max_mark_state,
            c.mark_unallocated,
            c.mark_unmarked,
            c.mark_marked,
            c.block_only,
            c.max_object_size
        ),
        "bstate" => {
            let v = unum(args[1]);
            if v > 255 {
                return "bad-op".into();
            }
            let (k, n) = ix::block_state_of_byte(v as u8);
            let back = ix::block_state_to_byte(k, n).unwrap();
            format!("{} {} {} {}", kind_name(k), n, back, ix::block_state_is_reusable(v as u8))
        }
        "tobyte" => {
            let k = unum(args[1]);
            let n = unum(args[2]);
            if k > 3 || n > 255 {
                return "bad-op".into();
            }
            let byte = ix::block_state_to_byte(k as u8, n as u8).unwrap();
            let (k2, n2) = ix::block_state_of_byte(byte);
            format!("{} {} {}", byte, kind_name(k2), n2)
        }
        "holes" => {
            let (cur, un, start) = (unum(args[1]), unum(args[2]), unum(args[3]));
            let Some(lines) = parse_hex(args[4]) else { return "bad-op".into() };
            if cur > 255 || un > 255 || lines.len() != c.block_lines || start >= c.block_lines {
                return "bad-op".into();
            }
            let mmtk = instance();
            let b = block();
            ix::unit_store_lines(b, &lines);
            ix::unit_set_line_states(mmtk, cur as u8, un as u8);
            match ix::unit_holes(mmtk, b, start) {
                Some((s, e)) => format!("{s}-{e}"),
                None => "none".into(),
            }
        }
        "sweep" => {
            let cur = unum(args[1]);
            let Some(lines) = parse_hex(args[2]) else { return "bad-op".into() };
            if cur > 255 || lines.len() != c.block_lines {
                return "bad-op".into();
            }
            let mmtk = instance();
            let b = block();
            ix::unit_block_init(b, false);
            ix::unit_store_lines(b, &lines);
            let r = ix::unit_sweep(mmtk, b, cur as u8).unwrap();
            format!(
                "{} {} {} {}",
                ["swept", "reused", "noreuse"][r as usize],
                ix::unit_block_state(b),
                hex(&ix::unit_load_lines(b)),
                ix::unit_block_defrag_byte(b)
            )
        }
        "marklines" => {
            let (cur, off, size) = (unum(args[1]), unum(args[2]), unum(args[3]));
            let Some(lines) = parse_hex(args[4]) else { return "bad-op".into() };
            let block_bytes = 1usize << c.block_log_bytes;
            if cur > 255 || lines.len() != c.block_lines || off % 8 != 0 || size % 8 != 0 || size < 32 || off + size > block_bytes {
                return "bad-op".into();
            }
            let b = block();
            ix::unit_store_lines(b, &lines);
            let r = obj::init(b.as_usize() + off, 1, 0, size, 8, 0);
            let n = ix::unit_mark_lines_for_object::<VerifVM>(to_ref(r), cur as u8);
            format!("{} {}", n, hex(&ix::unit_load_lines(b)))
        }
        _ => "bad-op".into(),
    }
}
