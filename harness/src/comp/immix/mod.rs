//! package `immix`: C34 (`immix …`: block-state bytes, the real hole search / sweep / line marking
//! on one block of a real ImmixSpace), C28 (`pages …`: see pages.rs).
pub mod lines;
pub mod pages;

pub fn dispatch(tokens: &[&str]) -> Option<String> {
    let (c, args) = tokens.split_first()?;
    Some(match *c {
        "immix" => lines::run(args),
        "pages" => pages::run(args),
        _ => return None,
    })
}
