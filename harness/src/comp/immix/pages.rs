//! C28 unit component: a real contiguous `MonotonePageResource` (cursor + `PageAccounting` +
//! `commit_pages`), no memory involved. `pages <op> …`; every answer ends with `res=<reserved>
//! com=<committed> cur=<cursor>`:
//!   new <start> <bytes> | reserve <n> | alloc <reserved> <required> | clear <n> | reset | resetcursor <top>
use crate::proto::*;
use crate::VerifVM;
use mmtk::util::Address;
use mmtk::verif::immix::UnitMonotone;
use std::sync::Mutex;

static PR: Mutex<Option<UnitMonotone<VerifVM>>> = Mutex::new(None);

fn tail(p: &UnitMonotone<VerifVM>) -> String {
    let (r, c, cur) = p.counters();
    format!("res={} com={} cur={:#x}", r, c, cur.as_usize())
}

pub fn run(args: &[&str]) -> String {
    // the page resource survives a panic of one op (the counters may then be half updated, exactly
    // as in the real code); `new` starts over
    let mut g = PR.lock().unwrap_or_else(|e| e.into_inner());
    if args[0] == "new" {
        let (start, bytes) = (unum(args[1]), unum(args[2]));
        if start % (1 << 22) != 0 || bytes == 0 || bytes % 4096 != 0 || start == 0 {
            return "bad-op".into();
        }
        crate::ensure_mmtk();
        let p = UnitMonotone::<VerifVM>::new(unsafe { Address::from_usize(start) }, bytes);
        let t = tail(&p);
        *g = Some(p);
        return format!("ok {t}");
    }
    let Some(p) = g.as_ref() else { return "err no-pr".into() };
    match args[0] {
        "reserve" => format!("{} {}", p.reserve(unum(args[1])), tail(p)),
        "alloc" => match p.alloc(unum(args[1]), unum(args[2])) {
            Some((s, n, nc)) => format!("{:#x} {} {} {}", s.as_usize(), n, nc, tail(p)),
            None => format!("fail {}", tail(p)),
        },
        "clear" => {
            p.clear(unum(args[1]));
            format!("ok {}", tail(p))
        }
        "reset" => {
            p.reset();
            format!("ok {}", tail(p))
        }
        "resetcursor" => {
            p.reset_cursor(unsafe { Address::from_usize(unum(args[1])) });
            format!("ok {}", tail(p))
        }
        _ => "bad-op".into(),
    }
}
