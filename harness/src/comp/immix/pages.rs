//! C28 unit component: a real contiguous `MonotonePageResource` (cursor + `PageAccounting` +
//! `commit_pages`), no memory involved. `pages <op> …`; every answer ends with `res=<reserved>
//! com=<committed> cur=<cursor>`:
//!   new <start> <bytes> | reserve <n> | alloc <reserved> <required> | clear <n> | reset | resetcursor <top>
use crate::VerifVM;
use mmtk::util::Address;
use mmtk::verif::immix::UnitMonotone;
use std::sync::Mutex;

static PR: Mutex<Option<UnitMonotone<VerifVM>>> = Mutex::new(None);

fn tail(p: &UnitMonotone<VerifVM>) -> String {
    let (r, c, cur) = p.counters();
    format!("res={} com={} cur={:#x}", r, c, cur.as_usize())
}

pub fn run(args: &[&str]) -> String {
    // the page resource survives a panic of one op (the counters may then be half updated, exactly
    // as in the real code); `new` starts over
    let mut g = PR.lock().unwrap_or_else(|e| e.into_inner());
    let parse = |s: &str| -> Option<usize> {
        if let Some(h) = s.strip_prefix("0x") {
            usize::from_str_radix(h, 16).ok()
        } else {
            s.parse::<usize>().ok()
        }
    };
    if args[0] == "new" {
        if args.len() != 3 {
            return "bad-op".into();
        }
        let (Some(start), Some(bytes)) = (parse(args[1]), parse(args[2])) else { return "bad-op".into() };
        if start % (1 << 22) != 0 || bytes == 0 || bytes % 4096 != 0 || start == 0 {
            return "bad-op".into();
        }
        crate::ensure_mmtk();
        let p = UnitMonotone::<VerifVM>::new(unsafe { Address::from_usize(start) }, bytes);
        let t = tail(&p);
        *g = Some(p);
        return format!("ok {t}");
    }
    let Some(p) = g.as_ref() else { return "err no-pr".into() };
    let Some(n) = args[1..].iter().map(|s| parse(s)).collect::<Option<Vec<usize>>>() else { return "bad-op".into() };
    let arity = match args[0] {
        "reserve" | "clear" | "resetcursor" => 1,
        "alloc" => 2,
        "reset" => 0,
        _ => return "bad-op".into(),
    };
    if n.len() != arity {
        return "bad-op".into();
    }
    match args[0] {
        "reserve" => format!("{} {}", p.reserve(n[0]), tail(p)),
        "alloc" => match p.alloc(n[0], n[1]) {
            Some((s, n, nc)) => format!("{:#x} {} {} {}", s.as_usize(), n, nc, tail(p)),
            None => format!("fail {}", tail(p)),
        },
        "clear" => {
            p.clear(n[0]);
            format!("ok {}", tail(p))
        }
        "reset" => {
            p.reset();
            format!("ok {}", tail(p))
        }
        "resetcursor" => {
            p.reset_cursor(unsafe { Address::from_usize(n[0]) });
            format!("ok {}", tail(p))
        }
        _ => "bad-op".into(),
    }
}
