//! C28 unit component (page resources) — filled in by C28.
pub fn run(_args: &[&str]) -> String {
    "bad-op".into()
}
