//! Unit components: each drives one piece of real mmtk-core code through the line protocol.
//! `run(args, st)` gets the tokens after the component name and returns the result line.
pub mod arith;
pub mod revgroup;

/// Dispatch one line. Returns None for an unknown component.
pub fn dispatch(tokens: &[&str]) -> Option<String> {
    let (c, args) = tokens.split_first()?;
    Some(match *c {
        "arith" => arith::run(args),
        "revgroup" => revgroup::run(args),
        _ => return None,
    })
}
