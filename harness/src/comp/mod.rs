//! Unit components, grouped in packages so that packages can be developed independently.
//! Each package has `dispatch(tokens) -> Option<String>` (None = not my component).
pub mod base;
pub mod conc;
pub mod ds;
pub mod gcfix;
pub mod layout;
pub mod los;
pub mod immix;
pub mod meta;
pub mod misc;
pub mod sched;

/// Dispatch one line. Returns None for an unknown component.
pub fn dispatch(tokens: &[&str]) -> Option<String> {
    base::dispatch(tokens)
        .or_else(|| meta::dispatch(tokens))
        .or_else(|| ds::dispatch(tokens))
        .or_else(|| layout::dispatch(tokens))
        .or_else(|| misc::dispatch(tokens))
        .or_else(|| conc::dispatch(tokens))
        .or_else(|| immix::dispatch(tokens))
        .or_else(|| sched::dispatch(tokens))
        .or_else(|| los::dispatch(tokens))
        .or_else(|| gcfix::dispatch(tokens))
}

/// `cfg <key> …` lines hx_unit does not handle itself are offered to the packages
/// (false = configuration mismatch).
pub fn cfg(tokens: &[&str]) -> bool {
    layout::cfg(tokens)
}
