//! package `base`: C33 arith, C40 revgroup
pub mod arith;
pub mod revgroup;

pub fn dispatch(tokens: &[&str]) -> Option<String> {
    let (c, args) = tokens.split_first()?;
    Some(match *c {
        "arith" => arith::run(args),
        "revgroup" => revgroup::run(args),
        _ => return None,
    })
}
