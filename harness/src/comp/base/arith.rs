//! C33: alignment and size arithmetic.  `arith <fn> <args...>` → decimal result / bool.
use crate::proto::*;
use crate::VerifVM;
use mmtk::verif::align::{align_allocation_inner, get_maximum_aligned_size_inner};
use mmtk::util::conversions::*;
use mmtk::util::Address;

fn a(x: usize) -> Address {
    unsafe { Address::from_usize(x) }
}

pub fn run(args: &[&str]) -> String {
    let n: Vec<usize> = args[1..].iter().map(|s| unum(s)).collect();
    match args[0] {
        "raw_align_up" => raw_align_up(n[0], n[1]).to_string(),
        "raw_align_down" => raw_align_down(n[0], n[1]).to_string(),
        "raw_is_aligned" => raw_is_aligned(n[0], n[1]).to_string(),
        "addr_align_up" => a(n[0]).align_up(n[1]).as_usize().to_string(),
        "addr_align_down" => a(n[0]).align_down(n[1]).as_usize().to_string(),
        "addr_is_aligned_to" => a(n[0]).is_aligned_to(n[1]).to_string(),
        "rshift_align_up" => rshift_align_up(n[0], n[1]).to_string(),
        "bytes_to_pages_up" => bytes_to_pages_up(n[0]).to_string(),
        "bytes_to_chunks_up" => bytes_to_chunks_up(n[0]).to_string(),
        "pages_to_bytes" => pages_to_bytes(n[0]).to_string(),
        "chunk_align_up" => chunk_align_up(a(n[0])).as_usize().to_string(),
        "chunk_align_down" => chunk_align_down(a(n[0])).as_usize().to_string(),
        "page_align_down" => page_align_down(a(n[0])).as_usize().to_string(),
        "is_page_aligned" => is_page_aligned(a(n[0])).to_string(),
        // align_allocation_inner region alignment offset known_alignment   (no gap filling)
        "align_alloc" => align_allocation_inner::<VerifVM>(a(n[0]), n[1], n[2], n[3])
            .as_usize()
            .to_string(),
        "max_aligned_size" => get_maximum_aligned_size_inner::<VerifVM>(n[0], n[1], n[2]).to_string(),
        // VM constants the model needs: MIN_ALIGNMENT MAX_ALIGNMENT
        "vm_consts" => {
            use mmtk::vm::VMBinding;
            format!("{} {}", VerifVM::MIN_ALIGNMENT, VerifVM::MAX_ALIGNMENT)
        }
        other => format!("bad-op {other}"),
    }
}
