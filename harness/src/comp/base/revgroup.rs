//! C40: revisitable_group_by.  `revgroup <modulus> <x1> <x2> ...`
//! Output: `k:len:[items];k:len:[items];...` (empty string for no groups → `-`).
use crate::proto::*;

pub fn run(args: &[&str]) -> String {
    let m = num(args[0]);
    let items: Vec<u64> = args[1..].iter().map(|s| num(s)).collect();
    let groups = mmtk::verif::rev_group(&items, m);
    if groups.is_empty() {
        return "-".to_string();
    }
    groups
        .iter()
        .map(|(k, len, xs)| {
            format!(
                "{}:{}:[{}]",
                k,
                len,
                xs.iter().map(|x| x.to_string()).collect::<Vec<_>>().join(",")
            )
        })
        .collect::<Vec<_>>()
        .join(";")
}
