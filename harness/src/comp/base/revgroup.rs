//! C40: revisitable_group_by.  `revgroup <modulus> <x1> <x2> ...`
//! Output: `k:len:[items];k:len:[items];...` (empty string for no groups → `-`). `len` is the group's public `len` field
//! read three times — before the group is iterated, after one item was pulled, after it was exhausted — and printed as
//! one number when the three agree, `a/b/c` otherwise.
use crate::proto::*;

pub fn run(args: &[&str]) -> String {
    let m = num(args[0]);
    let items: Vec<u64> = args[1..].iter().map(|s| num(s)).collect();
    let groups = mmtk::verif::rev_group_lens(&items, m);
    if groups.is_empty() {
        return "-".to_string();
    }
    groups
        .iter()
        .map(|(k, lens, xs)| {
            let len = if lens[0] == lens[1] && lens[1] == lens[2] {
                lens[0].to_string()
            } else {
                format!("{}/{}/{}", lens[0], lens[1], lens[2])
            };
            format!(
                "{}:{}:[{}]",
                k,
                len,
                xs.iter().map(|x| x.to_string()).collect::<Vec<_>>().join(",")
            )
        })
        .collect::<Vec<_>>()
        .join(";")
}
