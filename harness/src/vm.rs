//! VerifVM: the binding type. (GC-capable parts live in `gcvm`; this file fixes the type-level
//! configuration every component shares.)
use mmtk::util::copy::{CopySemantics, GCWorkerCopyContext};
use mmtk::util::opaque_pointer::*;
use mmtk::util::{Address, ObjectReference};
use mmtk::vm::*;
use mmtk::Mutator;

#[derive(Default)]
pub struct VerifVM;

pub type VSlot = mmtk::vm::slot::SimpleSlot;

impl VMBinding for VerifVM {
    type VMObjectModel = VObjectModel;
    type VMScanning = VScanning;
    type VMCollection = VCollection;
    type VMActivePlan = VActivePlan;
    type VMReferenceGlue = VReferenceGlue;
    type VMSlot = VSlot;
    type VMMemorySlice = mmtk::vm::slot::UnimplementedMemorySlice;

    const MIN_ALIGNMENT: usize = 8;
    const MAX_ALIGNMENT: usize = 64;
    const USE_ALLOCATION_OFFSET: bool = true;
    // Do not fill alignment gaps: zeroing (C03) is then observable on the whole grant.
    const ALIGNMENT_VALUE: u8 = 0;
}

pub struct VObjectModel;
/// object reference = object start + 8 (so `ref != start`), except with `unified_ref`
/// (the Compressor requires reference == start).
#[cfg(not(feature = "unified_ref"))]
pub const OBJECT_REF_OFFSET: usize = 8;
#[cfg(feature = "unified_ref")]
pub const OBJECT_REF_OFFSET: usize = 0;

impl ObjectModel<VerifVM> for VObjectModel {
    const GLOBAL_LOG_BIT_SPEC: VMGlobalLogBitSpec = VMGlobalLogBitSpec::side_first();
    const LOCAL_FORWARDING_POINTER_SPEC: VMLocalForwardingPointerSpec =
        VMLocalForwardingPointerSpec::in_header(-64);
    const LOCAL_FORWARDING_BITS_SPEC: VMLocalForwardingBitsSpec =
        VMLocalForwardingBitsSpec::side_first();
    const LOCAL_MARK_BIT_SPEC: VMLocalMarkBitSpec =
        VMLocalMarkBitSpec::side_after(Self::LOCAL_FORWARDING_BITS_SPEC.as_spec());
    #[cfg(feature = "has_pinning")]
    const LOCAL_PINNING_BIT_SPEC: VMLocalPinningBitSpec =
        VMLocalPinningBitSpec::side_after(Self::LOCAL_MARK_BIT_SPEC.as_spec());
    #[cfg(feature = "has_pinning")]
    const LOCAL_LOS_MARK_NURSERY_SPEC: VMLocalLOSMarkNurserySpec =
        VMLocalLOSMarkNurserySpec::side_after(Self::LOCAL_PINNING_BIT_SPEC.as_spec());
    #[cfg(not(feature = "has_pinning"))]
    const LOCAL_LOS_MARK_NURSERY_SPEC: VMLocalLOSMarkNurserySpec =
        VMLocalLOSMarkNurserySpec::side_after(Self::LOCAL_MARK_BIT_SPEC.as_spec());

    const OBJECT_REF_OFFSET_LOWER_BOUND: isize = OBJECT_REF_OFFSET as isize;
    const UNIFIED_OBJECT_REFERENCE_ADDRESS: bool = cfg!(feature = "unified_ref");

    fn copy(
        _from: ObjectReference,
        _semantics: CopySemantics,
        _copy_context: &mut GCWorkerCopyContext<VerifVM>,
    ) -> ObjectReference {
        unimplemented!()
    }
    fn copy_to(_from: ObjectReference, _to: ObjectReference, _region: Address) -> Address {
        unimplemented!()
    }
    fn get_current_size(_object: ObjectReference) -> usize {
        unimplemented!()
    }
    fn get_size_when_copied(object: ObjectReference) -> usize {
        Self::get_current_size(object)
    }
    fn get_align_when_copied(_object: ObjectReference) -> usize {
        8
    }
    fn get_align_offset_when_copied(_object: ObjectReference) -> usize {
        0
    }
    fn get_reference_when_copied_to(_from: ObjectReference, to: Address) -> ObjectReference {
        unsafe { ObjectReference::from_raw_address_unchecked(to + OBJECT_REF_OFFSET) }
    }
    fn get_type_descriptor(_reference: ObjectReference) -> &'static [i8] {
        unimplemented!()
    }
    fn ref_to_object_start(object: ObjectReference) -> Address {
        object.to_raw_address().sub(OBJECT_REF_OFFSET)
    }
    fn ref_to_header(object: ObjectReference) -> Address {
        object.to_raw_address()
    }
    fn dump_object(_object: ObjectReference) {}
}

pub struct VScanning;
impl Scanning<VerifVM> for VScanning {
    fn scan_roots_in_mutator_thread(
        _tls: VMWorkerThread,
        _mutator: &'static mut Mutator<VerifVM>,
        _factory: impl RootsWorkFactory<VSlot>,
    ) {
        unimplemented!()
    }
    fn scan_vm_specific_roots(_tls: VMWorkerThread, _factory: impl RootsWorkFactory<VSlot>) {
        unimplemented!()
    }
    fn scan_object<SV: SlotVisitor<VSlot>>(
        _tls: VMWorkerThread,
        _object: ObjectReference,
        _slot_visitor: &mut SV,
    ) {
        unimplemented!()
    }
    fn notify_initial_thread_scan_complete(_partial_scan: bool, _tls: VMWorkerThread) {}
    fn supports_return_barrier() -> bool {
        false
    }
    fn prepare_for_roots_re_scanning() {}
}

pub struct VCollection;
impl Collection<VerifVM> for VCollection {
    fn stop_all_mutators<F>(_tls: VMWorkerThread, _mutator_visitor: F)
    where
        F: FnMut(&'static mut Mutator<VerifVM>),
    {
        unimplemented!()
    }
    fn resume_mutators(_tls: VMWorkerThread) {
        unimplemented!()
    }
    fn block_for_gc(_tls: VMMutatorThread) {
        unimplemented!()
    }
    fn spawn_gc_thread(_tls: VMThread, _ctx: GCThreadContext<VerifVM>) {
        // unit components never run a GC; GC threads are not started.
    }
}

pub struct VActivePlan;
impl ActivePlan<VerifVM> for VActivePlan {
    fn number_of_mutators() -> usize {
        0
    }
    fn is_mutator(_tls: VMThread) -> bool {
        true
    }
    fn mutator(_tls: VMMutatorThread) -> &'static mut Mutator<VerifVM> {
        unimplemented!()
    }
    fn mutators<'a>() -> Box<dyn Iterator<Item = &'a mut Mutator<VerifVM>> + 'a> {
        Box::new(std::iter::empty())
    }
}

pub struct VReferenceGlue;
impl ReferenceGlue<VerifVM> for VReferenceGlue {
    type FinalizableType = ObjectReference;
    fn set_referent(_reference: ObjectReference, _referent: ObjectReference) {
        unimplemented!()
    }
    fn get_referent(_object: ObjectReference) -> Option<ObjectReference> {
        unimplemented!()
    }
    fn clear_referent(_object: ObjectReference) {
        unimplemented!()
    }
    fn enqueue_references(_references: &[ObjectReference], _tls: VMWorkerThread) {}
}
