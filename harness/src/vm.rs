//! VerifVM: a real, complete MMTk binding used only by the verification harness.
//!
//! Object layout (little-endian, 8-byte aligned), `ref = start + REF_OFF` (`REF_OFF` = 8 by default,
//! 0 with feature `unified_ref`):
//! ```text
//!   start+0          forwarding-pointer word (LOCAL_FORWARDING_POINTER_SPEC)       [only if REF_OFF = 8]
//!   ref+0            header word reserved for in-header metadata bits (zero unless feature hdr_specs;
//!                    with unified_ref this word doubles as the forwarding-pointer word)
//!   ref+8            id:u32  nfields:u16  flags:u16
//!   ref+16           size:u32 (total bytes from start)  payloadhash:u32
//!   ref+24 ...       nfields 8-byte reference slots
//!   ...              payload bytes, byte k = (id*31 + k) & 0xff
//! ```
//! flags: bit0 = reference object (field 0 is a weak referent and is NOT scanned), bit1 = free use
//! (finalized-marked by harness), bits 8..10 = log2(align) - 3, bits 11..15 = align offset / 8
//! (so that copies keep the allocation alignment).
//!
//! The runtime state (mutators, roots, safepoint protocol, weak tables) lives in [`crate::rt`].
use crate::rt;
use mmtk::util::alloc::AllocationError;
use mmtk::util::copy::{CopySemantics, GCWorkerCopyContext};
use mmtk::util::opaque_pointer::*;
use mmtk::util::{Address, ObjectReference};
use mmtk::verif::gc::{ev, Kind};
use mmtk::vm::slot::{MemorySlice, SimpleSlot};
use mmtk::vm::*;
use mmtk::Mutator;

#[derive(Default)]
pub struct VerifVM;

pub type VSlot = SimpleSlot;

impl VMBinding for VerifVM {
    type VMObjectModel = VObjectModel;
    type VMScanning = VScanning;
    type VMCollection = VCollection;
    type VMActivePlan = VActivePlan;
    type VMReferenceGlue = VReferenceGlue;
    type VMSlot = VSlot;
    type VMMemorySlice = VSlice;

    const MIN_ALIGNMENT: usize = 8;
    const MAX_ALIGNMENT: usize = 64;
    const USE_ALLOCATION_OFFSET: bool = true;
    // Do not fill alignment gaps: zeroing (C03) is then observable on the whole grant.
    const ALIGNMENT_VALUE: u8 = 0;
}

// ---------------------------------------------------------------------------------------------
// Object layout
// ---------------------------------------------------------------------------------------------

/// object reference = object start + OBJECT_REF_OFFSET.
#[cfg(not(feature = "unified_ref"))]
pub const OBJECT_REF_OFFSET: usize = 8;
#[cfg(feature = "unified_ref")]
pub const OBJECT_REF_OFFSET: usize = 0;

pub const OFF_ID: usize = 8;
pub const OFF_NFIELDS: usize = 12;
pub const OFF_FLAGS: usize = 14;
pub const OFF_SIZE: usize = 16;
pub const OFF_HASH: usize = 20;
pub const OFF_SLOTS: usize = 24;
/// bytes from object start to the first slot
pub const HEADER_BYTES: usize = OBJECT_REF_OFFSET + OFF_SLOTS;
pub const MIN_OBJECT_SIZE: usize = 32;

pub const FLAG_REFOBJ: u16 = 1;
pub const FLAG_FINMARK: u16 = 2;

/// Raw accessors on an object reference given as an address (`r` = the ref, not the start).
pub mod obj {
    use super::*;
    #[inline]
    pub fn rd<T: Copy>(a: usize) -> T {
        unsafe { std::ptr::read_volatile(a as *const T) }
    }
    #[inline]
    pub fn wr<T: Copy>(a: usize, v: T) {
        unsafe { std::ptr::write_volatile(a as *mut T, v) }
    }
    pub fn start(r: usize) -> usize {
        r - OBJECT_REF_OFFSET
    }
    pub fn id(r: usize) -> u32 {
        rd(r + OFF_ID)
    }
    pub fn nfields(r: usize) -> usize {
        rd::<u16>(r + OFF_NFIELDS) as usize
    }
    pub fn flags(r: usize) -> u16 {
        rd(r + OFF_FLAGS)
    }
    pub fn set_flags(r: usize, f: u16) {
        wr(r + OFF_FLAGS, f)
    }
    pub fn size(r: usize) -> usize {
        rd::<u32>(r + OFF_SIZE) as usize
    }
    pub fn hash(r: usize) -> u32 {
        rd(r + OFF_HASH)
    }
    pub fn slot(r: usize, i: usize) -> usize {
        r + OFF_SLOTS + 8 * i
    }
    pub fn field(r: usize, i: usize) -> usize {
        rd(slot(r, i))
    }
    pub fn payload_start(r: usize) -> usize {
        r + OFF_SLOTS + 8 * nfields(r)
    }
    pub fn payload_len(r: usize) -> usize {
        (start(r) + size(r)).saturating_sub(payload_start(r))
    }
    pub fn pattern(id: u32, k: usize) -> u8 {
        ((id as usize).wrapping_mul(31).wrapping_add(k) & 0xff) as u8
    }
    /// FNV-1a over the payload bytes as they are in memory.
    pub fn compute_hash(r: usize) -> u32 {
        let p = payload_start(r);
        let mut h: u32 = 0x811c9dc5;
        for k in 0..payload_len(r) {
            h ^= rd::<u8>(p + k) as u32;
            h = h.wrapping_mul(0x01000193);
        }
        h
    }
    /// payload equals the id-derived pattern and the stored hash equals the recomputed one
    pub fn hash_ok(r: usize) -> bool {
        let p = payload_start(r);
        let i = id(r);
        for k in 0..payload_len(r) {
            if rd::<u8>(p + k) != pattern(i, k) {
                return false;
            }
        }
        compute_hash(r) == hash(r)
    }
    pub fn align(r: usize) -> usize {
        8usize << ((flags(r) >> 8) & 7)
    }
    pub fn align_offset(r: usize) -> usize {
        ((flags(r) >> 11) as usize) * 8
    }
    /// total object size for the given shape
    pub fn size_for(nfields: usize, payload: usize) -> usize {
        let raw = HEADER_BYTES + 8 * nfields + payload;
        let raw = (raw + 7) & !7;
        raw.max(MIN_OBJECT_SIZE)
    }
    /// Initialise a freshly allocated object at `start` (memory assumed zero or arbitrary).
    pub fn init(start: usize, id: u32, nfields: usize, size: usize, align: usize, offset: usize) -> usize {
        let r = start + OBJECT_REF_OFFSET;
        if OBJECT_REF_OFFSET != 0 {
            wr::<usize>(start, 0);
        }
        wr::<usize>(r, 0);
        wr::<u32>(r + OFF_ID, id);
        wr::<u16>(r + OFF_NFIELDS, nfields as u16);
        let mut fl: u16 = 0;
        let la = align.trailing_zeros() as u16;
        if (3..=6).contains(&la) && offset % 8 == 0 && offset / 8 < 32 {
            fl |= (la - 3) << 8;
            fl |= ((offset / 8) as u16) << 11;
        }
        wr::<u16>(r + OFF_FLAGS, fl);
        wr::<u32>(r + OFF_SIZE, size as u32);
        for i in 0..nfields {
            wr::<usize>(slot(r, i), 0);
        }
        let p = payload_start(r);
        for k in 0..payload_len(r) {
            wr::<u8>(p + k, pattern(id, k));
        }
        wr::<u32>(r + OFF_HASH, compute_hash(r));
        r
    }
}

pub fn to_ref(r: usize) -> ObjectReference {
    unsafe { ObjectReference::from_raw_address_unchecked(Address::from_usize(r)) }
}

// ---------------------------------------------------------------------------------------------
// Object model
// ---------------------------------------------------------------------------------------------

pub struct VObjectModel;

#[cfg(not(feature = "hdr_specs"))]
impl VObjectModel {
    const LOG: VMGlobalLogBitSpec = VMGlobalLogBitSpec::side_first();
    const FWD_BITS: VMLocalForwardingBitsSpec = VMLocalForwardingBitsSpec::side_first();
    const MARK: VMLocalMarkBitSpec = VMLocalMarkBitSpec::side_after(Self::FWD_BITS.as_spec());
    #[cfg(feature = "has_pinning")]
    const PIN: VMLocalPinningBitSpec = VMLocalPinningBitSpec::side_after(Self::MARK.as_spec());
    #[cfg(feature = "has_pinning")]
    const LOS: VMLocalLOSMarkNurserySpec = VMLocalLOSMarkNurserySpec::side_after(Self::PIN.as_spec());
    #[cfg(not(feature = "has_pinning"))]
    const LOS: VMLocalLOSMarkNurserySpec = VMLocalLOSMarkNurserySpec::side_after(Self::MARK.as_spec());
}

/// feature `hdr_specs`: forwarding bits (bits 0-1) and log bit (bit 3) live in the header word at
/// `ref+0`; mark, LOS mark/nursery and pinning bits stay on the side.
/// With `unified_ref` that word is also the forwarding pointer (whose low 3 bits are free), so the
/// log bit stays on the side in that combination.
#[cfg(feature = "hdr_specs")]
impl VObjectModel {
    #[cfg(not(feature = "unified_ref"))]
    const LOG: VMGlobalLogBitSpec = VMGlobalLogBitSpec::in_header(3);
    #[cfg(feature = "unified_ref")]
    const LOG: VMGlobalLogBitSpec = VMGlobalLogBitSpec::side_first();
    const FWD_BITS: VMLocalForwardingBitsSpec = VMLocalForwardingBitsSpec::in_header(0);
    // NOTE: an in-header mark bit is rejected by ImmixSpace ("cyclic mark bits is not supported",
    // immixspace.rs prepare) and every plan owns an ImmixSpace (the nonmoving space): mark stays on the side.
    const MARK: VMLocalMarkBitSpec = VMLocalMarkBitSpec::side_first();
    #[cfg(feature = "has_pinning")]
    const PIN: VMLocalPinningBitSpec = VMLocalPinningBitSpec::side_after(Self::MARK.as_spec());
    #[cfg(feature = "has_pinning")]
    const LOS: VMLocalLOSMarkNurserySpec = VMLocalLOSMarkNurserySpec::side_after(Self::PIN.as_spec());
    #[cfg(not(feature = "has_pinning"))]
    const LOS: VMLocalLOSMarkNurserySpec = VMLocalLOSMarkNurserySpec::side_after(Self::MARK.as_spec());
}

impl ObjectModel<VerifVM> for VObjectModel {
    const GLOBAL_LOG_BIT_SPEC: VMGlobalLogBitSpec = Self::LOG;
    #[cfg(not(feature = "unified_ref"))]
    const LOCAL_FORWARDING_POINTER_SPEC: VMLocalForwardingPointerSpec =
        VMLocalForwardingPointerSpec::in_header(-64);
    #[cfg(feature = "unified_ref")]
    const LOCAL_FORWARDING_POINTER_SPEC: VMLocalForwardingPointerSpec =
        VMLocalForwardingPointerSpec::in_header(0);
    const LOCAL_FORWARDING_BITS_SPEC: VMLocalForwardingBitsSpec = Self::FWD_BITS;
    const LOCAL_MARK_BIT_SPEC: VMLocalMarkBitSpec = Self::MARK;
    #[cfg(feature = "has_pinning")]
    const LOCAL_PINNING_BIT_SPEC: VMLocalPinningBitSpec = Self::PIN;
    const LOCAL_LOS_MARK_NURSERY_SPEC: VMLocalLOSMarkNurserySpec = Self::LOS;

    const OBJECT_REF_OFFSET_LOWER_BOUND: isize = OBJECT_REF_OFFSET as isize;
    const UNIFIED_OBJECT_REFERENCE_ADDRESS: bool = cfg!(feature = "unified_ref");

    fn copy(
        from: ObjectReference,
        semantics: CopySemantics,
        copy_context: &mut GCWorkerCopyContext<VerifVM>,
    ) -> ObjectReference {
        let fr = from.to_raw_address().as_usize();
        let bytes = obj::size(fr);
        let align = obj::align(fr);
        let offset = obj::align_offset(fr);
        let dst = copy_context.alloc_copy(from, bytes, align, offset, semantics);
        assert!(!dst.is_zero(), "alloc_copy returned zero");
        let from_start = obj::start(fr);
        unsafe {
            std::ptr::copy_nonoverlapping(from_start as *const u8, dst.to_mut_ptr::<u8>(), bytes);
        }
        let to = dst.as_usize() + OBJECT_REF_OFFSET;
        // the copy must not inherit a forwarding pointer
        if OBJECT_REF_OFFSET != 0 {
            obj::wr::<usize>(dst.as_usize(), 0);
        }
        let to_obj = to_ref(to);
        copy_context.post_copy(to_obj, bytes, semantics);
        rt::note_copy(obj::id(to));
        ev(Kind::VmCopy, obj::id(to) as usize, ((semantics as usize) << 48) | to);
        to_obj
    }

    fn copy_to(from: ObjectReference, to: ObjectReference, _region: Address) -> Address {
        let fr = from.to_raw_address().as_usize();
        let tr = to.to_raw_address().as_usize();
        let bytes = obj::size(fr);
        let id = obj::id(fr);
        if fr != tr {
            unsafe {
                std::ptr::copy(obj::start(fr) as *const u8, obj::start(tr) as *mut u8, bytes);
            }
            rt::note_copy(id);
        }
        ev(Kind::VmCopyTo, id as usize, tr);
        unsafe { Address::from_usize(obj::start(tr) + bytes) }
    }

    fn get_current_size(object: ObjectReference) -> usize {
        obj::size(object.to_raw_address().as_usize())
    }
    fn get_size_when_copied(object: ObjectReference) -> usize {
        Self::get_current_size(object)
    }
    fn get_align_when_copied(object: ObjectReference) -> usize {
        obj::align(object.to_raw_address().as_usize())
    }
    fn get_align_offset_when_copied(object: ObjectReference) -> usize {
        obj::align_offset(object.to_raw_address().as_usize())
    }
    fn get_reference_when_copied_to(_from: ObjectReference, to: Address) -> ObjectReference {
        unsafe { ObjectReference::from_raw_address_unchecked(to + OBJECT_REF_OFFSET) }
    }
    fn get_type_descriptor(_reference: ObjectReference) -> &'static [i8] {
        &[]
    }
    fn ref_to_object_start(object: ObjectReference) -> Address {
        object.to_raw_address().sub(OBJECT_REF_OFFSET)
    }
    fn ref_to_header(object: ObjectReference) -> Address {
        object.to_raw_address()
    }
    fn dump_object(object: ObjectReference) {
        let r = object.to_raw_address().as_usize();
        eprintln!(
            "obj {:#x} id={} nf={} flags={:#x} size={}",
            r,
            obj::id(r),
            obj::nfields(r),
            obj::flags(r),
            obj::size(r)
        );
    }
}

// ---------------------------------------------------------------------------------------------
// Memory slice: a range of reference slots inside one object
// ---------------------------------------------------------------------------------------------

#[derive(Clone, Debug, PartialEq, Eq, Hash)]
pub struct VSlice {
    pub start: Address,
    pub end: Address,
    /// the object containing the slots (raw ref, 0 = unknown)
    pub object: usize,
}

unsafe impl Send for VSlice {}

pub struct VSliceIter {
    cursor: Address,
    limit: Address,
}

impl Iterator for VSliceIter {
    type Item = VSlot;
    fn next(&mut self) -> Option<VSlot> {
        if self.cursor >= self.limit {
            None
        } else {
            let s = self.cursor;
            self.cursor += 8usize;
            Some(SimpleSlot::from_address(s))
        }
    }
}

impl MemorySlice for VSlice {
    type SlotType = VSlot;
    type SlotIterator = VSliceIter;
    fn iter_slots(&self) -> VSliceIter {
        VSliceIter { cursor: self.start, limit: self.end }
    }
    fn object(&self) -> Option<ObjectReference> {
        ObjectReference::from_raw_address(unsafe { Address::from_usize(self.object) })
    }
    fn start(&self) -> Address {
        self.start
    }
    fn bytes(&self) -> usize {
        self.end - self.start
    }
    fn copy(src: &Self, tgt: &Self) {
        debug_assert_eq!(src.bytes(), tgt.bytes());
        unsafe {
            std::ptr::copy(src.start.to_ptr::<u8>(), tgt.start.to_mut_ptr::<u8>(), src.bytes());
        }
    }
}

// ---------------------------------------------------------------------------------------------
// Scanning
// ---------------------------------------------------------------------------------------------

pub struct VScanning;
impl Scanning<VerifVM> for VScanning {
    fn scan_roots_in_mutator_thread(
        _tls: VMWorkerThread,
        mutator: &'static mut Mutator<VerifVM>,
        factory: impl RootsWorkFactory<VSlot>,
    ) {
        rt::scan_mutator_roots(mutator, factory);
    }
    fn scan_vm_specific_roots(_tls: VMWorkerThread, factory: impl RootsWorkFactory<VSlot>) {
        rt::scan_vm_roots(factory);
    }
    fn scan_object<SV: SlotVisitor<VSlot>>(
        _tls: VMWorkerThread,
        object: ObjectReference,
        slot_visitor: &mut SV,
    ) {
        let r = object.to_raw_address().as_usize();
        let n = obj::nfields(r);
        let first = if obj::flags(r) & FLAG_REFOBJ != 0 { 1 } else { 0 };
        for i in first..n {
            slot_visitor.visit_slot(SimpleSlot::from_address(unsafe { Address::from_usize(obj::slot(r, i)) }));
        }
    }
    fn notify_initial_thread_scan_complete(_partial_scan: bool, _tls: VMWorkerThread) {}
    fn supports_return_barrier() -> bool {
        false
    }
    fn prepare_for_roots_re_scanning() {}
    fn process_weak_refs(
        worker: &mut mmtk::scheduler::GCWorker<VerifVM>,
        tracer_context: impl ObjectTracerContext<VerifVM>,
    ) -> bool {
        rt::process_weak_refs(worker, tracer_context)
    }
    fn forward_weak_refs(
        worker: &mut mmtk::scheduler::GCWorker<VerifVM>,
        tracer_context: impl ObjectTracerContext<VerifVM>,
    ) {
        rt::forward_weak_refs(worker, tracer_context)
    }
}

// ---------------------------------------------------------------------------------------------
// Collection
// ---------------------------------------------------------------------------------------------

pub struct VCollection;
impl Collection<VerifVM> for VCollection {
    fn stop_all_mutators<F>(_tls: VMWorkerThread, mutator_visitor: F)
    where
        F: FnMut(&'static mut Mutator<VerifVM>),
    {
        rt::stop_all_mutators(mutator_visitor);
    }
    fn resume_mutators(_tls: VMWorkerThread) {
        rt::resume_mutators();
    }
    fn block_for_gc(tls: VMMutatorThread) {
        rt::block_for_gc(tls);
    }
    fn spawn_gc_thread(tls: VMThread, ctx: GCThreadContext<VerifVM>) {
        rt::spawn_gc_thread(tls, ctx);
    }
    fn out_of_memory(tls: VMThread, err_kind: AllocationError) {
        rt::out_of_memory(tls, err_kind);
    }
    fn schedule_finalization(_tls: VMWorkerThread) {
        ev(Kind::VmMisc, 1, 0);
    }
    fn post_forwarding(_tls: VMWorkerThread) {
        ev(Kind::VmMisc, 2, 0);
    }
}

// ---------------------------------------------------------------------------------------------
// Active plan
// ---------------------------------------------------------------------------------------------

pub struct VActivePlan;
impl ActivePlan<VerifVM> for VActivePlan {
    fn number_of_mutators() -> usize {
        rt::number_of_mutators()
    }
    fn is_mutator(tls: VMThread) -> bool {
        rt::is_mutator_tls(tls)
    }
    fn mutator(tls: VMMutatorThread) -> &'static mut Mutator<VerifVM> {
        rt::mutator_by_tls(tls)
    }
    fn mutators<'a>() -> Box<dyn Iterator<Item = &'a mut Mutator<VerifVM>> + 'a> {
        Box::new(rt::all_mutators().into_iter())
    }
}

// ---------------------------------------------------------------------------------------------
// Reference glue: a reference object is an ordinary object with FLAG_REFOBJ; its referent is field 0
// ---------------------------------------------------------------------------------------------

pub struct VReferenceGlue;
impl ReferenceGlue<VerifVM> for VReferenceGlue {
    type FinalizableType = ObjectReference;
    fn set_referent(reference: ObjectReference, referent: ObjectReference) {
        let r = reference.to_raw_address().as_usize();
        obj::wr::<usize>(obj::slot(r, 0), referent.to_raw_address().as_usize());
    }
    fn get_referent(object: ObjectReference) -> Option<ObjectReference> {
        let r = object.to_raw_address().as_usize();
        ObjectReference::from_raw_address(unsafe { Address::from_usize(obj::field(r, 0)) })
    }
    fn clear_referent(object: ObjectReference) {
        let r = object.to_raw_address().as_usize();
        obj::wr::<usize>(obj::slot(r, 0), 0);
    }
    fn enqueue_references(references: &[ObjectReference], _tls: VMWorkerThread) {
        rt::enqueue_references(references);
    }
}
