//! Line-protocol helpers shared by all components.
//!
//! One operation per input line: `<component> <op> <args...>`; one canonical result line per
//! operation on stdout. Numbers are decimal unless prefixed by `0x`.

use std::panic::{catch_unwind, AssertUnwindSafe};

pub fn num(s: &str) -> u64 {
    if let Some(h) = s.strip_prefix("0x") {
        u64::from_str_radix(h, 16).unwrap_or_else(|_| panic!("bad hex {s}"))
    } else if let Some(n) = s.strip_prefix('-') {
        (n.parse::<u64>().unwrap_or_else(|_| panic!("bad num {s}"))).wrapping_neg()
    } else {
        s.parse::<u64>().unwrap_or_else(|_| panic!("bad num {s}"))
    }
}

pub fn unum(s: &str) -> usize {
    num(s) as usize
}

pub fn inum(s: &str) -> i64 {
    num(s) as i64
}

/// Map a panic payload to the small canonical enum the model also prints.
pub fn classify_panic(msg: &str) -> &'static str {
    let m = msg.to_ascii_lowercase();
    if m.contains("overflow") {
        "panic:overflow"
    } else if m.contains("index out of bounds") || m.contains("out of range") {
        "panic:oob"
    } else if m.contains("assert") {
        "panic:assert"
    } else {
        "panic:other"
    }
}

thread_local! {
    pub static LAST_PANIC: std::cell::RefCell<String> = const { std::cell::RefCell::new(String::new()) };
}

pub fn install_quiet_panic_hook() {
    std::panic::set_hook(Box::new(|info| {
        let msg = if let Some(s) = info.payload().downcast_ref::<&str>() {
            s.to_string()
        } else if let Some(s) = info.payload().downcast_ref::<String>() {
            s.clone()
        } else {
            "?".to_string()
        };
        let loc = info.location().map(|l| format!(" @{}:{}", l.file(), l.line())).unwrap_or_default();
        LAST_PANIC.with(|p| *p.borrow_mut() = format!("{msg}{loc}"));
    }));
}

/// Run one case under catch_unwind; panics become `panic:<kind>`; with VERIF_PANIC_DETAIL the
/// message is appended after ` #` (the differ ignores everything after ` #`).
pub fn guarded<F: FnOnce() -> String>(f: F) -> String {
    match catch_unwind(AssertUnwindSafe(f)) {
        Ok(s) => s,
        Err(_) => {
            let msg = LAST_PANIC.with(|p| p.borrow().clone());
            let kind = classify_panic(&msg);
            if std::env::var_os("VERIF_PANIC_DETAIL").is_some() {
                format!("{kind} # {}", msg.replace('\n', " "))
            } else {
                kind.to_string()
            }
        }
    }
}
