//! Runtime state of VerifVM: the MMTk instance, logical mutators, root tables, the safepoint
//! protocol between the single driver thread and the GC worker threads, weak tables, counters.
//!
//! Threads: ONE driver thread executes every mutator op (mutators are logical: distinct `Mutator`
//! structs with distinct `VMMutatorThread` values). The driver is *parked* when it is inside
//! `block_for_gc` or inside a safe region (between two ops, i.e. while it waits for input).
//! `stop_all_mutators` sets the stop flag and waits until the driver is parked.
//!
//! hx_gc `gc2` / `gcn` add HELPER mutator threads: real OS threads that act as one bound mutator each for the
//! duration of one op. A helper is a mutator thread like the driver: it is *running* from the moment the driver
//! registers it until it parks inside `block_for_gc` or enters a safe region (`helper_enter_safe_region`: "running
//! native code"), and `stop_all_mutators` waits until the driver AND every registered helper are parked.
use crate::vm::{obj, to_ref, VSlot, VerifVM};
use mmtk::util::alloc::AllocationError;
use mmtk::util::opaque_pointer::*;
use mmtk::util::{Address, ObjectReference};
use mmtk::verif::gc::{ev, Kind};
use mmtk::vm::slot::SimpleSlot;
use mmtk::vm::{GCThreadContext, ObjectTracer, ObjectTracerContext, RootsWorkFactory};
use mmtk::{Mutator, MMTK};
use std::sync::atomic::{AtomicPtr, AtomicUsize, Ordering};
use std::sync::{Condvar, Mutex};

pub const MAX_MUT: usize = 64;
pub const ROOT_SLOTS: usize = 64;
pub const VM_ROOT_SLOTS: usize = 256;
/// with `cfg roots pinning|tpinning`, root slots with index >= this are reported as (t)pinning roots
pub const PINNING_ROOT_FIRST: usize = 56;

const MUT_TLS_BASE: usize = 0x100;
const WORKER_TLS_BASE: usize = 0x10000;

static MMTK_PTR: AtomicPtr<MMTK<VerifVM>> = AtomicPtr::new(std::ptr::null_mut());

pub fn set_mmtk(m: Box<MMTK<VerifVM>>) {
    MMTK_PTR.store(Box::into_raw(m), Ordering::SeqCst);
}
pub fn has_mmtk() -> bool {
    !MMTK_PTR.load(Ordering::SeqCst).is_null()
}
pub fn mmtk() -> &'static MMTK<VerifVM> {
    let p = MMTK_PTR.load(Ordering::SeqCst);
    assert!(!p.is_null(), "mmtk not initialised");
    unsafe { &*p }
}

#[allow(clippy::declare_interior_mutable_const)]
const NULL_MUT: AtomicPtr<Mutator<VerifVM>> = AtomicPtr::new(std::ptr::null_mut());
static MUTATORS: [AtomicPtr<Mutator<VerifVM>>; MAX_MUT] = [NULL_MUT; MAX_MUT];
#[allow(clippy::declare_interior_mutable_const)]
const ZERO: AtomicUsize = AtomicUsize::new(0);
#[allow(clippy::declare_interior_mutable_const)]
const ZERO_ROW: [AtomicUsize; ROOT_SLOTS] = [ZERO; ROOT_SLOTS];
/// per-mutator root slots (raw refs, 0 = null). Stable addresses: slots are reported INTO this array.
pub static ROOTS: [[AtomicUsize; ROOT_SLOTS]; MAX_MUT] = [ZERO_ROW; MAX_MUT];
/// global VM roots
pub static VM_ROOTS: [AtomicUsize; VM_ROOT_SLOTS] = [ZERO; VM_ROOT_SLOTS];
/// 0 = all slot roots, 1 = slots >= PINNING_ROOT_FIRST are pinning roots, 2 = ... tpinning roots
pub static ROOTS_MODE: AtomicUsize = AtomicUsize::new(0);

pub fn mut_tls(m: usize) -> VMMutatorThread {
    VMMutatorThread(VMThread(OpaquePointer::from_address(unsafe {
        Address::from_usize(MUT_TLS_BASE + m)
    })))
}
pub fn tls_to_mut(tls: VMThread) -> Option<usize> {
    let a = tls.0.to_address().as_usize();
    if (MUT_TLS_BASE..MUT_TLS_BASE + MAX_MUT).contains(&a) {
        Some(a - MUT_TLS_BASE)
    } else {
        None
    }
}
pub fn is_mutator_tls(tls: VMThread) -> bool {
    tls_to_mut(tls).is_some()
}
pub fn mutator_ptr(m: usize) -> *mut Mutator<VerifVM> {
    MUTATORS[m].load(Ordering::SeqCst)
}
pub fn set_mutator(m: usize, p: *mut Mutator<VerifVM>) {
    MUTATORS[m].store(p, Ordering::SeqCst);
}
pub fn mutator_by_tls(tls: VMMutatorThread) -> &'static mut Mutator<VerifVM> {
    let m = tls_to_mut(tls.0).expect("not a mutator tls");
    let p = mutator_ptr(m);
    assert!(!p.is_null(), "mutator {m} not bound");
    unsafe { &mut *p }
}
pub fn bound_mutators() -> Vec<usize> {
    (0..MAX_MUT).filter(|m| !mutator_ptr(*m).is_null()).collect()
}
pub fn number_of_mutators() -> usize {
    bound_mutators().len()
}
pub fn all_mutators() -> Vec<&'static mut Mutator<VerifVM>> {
    bound_mutators().into_iter().map(|m| unsafe { &mut *mutator_ptr(m) }).collect()
}

// ---------------------------------------------------------------------------------------------
// Counters
// ---------------------------------------------------------------------------------------------

/// number of `resume_mutators` calls = completed stop-the-world pauses ("gcs" in the protocol)
pub static GCS: AtomicUsize = AtomicUsize::new(0);
pub static OOMS: AtomicUsize = AtomicUsize::new(0);
pub static BLOCKS: AtomicUsize = AtomicUsize::new(0);
pub static STOPS: AtomicUsize = AtomicUsize::new(0);
static WEAK_ROUND: AtomicUsize = AtomicUsize::new(0);

pub fn gcs() -> usize {
    GCS.load(Ordering::SeqCst)
}

// ---------------------------------------------------------------------------------------------
// Safepoint protocol
// ---------------------------------------------------------------------------------------------

struct SyncSt {
    stop_requested: bool,
    driver_parked: bool,
    resumes: usize,
    /// helper mutator threads (hx_gc `gc2`/`gcn`) that are running: neither inside `block_for_gc` nor in a safe region
    helpers_running: usize,
}
static SYNC: Mutex<SyncSt> =
    Mutex::new(SyncSt { stop_requested: false, driver_parked: false, resumes: 0, helpers_running: 0 });
static CV: Condvar = Condvar::new();

thread_local! {
    /// this OS thread is a helper mutator thread (not the driver)
    static IS_HELPER: std::cell::Cell<bool> = const { std::cell::Cell::new(false) };
    /// `block_for_gc` calls made on this OS thread
    static MY_BLOCKS: std::cell::Cell<usize> = const { std::cell::Cell::new(0) };
}

/// number of `block_for_gc` calls made on the calling OS thread so far
pub fn my_blocks() -> usize {
    MY_BLOCKS.with(|c| c.get())
}

/// Driver, while it is running (so the world cannot be stopped right now): announce one more running mutator
/// thread. The helper thread itself calls `helper_thread_init` first thing.
pub fn helper_register() {
    let mut s = SYNC.lock().unwrap();
    s.helpers_running += 1;
}
/// Helper thread: mark this OS thread as a helper mutator thread.
pub fn helper_thread_init() {
    IS_HELPER.with(|c| c.set(true));
}
/// Helper: enter a safe region ("running native code": not inside an MMTk call and not touching the heap). The
/// world may be stopped while the helper is in there.
pub fn helper_enter_safe_region() {
    let mut s = SYNC.lock().unwrap();
    s.helpers_running -= 1;
    CV.notify_all();
}
/// Helper: leave the safe region; blocks while the world is stopped.
pub fn helper_leave_safe_region() {
    let mut s = SYNC.lock().unwrap();
    while s.stop_requested {
        s = CV.wait(s).unwrap();
    }
    s.helpers_running += 1;
}

/// Driver: enter a safe region (op boundary; the driver may block on input). GC may stop the world.
pub fn enter_safe_region() {
    let mut s = SYNC.lock().unwrap();
    s.driver_parked = true;
    CV.notify_all();
}
/// Driver: leave the safe region; blocks while the world is stopped.
pub fn leave_safe_region() {
    let mut s = SYNC.lock().unwrap();
    while s.stop_requested {
        s = CV.wait(s).unwrap();
    }
    s.driver_parked = false;
}

// ---------------------------------------------------------------------------------------------
// A stop request (StopForFork / Shutdown) injected DURING a collection (hx_gc `forkgc`, `shutdowngc`)
// ---------------------------------------------------------------------------------------------

/// callback points of one GC at which an armed stop request is made
pub const PT_STOP: usize = 0; // inside `stop_all_mutators` (world stopped, Gc goal current), on the GC thread
pub const PT_ROOTS: usize = 1; // inside `scan_vm_specific_roots`, on the GC thread
pub const PT_WEAK: usize = 2; // inside the first `process_weak_refs` of the GC, on the GC thread
/// inside `resume_mutators`: the GC thread holds the `WorkerMonitor` mutex there (`on_last_parked` →
/// `on_gc_finished` → `resume_mutators`), so the request is made by a helper thread spawned at that point;
/// its `make_request` gets the mutex as soon as the last parked worker waits (or has exited).
pub const PT_RESUME: usize = 3;
pub const PT_COUNT: usize = 4;

/// 0 = idle; `1 + point + 16 * shutdown` = armed; `0x100 + point` = the armed request has been made
static STOP_STATE: AtomicUsize = AtomicUsize::new(0);
static STOP_HELPER: Mutex<Option<std::thread::JoinHandle<()>>> = Mutex::new(None);

/// Arm: the next time a GC reaches `point`, call `prepare_to_fork` (or `mmtk_shutdown`) there.
pub fn arm_stop_request(point: usize, shutdown: bool) {
    STOP_STATE.store(1 + point + if shutdown { 16 } else { 0 }, Ordering::SeqCst);
}
/// Disarm; returns `Some(point)` if the request was made during the collection.
pub fn disarm_stop_request() -> Option<usize> {
    match STOP_STATE.swap(0, Ordering::SeqCst) {
        p if p >= 0x100 => Some(p - 0x100),
        _ => None,
    }
}
/// Join the helper thread of `PT_RESUME` (if any): afterwards its `make_request` has returned.
pub fn join_stop_helper() {
    if let Some(h) = STOP_HELPER.lock().unwrap().take() {
        let _ = h.join();
    }
}
fn make_stop_request(shutdown: bool) {
    if shutdown {
        mmtk::memory_manager::mmtk_shutdown(mmtk());
    } else {
        mmtk().prepare_to_fork();
    }
}
fn stop_request_point(point: usize) {
    let a = STOP_STATE.load(Ordering::SeqCst);
    if a == 0 || a >= 0x100 || (a - 1) % 16 != point {
        return;
    }
    if STOP_STATE.compare_exchange(a, 0x100 + point, Ordering::SeqCst, Ordering::SeqCst).is_err() {
        return;
    }
    let shutdown = a > 16;
    if point == PT_RESUME {
        let h = std::thread::Builder::new()
            .name("stopreq".into())
            .spawn(move || {
                mmtk::verif::gc::set_tid(1);
                make_stop_request(shutdown);
            })
            .expect("spawn stop-request helper");
        *STOP_HELPER.lock().unwrap() = Some(h);
    } else {
        // only makes the request and returns (MMTK::prepare_to_fork -> stop_gc_threads_for_forking ->
        // prepare_surrender_buffer + WorkerMonitor::make_request)
        make_stop_request(shutdown);
    }
}

pub fn stop_all_mutators<F>(mut visitor: F)
where
    F: FnMut(&'static mut Mutator<VerifVM>),
{
    ev(Kind::VmStopBegin, 0, 0);
    {
        let mut s = SYNC.lock().unwrap();
        s.stop_requested = true;
        // every mutator THREAD must be parked: the driver and every registered helper (`gc2`/`gcn`)
        while !s.driver_parked || s.helpers_running > 0 {
            s = CV.wait(s).unwrap();
        }
    }
    stop_request_point(PT_STOP);
    STOPS.fetch_add(1, Ordering::SeqCst);
    WEAK_ROUND.store(0, Ordering::SeqCst);
    COPIES_CUR.lock().unwrap().clear();
    let ms = bound_mutators();
    for m in &ms {
        visitor(unsafe { &mut *mutator_ptr(*m) });
    }
    ev(Kind::VmStopEnd, ms.len(), 0);
}

pub fn resume_mutators() {
    ev(Kind::VmResume, 0, 0);
    stop_request_point(PT_RESUME);
    {
        let mut cur = COPIES_CUR.lock().unwrap();
        let mut last = COPIES_LAST.lock().unwrap();
        *last = std::mem::take(&mut *cur);
    }
    GCS.fetch_add(1, Ordering::SeqCst);
    let mut s = SYNC.lock().unwrap();
    s.stop_requested = false;
    s.resumes += 1;
    CV.notify_all();
}

pub fn block_for_gc(tls: VMMutatorThread) {
    let m = tls_to_mut(tls.0).unwrap_or(usize::MAX);
    ev(Kind::VmBlockEnter, m, 0);
    BLOCKS.fetch_add(1, Ordering::SeqCst);
    MY_BLOCKS.with(|c| c.set(c.get() + 1));
    let helper = IS_HELPER.with(|c| c.get());
    {
        let mut s = SYNC.lock().unwrap();
        let start = s.resumes;
        if helper {
            s.helpers_running -= 1;
        } else {
            s.driver_parked = true;
        }
        CV.notify_all();
        while s.resumes == start || s.stop_requested {
            s = CV.wait(s).unwrap();
        }
        if helper {
            s.helpers_running += 1;
        } else {
            s.driver_parked = false;
        }
    }
    ev(Kind::VmBlockLeave, m, 0);
}

pub fn out_of_memory(tls: VMThread, err: AllocationError) {
    let m = tls_to_mut(tls).unwrap_or(usize::MAX);
    let k = match err {
        AllocationError::HeapOutOfMemory => 0,
        AllocationError::MmapOutOfMemory => 1,
    };
    OOMS.fetch_add(1, Ordering::SeqCst);
    ev(Kind::VmOom, m, k);
}

// ---------------------------------------------------------------------------------------------
// GC threads
// ---------------------------------------------------------------------------------------------

static GC_THREADS: Mutex<Vec<std::thread::JoinHandle<()>>> = Mutex::new(Vec::new());

pub fn spawn_gc_thread(_tls: VMThread, ctx: GCThreadContext<VerifVM>) {
    match ctx {
        GCThreadContext::Worker(w) => {
            let ord = w.ordinal;
            ev(Kind::VmSpawn, 0, ord);
            let h = std::thread::Builder::new()
                .name(format!("gcw{ord}"))
                .spawn(move || {
                    mmtk::verif::gc::set_tid(100 + ord);
                    let tls = VMWorkerThread(VMThread(OpaquePointer::from_address(unsafe {
                        Address::from_usize(WORKER_TLS_BASE + ord)
                    })));
                    mmtk::memory_manager::start_worker(mmtk(), tls, w);
                })
                .expect("spawn gc thread");
            GC_THREADS.lock().unwrap().push(h);
        }
    }
}

/// Join every GC thread spawned so far (used by `fork`: after `prepare_to_fork` they all exit).
pub fn join_gc_threads() -> usize {
    let hs: Vec<_> = std::mem::take(&mut *GC_THREADS.lock().unwrap());
    let n = hs.len();
    for h in hs {
        let _ = h.join();
    }
    n
}

// ---------------------------------------------------------------------------------------------
// Roots
// ---------------------------------------------------------------------------------------------

fn slot_of(cell: &AtomicUsize) -> VSlot {
    SimpleSlot::from_address(Address::from_ptr(cell as *const AtomicUsize))
}

pub fn scan_mutator_roots(mutator: &'static mut Mutator<VerifVM>, mut factory: impl RootsWorkFactory<VSlot>) {
    let m = tls_to_mut(mutator.mutator_tls.0).expect("mutator tls");
    ev(Kind::VmScanMutator, m, 0);
    let mode = ROOTS_MODE.load(Ordering::SeqCst);
    let mut slots = Vec::with_capacity(ROOT_SLOTS);
    let mut nodes = Vec::new();
    for (i, cell) in ROOTS[m].iter().enumerate() {
        if mode != 0 && i >= PINNING_ROOT_FIRST {
            let v = cell.load(Ordering::SeqCst);
            if v != 0 {
                nodes.push(to_ref(v));
            }
        } else {
            slots.push(slot_of(cell));
        }
    }
    factory.create_process_roots_work(slots);
    if !nodes.is_empty() {
        if mode == 1 {
            factory.create_process_pinning_roots_work(nodes);
        } else {
            factory.create_process_tpinning_roots_work(nodes);
        }
    }
}

pub fn scan_vm_roots(mut factory: impl RootsWorkFactory<VSlot>) {
    ev(Kind::VmScanVmRoots, 0, 0);
    stop_request_point(PT_ROOTS);
    // report in several packets so that root packets of different sizes exist
    let mut slots = Vec::with_capacity(64);
    for cell in VM_ROOTS.iter() {
        slots.push(slot_of(cell));
        if slots.len() == 64 {
            factory.create_process_roots_work(std::mem::take(&mut slots));
        }
    }
    if !slots.is_empty() {
        factory.create_process_roots_work(slots);
    }
}

// ---------------------------------------------------------------------------------------------
// Copies
// ---------------------------------------------------------------------------------------------

static COPIES_CUR: Mutex<Vec<u32>> = Mutex::new(Vec::new());
static COPIES_LAST: Mutex<Vec<u32>> = Mutex::new(Vec::new());

pub fn note_copy(id: u32) {
    COPIES_CUR.lock().unwrap().push(id);
}

/// `(id, n)` copies performed in the last completed GC pause, sorted by id.
pub fn copies_last_gc() -> Vec<(u32, usize)> {
    let mut v = COPIES_LAST.lock().unwrap().clone();
    v.sort_unstable();
    let mut out: Vec<(u32, usize)> = Vec::new();
    for id in v {
        match out.last_mut() {
            Some((l, n)) if *l == id => *n += 1,
            _ => out.push((id, 1)),
        }
    }
    out
}

// ---------------------------------------------------------------------------------------------
// Weak tables (ephemerons), reference enqueueing
// ---------------------------------------------------------------------------------------------

#[derive(Clone, Debug)]
pub struct Eph {
    pub key: usize,
    pub val: usize,
    pub key_id: u32,
    pub val_id: u32,
    /// value of STOPS when the value was last traced (0 = never)
    pub traced_in: usize,
}

pub static EPH: Mutex<Vec<Eph>> = Mutex::new(Vec::new());
/// (key id, value id) of entries dropped because their key died, in drop order
pub static EPH_DROPPED: Mutex<Vec<(u32, u32)>> = Mutex::new(Vec::new());
/// ids of references passed to `enqueue_references`, in order
pub static ENQUEUED: Mutex<Vec<u32>> = Mutex::new(Vec::new());

fn fwd(r: usize) -> usize {
    to_ref(r).get_forwarded_object().map(|o| o.to_raw_address().as_usize()).unwrap_or(r)
}

pub fn process_weak_refs(
    worker: &mut mmtk::scheduler::GCWorker<VerifVM>,
    tracer_context: impl ObjectTracerContext<VerifVM>,
) -> bool {
    let round = WEAK_ROUND.fetch_add(1, Ordering::SeqCst);
    if round == 0 {
        stop_request_point(PT_WEAK);
    }
    let epoch = STOPS.load(Ordering::SeqCst);
    let mut tab = EPH.lock().unwrap();
    let pending: Vec<usize> = tab
        .iter()
        .enumerate()
        .filter(|(_, e)| e.traced_in != epoch && to_ref(e.key).is_reachable())
        .map(|(i, _)| i)
        .collect();
    let any = !pending.is_empty();
    if any {
        tracer_context.with_tracer(worker, |tracer| {
            for i in pending {
                let e = &mut tab[i];
                e.val = tracer.trace_object(to_ref(e.val)).to_raw_address().as_usize();
                e.traced_in = epoch;
            }
        });
    } else {
        // final round: entries with dead keys are dropped, surviving keys are forwarded
        let mut dropped = EPH_DROPPED.lock().unwrap();
        tab.retain_mut(|e| {
            if to_ref(e.key).is_reachable() {
                e.key = fwd(e.key);
                true
            } else {
                dropped.push((e.key_id, e.val_id));
                false
            }
        });
    }
    ev(Kind::VmProcessWeak, any as usize, round);
    any
}

pub fn forward_weak_refs(
    worker: &mut mmtk::scheduler::GCWorker<VerifVM>,
    tracer_context: impl ObjectTracerContext<VerifVM>,
) {
    ev(Kind::VmForwardWeak, 0, 0);
    let mut tab = EPH.lock().unwrap();
    if tab.is_empty() {
        return;
    }
    // The forwarding trace must *reach* everything the weak table kept alive (mark-compact updates
    // the fields of an object only when the second trace visits it), so keys and values go through
    // the tracer, which also returns their new addresses.
    tracer_context.with_tracer(worker, |tracer| {
        for e in tab.iter_mut() {
            e.key = tracer.trace_object(to_ref(e.key)).to_raw_address().as_usize();
            e.val = tracer.trace_object(to_ref(e.val)).to_raw_address().as_usize();
        }
    });
}

pub fn enqueue_references(references: &[ObjectReference]) {
    ev(Kind::VmEnqueue, references.len(), 0);
    let mut q = ENQUEUED.lock().unwrap();
    for r in references {
        let id = obj::id(r.to_raw_address().as_usize());
        ev(Kind::VmEnqueueRef, id as usize, r.to_raw_address().as_usize());
        q.push(id);
    }
}
