#!/usr/bin/env python3
"""Shadow-heap checker for hx_gc transcripts (smoke testing of the VerifVM binding only; the
real verdicts live in the Lean monitors).

usage: smoke_check.py <program.txt> <output.txt>

Replays the program on a Python shadow heap (applying only ops the implementation answered with
success) and checks every `snap` line: same reachable id set, same size / fields-as-ids per id,
payload hash ok, root slots hold the right ids; non-moving semantics keep their address; `copies`
never reports n > 1. Exit 0 = all snaps agree.
"""
import sys


def main():
    prog = [l.strip() for l in open(sys.argv[1]) if l.strip() and not l.startswith('#')]
    outs = [l.rstrip('\n') for l in open(sys.argv[2])]
    if len(outs) < len(prog):
        print(f"FAIL: {len(prog)} ops but {len(outs)} output lines; last output: {outs[-1] if outs else ''}")
        return 1
    objs = {}      # id -> dict(nf, size, fields, weak)
    roots = {}     # (m, slot) -> id
    vmroots = {}   # k -> id
    addr = {}      # id -> last seen ref (hex str) for non-moving checks
    fixed = set()  # ids that must not move
    eph = []       # (key, value)
    nsnap = 0
    errors = []
    for i, (op, out) in enumerate(zip(prog, outs)):
        out = out.split(' #')[0].strip()
        t = op.split()
        if out.startswith('panic') and t[0] in ('pin', 'unpin', 'ispinned', 'ismo', 'findint', 'desc', 'holes'):
            continue  # a guarded probe: the panic is the implementation's answer (e.g. pin in a CopySpace)
        if out.startswith('fatal') or out.startswith('timeout') or out.startswith('panic'):
            errors.append(f"line {i+1}: {op!r} -> {out!r}")
            break
        if t[0] in ('alloc', 'alloco'):
            if out.startswith('a='):
                kv = dict(x.split('=') for x in out.split())
                m, oid, nf, slot = int(t[1]), int(t[2]), int(t[3]), int(t[8])
                objs[oid] = dict(nf=nf, size=int(kv['sz']), fields=[None] * nf, weak=False)
                roots[(m, slot)] = oid
                addr[oid] = kv['r'][2:]
                if t[7] != 'Default' or kv['space'] in ('los', 'immortal', 'nonmoving'):
                    fixed.add(oid)
                if kv['inmmtk'] != '1':
                    errors.append(f"line {i+1}: alloc result not in mmtk spaces: {out}")
                if kv['zero'] != '1':
                    errors.append(f"line {i+1}: alloc result not zeroed: {out}")
        elif t[0] == 'root' and out == 'ok':
            k = (int(t[1]), int(t[2]))
            if t[3] in ('null', '-'):
                roots.pop(k, None)
            else:
                roots[k] = int(t[3])
        elif t[0] == 'vmroot' and out == 'ok':
            if t[2] in ('null', '-'):
                vmroots.pop(int(t[1]), None)
            else:
                vmroots[int(t[1])] = int(t[2])
        elif t[0] == 'write' and out == 'ok':
            objs[int(t[2])]['fields'][int(t[3])] = None if t[4] in ('null', '-') else int(t[4])
        elif t[0] == 'copyrange' and out == 'ok':
            s, sf, d, df, n = int(t[2]), int(t[3]), int(t[4]), int(t[5]), int(t[6])
            vals = objs[s]['fields'][sf:sf + n]
            objs[d]['fields'][df:df + n] = vals
        elif t[0] == 'mkref' and out == 'ok':
            objs[int(t[1])]['weak'] = True
        elif t[0] == 'destroy' and out == 'ok':
            for k in [k for k in roots if k[0] == int(t[1])]:
                del roots[k]
        elif t[0] == 'ephemeron' and out == 'ok':
            eph.append((int(t[1]), int(t[2])))
        elif t[0] == 'getfin' and out not in ('none',) and len(t) >= 3:
            roots[(int(t[1]), int(t[2]))] = int(out)
        elif t[0] == 'pin' and out == 'true':
            fixed.add(int(t[1]))
        elif t[0] == 'unpin' and out == 'true':
            fixed.discard(int(t[1]))
        elif t[0] == 'copies':
            body = out[len('copies'):].strip()
            for e in body.split(',') if body else []:
                oid, n = e.split(':')
                if int(n) > 1:
                    errors.append(f"line {i+1}: object {oid} copied {n} times in one GC")
        elif t[0] == 'snap':
            nsnap += 1
            if not out.startswith('snap '):
                errors.append(f"line {i+1}: bad snap: {out[:80]}")
                continue
            parts = out.split(' ')
            rootpart = parts[2][len('roots='):]
            objpart = parts[3][len('objs='):] if len(parts) > 3 else ''
            mr, vr = rootpart.split('|')
            got_roots = {}
            for e in mr.split(',') if mr else []:
                k, v = e.split(':')
                m, s = k.split('.')
                got_roots[(int(m), int(s))] = v
            got_vm = {}
            for e in vr.split(',') if vr else []:
                k, v = e.split(':')
                got_vm[int(k.split('.')[1])] = v
            want_roots = {k: str(v) for k, v in roots.items()}
            if got_roots != want_roots:
                errors.append(f"line {i+1}: roots differ: got-want={set(got_roots.items()) - set(want_roots.items())} want-got={set(want_roots.items()) - set(got_roots.items())}")
            if got_vm != {k: str(v) for k, v in vmroots.items()}:
                errors.append(f"line {i+1}: vm roots differ")
            # reachable set in the shadow heap (strong edges only; ephemeron values of reachable keys)
            reach = set()
            stack = list(roots.values()) + list(vmroots.values())
            while True:
                while stack:
                    x = stack.pop()
                    if x in reach:
                        continue
                    reach.add(x)
                    o = objs[x]
                    for j, f in enumerate(o['fields']):
                        if f is not None and not (o['weak'] and j == 0):
                            stack.append(f)
                break  # (ephemeron values are not roots and are not walked by `snap`)
            got = {}
            for e in objpart.split(';') if objpart else []:
                f = e.split(':')
                oid = int(f[0])
                if oid in got:
                    errors.append(f"line {i+1}: id {oid} appears twice in snap")
                got[oid] = f
            if set(got) != reach:
                errors.append(f"line {i+1}: reachable set differs: extra={sorted(set(got) - reach)[:10]} missing={sorted(reach - set(got))[:10]}")
            for oid, f in got.items():
                if oid not in objs:
                    continue
                o = objs[oid]
                if int(f[2]) != o['size']:
                    errors.append(f"line {i+1}: id {oid} size {f[2]} != {o['size']}")
                if f[4] != '1':
                    errors.append(f"line {i+1}: id {oid} payload hash broken")
                gf = f[5].split('/') if f[5] else []
                wf = ['-' if x is None else str(x) for x in o['fields']]
                if o['weak'] and gf and wf:
                    # weak referent may have been cleared by the GC
                    if gf[0] == '-':
                        wf[0] = '-'
                if gf != wf:
                    errors.append(f"line {i+1}: id {oid} fields {gf} != {wf}")
                if oid in fixed and oid in addr and addr[oid] != f[1]:
                    errors.append(f"line {i+1}: non-moving id {oid} moved {addr[oid]} -> {f[1]}")
                addr[oid] = f[1]
            # no two objects overlap
            spans = sorted((int(f[1], 16), int(f[2]), oid) for oid, f in got.items())
            for (a, sa, ia), (b, sb, ib) in zip(spans, spans[1:]):
                if a + sa > b:
                    errors.append(f"line {i+1}: objects {ia} and {ib} overlap")
        if len(errors) > 20:
            break
    if errors:
        print(f"FAIL ({len(errors)} problems, {nsnap} snaps)")
        for e in errors[:20]:
            print("  " + e)
        return 1
    print(f"OK snaps={nsnap} ops={len(prog)} live={len(objs)}")
    return 0


if __name__ == '__main__':
    sys.exit(main())
