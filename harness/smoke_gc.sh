#!/bin/bash
# Smoke test of hx_gc: runs a generated program on every plan (1 and 4 workers) and checks every
# snapshot against a Python shadow heap (smoke_check.py). Not a verdict — the Lean monitors are.
#   usage: harness/smoke_gc.sh [nobjs=3000] [heapMB=32]
# Builds two binaries: default (ref = start+8) and --features unified_ref (Compressor).
set -u
cd "$(dirname "$0")"
ROOT=$(cd .. && pwd)
N=${1:-3000}; H=${2:-32}
T1=$ROOT/build/cargo-fs_main; T2=$ROOT/build/cargo-fs_main_uni
CARGO_TARGET_DIR=$T1 cargo build --offline --bin hx_gc 2>&1 | tail -1
CARGO_TARGET_DIR=$T2 cargo build --offline --bin hx_gc --features unified_ref 2>&1 | tail -1
W=$(mktemp -d /var/tmp/hx_gc_smoke.XXXXXX); fail=0
# NonMoving allocations are only generated where the default NonMovingSpace (Immix) works:
# SemiSpace/GenCopy/MarkSweep/PageProtect panic in ImmixSpace::trace_object, GenImmix/StickyImmix
# lose NonMoving objects / their referents in nursery GCs (see HX_GC.md, findings)
for w in 1 4; do
  for plan in NoGC SemiSpace GenCopy GenImmix MarkSweep PageProtect Immix MarkCompact StickyImmix ConcurrentImmix Compressor; do
    bin=$T1/debug/hx_gc; [ $plan = Compressor ] && bin=$T2/debug/hx_gc
    nm=1; case $plan in SemiSpace|GenCopy|MarkSweep|PageProtect|GenImmix|StickyImmix|Compressor) nm=0;; esac
    n=$N; [ $plan = PageProtect ] && n=$((N/4)); [ $plan = NoGC ] && n=$((N/2))
    python3 smoke_gen.py $plan $w $H $n $nm 1 > $W/p.txt
    timeout 300 $bin < $W/p.txt > $W/o.txt 2> $W/e.txt; rc=$?
    res=$(python3 smoke_check.py $W/p.txt $W/o.txt | head -4)
    printf "%-16s w=%s rc=%s %s : %s\n" $plan $w $rc "$(grep -o 'gcs=[0-9]*' $W/o.txt | tail -1)" "$res"
    case "$res" in OK*) ;; *) fail=1; cp $W/p.txt $W/fail_${plan}_$w.txt;; esac
    [ $rc -ne 0 ] && fail=1
  done
done
[ $fail -eq 0 ] && rm -rf $W || echo "failures kept in $W"
exit $fail
