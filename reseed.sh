#!/bin/bash
# reseed.sh <seed id> <check ids...>: re-run checks against an already confirmed seeded change
# (/verif/seeded/<id>/patch.diff); log in seeded/<id>/recheck.log. Development tool.
set -u
ID=$1; shift; CHECKS=${@:-$ID}
OUT=/verif/seeded/$ID; LOG=$OUT/recheck.log
cd /repo || exit 1
if [ -n "$(git status --porcelain)" ]; then echo "/repo not clean"; exit 1; fi
git apply --check $OUT/patch.diff || { echo "PATCH DOES NOT APPLY" | tee -a $LOG; exit 1; }
git apply $OUT/patch.diff
echo "== $(date -u +%FT%TZ) recheck with the patch applied (verif $(git -C /verif log --format=%h -1))" >> $LOG
for c in $CHECKS; do
  (cd /verif && ./check $c --tier quick 2>&1 | grep -E "VIOLATION|->|^C[0-9]+:" | cut -c1-500 | head -12) >> $LOG 2>&1
done
git checkout -- . ; git status --porcelain >> $LOG
rm -rf /verif/out/replay
git -C /verif checkout -- evidence/ 2>/dev/null
tail -14 $LOG
