#!/usr/bin/env python3
"""resolve a known_findings.json merge conflict: union by key, ours wins (development helper)"""
import json,subprocess,sys
br=sys.argv[1]
ours=json.loads(subprocess.run(["git","show","HEAD:known_findings.json"],capture_output=True,text=True).stdout)
theirs=json.loads(subprocess.run(["git","show",br+":known_findings.json"],capture_output=True,text=True).stdout)
keys={f['key'] for f in ours['findings']}
for f in theirs['findings']:
    if f['key'] not in keys: ours['findings'].append(f); print("added",f['key'])
json.dump(ours,open('known_findings.json','w'),indent=1)
