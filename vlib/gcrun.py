"""gcrun — program generator, runner, monitor transport, shrinker and trace cache for the
whole-collector checks (C01–C13). API and verdict keys: GCRUN.md.  python3 stdlib only.

  Program  : cfg (plan, heap, workers, stress, fs, yield) + hx_gc op lines (without the header)
  run      : Program -> Trace   (one hx_gc process; injects `snap` after every pause it observes)
  run_many : parallel run
  monitor  : Trace(s) -> verdict lines of the Lean monitor `gcm` (mmtk_model)
  oracle_c01 : independent Python re-implementation of the C01 snapshot comparison
  normalize / shrink : keep programs well-formed (dense ids, ids reachable when used)
  suite / cached_traces : the program suites of the quick / thorough tier and the shared cache
"""
import hashlib, json, os, random, re, subprocess, sys, tempfile, threading, time
from concurrent.futures import ThreadPoolExecutor
from . import engine as E

PLANS = ["NoGC", "SemiSpace", "GenCopy", "GenImmix", "MarkSweep", "PageProtect", "Immix", "MarkCompact",
         "Compressor", "StickyImmix", "ConcurrentImmix"]
MB = 1 << 20
C09_SLACK = 262144        # bytes a cycle may exceed the floor of the first cycles by (64 pages: retained TLAB / copy blocks)
ANCHOR_KEY = 255          # vm root slot that keeps one Default object alive (F-H: MarkCompact)


def harness_repo():
    """The mmtk-core tree the harness is linked against (path dependency in harness/Cargo.toml)."""
    m = re.search(r'mmtk\s*=\s*\{\s*path\s*=\s*"([^"]+)"', open(os.path.join(E.HARNESS, "Cargo.toml")).read())
    return m.group(1) if m else E.REPO


# ------------------------------------------------------------------------------------------------
# programs and traces
# ------------------------------------------------------------------------------------------------

class Program:
    def __init__(self, plan, ops, heap=32 * MB, workers=1, stress=0, fs="fs_main", yield_seed=0, tag="",
                 mode=None, mutators=(0,), opts=()):
        self.plan, self.ops, self.heap, self.workers, self.stress = plan, list(ops), heap, workers, stress
        self.fs, self.yield_seed, self.tag, self.mode = fs, yield_seed, tag, mode
        self.mutators, self.opts = tuple(mutators), tuple(opts)

    @property
    def unified_ref(self):
        return self.plan == "Compressor"

    def header(self):
        h = [f"cfg plan {self.plan}", f"cfg heap {self.heap}", f"cfg workers {self.workers}", "cfg watchdog 60"]
        if self.stress:
            h.append(f"cfg stress {self.stress}")
        if self.yield_seed:
            h.append(f"cfg yield {self.yield_seed}")
        for k, v in self.opts:
            h.append(f"cfg opt {k} {v}")
        h += ["init"] + [f"bind {m}" for m in self.mutators] + ["constraints", f"allocmap {self.mutators[0]}"]
        return h

    def to_json(self):
        return dict(plan=self.plan, ops=self.ops, heap=self.heap, workers=self.workers, stress=self.stress, fs=self.fs,
                    yield_seed=self.yield_seed, tag=self.tag, mode=self.mode, mutators=list(self.mutators),
                    opts=[list(o) for o in self.opts])

    @staticmethod
    def from_json(d):
        return Program(d["plan"], d["ops"], d["heap"], d["workers"], d.get("stress", 0), d.get("fs", "fs_main"),
                       d.get("yield_seed", 0), d.get("tag", ""), d.get("mode"), d.get("mutators", [0]),
                       [tuple(o) for o in d.get("opts", [])])

    def with_ops(self, ops):
        p = Program.from_json(self.to_json())
        p.ops = list(ops)
        return p


class Trace:
    """pairs = [(op line as sent, canonical result line)] including header and injected `snap`s."""
    def __init__(self, program, pairs, rc, stderr_tail="", wall_s=0.0):
        self.program, self.pairs, self.rc, self.stderr_tail, self.wall_s = program, pairs, rc, stderr_tail, wall_s
        self.verdicts = None       # filled by monitor(): [(pair index, key, detail)]

    def to_json(self):
        return dict(program=self.program.to_json(), pairs=self.pairs, rc=self.rc, stderr_tail=self.stderr_tail,
                    wall_s=self.wall_s, verdicts=self.verdicts)

    @staticmethod
    def from_json(d):
        t = Trace(Program.from_json(d["program"]), [tuple(p) for p in d["pairs"]], d["rc"], d.get("stderr_tail", ""),
                  d.get("wall_s", 0.0))
        t.verdicts = [tuple(v) for v in d["verdicts"]] if d.get("verdicts") is not None else None
        return t


# ------------------------------------------------------------------------------------------------
# building / running hx_gc
# ------------------------------------------------------------------------------------------------

_built = {}
_build_lock = threading.Lock()


def hx_gc_exe(fs="fs_main", unified=False):
    key = (fs, unified)
    with _build_lock:
        if key not in _built:
            exe, err, secs = E.cargo_build("hx_gc", fs=fs, extra_features=("unified_ref",) if unified else ())
            if exe is None:
                raise RuntimeError(f"hx_gc does not build ({fs}, unified_ref={unified}): {err[-1500:]}")
            _built[key] = exe
        return _built[key]


_GCS = re.compile(r"\bgcs=(\d+)")


def run(program, timeout=240):
    """Run one program in its own hx_gc process, line by line. After every result whose `gcs=` differs
    from the last one seen, a `snap` is injected (so every observed pause is followed by a snapshot).
    `ismo @@<id>` is sent as `ismo <last known reference of id>`."""
    exe = hx_gc_exe(program.fs, program.unified_ref)
    t0 = time.time()
    errf = tempfile.TemporaryFile(mode="w+")
    p = subprocess.Popen([exe], stdin=subprocess.PIPE, stdout=subprocess.PIPE, stderr=errf, text=True,
                         bufsize=1, env=dict(os.environ, RUST_BACKTRACE="0"))
    fired = []
    def _backstop():
        fired.append(1)
        p.kill()
    killer = threading.Timer(timeout, _backstop)
    killer.start()
    pairs, gcs, refs, dead = [], 0, {}, False

    def send(op):
        nonlocal dead
        if dead:
            return None
        try:
            p.stdin.write(op + "\n")
            p.stdin.flush()
            line = p.stdout.readline()
        except (BrokenPipeError, OSError):
            line = ""
        if not line:
            dead = True
            try:
                rc = p.wait(timeout=10)
            except subprocess.TimeoutExpired:
                p.kill(); rc = p.wait()
            # the wall-clock backstop of this harness (not hx_gc's own watchdog, which answers `timeout`): the program did not
            # finish in `timeout` seconds — under load that says nothing about mmtk-core; `run_many` re-runs it alone
            pairs.append((op, f"timeout # wall-clock backstop of the harness fired after {timeout}s" if fired else f"crash:rc={rc}"))
            return None
        res = E.canon(line.rstrip("\n"))
        pairs.append((op, res))
        if res.startswith("fatal") or res.startswith("timeout"):
            dead = True
        return res

    try:
        for op in program.header() + program.ops:
            if dead:
                break
            t = op.split()
            if t[0] == "ismo" and t[1].startswith("@@"):
                r = refs.get(int(t[1][2:]))
                if r is None:
                    continue
                op = f"ismo {r:#x}"
            res = send(op)
            if res is None:
                break
            if t[0] in ("alloc", "alloco") and res.startswith("a="):
                m = re.search(r"\br=(0x[0-9a-f]+)", res)
                refs[int(t[2])] = int(m.group(1), 16)
            elif t[0] == "snap":
                _note_refs(res, refs)
            m = _GCS.search(res)
            if m and int(m.group(1)) != gcs:
                gcs = int(m.group(1))
                if t[0] != "snap":
                    r2 = send("snap")
                    if r2 is not None:
                        _note_refs(r2, refs)
                        m2 = _GCS.search(r2)
                        if m2:
                            gcs = int(m2.group(1))
        if not dead:
            send("quit")
        try:
            p.stdin.close()
        except OSError:
            pass
        try:
            rc = p.wait(timeout=20)
        except subprocess.TimeoutExpired:
            p.kill(); rc = p.wait()
        errf.seek(0)
        err = errf.read()[-1500:]
    finally:
        killer.cancel()
        if p.poll() is None:
            p.kill()
        errf.close()
    return Trace(program, pairs, rc, err, round(time.time() - t0, 2))


def _note_refs(snapline, refs):
    i = snapline.find(" objs=")
    if i < 0:
        return
    for e in snapline[i + 6:].split(";"):
        f = e.split(":")
        if len(f) >= 2 and f[0].isdigit():
            try:
                refs[int(f[0])] = int(f[1], 16)
            except ValueError:
                pass


def run_many(programs, jobs=8, timeout=240):
    if programs:
        for key in sorted({(p.fs, p.unified_ref) for p in programs}):
            hx_gc_exe(*key)
    with ThreadPoolExecutor(jobs) as ex:
        traces = list(ex.map(lambda p: run(p, timeout), programs))
    for i, tr in enumerate(traces):
        if tr.pairs and "wall-clock backstop" in tr.pairs[-1][1]:
            traces[i] = run(programs[i], timeout * 5)       # alone, with a generous budget: a real hang is still a `timeout`
    return traces


# ------------------------------------------------------------------------------------------------
# the Lean monitor (transport only)
# ------------------------------------------------------------------------------------------------

def monitor_lines(trace):
    ls = ["gcm reset"]
    if trace.program.mode and trace.program.mode.get("c09"):
        ls.append(f"gcm mode c09 {trace.program.mode['c09'][0]} {trace.program.mode['c09'][1]}")
    for op, res in trace.pairs:
        ls.append("gcm op " + op)
        ls.append("gcm res " + res)
    return ls


def monitor(traces, jobs=6):
    """Feed every trace to the Lean monitor; fills `trace.verdicts` = [(pair index, key, detail)]."""
    exe = E.model_exe()

    def one(tr):
        ls = monitor_lines(tr)
        outs, rc, err = E.run_lines(exe, ls, timeout=1200)
        if rc != 0 or len(outs) != len(ls):
            raise RuntimeError(f"mmtk_model lost sync on a trace (rc={rc}, {len(outs)}/{len(ls)} lines): {err[-300:]}")
        pre = len(ls) - 2 * len(tr.pairs)
        v = []
        for k, o in enumerate(outs):
            if o == "ok":
                continue
            idx = (k - pre) // 2 if k >= pre else -1
            parts = o.split(" ", 2)
            v.append((idx, parts[1] if len(parts) > 1 else o, parts[2] if len(parts) > 2 else ""))
        tr.verdicts = v
        return tr
    with ThreadPoolExecutor(jobs) as ex:
        return list(ex.map(one, traces))


# ------------------------------------------------------------------------------------------------
# Python shadow heap: well-formedness of programs + the independent C01 oracle
# ------------------------------------------------------------------------------------------------

def mut_key(m, s):
    return ("m", m, s)


class Shadow:
    def __init__(self):
        self.objs = {}         # id -> dict(nf, size, fields, weak, sem)
        self.roots = {}        # key -> id
        self._reach = None
        self.rootcount = {}
        self.inref = {}        # id -> (src, field) of the latest store of that id (a hint, re-validated)

    def _set_root(self, key, v):
        old = self.roots.pop(key, None)
        if old is not None:
            self.rootcount[old] -= 1
            if self.rootcount[old] == 0 and self._reach is not None:
                # still reachable for sure if a directly rooted object holds a strong reference to it
                src, f = self.inref.get(old, (None, 0))
                o = self.objs.get(src) if src is not None else None
                if not (o is not None and src != old and self.rootcount.get(src, 0) > 0 and f < len(o["fields"])
                        and o["fields"][f] == old and not (o["weak"] and f == 0)):
                    self._reach = None
        if v is not None:
            self.roots[key] = v
            self.rootcount[v] = self.rootcount.get(v, 0) + 1
            if self._reach is not None:
                if v in self._reach or not self.objs[v]["fields"] or all(f is None for f in self.objs[v]["fields"]):
                    self._reach.add(v)
                else:
                    self._reach = None

    def reach(self):
        if self._reach is None:
            seen, stack = set(), list(self.roots.values())
            while stack:
                x = stack.pop()
                if x in seen:
                    continue
                seen.add(x)
                o = self.objs[x]
                for j, f in enumerate(o["fields"]):
                    if f is not None and not (o["weak"] and j == 0):
                        stack.append(f)
            self._reach = seen
        return self._reach

    def alloc(self, key, oid, nf, size, sem):
        self.objs[oid] = dict(nf=nf, size=size, fields=[None] * nf, weak=False, sem=sem)
        self._set_root(key, oid)

    def write(self, src, f, v):
        o = self.objs[src]
        old = o["fields"][f]
        o["fields"][f] = v
        if v is not None:
            self.inref[v] = (src, f)
        if old is not None and old != v:
            self._reach = None
        elif v is not None and self._reach is not None and src in self._reach and v not in self._reach:
            self._reach = None

    def copyrange(self, s, sf, d, df, n):
        vals = self.objs[s]["fields"][sf:sf + n]
        self.objs[d]["fields"][df:df + n] = vals
        self._reach = None

    def destroy(self, m):
        for k in [k for k in self.roots if k[0] == "m" and k[1] == m]:
            self._set_root(k, None)

    def apply(self, t, res_ok_size=None):
        """apply a (successful) op given as tokens; `res_ok_size` = size of a successful alloc"""
        op = t[0]
        nul = lambda s: None if s in ("null", "-") else int(s)
        if op in ("alloc", "alloco"):
            self.alloc(mut_key(int(t[1]), int(t[8])), int(t[2]), int(t[3]), res_ok_size, t[7])
        elif op == "root":
            self._set_root(mut_key(int(t[1]), int(t[2])), nul(t[3]))
        elif op == "vmroot":
            self._set_root(("vm", int(t[1])), nul(t[2]))
        elif op == "write":
            self.write(int(t[2]), int(t[3]), nul(t[4]))
        elif op == "copyrange":
            self.copyrange(int(t[2]), int(t[3]), int(t[4]), int(t[5]), int(t[6]))
        elif op == "destroy":
            self.destroy(int(t[1]))
        elif op == "mkref":
            self.objs[int(t[1])]["weak"] = True
            self._reach = None


def ids_used(t):
    """ids an op reads (must be reachable when the op runs)"""
    op = t[0]
    nn = lambda s: [] if s in ("null", "-") else [int(s)]
    if op == "root":
        return nn(t[3])
    if op == "vmroot":
        return nn(t[2])
    if op == "write":
        return [int(t[2])] + nn(t[4])
    if op == "copyrange":
        return [int(t[2]), int(t[4])]
    if op in ("pin", "unpin", "ispinned", "mkref", "islive", "unlogged"):
        return [int(t[1])]
    return []


def normalize(ops, mutators=(0,)):
    """Make an op list well-formed: ids dense in allocation order, every id used is reachable in the
    shadow heap at that point (so it is known to hx_gc whatever the GC timing), fields in range,
    mutators bound. Ops that cannot be repaired are dropped. Used by the generators and the shrinker."""
    sh, out, ren, bound = Shadow(), [], {}, set(mutators)
    for op in ops:
        t = op.split()
        if not t:
            continue
        k = t[0]
        try:
            if k in ("alloc", "alloco"):
                if int(t[1]) not in bound:
                    continue
                new = len(sh.objs)
                ren[int(t[2])] = new
                t[2] = str(new)
                sh.apply(t, 0)
            elif k in ("root", "vmroot", "write", "copyrange", "pin", "unpin", "mkref"):
                pos = {"root": [3], "vmroot": [2], "write": [2, 4], "copyrange": [2, 4], "pin": [1], "unpin": [1],
                       "mkref": [1]}[k]
                bad = False
                for i in pos:
                    if t[i] in ("null", "-"):
                        continue
                    if int(t[i]) not in ren:
                        bad = True
                        break
                    t[i] = str(ren[int(t[i])])
                if bad:
                    continue
                if any(i not in sh.reach() for i in ids_used(t)):
                    continue
                if k in ("root", "write", "copyrange") and int(t[1]) not in bound:
                    continue
                if k == "write" and int(t[3]) >= sh.objs[int(t[2])]["nf"]:
                    continue
                if k == "copyrange" and (int(t[3]) + int(t[6]) > sh.objs[int(t[2])]["nf"] or
                                         int(t[5]) + int(t[6]) > sh.objs[int(t[4])]["nf"]):
                    continue
                if k == "mkref" and sh.objs[int(t[1])]["nf"] == 0:
                    continue
                sh.apply(t)
            elif k == "ismo" and t[1].startswith("@@"):
                if int(t[1][2:]) not in ren:
                    continue
                t[1] = "@@" + str(ren[int(t[1][2:])])
            elif k == "bind":
                if int(t[1]) in bound:
                    continue
                bound.add(int(t[1]))
            elif k == "destroy":
                if int(t[1]) not in bound or len(bound) == 1:
                    continue
                bound.discard(int(t[1]))
                sh.apply(t)
            elif k in ("gc", "poll", "flush"):
                if int(t[1]) not in bound:
                    continue
        except (ValueError, IndexError, KeyError):
            continue
        out.append(" ".join(t))
    return out


def oracle_c01(trace):
    """Independent re-implementation of the C01 comparison on what the implementation printed.
    Returns [(pair index, key, what)] (first problem per snapshot)."""
    sh, out = Shadow(), []
    for idx, (op, res) in enumerate(trace.pairs):
        t, r = op.split(), res.split()
        if not r:
            continue
        k = t[0]
        if r[0].startswith("crash:") or r[0] in ("fatal", "timeout"):
            out.append((idx, "gc:crash" if r[0].startswith("crash:") else "gc:panic" if r[0] == "fatal" else "gc:timeout", res[:200]))
            break
        if k in ("alloc", "alloco"):
            if r[0].startswith("a="):
                kv = dict(x.split("=", 1) for x in r if "=" in x)
                sh.apply(t, int(kv["sz"]))
        elif k in ("root", "vmroot", "write", "copyrange", "destroy", "mkref"):
            if r[0] == "ok":
                sh.apply(t)
        elif k == "snap":
            e = _oracle_snap(sh, res)
            if e:
                out.append((idx,) + e)
    return out


def _oracle_snap(sh, res):
    parts = res.split(" ")
    if len(parts) < 3 or parts[0] != "snap":
        return ("prog:parse", res[:80])
    kv = dict(p.split("=", 1) for p in parts[1:] if "=" in p)
    mr, vr = kv.get("roots", "|").split("|")
    got_roots = {}
    for e in (mr.split(",") if mr else []):
        key, v = e.split(":")
        m, s = key.split(".")
        got_roots[mut_key(int(m), int(s))] = v
    for e in (vr.split(",") if vr else []):
        key, v = e.split(":")
        got_roots[("vm", int(key.split(".")[1]))] = v
    got, order = {}, []
    for e in (kv.get("objs", "").split(";") if kv.get("objs") else []):
        f = e.split(":")
        oid = int(f[0])
        if oid in got:
            return ("gc:dup-id", f"id={oid} appears twice")
        got[oid] = f
        order.append(oid)
    reach = sh.reach()
    extra = sorted(set(got) - reach)
    if extra:
        return ("gc:extra-object", f"id={extra[0]}")
    for oid in order:
        f, o = got[oid], sh.objs[oid]
        if int(f[2]) != o["size"]:
            return ("gc:size-mismatch", f"id={oid} size={f[2]} want={o['size']}")
        if f[4] != "1" or f[5] == "!shape":
            return ("gc:payload", f"id={oid}")
        gf = f[5].split("/") if f[5] else []
        wf = ["-" if x is None else str(x) for x in o["fields"]]
        if o["weak"] and gf and wf:
            gf, wf = gf[1:], wf[1:]
            if len(f[5].split("/")) != len(o["fields"]):
                return ("gc:field-mismatch", f"id={oid}")
        if gf != wf:
            return ("gc:field-mismatch", f"id={oid} got={'/'.join(gf)[:60]} want={'/'.join(wf)[:60]}")
    lost = sorted(reach - set(got))
    if lost:
        return ("gc:lost-object", f"id={lost[0]}")
    if got_roots != {k: str(v) for k, v in sh.roots.items()}:
        return ("gc:root-mismatch", "root slots differ")
    return None


def oracle_allocs(trace):
    """Independent C02 + C03 oracle on the printed alloc results: alignment, size, zeroing, in-MMTk,
    mapped space, and no intersection with any allocation since the last pause nor with any object of
    the last snapshot that is still reachable. Returns [(pair index, key, what)]."""
    out, sh = [], Shadow()
    amap, refoff, gcs, fresh, snap = {}, 8, 0, [], {}
    strip = lambda s: s.rstrip("0123456789")
    for idx, (op, res) in enumerate(trace.pairs):
        t, r = op.split(), res.split()
        if not r:
            continue
        kv = dict(x.split("=", 1) for x in r if "=" in x)
        if "gcs" in kv and kv["gcs"].isdigit() and int(kv["gcs"]) != gcs:
            gcs, fresh, snap = int(kv["gcs"]), [], {}
        k = t[0]
        if k == "constraints":
            refoff = int(kv.get("refoff", 8))
        elif k == "allocmap":
            amap = {x.split("=")[0]: strip(x.rsplit("@", 1)[1]) for x in r[1:]}
        elif k in ("alloc", "alloco"):
            if r[0] == "null":
                out.append((idx, "gc:oom" if "oom" in kv else "gc:null-no-oom", res))
                continue
            if not r[0].startswith("a="):
                continue
            a, sz, nf, payload, align, offset = int(kv["a"], 16), int(kv["sz"]), int(t[3]), int(t[4]), int(t[5]), int(t[6])
            want = max(32, (refoff + 24 + 8 * nf + payload + 7) // 8 * 8)
            if (a + offset) % align:
                out.append((idx, "gc:misaligned", res))
            elif sz != want:
                out.append((idx, "gc:size", res))
            elif kv["inmmtk"] != "1":
                out.append((idx, "gc:not-in-mmtk", res))
            elif kv["zero"] != "1":
                out.append((idx, "gc:not-zeroed", res))
            elif strip(kv["space"]) != amap.get(t[7]):
                out.append((idx, "gc:wrong-space", res))
            else:
                hit = next((y for y in fresh if not (a + sz <= y[0] or y[0] + y[1] <= a)), None)
                if hit:
                    out.append((idx, "gc:overlap-fresh", f"{res} vs id={hit[2]}"))
                else:
                    cands = [i for i, (s0, z0) in snap.items() if not (a + sz <= s0 or s0 + z0 <= a)]
                    live = [i for i in cands if i in sh.reach()] if cands else []
                    if live:
                        out.append((idx, "gc:overlap-live", f"{res} vs id={live[0]}"))
            fresh.append((a, sz, int(t[2])))
            sh.apply(t, sz)
        elif k in ("root", "vmroot", "write", "copyrange", "destroy", "mkref"):
            if r[0] == "ok":
                sh.apply(t)
        elif k == "snap" and r[0] == "snap":
            snap = {}
            for e in (kv.get("objs", "").split(";") if kv.get("objs") else []):
                f = e.split(":")
                snap[int(f[0])] = (int(f[1], 16) - refoff, int(f[2]))
            spans = sorted((s0, z0, i) for i, (s0, z0) in snap.items())
            for (a0, z0, i0), (a1, z1, i1) in zip(spans, spans[1:]):
                if a0 + z0 > a1:
                    out.append((idx, "gc:overlap-snap", f"id={i0} and id={i1}"))
                    break
    return out


def oracle_c04(trace):
    """objects of non-Default semantics, pinned objects, and every object of a non-moving plan keep
    their reference; immortal-space objects (all objects under NoGC) still answer `ismo` after being
    dropped. Returns [(pair index, key, what)]."""
    out, last, fixed, pinned, moves, collects, space = [], {}, set(), set(), True, True, {}
    for idx, (op, res) in enumerate(trace.pairs):
        t, r = op.split(), res.split()
        if not r:
            continue
        kv = dict(x.split("=", 1) for x in r if "=" in x)
        k = t[0]
        if k == "constraints":
            moves, collects = kv.get("moves") == "1", kv.get("collects") == "1"
        elif k in ("alloc", "alloco") and r[0].startswith("a="):
            i = int(t[2])
            last[i] = int(kv["r"], 16)
            space[i] = kv["space"]
            if t[7] != "Default" or not moves:
                fixed.add(i)
        elif k == "pin" and r[0] in ("true", "false"):
            pinned.add(int(t[1]))
        elif k == "unpin" and r[0] in ("true", "false"):
            pinned.discard(int(t[1]))
        elif k == "snap" and r[0] == "snap":
            for e in (kv.get("objs", "").split(";") if kv.get("objs") else []):
                f = e.split(":")
                i, ref = int(f[0]), int(f[1], 16)
                if (i in fixed or i in pinned) and i in last and last[i] != ref:
                    out.append((idx, "gc:moved", f"id={i} {last[i]:#x} -> {ref:#x}"))
                    break
            for e in (kv.get("objs", "").split(";") if kv.get("objs") else []):
                f = e.split(":")
                last[int(f[0])] = int(f[1], 16)
        elif k == "ismo" and t[1].startswith("0x"):
            a = int(t[1], 16)
            ids = [i for i, v in last.items() if v == a]
            if ids and (not collects or space.get(ids[0]) in ("immortal", "code_space", "large_code_space", "ro_space", "vm_space")):
                # `unsupported`: the feature set has no VO bit (fs_plain): is_mmtk_object cannot be asked
                if r[0] != str(ids[0]) and r[0] != "unsupported":
                    out.append((idx, "gc:immortal-died", f"id={ids[0]} at {a:#x}: {res}"))
    return out


def oracle_c09(trace):
    """floor rule on the printed `stats` of a cycle program (see gen_cycles / GCRUN.md)"""
    mode = (trace.program.mode or {}).get("c09")
    if not mode:
        return []
    warm, slack = mode
    out, floor, n, armed = [], 0, 0, False
    for idx, (op, res) in enumerate(trace.pairs):
        t = op.split()
        if t[0] == "gc" and t[-1] == "1" and res.startswith("ok"):
            armed = True
        elif t[0] in ("alloc", "root", "vmroot", "write"):
            armed = False
            if t[0] == "alloc" and res.startswith("null"):
                out.append((idx, "gc:oom", res))
        elif t[0] == "stats" and armed:
            armed = False
            used = int(re.search(r"used=(\d+)", res).group(1))
            n += 1
            if n <= warm:
                floor = max(floor, used)
            elif used > floor + slack:
                out.append((idx, "gc:floor", f"cycle={n} used={used} floor={floor} slack={slack}"))
    return out


# ------------------------------------------------------------------------------------------------
# plan facts (constraints / allocmap), asked once per (plan, fs)
# ------------------------------------------------------------------------------------------------

_info = {}


def plan_info(plan, fs="fs_main"):
    if (plan, fs) not in _info:
        tr = run(Program(plan, [], fs=fs))
        c = next(res for op, res in tr.pairs if op == "constraints")
        a = next(res for op, res in tr.pairs if op.startswith("allocmap"))
        kv = dict(x.split("=", 1) for x in c.split()[1:])
        amap, bump = {}, set()
        for x in a.split()[1:]:
            sem, rhs = x.split("=", 1)
            sel, sp = rhs.rsplit("@", 1)
            if not sel.startswith("None"):
                amap[sem] = sp
            if sel.startswith("BumpPointer"):
                bump.add(sem)
        _info[(plan, fs)] = dict(maxnonlos=min(int(kv["maxnonlos"]), 1 << 40), moves=kv["moves"] == "1",
                                 collects=kv["collects"] == "1", refoff=int(kv["refoff"]), vobit=kv["vobit"] == "1",
                                 pinning=kv["pinning"] == "1", generational=kv["generational"] == "1", allocmap=amap,
                                 bump=sorted(bump))
    return _info[(plan, fs)]


# ------------------------------------------------------------------------------------------------
# generators (one PRNG per program)
# ------------------------------------------------------------------------------------------------

IMMIX_FAMILY = ("Immix", "StickyImmix", "ConcurrentImmix")     # pin works on freshly allocated Default objects
# boundary sizes: TLAB 32 KB, Immix line 256 B / block 32 KB, mark-sweep classes + 64 KB bin limit, pages
BOUNDARY_SIZES = [32, 40, 48, 64, 72, 128, 248, 256, 264, 504, 512, 520, 1016, 1024, 1032, 2048, 4088, 4096, 4104,
                  8184, 8192, 8200, 16376, 16384, 16392, 32760, 32768, 32776, 65528, 65536, 65544, 131072, 262144]


def legal_sems(plan, info, fs):
    """semantics the random stream may use on this plan (avoids the KNOWN defects F-B / F-C / F-I and
    gc:markcompact-nonmoving-dead; F-A and gc:concimmix-nonmoving-not-reset are repaired by fix: commits, so
    NonMoving is generated on those plans again)"""
    s = [x for x in ("Default", "Immortal", "Los") if x in info["allocmap"]]
    if "NonMoving" in info["allocmap"]:
        if fs == "fs_imm_nonmoving" or (fs in ("fs_main", "fs_plain", "fs_small") and
                                        plan in ("Immix", "NoGC", "SemiSpace", "MarkSweep", "PageProtect")):
            # generational plans: F-B; ConcurrentImmix: gc:concimmix-nonmoving-lost-in-marking (a NonMoving object
            # allocated between the initial and the final pause of a concurrent cycle can be reclaimed while rooted)
            s.append("NonMoving")
    for x in ("Code", "ReadOnly", "LargeCode"):
        if x in info["allocmap"]:
            s.append(x)
    return s


def bump_align_leak(size, align, offset, block=32768):
    """BumpAllocator::acquire_block sizes the new block from `size` alone: a request whose alignment
    padding does not fit in roundup(size, 32 KB) never succeeds and leaks one block per retry."""
    pad = (align - offset % align) % align
    return pad + size > (size + block - 1) // block * block


class Gen:
    """Builds an op list; ids are symbolic until `normalize` renumbers them."""
    def __init__(self, rnd, plan, info, fs="fs_main", heap=32 * MB, mutators=(0,)):
        self.rnd, self.plan, self.info, self.fs, self.heap = rnd, plan, info, fs, heap
        self.ops, self.next_id, self.nf = [], 0, {}
        self.sem = {}
        self.live = []            # ids believed reachable (rooted directly or through the structures built)
        self.bytes = 0            # bytes allocated so far (NoGC budget)
        self.immortal_bytes = 0
        self.sems = legal_sems(plan, info, fs)
        self.mutators = list(mutators)
        self.slot_of = {}

    def size_to_payload(self, size, nf):
        hdr = self.info["refoff"] + 24 + 8 * nf
        return max(0, size - hdr)

    def alloc(self, m=0, nf=2, size=64, sem="Default", slot=None, align=8, offset=0):
        if slot is None:
            slot = self.rnd.randrange(0, 48)
        real = max(32, (self.info["refoff"] + 24 + 8 * nf + self.size_to_payload(size, nf) + 7) // 8 * 8)
        if sem == "Default" and real + align > self.info["maxnonlos"]:
            sem = "Los"
        # the non-moving space is an ImmixSpace: objects above half a block cannot be allocated there (mmtk panics
        # `larger than MAX_IMMIX_OBJECT_SIZE`); feature `immix_smaller_block` (fs_small) has 8 KB blocks
        if sem == "NonMoving" and real + align > (4096 if self.fs == "fs_small" else 16384):
            sem = "Los"
        if sem in ("Immortal", "Code", "ReadOnly", "LargeCode") or not self.info["collects"]:
            if self.immortal_bytes + real > self.heap // 8:
                sem, real = ("Default", real) if real + align <= self.info["maxnonlos"] else ("Los", real)
                if not self.info["collects"]:
                    return None
            else:
                self.immortal_bytes += real + 4096
        if sem not in self.sems:
            sem = "Default" if real + align <= self.info["maxnonlos"] else "Los"
        # (requests whose alignment padding did not fit their fresh block used to be kept out of the random stream:
        # gc:bump-align-leak, repaired by a fix: commit)
        i = self.next_id
        self.next_id += 1
        self.nf[i], self.sem[i] = nf, sem
        self.ops.append(f"alloc {m} {i} {nf} {self.size_to_payload(size, nf)} {align} {offset} {sem} {slot}")
        self.bytes += real
        return i

    def alloco(self, m, nf, size, sem, slot, opts=(0, 0, 0)):
        """alloc_with_options (allow_overcommit, at_safepoint, allow_oom_call). The request may FAIL: the id must
        not be used by a later op (only its root slot may be cleared)."""
        real = max(32, (self.info["refoff"] + 24 + 8 * nf + self.size_to_payload(size, nf) + 7) // 8 * 8)
        if sem == "Default" and real + 8 > self.info["maxnonlos"]:
            sem = "Los"
        if sem not in self.sems:
            sem = "Default" if real + 8 <= self.info["maxnonlos"] else "Los"
        i = self.next_id
        self.next_id += 1
        self.nf[i], self.sem[i] = nf, sem
        self.ops.append(f"alloco {m} {i} {nf} {self.size_to_payload(size, nf)} 8 0 {sem} {slot} {opts[0]} {opts[1]} {opts[2]}")
        return i

    def writable(self, i):
        """F-C: on Compressor references held by Immortal / NonMoving objects are not forwarded"""
        return not (self.plan == "Compressor" and self.sem[i] in ("Immortal", "NonMoving"))

    def write(self, src, f, dst, m=0):
        if self.writable(src):
            self.ops.append(f"write {m} {src} {f} {'null' if dst is None else dst}")

    def root(self, m, slot, i):
        self.ops.append(f"root {m} {slot} {'null' if i is None else i}")

    def gc(self, m=0, exhaustive=None):
        if exhaustive is None:
            exhaustive = self.rnd.random() < 0.5
        self.ops += [f"gc {m} {int(exhaustive)}", "snap"]

    def anchor(self):
        a = self.alloc(0, 1, 40, "Default", slot=63)
        self.ops.append(f"vmroot {ANCHOR_KEY} {a}")
        self.root(0, 63, None)
        return a


def rand_shape(g):
    r = g.rnd
    nf = r.choice([0, 1, 2, 2, 3, 4, 8, 8, 16, 64])
    u = r.random()
    if u < 0.55:
        size = r.choice([32, 40, 48, 64, 96, 128, 200, 256, 264, 400, 512])
    elif u < 0.85:
        size = r.choice(BOUNDARY_SIZES[:24]) + r.choice([0, 0, 8, -8])
    elif u < 0.97:
        size = r.choice(BOUNDARY_SIZES[20:]) + r.choice([0, 8, -8])
    else:
        size = r.randrange(16, 262144) & ~7
    align = r.choice([8, 8, 8, 16, 16, 32, 64])
    offset = r.choice([0, 0, 0, 8, 16, 24, 40])
    sem = r.choice(g.sems) if r.random() < 0.25 else "Default"
    return nf, max(size, 16), align, offset, sem


def gen_mixed(rnd, plan, info, fs, heap, nops=300, workers=1):
    """random mutator program: sharing hubs, cycles, wide objects, root churn, old->young stores,
    several mutators, copyrange, pinning (Immix family), user GCs; live set bounded by root drops."""
    g = Gen(rnd, plan, info, fs, heap)
    r = rnd
    g.anchor()
    pool = []                       # recently allocated ids (some may be dead: normalize drops such uses)
    old = []                        # ids that survived a GC (for old -> young stores)
    hub = None
    budget = heap // 5 if info["collects"] else heap // 3
    muts = {0}
    pinned = []
    while len(g.ops) < nops:
        u = r.random()
        m = r.choice(sorted(muts))
        if u < 0.40:
            nf, size, align, offset, sem = rand_shape(g)
            if not info["collects"] and g.bytes + size > budget:
                size, sem = 64, "Default"
                if g.bytes > budget:
                    u = 0.99
            if plan == "PageProtect" and len(pool) > 150:
                continue
            x = g.alloc(m, nf, size, sem, slot=r.randrange(0, 40), align=align, offset=offset)
            if x is None:
                continue
            pool.append(x)
            if nf and pool and r.random() < 0.8:
                g.write(x, r.randrange(nf), r.choice(pool[-30:]), m)
            if hub is not None and nf and r.random() < 0.5:
                g.write(x, r.randrange(nf), hub, m)      # many slots -> one object
        elif u < 0.58 and pool:
            s = r.choice(pool[-40:])
            if g.nf[s]:
                d = r.choice(pool[-40:] + old[-10:]) if r.random() < 0.9 else None
                g.write(s, r.randrange(g.nf[s]), d, m)
        elif u < 0.64 and old and pool:
            s = r.choice(old)                             # old -> young store
            if g.nf[s]:
                g.write(s, r.randrange(g.nf[s]), r.choice(pool[-10:]), m)
        elif u < 0.70 and pool:
            g.root(m, r.randrange(0, 48), r.choice(pool[-60:]) if r.random() < 0.6 else None)
        elif u < 0.73 and pool:
            g.ops.append(f"vmroot {r.randrange(0, 200)} {r.choice(pool[-60:]) if r.random() < 0.7 else 'null'}")
        elif u < 0.76 and pool:
            hub = r.choice(pool[-20:])
            g.ops.append(f"vmroot 201 {hub}")
        elif u < 0.79 and len(pool) > 2:                   # a cycle
            a, b = r.choice(pool[-20:]), r.choice(pool[-20:])
            if g.nf[a] and g.nf[b]:
                g.write(a, 0, b, m); g.write(b, g.nf[b] - 1, a, m)
        elif u < 0.82 and pool:
            a, b = r.choice(pool[-30:]), r.choice(pool[-30:])
            n = min(g.nf[a], g.nf[b])
            if n and g.writable(b) and plan != "ConcurrentImmix":     # SATB memory_region_copy panics (F-D family)
                k = r.randrange(1, n + 1)
                g.ops.append(f"copyrange {m} {a} {r.randrange(0, g.nf[a] - k + 1)} {b} {r.randrange(0, g.nf[b] - k + 1)} {k}")
        elif u < 0.86:
            g.gc(m)
            old = [x for x in pool[-80:]]
        elif u < 0.88 and len(muts) < 3:
            nm = min(set(range(1, 4)) - muts)
            g.ops.append(f"bind {nm}"); muts.add(nm)
        elif u < 0.89 and len(muts) > 1:
            dm = max(muts)
            # the mutator goes while it holds roots and a non-empty barrier buffer: old -> young stores through it first
            for _ in range(r.choice([0, 1, 3])):
                if old and pool:
                    s = r.choice(old)
                    if g.nf[s]:
                        g.write(s, r.randrange(g.nf[s]), r.choice(pool[-10:]), dm)
            g.ops.append(f"destroy {dm}"); muts.discard(dm)
            if r.random() < 0.6:
                g.gc(0, False)
        elif u < 0.92 and pool and plan in IMMIX_FAMILY and info["pinning"]:
            x = r.choice(pool[-20:])
            if g.sem[x] == "Default":
                g.ops.append(f"pin {x}"); pinned.append(x)
        elif u < 0.93 and pinned:
            g.ops.append(f"unpin {pinned.pop(r.randrange(len(pinned)))}")
        elif u < 0.97:
            for s_ in r.sample(range(0, 48), 12):          # drop a quarter of the root slots
                g.root(m, s_, None)
        else:
            g.ops.append("stats")
    g.ops += ["snap", "gc 0 1", "snap", "stats"]
    return Program(plan, normalize(g.ops), heap=heap, workers=workers, fs=fs, tag="mixed")


def gen_list(rnd, plan, info, fs, heap, n=3000, workers=1):
    """a 10^3..10^4-long singly linked list with back edges / shared referents and garbage in between;
    natural GCs from the small heap; dropped and rebuilt once."""
    g = Gen(rnd, plan, info, fs, heap)
    r = rnd
    g.anchor()
    if not info["collects"]:
        n = min(n, 1500)
    if plan == "PageProtect":
        n = min(n, 600)
    head, chain = None, []
    for i in range(n):
        nf = r.choice([1, 2, 2, 3, 8]) if i % 401 != 7 else 64
        size = r.choice([32, 48, 64, 128, 256, 520, 1024]) if info["collects"] else r.choice([32, 48, 64])
        x = g.alloc(0, nf, size, "Default", slot=61, align=r.choice([8, 8, 16]), offset=r.choice([0, 0, 8]))
        if head is not None:
            g.write(x, 0, head)
        if nf >= 2 and len(chain) > 4 and r.random() < 0.5:
            g.write(x, 1, r.choice(chain[-50:]))
        g.root(0, 60, x)
        head = x
        chain.append(x)
        if info["collects"] and r.random() < 0.5:
            g.alloc(0, r.choice([0, 1]), r.choice([64, 1024, 4096, 8000]), "Default", slot=r.randrange(0, 4))
        if i % 701 == 350:
            g.alloc(0, 2, 40000, "Los", slot=10 + (i // 701) % 8)
        if i % 997 == 500:
            g.gc(0)
        if i == n // 2 and info["collects"]:
            g.root(0, 60, None); g.root(0, 61, None)
            head, chain = None, []
            g.gc(0, True)
    g.root(0, 61, None)
    g.ops += ["snap", "gc 0 1", "snap", "stats"]
    return Program(plan, normalize(g.ops), heap=heap, workers=workers, fs=fs, tag="list")


DENSE_FULL = ("even", "odd", "first4", "last4")      # every 256-byte Immix line keeps a survivor next to a dead neighbour
DENSE_PATTERNS = DENSE_FULL + ("rand4", "deadline")    # rand4: random 1..3 survivors per aligned group of four; deadline: one line per block dies


def dense_keep(pattern, i, per_line, rnd_bits, dead_line):
    """does the i-th object of the dense run survive the first mixed collection?"""
    if pattern == "even":
        return i % 2 == 0
    if pattern == "odd":
        return i % 2 == 1
    if pattern == "first4":
        return i % 4 == 0
    if pattern == "last4":
        return i % 4 == 3
    if pattern == "rand4":
        return bool(rnd_bits[i // 4] >> (i % 4) & 1)
    if pattern == "deadline":                       # control: like `even`, but one whole line of every block dies -> reusable block
        return i % 2 == 0 and (i // per_line) % 128 != dead_line
    raise ValueError(pattern)


def gen_dense_lines(rnd, plan, info, fs, heap, workers=1, blocks=3, sem="Default", pattern=None, old=None, probe="snap"):
    """dense-lines: whole 32 KB Immix blocks filled with 128-byte (2 per 256-byte line) or 64-byte (4 per line) leaf
    objects, survivors chosen per line so that a block can end a collection with ALL of its 128 lines marked and yet
    contain dead objects (Block::sweep's not-reusable branch). `old`: every object first survives one collection (is
    matured / copied into the mature Immix space) and dies afterwards; otherwise the dead ones die young. Then: an
    exhaustive GC, a second one (same survivors: the block is full again), more deaths (whole lines) + new objects in
    the holes, a third one. `probe` is appended after every exhaustive GC (the runner injects `snap` itself)."""
    g = Gen(rnd, plan, info, fs, heap)
    g.anchor()
    pattern = pattern or rnd.choice(DENSE_PATTERNS)
    old = rnd.random() < 0.5 if old is None else old
    if sem not in g.sems:
        sem = "Default"
    per_line = 2 if pattern in ("even", "odd", "deadline") else 4
    size = 256 // per_line
    n = blocks * 128 * per_line + rnd.choice([0, per_line * 17, per_line * 64])
    F = 256
    nsp = (n + F - 1) // F
    spines = [g.alloc(0, F, 0, "Default", slot=s) for s in range(nsp)]
    # pad the bump cursor to a line boundary (anchor + spines + pad = 0 mod 256) when the run shares their allocator
    used = 40 + nsp * (info["refoff"] + 24 + 8 * F)
    pad = (-used) % 256
    if pad:
        g.alloc(0, 0, pad if pad >= 32 else pad + 256, "Default", slot=62)
        g.root(0, 62, None)
    bits = [rnd.randrange(1, 15) for _ in range(n // 4 + 1)]
    dead_line = rnd.randrange(128)
    keep = [dense_keep(pattern, i, per_line, bits, dead_line) for i in range(n)]
    objs = []
    for i in range(n):
        x = g.alloc(0, 0, size, sem, slot=50)
        objs.append(x)
        if old or keep[i]:
            g.write(spines[i // F], i % F, x)
    g.root(0, 50, None)
    if old:
        g.ops.append(f"gc 0 {rnd.choice([0, 1])}")
        for i in range(n):
            if not keep[i]:
                g.write(spines[i // F], i % F, None)
    g.ops += ["gc 0 1", probe, "immix", "gc 0 1", probe, "immix"]
    # more deaths: two whole lines per block and a random tenth of the rest; new objects go into the holes
    l1, l2 = rnd.randrange(128), rnd.randrange(128)
    for i in range(n):
        if keep[i] and ((i // per_line) % 128 in (l1, l2) or rnd.random() < 0.1):
            keep[i] = False
            g.write(spines[i // F], i % F, None)
    fresh = [i for i in range(n) if not keep[i]]
    for i in rnd.sample(fresh, min(len(fresh), 300)):
        x = g.alloc(0, 0, rnd.choice([32, 64, 128, 256]), sem, slot=50)
        if rnd.random() < 0.5:
            g.write(spines[i // F], i % F, x)
    g.root(0, 50, None)
    g.ops += ["gc 0 1", probe, "immix", "gc 0 1", probe]
    return Program(plan, normalize([o for o in g.ops if o]), heap=heap, workers=workers, fs=fs,
                   tag=f"dense-lines:{pattern}:{'old' if old else 'young'}:{sem}")


def gen_churn(rnd, plan, info, fs, heap, nops=2500, workers=1):
    """small heap, a few hundred live objects in a ring of root slots, lots of garbage of mixed sizes:
    natural GCs (several per program), memory reuse right after each GC (C02)."""
    g = Gen(rnd, plan, info, fs, heap)
    r = rnd
    g.anchor()
    if not info["collects"]:
        nops = 400
    if plan == "PageProtect":
        nops = 500
    ring = []
    while len(g.ops) < nops:
        nf, size, align, offset, sem = rand_shape(g)
        if r.random() < 0.7:
            size = r.choice([256, 1024, 4096, 8000, 16000, 30000, 60000, 100000]) if info["collects"] else 64
        if sem in ("Immortal",) and r.random() < 0.8:
            sem = "Default"
        m = 0
        x = g.alloc(m, nf, size, sem, slot=r.randrange(0, 32), align=align, offset=offset)
        if x is None:
            break
        ring.append(x)
        if nf and len(ring) > 1 and r.random() < 0.6:
            g.write(x, r.randrange(nf), r.choice(ring[-32:]))
        if r.random() < 0.03:
            g.ops.append(f"vmroot {r.randrange(0, 64)} {x}")
        if r.random() < 0.02:
            for k in range(0, 64):
                if r.random() < 0.5:
                    g.ops.append(f"vmroot {k} null")
        if r.random() < 0.01:
            g.gc(0)
    g.ops += ["snap", "gc 0 1", "snap", "stats"]
    return Program(plan, normalize(g.ops), heap=heap, workers=workers, fs=fs, tag="churn")


def gen_sizes(rnd, plan, info, fs, heap, workers=1, n=260):
    """C03: every legal semantics x boundary sizes x aligns x offsets (structured sweep + random rest)"""
    g = Gen(rnd, plan, info, fs, heap)
    r = rnd
    g.anchor()
    sizes = list(BOUNDARY_SIZES)
    mx = info["maxnonlos"]
    if mx < (1 << 30):
        sizes += [mx - 8, mx, mx + 8, mx - 64, mx + 64]
    combos = []
    for sem in g.sems:
        for size in sizes:
            combos.append((sem, size, r.choice([8, 16, 32, 64]), r.choice([0, 8, 16, 24, 32, 56])))
    r.shuffle(combos)
    for al in (8, 16, 32, 64):
        for off in (0, 8, 16, 24, 32, 40, 48, 56, 64, 72):
            combos.insert(r.randrange(len(combos)), ("Default", r.choice([32, 48, 264, 1032]), al, off))
    cnt = 0
    for sem, size, al, off in combos[:n]:
        if not info["collects"] and g.bytes > heap // 3:
            break
        if sem in ("Immortal", "Code", "ReadOnly", "LargeCode") and size > 70000:
            size = 4096 + 8
        nf = r.choice([0, 1, 2, 4])
        x = g.alloc(0, nf, size, sem, slot=cnt % 8, align=al, offset=off)
        if x is None:
            break
        cnt += 1
        if cnt % 40 == 0:
            g.gc(0)
        if r.random() < 0.1:
            g.ops.append(f"vmroot {r.randrange(0, 100)} {x}")
    g.ops += ["snap", "gc 0 1", "snap", "stats"]
    return Program(plan, normalize(g.ops), heap=heap, workers=workers, fs=fs, tag="sizes")


def gen_stress_bump(rnd, plan, info, fs, heap, workers=1, n=2500):
    """C02/C03 under precise stress GC (`cfg stress` huge: every allocation takes the precise-stress slow path, no GC is
    triggered): thousands of small objects with alignment > MIN_ALIGNMENT and varying offsets, so that whole
    thread-local blocks are filled by padded allocations (added after seeded change C03b)."""
    g = Gen(rnd, plan, info, fs, heap)
    r = rnd
    g.anchor()
    sems = [s for s in g.sems if s in ("Default", "Immortal", "NonMoving")] or ["Default"]
    for i in range(n):
        if not info["collects"] and g.bytes > heap // 3:
            break
        sem = "Default" if r.random() < 0.8 else r.choice(sems)
        al = r.choice([16, 16, 32, 64, 8])
        off = r.choice([0, 8, 16, 24, 40, 56])
        x = g.alloc(0, r.choice([0, 1]), r.choice([24, 32, 40, 64, 100, 200, 520]), sem, slot=i % 48, align=al, offset=off)
        if x is None:
            break
    g.ops += ["snap", "stats"]
    return with_stress(Program(plan, normalize(g.ops), heap=heap, workers=workers, fs=fs, tag="stress-bump"), 1 << 40)


def gen_immortal(rnd, plan, info, fs, heap, workers=1):
    """C04: immortal-space objects (and every object under NoGC) survive being dropped; non-moving
    semantics and pinned objects keep their address across moving collections."""
    g = Gen(rnd, plan, info, fs, heap)
    r = rnd
    g.anchor()
    imm, keep = [], []
    for i in range(40):
        sem = r.choice([s for s in g.sems if s != "Default"] or ["Default"]) if i % 2 == 0 else "Default"
        size = r.choice([32, 64, 256, 1024]) if sem != "Los" else r.choice([20000, 70000])
        x = g.alloc(0, r.choice([0, 1, 2]), size, sem, slot=i % 48)
        if x is None:
            break
        (imm if (sem in ("Immortal", "Code", "ReadOnly", "LargeCode") or not info["collects"]) else keep).append(x)
        if plan in IMMIX_FAMILY and info["pinning"] and sem == "Default" and r.random() < 0.5:
            g.ops.append(f"pin {x}")
        # garbage around it so that a defragmenting / copying GC has a reason to move things
        for _ in range(3):
            g.alloc(0, 0, r.choice([64, 512, 4000]), "Default", slot=50 + r.randrange(4))
    g.gc(0, True)
    g.gc(0, False)
    for s in range(0, 48):
        if r.random() < 0.5:
            g.root(0, s, None)
    g.gc(0, True)
    for x in imm:
        g.ops.append(f"ismo @@{x}")
    for s in range(0, 64):
        g.root(0, s, None)
    g.gc(0, True)
    g.gc(0, True)
    for x in imm:
        g.ops.append(f"ismo @@{x}")
    g.ops += ["snap", "stats"]
    return Program(plan, normalize(g.ops), heap=heap, workers=workers, fs=fs, tag="immortal")


def gen_pressure(g, heap, slots=range(16, 48), small_slot=48):
    """Full-heap phase of a cycle: requests made with alloc_with_options(at_safepoint=false) that FAIL.
    Large-object fillers (not at a safepoint either: the last ones fail) keep the heap full of live data, then
    small / medium / large requests fail one after the other; every failure requests a GC, which runs before the
    next op. Nothing of a failed request may stay reserved: the fillers are dropped afterwards and the cycle's
    `gc 0 1; stats` sample must be back on the floor."""
    r = g.rnd
    want, got = int(heap * r.choice([1.1, 1.3, 1.5])), 0
    div = r.choice([8, 12, 16, 24])
    for s in slots:
        if got >= want:
            break
        size = heap // div + r.randrange(0, 8192) & ~7
        got += size
        g.alloco(0, 0, size, "Los", s, (0, 0, r.choice([0, 1])))
    for _ in range(r.choice([4, 10, 24])):
        u = r.random()
        if u < 0.6:
            size, sem = r.choice([32, 64, 256, 1024, 2048, 4096, 8000]), "Default"
        elif u < 0.8:
            size, sem = r.choice([16000, 30000, 70000, 262144]), "Default"          # -> Los above maxnonlos
        else:
            size, sem = heap // r.choice([2, 3, 5]), "Los"
        g.alloco(0, r.choice([0, 1]), size, sem, small_slot, (0, 0, r.choice([0, 1])))
    for s in list(slots) + [small_slot]:
        g.root(0, s, None)


def gen_destroy(rnd, plan, info, fs, heap, workers=1, rounds=10):
    """C01: a mutator is destroyed while it still holds write-barrier state (generational mod-buffer / SATB buffer)
    and roots. Per round: old objects (rooted by mutator 0 / VM roots; matured by a GC, or born mature: Immortal, Los)
    — `bind m` — young objects allocated through m, rooted ONLY in m's slots — `write m <old> <f> <young>` (+ young ->
    young chains, old -> old stores, null stores, all through m, fewer than a buffer-full) — `destroy m` (m's roots go,
    the young objects are now reachable only through the old ones; the barrier buffers must reach the collector) —
    nursery `gc 0 0`, `snap` — then a store into the same old object by mutator 0 (it must be remembered again),
    nursery GC, snap; sometimes a full GC."""
    g = Gen(rnd, plan, info, fs, heap)
    r = rnd
    g.anchor()
    olds = []
    nxt_m = 1
    for rd in range(rounds):
        # old objects (kept by mutator 0 / VM roots)
        fresh_old = []
        for _ in range(r.choice([1, 2, 4, 8])):
            sem = r.choice(["Default", "Default", "Default", "Los", "Immortal"])
            nf = r.choice([1, 2, 4, 8, 64])
            size = r.choice([64, 256, 1024]) if sem != "Los" else r.choice([20000, 70000])
            x = g.alloc(0, nf, max(size, 40 + 8 * nf), sem, slot=r.randrange(0, 16))
            if x is None:
                continue
            if r.random() < 0.5:
                g.ops.append(f"vmroot {r.randrange(0, 64)} {x}")
            fresh_old.append(x)
        if r.random() < 0.85:
            g.gc(0, r.random() < 0.4)          # mature them (Immortal / Los ones are used either way)
        olds = (olds + fresh_old)[-24:]
        m = nxt_m
        nxt_m = nxt_m % 3 + 1
        g.ops.append(f"bind {m}")
        youngs = []
        for k in range(r.choice([1, 2, 5, 12, 40])):
            nf = r.choice([0, 1, 2, 4])
            y = g.alloc(m, nf, r.choice([32, 48, 64, 256, 2048]), "Default", slot=r.randrange(0, 48))
            if y is None:
                continue
            src = r.choice(olds) if (not youngs or r.random() < 0.7) else r.choice(youngs)
            if g.nf[src]:
                g.write(src, r.randrange(g.nf[src]), y, m)
            youngs.append(y)
            u = r.random()
            if u < 0.15 and len(olds) > 1:
                a, b = r.choice(olds), r.choice(olds)
                if g.nf[a]:
                    g.write(a, r.randrange(g.nf[a]), b, m)
            elif u < 0.25:
                a = r.choice(olds)
                if g.nf[a]:
                    g.write(a, r.randrange(g.nf[a]), None, m)
        if r.random() < 0.3:
            g.ops.append(f"flush {m}")            # sometimes the buffers are already with the collector
        if r.random() < 0.2:
            for _ in range(r.choice([3, 30])):    # allocation by the other mutator in between
                g.alloc(0, 0, r.choice([64, 4096, 8000]), "Default", slot=60)
        g.ops.append(f"destroy {m}")
        g.gc(0, False)
        # the old objects must be remembered again when mutator 0 stores into them
        if olds and r.random() < 0.7:
            for _ in range(r.choice([1, 3])):
                a = r.choice(olds)
                y = g.alloc(0, 1, 64, "Default", slot=61)
                if y is not None and g.nf[a]:
                    g.write(a, r.randrange(g.nf[a]), y, 0)
            g.root(0, 61, None)
            g.gc(0, False)
        if r.random() < 0.3:
            g.gc(0, True)
        if r.random() < 0.3:
            for s_ in r.sample(range(0, 16), 6):
                g.root(0, s_, None)
    g.ops += ["snap", "gc 0 1", "snap", "stats"]
    return Program(plan, normalize(g.ops), heap=heap, workers=workers, fs=fs, tag="destroy")


def gen_cycles(rnd, plan, info, fs, heap, cycles=12, workers=1, warm=3, slack=C09_SLACK, pressure=True):
    """C09: N cycles `allocate ~40% of the heap (collectable semantics only); drop every root but the
    anchor; [full-heap phase with failing non-safepoint requests: gen_pressure]; gc exhaustive; stats`."""
    g = Gen(rnd, plan, info, fs, heap)
    r = rnd
    g.anchor()
    frac = 0.40
    if plan in ("SemiSpace", "GenCopy"):
        frac = 0.30            # a copying collector needs the copy reserve: 40% live + 40% reserve would OOM
    sems = [s for s in g.sems if s in ("Default", "Los", "NonMoving")]
    if fs == "fs_imm_nonmoving":
        sems = [s for s in sems if s != "NonMoving"]       # feature immortal_as_nonmoving: never reclaimed by design
    for c in range(cycles):
        target, got = int(heap * frac), 0
        # "topclass": sizes in the top size classes of the plan's default allocator, just below the large-object
        # threshold (added after seeded change C09b: the last mark-sweep bin was never released)
        mix = r.choice(["small", "medium", "mixed", "large", "topclass"])
        top = max(4096, info.get("maxnonlos", 65536) - info["refoff"] - 32)
        prev = None
        floor_sz = target // 1000          # at most ~1000 allocations per cycle (monitor cost is quadratic)
        while got < target:
            if mix == "small":
                size = r.choice([64, 128, 256, 512, 1024, 2048, 4096, 8000])
            elif mix == "medium":
                size = r.choice([2048, 4096, 8000, 16000])
            elif mix == "large":
                size = r.choice([30000, 70000, 200000, 262144])
            elif mix == "topclass":
                size = r.choice([top, top - 8, top - 64, top - 4096, top * 15 // 16, top * 7 // 8 + 8, top * 3 // 4, top // 2 + 8]) & ~7
            else:
                size = r.choice([64, 256, 1024, 8000, 16000, 70000, 262144])
            if size < floor_sz and r.random() < 0.8:
                size = r.choice([floor_sz, 2 * floor_sz, 8000, 16000]) & ~7
            if plan == "PageProtect":
                size = max(size, 8000)
            size = max(32, min(size, max(64, target - got)))
            sem = "Default" if r.random() < 0.9 else r.choice(sems)
            # keep ~half of the objects alive until the drop by chaining them from a root
            x = g.alloc(0, 1, size, sem, slot=r.randrange(0, 16))
            if prev is not None and r.random() < 0.5:
                g.write(x, 0, prev)
            prev = x
            got += max(size, 32) if plan != "PageProtect" else (max(size, 32) + 4095) // 4096 * 4096
        for s in range(0, 16):
            g.root(0, s, None)
        if pressure and (c % 2 == 1 or r.random() < 0.3):
            gen_pressure(g, heap)
            # a failed request has asked for a GC: on ConcurrentImmix a concurrent cycle may be in flight, the next
            # user GC then only finishes it (what died after its snapshot is floating garbage until the GC after)
            g.ops += ["gc 0 1"]
        # ConcurrentImmix (SATB): a concurrent cycle may be in flight when the roots are dropped (started by the
        # allocation volume of this cycle); the user GC then only finishes it and what died after its snapshot floats
        # until the next collection — the floor is judged after a second collection
        g.ops += ["gc 0 1"] * (2 if plan == "ConcurrentImmix" else 1) + ["stats"]
    g.ops += ["snap"]
    return Program(plan, normalize(g.ops), heap=heap, workers=workers, fs=fs, tag="cycles",
                   mode={"c09": [warm, slack]})


# ------------------------------------------------------------------------------------------------
# suites + cache
# ------------------------------------------------------------------------------------------------

def fingerprint():
    h = hashlib.sha1()
    roots = [os.path.join(harness_repo(), "src"), os.path.join(E.HARNESS, "src"), os.path.join(E.VERIF, "vlib", "gcrun.py")]
    for root in roots:
        files = [root] if os.path.isfile(root) else sorted(os.path.join(d, f) for d, _, fs in os.walk(root) for f in fs)
        for f in files:
            st = os.stat(f)
            h.update(f"{f}:{st.st_size}:{st.st_mtime_ns};".encode())
    return h.hexdigest()[:16]


def heap_for(plan, rnd, small=False):
    if plan == "NoGC":
        return 64 * MB
    return rnd.choice([8, 12, 16] if small else [16, 24, 32, 64]) * MB


def with_stress(p, stress):
    """the same program under `cfg stress <bytes>` (precise stress GC)"""
    p.stress = stress
    p.tag = (p.tag or "") + ":stress"
    return p


def suite(name, seed, tier):
    """Deterministic program list of a suite (`common` for C01-C04, `cycles` for C09)."""
    progs = []
    thorough = tier == "thorough"
    fss = ["fs_main"] + (["fs_plain", "fs_imm_nonmoving", "fs_small"] if thorough else [])
    reps = 3 if thorough else 1
    for fs in fss:
        for plan in PLANS:
            info = plan_info(plan, fs)
            for w in (1, 4):
                for rep in range(reps):
                    rnd = random.Random(f"{seed}/{name}/{fs}/{plan}/{w}/{rep}")
                    ys = rnd.randrange(1, 1 << 30) if thorough else 0
                    mk = []
                    if name == "common":
                        if w == 1:
                            mk = [lambda: gen_mixed(rnd, plan, info, fs, heap_for(plan, rnd), 300 if not thorough else 1200, w),
                                  lambda: gen_sizes(rnd, plan, info, fs, heap_for(plan, rnd), w),
                                  lambda: gen_list(rnd, plan, info, fs, heap_for(plan, rnd, True), rnd.choice([1000, 2000]) if not thorough else rnd.choice([3000, 10000]), w),
                                  lambda: gen_destroy(rnd, plan, info, fs, heap_for(plan, rnd), w, 10 if not thorough else 40)]
                        else:
                            mk = [lambda: gen_mixed(rnd, plan, info, fs, heap_for(plan, rnd), 300 if not thorough else 1200, w),
                                  lambda: gen_churn(rnd, plan, info, fs, heap_for(plan, rnd, True), 1500 if not thorough else 6000, w),
                                  lambda: gen_immortal(rnd, plan, info, fs, heap_for(plan, rnd), w),
                                  lambda: gen_destroy(rnd, plan, info, fs, heap_for(plan, rnd, True), w, 10 if not thorough else 40)]
                        if w == 1 and info["collects"]:
                            # precise stress GC: every allocation takes alloc_slow_once_precise_stress and a GC is
                            # triggered every `stress` bytes (added after seeded change C03b: the stress slow path of the
                            # bump allocator mis-accounted the alignment padding); appended after the classic programs
                            mk.append(lambda: with_stress(gen_sizes(rnd, plan, info, fs, heap_for(plan, rnd), w, n=140),
                                                          rnd.choice([4096, 32768, 1 << 18, 1 << 20])))
                        if w == 1 and info["collects"]:
                            mk.append(lambda: gen_stress_bump(rnd, plan, info, fs, heap_for(plan, rnd), w))
                        if plan in ("Immix", "GenImmix", "StickyImmix", "ConcurrentImmix") and info["collects"]:
                            # dense-lines (shared with C07): full Immix blocks with per-line mixed liveness; appended LAST so
                            # that the programs above keep their random streams
                            mk.append(lambda: gen_dense_lines(rnd, plan, info, fs, 64 * MB, w, blocks=2))
                    elif name == "cycles":
                        if not info["collects"]:
                            continue
                        if thorough and fs != "fs_main" and rep >= 1:
                            continue      # one repetition per plan x workers on the secondary feature sets (wall-clock budget)
                        mk = [lambda: gen_cycles(rnd, plan, info, fs, rnd.choice([16, 32]) * MB if not thorough else rnd.choice([16, 32, 64]) * MB,
                                                 10 if not thorough else 40, w)]
                    for f in mk:
                        p = f()
                        p.yield_seed = ys
                        progs.append(p)
    return progs


def cached_traces(name, seed, tier, jobs=8, log=E.log):
    """Run the suite (or load it from build/gcrun-cache): shared by the checks that use the same runs.
    Returns (traces, info dict). Traces come back with monitor verdicts filled in."""
    key = f"{name}-{tier}-{seed}-{fingerprint()}"
    d = os.path.join(E.BUILD, "gcrun-cache")
    os.makedirs(d, exist_ok=True)
    path = os.path.join(d, key + ".json")
    mexe = E.model_exe()
    mstamp = f"{os.stat(mexe).st_mtime_ns}" if os.path.exists(mexe) else "-"
    if os.path.exists(path):
        try:
            data = json.load(open(path))
            if data.get("model") == mstamp:
                return [Trace.from_json(t) for t in data["traces"]], dict(cache="hit", key=key, run_s=data.get("run_s"),
                                                                      monitor_s=data.get("monitor_s"))
        except (ValueError, KeyError):
            pass
    t0 = time.time()
    progs = suite(name, seed, tier)
    log(f"gcrun: suite {name}/{tier}: {len(progs)} programs, {sum(len(p.ops) for p in progs)} ops")
    traces = run_many(progs, jobs=jobs)
    t1 = time.time()
    monitor(traces)
    t2 = time.time()
    data = dict(model=mstamp, run_s=round(t1 - t0, 1), monitor_s=round(t2 - t1, 1), traces=[t.to_json() for t in traces])
    tmp = path + f".tmp{os.getpid()}"
    json.dump(data, open(tmp, "w"))
    os.replace(tmp, path)
    # keep the cache small: only the 6 newest files
    files = sorted((os.path.join(d, f) for f in os.listdir(d) if f.endswith(".json")), key=os.path.getmtime)
    for f in files[:-6]:
        os.remove(f)
    return traces, dict(cache="miss", key=key, run_s=data["run_s"], monitor_s=data["monitor_s"])


# ------------------------------------------------------------------------------------------------
# shrinking
# ------------------------------------------------------------------------------------------------

def failure_keys(trace, keys=None):
    """violation keys of a monitored trace (optionally restricted to a key set / prefix tuple)"""
    ks = [k for _, k, _ in (trace.verdicts or [])]
    if keys is not None:
        ks = [k for k in ks if k in keys]
    return ks


def shrink(program, key, budget=60, runs=1, keep=3):
    """Delta-debug the op list: keep it well-formed (`normalize`) and the failure key stable
    (`key`: one key or a tuple of acceptable keys; `runs` > 1 for schedule-dependent failures)."""
    keys = (key,) if isinstance(key, str) else tuple(key)
    head = program.ops[:keep]          # the anchor allocation (keeps F-H out of the way) is never removed

    def fails(ops):
        p = program.with_ops(normalize(head + ops, program.mutators))
        for _ in range(runs):
            tr = run(p, timeout=120)
            monitor([tr])
            if set(keys) & set(failure_keys(tr)):
                return True
        return False
    case = E.shrink_case(E.Case(program.ops[keep:]), lambda c: fails(c.ops), budget=budget)
    return program.with_ops(normalize(head + case.ops, program.mutators))
