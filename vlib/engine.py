"""Shared engine of the /verif checks (python3 stdlib only).

A check = (1) Lean proof obligations re-checked by `lake build` + hygiene + axiom audit,
          (2) the harness rebuilt from /repo's working tree with the hooks on,
          (3) correspondence: the executable Lean model and the real code run on the same generated
              cases through the line protocol; outputs are compared line by line,
          (4) on any break: shrink, search for a concrete failing input with the property's own
              executable statement (`oracle`), report VIOLATION,
          (5) evidence/<id>.json.
"""
import json, os, random, re, subprocess, sys, time, hashlib, shutil

VERIF = os.path.dirname(os.path.dirname(os.path.abspath(__file__)))
REPO = os.environ.get("VERIF_REPO", "/repo")
LEAN_DIR = os.path.join(VERIF, "lean")
HARNESS = os.path.join(VERIF, "harness")
BUILD = os.path.join(VERIF, "build")
OUT = os.path.join(VERIF, "out")
EVID = os.path.join(VERIF, "evidence")
ALLOWED_AXIOMS = {"propext", "Classical.choice", "Quot.sound"}
FORBIDDEN = re.compile(r"\bsorry\b|\badmit\b|^axiom |native_decide|bv_decide|implemented_by|\bunsafe |maxHeartbeats 0", re.M)


def log(*a):
    print(*a, file=sys.stderr, flush=True)


def run(cmd, cwd=None, env=None, input=None, timeout=None, check=False):
    e = dict(os.environ)
    e["CARGO_NET_OFFLINE"] = "true"
    if env:
        e.update(env)
    p = subprocess.run(cmd, cwd=cwd, env=e, input=input, capture_output=True, text=True, timeout=timeout)
    if check and p.returncode != 0:
        raise RuntimeError(f"command failed: {cmd}\n{p.stdout}\n{p.stderr}")
    return p


# ------------------------------------------------------------------------------------------------
# Lean side
# ------------------------------------------------------------------------------------------------

def strip_comments(src):
    # remove /- ... -/ (nested) and -- line comments
    out, i, depth = [], 0, 0
    while i < len(src):
        if src.startswith("/-", i):
            depth += 1; i += 2; continue
        if depth and src.startswith("-/", i):
            depth -= 1; i += 2; continue
        if depth:
            if src[i] == "\n": out.append("\n")
            i += 1; continue
        if src.startswith("--", i):
            j = src.find("\n", i)
            i = len(src) if j < 0 else j
            continue
        out.append(src[i]); i += 1
    return "".join(out)


def lean_import_closure(modules):
    seen, todo = set(), list(modules)
    while todo:
        m = todo.pop()
        if m in seen: continue
        path = os.path.join(LEAN_DIR, m.replace(".", "/") + ".lean")
        if not os.path.exists(path): continue
        seen.add(m)
        for line in open(path):
            mm = re.match(r"\s*(?:public\s+)?import\s+([\w.]+)", line)
            if mm and (mm.group(1).startswith("MmtkModel") or mm.group(1).startswith("Driver")):
                todo.append(mm.group(1))
    return sorted(seen)


def lean_check(modules, theorems, extra_targets=("mmtk_model",), fresh=False):
    """Build the property's modules, run hygiene grep and the axiom audit.
    Returns dict(ok, obligations, discharged, failures[], axioms{}, build_s)."""
    t0 = time.time()
    res = {"ok": True, "obligations": len(theorems), "discharged": 0, "failures": [], "axioms": {}}
    p = run(["lake", "build", *modules, *extra_targets], cwd=LEAN_DIR, timeout=3600)
    res["build_s"] = round(time.time() - t0, 1)
    if p.returncode != 0:
        res["ok"] = False
        errs = [l for l in (p.stdout + p.stderr).splitlines() if "error" in l]
        res["failures"].append({"kind": "lake-build", "detail": errs[:20]})
        # which theorems' modules failed is in the log; nothing counts as discharged
        return res
    closure = lean_import_closure(modules)
    for m in closure:
        path = os.path.join(LEAN_DIR, m.replace(".", "/") + ".lean")
        code = strip_comments(open(path).read())
        bad = FORBIDDEN.findall(code)
        if bad:
            res["ok"] = False
            res["failures"].append({"kind": "hygiene", "module": m, "hits": sorted(set(bad))})
    res["modules"] = closure
    # axiom audit
    audit = "\n".join([f"import {m}" for m in modules] + [f"#print axioms {t}" for t in theorems]) + "\n"
    os.makedirs(os.path.join(BUILD, "audit"), exist_ok=True)
    ap = os.path.join(BUILD, "audit", "Audit_" + hashlib.md5(audit.encode()).hexdigest()[:10] + ".lean")
    open(ap, "w").write(audit)
    p = run(["lake", "env", "lean", ap], cwd=LEAN_DIR, timeout=1800)
    text = p.stdout + p.stderr
    # parse: "'T' depends on axioms: [a, b]" or "'T' does not depend on any axioms"
    for t in theorems:
        m = re.search(r"'" + re.escape(t) + r"' (does not depend on any axioms|depends on axioms: \[([^\]]*)\])", text, re.S)
        if not m:
            res["ok"] = False
            res["failures"].append({"kind": "missing-theorem", "theorem": t})
            continue
        ax = [] if m.group(2) is None else [a.strip() for a in m.group(2).replace("\n", " ").split(",") if a.strip()]
        res["axioms"][t] = ax
        if set(ax) <= ALLOWED_AXIOMS:
            res["discharged"] += 1
        else:
            res["ok"] = False
            res["failures"].append({"kind": "axioms", "theorem": t, "axioms": ax})
    if fresh:
        for m in modules:
            p = run(["lake", "env", "leanchecker", m], cwd=LEAN_DIR, timeout=3600)
            if p.returncode != 0:
                res["ok"] = False
                res["failures"].append({"kind": "leanchecker", "module": m, "detail": (p.stdout + p.stderr)[-2000:]})
    res["lean_s"] = round(time.time() - t0, 1)
    return res


def model_exe():
    return os.path.join(LEAN_DIR, ".lake", "build", "bin", "mmtk_model")


# ------------------------------------------------------------------------------------------------
# Rust side
# ------------------------------------------------------------------------------------------------

def cargo_build(bin_name, fs="fs_main", release=False, extra_features=()):
    """Build a harness binary against /repo's current working tree (path dependency)."""
    tdir = os.path.join(BUILD, "cargo-" + "-".join([fs, *extra_features]))
    lock = os.path.join(HARNESS, "Cargo.lock")
    if not os.path.exists(lock):
        shutil.copy(os.path.join(REPO, "Cargo.lock"), lock)
    feats = ",".join([fs, *extra_features])
    cmd = ["cargo", "build", "--offline", "--bin", bin_name, "--no-default-features", "--features", feats]
    if release:
        cmd.append("--release")
    t0 = time.time()
    p = run(cmd, cwd=HARNESS, env={"CARGO_TARGET_DIR": tdir}, timeout=3600)
    if p.returncode != 0:
        return None, (p.stdout + p.stderr)[-6000:], round(time.time() - t0, 1)
    return os.path.join(tdir, "release" if release else "debug", bin_name), "", round(time.time() - t0, 1)


# ------------------------------------------------------------------------------------------------
# Correspondence
# ------------------------------------------------------------------------------------------------

def canon(line):
    """Canonicalise one output line: drop diagnostics after ' #'."""
    i = line.find(" #")
    return (line if i < 0 else line[:i]).rstrip()


def run_lines(exe, lines, timeout=600, env=None):
    """Feed lines to a line-protocol executable; return (outputs, returncode, stderr_tail)."""
    data = "\n".join(lines) + "\n"
    try:
        p = run([exe], input=data, timeout=timeout, env=env)
    except subprocess.TimeoutExpired:
        return [], -9, "timeout"
    outs = [canon(l) for l in p.stdout.splitlines()]
    return outs, p.returncode, p.stderr[-2000:]


class Case:
    """One case = a list of protocol lines (an input or an operation history). `pre` lines (cfg,
    reset) are not shrunk."""
    __slots__ = ("pre", "ops", "tag")

    def __init__(self, ops, pre=(), tag=""):
        self.pre, self.ops, self.tag = list(pre), list(ops), tag

    def lines(self):
        return self.pre + self.ops


def run_cases(exe, cases, timeout=600, env=None):
    """Run all cases in one process; returns per-case output lists, or None entries for cases the
    process did not survive (crash/abort): then the remainder is re-run case by case."""
    all_lines, spans = [], []
    for c in cases:
        ls = c.lines()
        spans.append((len(all_lines), len(all_lines) + len(ls)))
        all_lines += ls
    outs, rc, err = run_lines(exe, all_lines, timeout=timeout, env=env)

    def ops_only(c, o):
        # outputs of the `pre` (cfg/reset) lines must be "ok"; only the ops' outputs are compared
        k = len(c.pre)
        for x in o[:k]:
            if x != "ok":
                raise RuntimeError(f"{exe}: configuration line rejected: {c.pre} -> {o[:k]}")
        return o[k:]

    if rc == 0 and len(outs) == len(all_lines):
        return [ops_only(c, outs[a:b]) for (a, b), c in zip(spans, cases)]
    # the process died or lost sync: salvage complete cases, re-run the others one by one
    res = []
    for (a, b), c in zip(spans, cases):
        if b <= len(outs) and rc == 0:
            res.append(ops_only(c, outs[a:b]))
        else:
            o, rc1, err1 = run_lines(exe, c.lines(), timeout=min(timeout, 120), env=env)
            if rc1 != 0 or len(o) != len(c.lines()):
                o = o + [f"crash:rc={rc1}"] * (len(c.lines()) - len(o))
            res.append(ops_only(c, o))
    return res


def first_diff(a, b):
    for i, (x, y) in enumerate(zip(a, b)):
        if x != y:
            return i
    if len(a) != len(b):
        return min(len(a), len(b))
    return None


def shrink_case(case, still_fails, budget=200):
    """Delta-debugging over the op lines of a case (the `pre` lines stay)."""
    ops = list(case.ops)
    n = 2
    calls = 0
    while len(ops) >= 2 and calls < budget:
        chunk = max(1, len(ops) // n)
        reduced = False
        for i in range(0, len(ops), chunk):
            cand = ops[:i] + ops[i + chunk:]
            if not cand:
                continue
            calls += 1
            if still_fails(Case(cand, case.pre, case.tag)):
                ops = cand
                n = max(n - 1, 2)
                reduced = True
                break
            if calls >= budget:
                break
        if not reduced:
            if chunk == 1:
                break
            n = min(len(ops), n * 2)
    return Case(ops, case.pre, case.tag)


# ------------------------------------------------------------------------------------------------
# Known findings, replay files, evidence
# ------------------------------------------------------------------------------------------------

def load_known(pid):
    path = os.path.join(VERIF, "known_findings.json")
    if not os.path.exists(path):
        return []
    data = json.load(open(path))
    return [f for f in data.get("findings", []) if f.get("property") == pid and f.get("kind") == "finding"]


_replay_n = [0]


def write_replay(pid, seed, payload):
    os.makedirs(os.path.join(OUT, "replay"), exist_ok=True)
    _replay_n[0] += 1
    path = os.path.join(OUT, "replay", f"{pid}-seed{seed}-{int(time.time())}-{_replay_n[0]}.json")
    json.dump(payload, open(path, "w"), indent=1)
    return path


LEVELS = ("exploration", "fault_enumeration", "model_checking", "proof", "translation_validation", "other")


def write_evidence(pid, tier, seed, level, coverage, assumptions, wall_s, violations):
    os.makedirs(EVID, exist_ok=True)
    if level not in LEVELS:
        # the schema's `level` is an enum; a check's finer description ("proof of the model, partial w.r.t.
        # the code …") is kept inside coverage
        coverage = dict(coverage, level_detail=level)
        level = "proof"
    ev = {"property_id": pid, "tier": tier, "seed": seed, "level": level, "coverage": coverage,
          "assumptions": assumptions, "wall_s": round(wall_s, 2), "violations": violations}
    json.dump(ev, open(os.path.join(EVID, f"{pid}.json"), "w"), indent=1)
    return ev


class Violation:
    def __init__(self, key, what, case=None, impl=None, model=None, found_input=True, broken=None):
        self.key, self.what, self.case, self.impl, self.model = key, what, case, impl, model
        self.found_input, self.broken = found_input, broken


def finish(pid, tier, seed, t0, lean, corr, violations, level="proof", assumptions=(), extra_cov=None,
           checker_cmd=None, trusted=()):
    """Common tail of every check: known-findings filtering, VIOLATION lines, evidence, exit code."""
    known = load_known(pid)
    known_keys = {k["key"]: k for k in known}
    reported, known_hit = [], {}
    for v in violations:
        if v.key in known_keys:
            known_hit.setdefault(v.key, v)
        else:
            reported.append(v)
    for k, v in known_hit.items():
        print(f"KNOWN-FINDING: property={pid} {known_keys[k]['what']} [key={k}]")
    cov = {
        "obligations": lean.get("obligations", 0),
        "discharged": lean.get("discharged", 0),
        "checker_cmd": checker_cmd or f"cd {LEAN_DIR} && lake build {' '.join(lean.get('targets', []))} && lake env lean <audit: #print axioms>",
        "trusted_base": list(trusted) or [
            "Lean 4.33.0 kernel", "axioms ⊆ {propext, Classical.choice, Quot.sound} (audited per theorem this run)",
            "hand-written Lean model tied to the code by the differential run recorded below (sampling)",
            "hx_unit harness + mmtk_verif hook wrappers (transparent re-exports)"],
        "theorems": lean.get("axioms", {}),
        "lean_failures": lean.get("failures", []),
    }
    cov.update(corr or {})
    if extra_cov:
        cov.update(extra_cov)
    rc = 0
    seen_lines = set()
    for v in reported:
        payload = {"property": pid, "key": v.key, "what": v.what, "seed": seed, "tier": tier,
                   "case": v.case.lines() if isinstance(v.case, Case) else v.case,
                   "impl_output": v.impl, "model_output": v.model,
                   "no_longer_checks": v.broken, "concrete_failing_input": v.found_input,
                   "replay": f"./check {pid} --replay <this file>"}
        path = write_replay(pid, seed, payload)
        line = f"VIOLATION property={pid} replay={path}" + ("" if v.found_input else " no-failing-input-found")
        if (v.key, v.found_input) in seen_lines:
            continue
        seen_lines.add((v.key, v.found_input))
        print(line)
        log(f"  -> {v.key}: {v.what}")
        rc = 1
    write_evidence(pid, tier, seed, level, cov, list(assumptions), time.time() - t0, len(reported))
    print(f"{pid}: {'FAIL' if rc else 'ok'} tier={tier} seed={seed} obligations={cov['obligations']} discharged={cov['discharged']} "
          f"evaluations={cov.get('evaluations', 0)} known_findings={len(known_hit)} wall={time.time() - t0:.1f}s")
    return rc
