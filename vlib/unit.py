"""Generic check for properties decided by: Lean theorems about a hand-written model + exact
differential of that model against the real code through `hx_unit` / `mmtk_model`."""
import json, os, random, sys, time
from . import engine as E
from .engine import Case, Violation


class UnitSpec:
    pid = "C00"
    modules = []          # Lean modules holding the property theorems
    theorems = []         # fully qualified property theorem names (the proof obligations)
    fs = "fs_main"        # harness feature set
    component = ""        # name used in messages ("arith", ...)
    relation = ""         # name of the correspondence relation (goes into replay files)
    assumptions = []
    bin = "hx_unit"
    release_in_thorough = True

    def pre(self, debug):
        return [f"cfg debug {1 if debug else 0}"]

    def gen(self, rng, tier, debug):
        """Return a list of Case."""
        raise NotImplementedError

    def corpus(self, debug):
        """Minimised past failures / boundary cases that always run first."""
        return []

    def oracle(self, case, impl_out):
        """The property's own executable statement evaluated on the implementation's observed
        behaviour. Return a list of (key, what) for each way the property fails on this case."""
        return []

    def nontrivial(self, case, out):
        """Did this case reach a non-default branch (used for distinct_nontrivial)?"""
        return True

    def summarize(self, cases, outs):
        """Input distribution for the evidence file."""
        return {}


def _diff_cases(cases, impl, model):
    bad = []
    for i, (c, a, b) in enumerate(zip(cases, impl, model)):
        d = E.first_diff(a, b)
        if d is not None:
            bad.append((i, d))
    return bad


def run_profile(spec, tier, seed, debug, lean_ok, violations, stats):
    exe, err, bs = E.cargo_build(spec.bin, fs=spec.fs, release=not debug)
    stats.setdefault("build_s", []).append(bs)
    if exe is None:
        violations.append(Violation("harness-build-failed", "the harness no longer builds against /repo: " + err[-1500:],
                                    found_input=False, broken="harness build (hooks/API changed)"))
        return
    rng = random.Random((seed << 1) | (1 if debug else 0))
    cases = spec.corpus(debug) + spec.gen(rng, tier, debug)
    for c in cases:
        # cases without their own preamble get the profile's; a case object reused from the other profile's run
        # (module-level corpus lists) carries that profile's preamble and is re-stamped
        if not c.pre or c.pre == spec.pre(not debug):
            c.pre = spec.pre(debug)
    impl = E.run_cases(exe, cases, timeout=1800)
    model = E.run_cases(E.model_exe(), cases, timeout=1800)
    stats["evaluations"] = stats.get("evaluations", 0) + len(cases)
    stats["op_lines"] = stats.get("op_lines", 0) + sum(len(c.ops) for c in cases)
    seen = stats.setdefault("_distinct", set())
    for c, o in zip(cases, impl):
        if spec.nontrivial(c, o):
            seen.add((tuple(c.ops), tuple(o)))
    if "samples" not in stats:
        stats["samples"] = [{"case": c.ops[:12], "impl": o[:12], "model": m[:12]}
                            for c, o, m in list(zip(cases, impl, model))[len(spec.corpus(debug)):][:3]]
    summ = spec.summarize(cases, impl)
    for k, v in summ.items():
        if isinstance(v, dict):
            d = stats.setdefault("distribution", {}).setdefault(k, {})
            for kk, vv in v.items():
                d[kk] = d.get(kk, 0) + vv
        else:
            stats.setdefault("distribution", {})[k] = v
    # 1. the property's own statement on the implementation's behaviour (independent of the model)
    okeys = set()
    for c, o in zip(cases, impl):
        for key, what in spec.oracle(c, o):
            if key in okeys:
                continue
            okeys.add(key)
            small = c
            if len(c.ops) > 1:
                def still(cc, key=key):
                    oo = E.run_cases(exe, [cc], timeout=120)[0]
                    return any(k == key for k, _ in spec.oracle(cc, oo))
                small = E.shrink_case(c, still)
            so = E.run_cases(exe, [small], timeout=120)[0]
            sm = E.run_cases(E.model_exe(), [small], timeout=120)[0]
            violations.append(Violation(key, what + f" [profile={'debug' if debug else 'release'}]", small, so, sm, True))
    # 2. correspondence model vs implementation
    bad = _diff_cases(cases, impl, model)
    stats["disagreements"] = stats.get("disagreements", 0) + len(bad)
    reported = 0
    for i, d in bad:
        if reported >= 3:
            break
        c = cases[i]
        # already explained by an oracle-detected violation on this very case?
        if spec.oracle(c, impl[i]):
            continue
        # a disagreement of the bulk run that does not reproduce when the case is re-run on its own (three times) is a
        # truncated / timed-out bulk run on a loaded machine, not a property of the code: counted, not reported
        if all(E.first_diff(E.run_cases(exe, [c], timeout=300)[0], E.run_cases(E.model_exe(), [c], timeout=300)[0]) is None
               for _ in range(3)):
            stats["transient_disagreements_not_reproduced"] = stats.get("transient_disagreements_not_reproduced", 0) + 1
            continue
        def still(cc):
            a = E.run_cases(exe, [cc], timeout=120)[0]
            b = E.run_cases(E.model_exe(), [cc], timeout=120)[0]
            return E.first_diff(a, b) is not None and not spec.oracle(cc, a)
        small = E.shrink_case(c, still) if len(c.ops) > 1 else c
        so = E.run_cases(exe, [small], timeout=120)[0]
        sm = E.run_cases(E.model_exe(), [small], timeout=120)[0]
        # search: the shrunk case and a neighbourhood of it
        found = None
        for cc in [small] + spec_neighbours(spec, small, rng):
            oo = E.run_cases(exe, [cc], timeout=120)[0]
            orc = spec.oracle(cc, oo)
            if orc:
                found = (cc, oo, orc[0])
                break
        if found:
            cc, oo, (key, what) = found
            if key not in okeys:
                okeys.add(key)
                violations.append(Violation(key, what, cc, oo, E.run_cases(E.model_exe(), [cc])[0], True))
        else:
            dd = E.first_diff(so, sm)
            violations.append(Violation(
                f"correspondence:{spec.component}:{' '.join((small.ops[dd] if dd is not None and dd < len(small.ops) else '?').split(' ')[:3])}",
                f"model and implementation disagree on `{small.ops[dd] if dd is not None and dd < len(small.ops) else '?'}`: impl={so[dd] if dd is not None and dd < len(so) else '?'} model={sm[dd] if dd is not None and dd < len(sm) else '?'}; the property's statement holds on every input tried",
                small, so, sm, False, broken=f"correspondence {spec.relation or spec.component} (Lean model ≠ implementation)"))
        reported += 1


def spec_neighbours(spec, case, rng):
    f = getattr(spec, "neighbours", None)
    return f(case, rng) if f else []


def main(spec, argv=None):
    import argparse
    ap = argparse.ArgumentParser()
    ap.add_argument("--tier", default=os.environ.get("VERIF_TIER", "quick"))
    ap.add_argument("--seed", type=int, default=int(os.environ.get("VERIF_SEED", "20260921")))
    ap.add_argument("--replay")
    a = ap.parse_args(argv)
    t0 = time.time()
    if a.replay:
        return replay(spec, a.replay)
    violations, stats = [], {}
    lean = E.lean_check(spec.modules, spec.theorems, fresh=(a.tier == "thorough"))
    lean["targets"] = spec.modules
    if not lean["ok"] and any(f["kind"] == "lake-build" for f in lean["failures"]):
        # the model driver may not exist; nothing can be compared
        pass
    run_profile(spec, a.tier, a.seed, True, lean["ok"], violations, stats)
    if a.tier == "thorough" and spec.release_in_thorough:
        run_profile(spec, a.tier, a.seed, False, lean["ok"], violations, stats)
    if getattr(spec, "extra_part", None) and not any(v.key == "harness-build-failed" for v in violations):
        spec.extra_part(a.tier, a.seed, violations, stats)
    if not lean["ok"]:
        names = [f.get("theorem") or f.get("module") or f["kind"] for f in lean["failures"]]
        if not any(v.found_input for v in violations):
            violations.append(Violation("proof-broken", f"Lean obligations no longer check: {lean['failures']}",
                                        None, None, None, False, broken=f"theorems/modules: {names}"))
    distinct = len(stats.pop("_distinct", set()))
    corr = {
        "evaluations": stats.get("evaluations", 0),
        "distinct_nontrivial": distinct,
        "rule": getattr(spec, "rule", "seeded structured generation; a case is non-trivial if it reaches a non-default branch; distinct = distinct (input, output) pairs"),
        "samples": stats.get("samples", []),
        "traces_validated_against_impl": stats.get("evaluations", 0),
        "disagreements_checked": stats.get("disagreements", 0),
        "transient_disagreements_not_reproduced": stats.get("transient_disagreements_not_reproduced", 0),
        "op_lines": stats.get("op_lines", 0),
        "distribution": stats.get("distribution", {}),
        "harness_build_s": stats.get("build_s"),
        "lean_s": lean.get("lean_s"),
    }
    return E.finish(spec.pid, a.tier, a.seed, t0, lean, corr, violations, assumptions=spec.assumptions)


def replay(spec, path):
    data = json.load(open(path))
    lines = data["case"]
    debug = not any(l.strip() == "cfg debug 0" for l in lines)
    pre = [l for l in lines if l.startswith("cfg ")]
    lines = [l for l in lines if not l.startswith("cfg ")]
    exe, err, _ = E.cargo_build(spec.bin, fs=spec.fs, release=not debug)
    E.run(["lake", "build", "mmtk_model"], cwd=E.LEAN_DIR)
    c = Case(lines, pre)
    so = E.run_cases(exe, [c])[0]
    sm = E.run_cases(E.model_exe(), [c])[0]
    print("case:")
    for l, x, y in zip(lines, so, sm):
        print(f"  {l}\n     impl : {x}\n     model: {y}{'   <-- differ' if x != y else ''}")
    orc = spec.oracle(c, so)
    for k, w in orc:
        print(f"property statement fails on the implementation: {k}: {w}")
    bad = bool(orc) or E.first_diff(so, sm) is not None
    print("REPLAY:", "violation reproduced" if bad else "no longer reproduces")
    return 1 if bad else 0
