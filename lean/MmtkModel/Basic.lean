def hello := "world"
