/-! GENERATED on every run of `./check C34` by gen/emit_immixconsts.py from `hx_consts immix`
(the linked mmtk-core). Do not edit. -/
namespace Mmtk.Immix.Consts

/-- `Line::LOG_BYTES` -/
def lineLogBytes : Nat := 8
/-- `Block::LOG_BYTES` -/
def blockLogBytes : Nat := 15
/-- `Block::LINES` -/
def blockLines : Nat := 128
/-- `Block::PAGES` -/
def blockPages : Nat := 8
/-- `Line::RESET_MARK_STATE` -/
def resetMarkState : Nat := 1
/-- `Line::MAX_MARK_STATE` -/
def maxMarkState : Nat := 127
/-- `u8::from(BlockState::Unallocated)` -/
def markUnallocated : Nat := 0
/-- `u8::from(BlockState::Unmarked)` -/
def markUnmarked : Nat := 255
/-- `u8::from(BlockState::Marked)` -/
def markMarked : Nat := 254
/-- `policy::immix::BLOCK_ONLY` -/
def blockOnly : Bool := false
/-- `policy::immix::MAX_IMMIX_OBJECT_SIZE` -/
def maxObjectSize : Nat := 16384

end Mmtk.Immix.Consts
