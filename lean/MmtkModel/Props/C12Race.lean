import MmtkModel.Model.SATBRace
/-!
# C12 (strengthened) — racing SATB barriers record the snapshot

For **every interleaving** of **any number** of mutators storing into the fields of one object
(unlog-bit test, each field read of the slow path, the unlog-bit store and the mutator's store are
separate atomic steps; `Model/SATBRace.lean`), in the order the code has them
(`object_probable_write_slow` then `log_object`):

* `racing_barriers_record_snapshot` — a field whose snapshot value has been overwritten has that
  value (if non-null) in some mutator's SATB buffer;
* `logged_implies_recorded` — once the object is logged, EVERY non-null snapshot referent is in some
  SATB buffer (the marker may then ignore the object's current fields);
* `quiescent_logged` — when all mutators are idle and at least one store was made, the object is logged;
* `recorded_was_field_value`, `field_value_origin` — nothing is recorded that never was a field value,
  null is never recorded, a field holds its snapshot value or a value stored into it;
* `outcome_sound` — the executable verdict `judge` (run by `mmtk_model satb judge` on the outcomes of
  the real-thread races) accepts every quiescent outcome of the model;
* `clear_first_loses_snapshot` — with the two halves swapped (`Order.logThenScan`) a 9-step schedule of
  two mutators loses the snapshot referent, and `judge` rejects that outcome.

The interplay with the marker's own scan of the object is `Mmtk.SATB.satb_invariant` /
`satb_complete` (Props/C12.lean), whose barrier is the same sequence of steps.
-/
namespace Mmtk.SATBRace

/-! ## list helpers (core only) -/

theorem getD_set (l : List Nat) (f j v : Nat) :
    (l.set f v).getD j 0 = if j = f ∧ f < l.length then v else l.getD j 0 := by
  induction l generalizing f j with
  | nil => simp
  | cons a rest ih =>
    cases f with
    | zero =>
      cases j with
      | zero => simp
      | succ j => simp
    | succ f =>
      cases j with
      | zero => simp
      | succ j =>
        simp only [List.set_cons_succ, List.getD_cons_succ, ih, List.length_cons, Nat.add_lt_add_iff_right,
          Nat.add_right_cancel_iff]

theorem getD_mem (l : List Nat) (j : Nat) (h : j < l.length) : l.getD j 0 ∈ l := by
  induction l generalizing j with
  | nil => cases h
  | cons a rest ih =>
    cases j with
    | zero => simp
    | succ j =>
      simp only [List.getD_cons_succ, List.mem_cons]
      exact Or.inr (ih j (by simpa using h))

/-! ## the invariant -/

/-- `v` is null or sits in some SATB buffer. -/
def cov (sh : Shared) (v : Nat) : Prop := v = 0 ∨ v ∈ sh.recd

structure G (snap : List Nat) (sh : Shared) : Prop where
  len : sh.fld.length = snap.length
  cur : ∀ j, j < snap.length → sh.fld.getD j 0 = snap.getD j 0 ∨ cov sh (snap.getD j 0)
  logged : sh.unlog = false → ∀ j, j < snap.length → cov sh (snap.getD j 0)
  recBuf : ∀ v, v ∈ sh.recd ↔ ∃ t, v ∈ sh.buf t
  nz : ∀ v, v ∈ sh.recd → v ≠ 0
  origin : ∀ v, v ∈ sh.recd → v ∈ snap ∨ ∃ f, (f, v) ∈ sh.started
  fldOrigin : ∀ j, j < snap.length → sh.fld.getD j 0 = snap.getD j 0 ∨ (j, sh.fld.getD j 0) ∈ sh.started

/-- What a mutator at `p` knows (order `scanThenLog`). -/
def L (snap : List Nat) (sh : Shared) : PC → Prop
  | .idle => True
  | .check f v => (f, v) ∈ sh.started
  | .scan f v j => (f, v) ∈ sh.started ∧ ∀ j', j' < j → j' < snap.length → cov sh (snap.getD j' 0)
  | .log f v => (f, v) ∈ sh.started ∧ ∀ j', j' < snap.length → cov sh (snap.getD j' 0)
  | .store f v => (f, v) ∈ sh.started ∧ ∀ j', j' < snap.length → cov sh (snap.getD j' 0)
  | .pscan _ => True

/-- inside the barrier, before the store -/
def mid : PC → Prop
  | .check _ _ => True
  | .scan _ _ _ => True
  | .log _ _ => True
  | _ => False

structure Inv (snap : List Nat) (s : State) : Prop where
  g : G snap s.sh
  l : ∀ t, L snap s.sh (s.pc t)
  pend : s.sh.unlog = true → s.sh.started ≠ [] → ∃ t, mid (s.pc t)

/-- Everything the global argument needs to know about one local step. -/
structure Cert (snap : List Nat) (sh : Shared) (p : PC) (sh' : Shared) (p' : PC) : Prop where
  g : G snap sh'
  l : L snap sh' p'
  recMono : ∀ v, v ∈ sh.recd → v ∈ sh'.recd
  stMono : ∀ x, x ∈ sh.started → x ∈ sh'.started
  unl : sh'.unlog = true → sh.unlog = true
  midKeep : mid p → sh'.unlog = true → mid p'
  stNew : sh'.started = sh.started ∨ mid p'

theorem cov_mono {sh sh' : Shared} (h : ∀ v, v ∈ sh.recd → v ∈ sh'.recd) {v : Nat} (c : cov sh v) : cov sh' v := by
  rcases c with c | c
  · exact Or.inl c
  · exact Or.inr (h v c)

theorem cert_same (snap : List Nat) (sh : Shared) (p p' : PC) (hg : G snap sh) (hl : L snap sh p')
    (hm : mid p → mid p') : Cert snap sh p sh p' :=
  ⟨hg, hl, fun _ h => h, fun _ h => h, fun h => h, fun h _ => hm h, Or.inl rfl⟩

theorem push_recd (sh : Shared) (t v w : Nat) (h : w ∈ sh.recd) : w ∈ (push sh t v).recd := by
  unfold push
  split
  · exact h
  · exact List.mem_append_left _ h

theorem push_fld (sh : Shared) (t v : Nat) : (push sh t v).fld = sh.fld := by
  unfold push; split <;> rfl

theorem push_unlog (sh : Shared) (t v : Nat) : (push sh t v).unlog = sh.unlog := by
  unfold push; split <;> rfl

theorem push_started (sh : Shared) (t v : Nat) : (push sh t v).started = sh.started := by
  unfold push; split <;> rfl

theorem push_cov (sh : Shared) (t v : Nat) : cov (push sh t v) v := by
  unfold push
  split
  · next h => exact Or.inl h
  · exact Or.inr (List.mem_append_right _ (List.mem_singleton.mpr rfl))

/-- `G` after a field read + push (the value pushed is the current value of field `j`). -/
theorem G_push (snap : List Nat) (sh : Shared) (t j : Nat) (hg : G snap sh) (hj : j < sh.fld.length) :
    G snap (push sh t (sh.fld.getD j 0)) := by
  have hj' : j < snap.length := by rw [← hg.len]; exact hj
  have mono : ∀ w, w ∈ sh.recd → w ∈ (push sh t (sh.fld.getD j 0)).recd := fun w h => push_recd sh t _ w h
  refine ⟨by rw [push_fld]; exact hg.len, ?_, ?_, ?_, ?_, ?_, ?_⟩
  · intro k hk
    rw [push_fld]
    rcases hg.cur k hk with h | h
    · exact Or.inl h
    · exact Or.inr (cov_mono mono h)
  · intro hu k hk
    rw [push_unlog] at hu
    exact cov_mono mono (hg.logged hu k hk)
  · intro w
    unfold push
    split
    · exact hg.recBuf w
    · next hv =>
      simp only [List.mem_append, List.mem_singleton]
      constructor
      · rintro (h | h)
        · obtain ⟨t', ht'⟩ := (hg.recBuf w).mp h
          refine ⟨t', ?_⟩
          by_cases e : t' = t
          · simp only [e, if_true, List.mem_append]; left; rw [← e]; exact ht'
          · simp only [e, if_false]; exact ht'
        · exact ⟨t, by simp [h]⟩
      · rintro ⟨t', ht'⟩
        by_cases e : t' = t
        · simp only [e, if_true, List.mem_append, List.mem_singleton] at ht'
          rcases ht' with h | h
          · exact Or.inl ((hg.recBuf w).mpr ⟨t, h⟩)
          · exact Or.inr h
        · simp only [e, if_false] at ht'
          exact Or.inl ((hg.recBuf w).mpr ⟨t', ht'⟩)
  · intro w
    unfold push
    split
    · exact hg.nz w
    · next hv =>
      simp only [List.mem_append, List.mem_singleton]
      rintro (h | h)
      · exact hg.nz w h
      · rw [h]; exact hv
  · intro w
    rw [push_started]
    unfold push
    split
    · exact hg.origin w
    · next hv =>
      simp only [List.mem_append, List.mem_singleton]
      rintro (h | h)
      · exact hg.origin w h
      · rw [h]
        rcases hg.fldOrigin j hj' with e | e
        · left; rw [e]; exact getD_mem snap j hj'
        · right; exact ⟨j, e⟩
  · intro k hk
    rw [push_fld, push_started]
    exact hg.fldOrigin k hk

/-- after reading field `j` the snapshot value of field `j` is covered -/
theorem read_covers (snap : List Nat) (sh : Shared) (t j : Nat) (hg : G snap sh) (hj : j < snap.length) :
    cov (push sh t (sh.fld.getD j 0)) (snap.getD j 0) := by
  rcases hg.cur j hj with h | h
  · rw [← h]; exact push_cov sh t _
  · exact cov_mono (fun w hw => push_recd sh t _ w hw) h

theorem local_cert (snap : List Nat) (t : Nat) (a : Act) (sh : Shared) (p : PC) (hg : G snap sh) (hl : L snap sh p) :
    Cert snap sh p (localStep .scanThenLog t a sh p).1 (localStep .scanThenLog t a sh p).2 := by
  cases p with
  | idle =>
    cases a with
    | write f v =>
      simp only [localStep]
      refine ⟨⟨hg.len, hg.cur, hg.logged, hg.recBuf, hg.nz, ?_, ?_⟩, ?_, fun _ h => h, ?_, fun h => h, fun h => absurd h (by simp [mid]),
        Or.inr trivial⟩
      · intro w hw
        rcases hg.origin w hw with h | ⟨f', h⟩
        · exact Or.inl h
        · exact Or.inr ⟨f', List.mem_append_left _ h⟩
      · intro k hk
        rcases hg.fldOrigin k hk with h | h
        · exact Or.inl h
        · exact Or.inr (List.mem_append_left _ h)
      · show (f, v) ∈ sh.started ++ [(f, v)]
        exact List.mem_append_right _ (List.mem_singleton.mpr rfl)
      · intro x hx
        exact List.mem_append_left _ hx
    | probable => exact cert_same snap sh _ _ hg trivial (fun h => absurd h (by simp [mid]))
    | step => exact cert_same snap sh _ _ hg trivial (fun h => h)
  | check f v =>
    cases a with
    | step =>
      simp only [localStep]
      cases hu : sh.unlog with
      | true =>
        simp only [if_true, afterCheck]
        exact cert_same snap sh _ _ hg ⟨hl, fun j' h _ => absurd h (Nat.not_lt_zero j')⟩ (fun _ => trivial)
      | false =>
        simp only [Bool.false_eq_true, if_false]
        refine ⟨hg, ⟨hl, fun j' hj' => hg.logged hu j' hj'⟩, fun _ h => h, fun _ h => h, fun h => h, ?_, Or.inl rfl⟩
        intro _ h; rw [hu] at h; cases h
    | write _ _ => exact cert_same snap sh _ _ hg hl (fun h => h)
    | probable => exact cert_same snap sh _ _ hg hl (fun h => h)
  | scan f v j =>
    cases a with
    | step =>
      simp only [localStep]
      split
      · next hj =>
        have hj' : j < snap.length := by rw [← hg.len]; exact hj
        have mono : ∀ w, w ∈ sh.recd → w ∈ (push sh t (sh.fld.getD j 0)).recd := fun w h => push_recd sh t _ w h
        refine ⟨G_push snap sh t j hg hj, ⟨?_, ?_⟩, mono, ?_, ?_, fun _ _ => trivial, Or.inl (push_started sh t _)⟩
        · rw [push_started]; exact hl.1
        · intro j' h1 h2
          by_cases e : j' = j
          · rw [e]; exact read_covers snap sh t j hg hj'
          · exact cov_mono mono (hl.2 j' (by omega) h2)
        · intro x hx; rw [push_started]; exact hx
        · intro h; rw [push_unlog] at h; exact h
      · next hj =>
        simp only [afterScan]
        have hn : snap.length ≤ j := by rw [← hg.len]; omega
        exact cert_same snap sh _ _ hg ⟨hl.1, fun j' h => hl.2 j' (by omega) h⟩ (fun _ => trivial)
    | write _ _ => exact cert_same snap sh _ _ hg hl (fun h => h)
    | probable => exact cert_same snap sh _ _ hg hl (fun h => h)
  | log f v =>
    cases a with
    | step =>
      simp only [localStep, afterLog]
      refine ⟨⟨hg.len, hg.cur, fun _ => hl.2, hg.recBuf, hg.nz, hg.origin, hg.fldOrigin⟩, hl, fun _ h => h, fun _ h => h,
        (fun h => by cases h), (fun _ h => by cases h), Or.inl rfl⟩
    | write _ _ => exact cert_same snap sh _ _ hg hl (fun h => h)
    | probable => exact cert_same snap sh _ _ hg hl (fun h => h)
  | store f v =>
    cases a with
    | step =>
      simp only [localStep]
      refine ⟨⟨?_, ?_, hg.logged, hg.recBuf, hg.nz, hg.origin, ?_⟩, trivial, fun _ h => h, fun _ h => h, fun h => h,
        fun h => absurd h (by simp [mid]), Or.inl rfl⟩
      · show (sh.fld.set f v).length = snap.length
        rw [List.length_set]; exact hg.len
      · intro k hk
        show (sh.fld.set f v).getD k 0 = snap.getD k 0 ∨ cov _ (snap.getD k 0)
        rw [getD_set]
        split
        · exact Or.inr (hl.2 k hk)
        · exact hg.cur k hk
      · intro k hk
        show (sh.fld.set f v).getD k 0 = snap.getD k 0 ∨ (k, (sh.fld.set f v).getD k 0) ∈ sh.started
        rw [getD_set]
        split
        · next h => right; rw [h.1]; exact hl.1
        · exact hg.fldOrigin k hk
    | write _ _ => exact cert_same snap sh _ _ hg hl (fun h => h)
    | probable => exact cert_same snap sh _ _ hg hl (fun h => h)
  | pscan j =>
    cases a with
    | step =>
      simp only [localStep]
      split
      · next hj =>
        refine ⟨G_push snap sh t j hg hj, trivial, fun w h => push_recd sh t _ w h, ?_, ?_, fun h => absurd h (by simp [mid]),
          Or.inl (push_started sh t _)⟩
        · intro x hx; rw [push_started]; exact hx
        · intro h; rw [push_unlog] at h; exact h
      · exact cert_same snap sh _ _ hg trivial (fun h => absurd h (by simp [mid]))
    | write _ _ => exact cert_same snap sh _ _ hg hl (fun h => h)
    | probable => exact cert_same snap sh _ _ hg hl (fun h => h)

theorem L_stable (snap : List Nat) (sh sh' : Shared) (q : PC) (rm : ∀ v, v ∈ sh.recd → v ∈ sh'.recd)
    (sm : ∀ x, x ∈ sh.started → x ∈ sh'.started) (hq : L snap sh q) : L snap sh' q := by
  cases q with
  | idle => trivial
  | check f v => exact sm _ hq
  | scan f v j => exact ⟨sm _ hq.1, fun j' h1 h2 => cov_mono rm (hq.2 j' h1 h2)⟩
  | log f v => exact ⟨sm _ hq.1, fun j' h1 => cov_mono rm (hq.2 j' h1)⟩
  | store f v => exact ⟨sm _ hq.1, fun j' h1 => cov_mono rm (hq.2 j' h1)⟩
  | pscan j => trivial

theorem step_inv (snap : List Nat) (s : State) (t : Nat) (a : Act) (h : Inv snap s) :
    Inv snap (step .scanThenLog s t a) := by
  obtain ⟨hg, hl, hp⟩ := h
  have c := local_cert snap t a s.sh (s.pc t) hg (hl t)
  refine ⟨c.g, ?_, ?_⟩
  · intro x
    simp only [step]
    by_cases hx : x = t
    · simp only [hx, if_true]; exact c.l
    · simp only [hx, if_false]
      exact L_stable snap s.sh _ (s.pc x) c.recMono c.stMono (hl x)
  · intro hu hs
    simp only [step] at hu hs ⊢
    rcases c.stNew with e | e
    · rw [e] at hs
      obtain ⟨t0, ht0⟩ := hp (c.unl hu) hs
      by_cases h0 : t0 = t
      · refine ⟨t, ?_⟩
        simp only [if_true]
        rw [h0] at ht0
        exact c.midKeep ht0 hu
      · refine ⟨t0, ?_⟩
        simp only [h0, if_false]
        exact ht0
    · exact ⟨t, by simp only [if_true]; exact e⟩

theorem init_inv (snap : List Nat) : Inv snap (init snap) := by
  refine ⟨⟨rfl, fun _ _ => Or.inl rfl, ?_, ?_, ?_, ?_, fun _ _ => Or.inl rfl⟩, fun _ => trivial, ?_⟩
  · intro h; simp [init] at h
  · intro v; simp [init]
  · intro v h; simp [init] at h
  · intro v h; simp [init] at h
  · intro _ h; simp [init] at h

theorem exec_inv (snap : List Nat) (s : State) (run : List (Nat × Act)) (h : Inv snap s) :
    Inv snap (exec .scanThenLog s run) := by
  induction run generalizing s with
  | nil => exact h
  | cons a rest ih => obtain ⟨t, a⟩ := a; exact ih _ (step_inv snap s t a h)

/-! ## The property theorems -/

/-- **C12 / racing barriers.** For every interleaving of any number of mutators storing into one
object whose unlog bit was set when marking started: a field whose snapshot value has been
overwritten has that value — unless it was null — in some mutator's SATB buffer. -/
theorem racing_barriers_record_snapshot (snap : List Nat) (run : List (Nat × Act)) (j : Nat) (hj : j < snap.length)
    (hover : (exec .scanThenLog (init snap) run).sh.fld.getD j 0 ≠ snap.getD j 0) :
    snap.getD j 0 = 0 ∨ ∃ t, snap.getD j 0 ∈ (exec .scanThenLog (init snap) run).sh.buf t := by
  have inv := exec_inv snap _ run (init_inv snap)
  rcases inv.g.cur j hj with h | h
  · exact absurd h hover
  · rcases h with h | h
    · exact Or.inl h
    · exact Or.inr ((inv.g.recBuf _).mp h)

/-- Once the object is logged (unlog bit cleared by any mutator) every non-null snapshot referent is in
some SATB buffer — whether or not its field has been overwritten yet. -/
theorem logged_implies_recorded (snap : List Nat) (run : List (Nat × Act))
    (hlog : (exec .scanThenLog (init snap) run).sh.unlog = false) (j : Nat) (hj : j < snap.length) :
    snap.getD j 0 = 0 ∨ ∃ t, snap.getD j 0 ∈ (exec .scanThenLog (init snap) run).sh.buf t := by
  have inv := exec_inv snap _ run (init_inv snap)
  rcases inv.g.logged hlog j hj with h | h
  · exact Or.inl h
  · exact Or.inr ((inv.g.recBuf _).mp h)

/-- When every mutator is idle again and at least one store was made, the object is logged. -/
theorem quiescent_logged (snap : List Nat) (run : List (Nat × Act))
    (hq : ∀ t, (exec .scanThenLog (init snap) run).pc t = .idle)
    (hw : (exec .scanThenLog (init snap) run).sh.started ≠ []) :
    (exec .scanThenLog (init snap) run).sh.unlog = false := by
  have inv := exec_inv snap _ run (init_inv snap)
  cases hu : (exec .scanThenLog (init snap) run).sh.unlog with
  | false => rfl
  | true =>
    obtain ⟨t, ht⟩ := inv.pend hu hw
    rw [hq t] at ht
    exact absurd ht (by simp [mid])

/-- Nothing is recorded that never was a field value, and null is never recorded. -/
theorem recorded_was_field_value (snap : List Nat) (run : List (Nat × Act)) (t v : Nat)
    (hv : v ∈ (exec .scanThenLog (init snap) run).sh.buf t) :
    v ≠ 0 ∧ (v ∈ snap ∨ ∃ f, (f, v) ∈ (exec .scanThenLog (init snap) run).sh.started) := by
  have inv := exec_inv snap _ run (init_inv snap)
  have h := (inv.g.recBuf v).mpr ⟨t, hv⟩
  exact ⟨inv.g.nz v h, inv.g.origin v h⟩

/-- A field holds its snapshot value or a value some mutator stored into it; the object keeps its shape. -/
theorem field_value_origin (snap : List Nat) (run : List (Nat × Act)) :
    (exec .scanThenLog (init snap) run).sh.fld.length = snap.length ∧
    ∀ j, j < snap.length →
      (exec .scanThenLog (init snap) run).sh.fld.getD j 0 = snap.getD j 0 ∨
      (j, (exec .scanThenLog (init snap) run).sh.fld.getD j 0) ∈ (exec .scanThenLog (init snap) run).sh.started := by
  have inv := exec_inv snap _ run (init_inv snap)
  exact ⟨inv.g.len, inv.g.fldOrigin⟩

/-! ## soundness of the executable verdict -/

theorem memNat_iff (v : Nat) (l : List Nat) : memNat v l = true ↔ v ∈ l := by
  simp [memNat, List.any_eq_true]

/-- **The verdict is sound**: every quiescent outcome of the model (all mutators idle) — with `writes`
the stores that were begun and `recd` any list with the members of the union of the SATB buffers — is
accepted by `judge`.  (So an outcome of the real threads that `judge` rejects is not an outcome of the
model: either the model is wrong about the code, or the code lost a snapshot referent.) -/
theorem outcome_sound (snap : List Nat) (run : List (Nat × Act)) (writes : List (Nat × Nat)) (recd : List Nat)
    (hq : ∀ t, (exec .scanThenLog (init snap) run).pc t = .idle)
    (hw : ∀ p, p ∈ writes ↔ p ∈ (exec .scanThenLog (init snap) run).sh.started)
    (hr : ∀ v, v ∈ recd ↔ ∃ t, v ∈ (exec .scanThenLog (init snap) run).sh.buf t) :
    judge snap writes (exec .scanThenLog (init snap) run).sh.unlog (exec .scanThenLog (init snap) run).sh.fld recd = true := by
  have inv := exec_inv snap _ run (init_inv snap)
  generalize exec .scanThenLog (init snap) run = s at *
  have hrec : ∀ v, v ∈ recd ↔ v ∈ s.sh.recd := fun v => (hr v).trans (inv.g.recBuf v).symm
  simp only [judge, Bool.and_eq_true]
  refine ⟨⟨⟨⟨?_, ?_⟩, ?_⟩, ?_⟩, ?_⟩
  · simp [judgeLen, inv.g.len]
  · simp only [judgeLogged, Bool.or_eq_true, List.isEmpty_iff, Bool.not_eq_true']
    cases hws : writes with
    | nil => exact Or.inl rfl
    | cons p rest =>
      right
      cases hu : s.sh.unlog with
      | false => rfl
      | true =>
        have hne : s.sh.started ≠ [] := by
          intro e
          have := (hw p).mp (by rw [hws]; exact List.mem_cons_self ..)
          rw [e] at this; cases this
        obtain ⟨t, ht⟩ := inv.pend hu hne
        rw [hq t] at ht
        exact absurd ht (by simp [mid])
  · simp only [judgeSnapshot, Bool.or_eq_true, List.all_eq_true, beq_iff_eq, memNat_iff]
    cases hu : s.sh.unlog with
    | true => exact Or.inl rfl
    | false =>
      right
      intro x hx
      obtain ⟨j, hj, rfl⟩ := List.getElem_of_mem hx
      have := inv.g.logged hu j hj
      rw [List.getD_eq_getElem?_getD, List.getElem?_eq_getElem hj] at this
      rcases this with h | h
      · exact Or.inl h
      · exact Or.inr ((hrec _).mpr h)
  · simp only [judgeOrigin, List.all_eq_true, Bool.and_eq_true, bne_iff_ne, Bool.or_eq_true, memNat_iff,
      List.any_eq_true, beq_iff_eq]
    intro v hv
    have hv' := (hrec v).mp hv
    refine ⟨inv.g.nz v hv', ?_⟩
    rcases inv.g.origin v hv' with h | ⟨f, h⟩
    · exact Or.inl h
    · exact Or.inr ⟨(f, v), (hw _).mpr h, rfl⟩
  · simp only [judgeFields, List.all_eq_true, List.mem_range, Bool.or_eq_true, beq_iff_eq, List.any_eq_true,
      Bool.and_eq_true]
    intro j hj
    rcases inv.g.fldOrigin j hj with h | h
    · exact Or.inl h
    · exact Or.inr ⟨_, (hw _).mpr h, rfl, rfl⟩

/-! ## the swapped order loses the snapshot (the seeded regression), and the verdict sees it -/

/-- Snapshot `src.f0 = 1`.  Mutator 0 begins `src.f0 := 2`: tests the unlog bit (unlogged), CLEARS it
first; mutator 1 stores `src.f0 := 3` (its test sees "logged": no barrier); only then mutator 0 reads
the field — and records 3, the NEW value.  Everything is quiescent, the object is logged, field 0 was
overwritten, and the snapshot referent 1 is in no buffer. -/
def lossRun : List (Nat × Act) :=
  [(0, .write 0 2), (0, .step), (0, .step),        -- M0: check (unlogged), log_object
   (1, .write 0 3), (1, .step), (1, .step),        -- M1: check (logged), store 3
   (0, .step), (0, .step), (0, .step)]             -- M0: read f0 (= 3), end of scan, store 2

theorem clear_first_loses_snapshot :
    let s := exec .logThenScan (init [1]) lossRun
    s.pc 0 = .idle ∧ s.pc 1 = .idle ∧ s.sh.unlog = false ∧ s.sh.fld = [2] ∧
      s.sh.buf 0 = [3] ∧ s.sh.buf 1 = [] ∧ s.sh.recd = [3] ∧ 1 ∉ s.sh.recd ∧
      judge [1] [(0, 2), (0, 3)] s.sh.unlog s.sh.fld s.sh.recd = false ∧
      verdict [1] [(0, 2), (0, 3)] s.sh.unlog s.sh.fld s.sh.recd = "bad:snapshot-lost" := by
  decide

/-- the same schedule in the code's order is harmless: both mutators run the slow path, 1 is recorded -/
theorem same_schedule_original_order :
    let s := exec .scanThenLog (init [1]) (lossRun ++ [(1, .step), (1, .step), (1, .step)])
    s.pc 0 = .idle ∧ s.pc 1 = .idle ∧ s.sh.unlog = false ∧ 1 ∈ s.sh.recd ∧
      judge [1] [(0, 2), (0, 3)] s.sh.unlog s.sh.fld s.sh.recd = true := by
  decide

/-! ## the hypotheses are satisfiable: a non-trivial racing run -/

/-- three mutators, two fields: all three pass the unlog-bit test before anyone logs; stores and scans
interleave; field 0 is overwritten twice, field 1 once; both snapshot referents are recorded. -/
example :
    let s := exec .scanThenLog (init [7, 8])
      [(0, .write 0 1), (1, .write 0 2), (2, .write 1 3), (0, .step), (1, .step), (2, .step),
       (0, .step), (0, .step), (0, .step), (0, .step), (0, .step),      -- M0: scan, log, store
       (1, .step), (1, .step), (1, .step), (1, .step), (1, .step),      -- M1 scans after M0's store: records 1, 8
       (2, .step), (2, .step), (2, .step), (2, .step), (2, .step)]
    (∀ t, t < 3 → s.pc t = .idle) ∧ s.sh.unlog = false ∧ s.sh.fld = [2, 3] ∧ s.sh.buf 0 = [7, 8] ∧
      s.sh.buf 1 = [1, 8] ∧ s.sh.buf 2 = [2, 8] ∧
      judge [7, 8] [(0, 1), (0, 2), (1, 3)] s.sh.unlog s.sh.fld s.sh.recd = true := by
  decide

end Mmtk.SATBRace
