import MmtkModel.Model.Gen
import Mathlib.Tactic.SplitIfs
/-!
# C05 — Generational remembered sets are sound

Invariant over **all histories** of allocations, barriered field writes, barriered region copies,
root changes and nursery collections: every old→young reference sits in a remembered object or a
remembered slice.  Consequence: a nursery collection, which traces only from the roots and the
remembered slots through young objects, keeps every young object that is reachable in the whole heap —
in particular one reachable *only* through a reference stored into an older object.
-/
namespace Mmtk.Gen

/-- The remembered-set invariant. -/
structure Inv (h : Heap) : Prop where
  /-- every old→young edge is remembered -/
  remset : ∀ x j y, h.alloc x = true → h.young x = false → h.fld x j = some y → h.young y = true →
    Remembered h x j
  /-- an old object whose unlog bit is clear is in the mod-buffer (so skipping the barrier is sound) -/
  logged_in_buf : ∀ x, h.alloc x = true → h.young x = false → h.unlogged x = false → x ∈ h.modbuf
  /-- nursery objects are never unlogged: writes to them take the fast path -/
  young_logged : ∀ x, h.alloc x = true → h.young x = true → h.unlogged x = false
  /-- references point to allocated objects, and `young` is only meaningful for them -/
  closed : ∀ x j y, h.alloc x = true → h.fld x j = some y → h.alloc y = true
  roots_alloc : ∀ r, r ∈ h.roots → h.alloc r = true

theorem Remembered.mono_modbuf {h h' : Heap} {x j : Nat} (hm : ∀ z, z ∈ h.modbuf → z ∈ h'.modbuf)
    (hr : ∀ t, t ∈ h.rmod → t ∈ h'.rmod) (r : Remembered h x j) : Remembered h' x j := by
  rcases r with r | ⟨lo, hi, r, a, b⟩
  · exact Or.inl (hm x r)
  · exact Or.inr ⟨lo, hi, hr _ r, a, b⟩

/-- A legal operation: targets exist, stored references exist, ids are fresh where required. -/
def Legal (h : Heap) : Op → Prop
  | .allocYoung _ => True
  | .allocOld _ => True
  | .write src _ v => h.alloc src = true ∧ ∀ y, v = some y → h.alloc y = true
  | .copyRange dst _ _ vals => h.alloc dst = true ∧ ∀ j y, vals j = some y → h.alloc y = true
  | .setRoots rs => ∀ r, r ∈ rs → h.alloc r = true

/-- **C05 (1)** every mutator operation preserves the remembered-set invariant. -/
theorem apply_inv (h : Heap) (op : Op) (hi : Inv h) (hl : Legal h op) : Inv (apply h op) := by
  obtain ⟨i1, i2, i3, i4, i5⟩ := hi
  cases op with
  | allocYoung id =>
    simp only [apply]
    split_ifs with ha
    · exact ⟨i1, i2, i3, i4, i5⟩
    · have hna : h.alloc id = false := by simpa using ha
      refine ⟨?_, ?_, ?_, ?_, ?_⟩
      · intro x j y hx hyx hf hy
        by_cases e : x = id
        · simp [e] at hyx
        · simp only [e, if_false] at hx hyx hf
          by_cases ey : y = id
          · have := i4 x j y hx hf; rw [ey, hna] at this; cases this
          · simp only [ey, if_false] at hy
            exact i1 x j y hx hyx hf hy
      · intro x hx hyx hu
        by_cases e : x = id
        · simp [e] at hyx
        · simp only [e, if_false] at hx hyx hu; exact i2 x hx hyx hu
      · intro x hx hyx
        by_cases e : x = id
        · simp [e]
        · simp only [e, if_false] at hx hyx ⊢; exact i3 x hx hyx
      · intro x j y hx hf
        by_cases e : x = id
        · simp [e] at hf
        · simp only [e, if_false] at hx hf
          have := i4 x j y hx hf
          by_cases ey : y = id <;> simp [ey, this]
      · intro r hr
        have := i5 r hr
        by_cases e : r = id <;> simp [e, this]
  | allocOld id =>
    simp only [apply]
    split_ifs with ha
    · exact ⟨i1, i2, i3, i4, i5⟩
    · have hna : h.alloc id = false := by simpa using ha
      refine ⟨?_, ?_, ?_, ?_, ?_⟩
      · intro x j y hx hyx hf hy
        by_cases e : x = id
        · simp [e] at hf
        · simp only [e, if_false] at hx hyx hf
          by_cases ey : y = id
          · simp [ey] at hy
          · simp only [ey, if_false] at hy
            exact i1 x j y hx hyx hf hy
      · intro x hx hyx hu
        by_cases e : x = id
        · simp [e] at hu
        · simp only [e, if_false] at hx hyx hu; exact i2 x hx hyx hu
      · intro x hx hyx
        by_cases e : x = id
        · simp [e] at hyx
        · simp only [e, if_false] at hx hyx ⊢; exact i3 x hx hyx
      · intro x j y hx hf
        by_cases e : x = id
        · simp [e] at hf
        · simp only [e, if_false] at hx hf
          have := i4 x j y hx hf
          by_cases ey : y = id <;> simp [ey, this]
      · intro r hr
        have := i5 r hr
        by_cases e : r = id <;> simp [e, this]
  | write src f v =>
    obtain ⟨hsrc, hv⟩ := hl
    simp only [apply]
    split_ifs with hu
    · -- slow path: src is logged and enters the mod-buffer
      refine ⟨?_, ?_, ?_, ?_, i5⟩
      · intro x j y hx hyx hf hy
        by_cases e : x = src
        · exact Or.inl (by rw [e]; exact List.mem_cons_self ..)
        · have hf' : h.fld x j = some y := by simpa [e] using hf
          exact Remembered.mono_modbuf (h := h) (fun z hz => List.mem_cons_of_mem _ hz) (fun _ ht => ht)
            (i1 x j y hx hyx hf' hy)
      · intro x hx hyx hux
        by_cases e : x = src
        · rw [e]; exact List.mem_cons_self ..
        · simp only [e, if_false] at hux
          exact List.mem_cons_of_mem _ (i2 x hx hyx hux)
      · intro x hx hyx
        by_cases e : x = src
        · simp [e]
        · simp only [e, if_false]; exact i3 x hx hyx
      · intro x j y hx hf
        by_cases e : x = src ∧ j = f
        · simp only [e, and_self, if_true] at hf; exact hv y hf
        · simp only [e, if_false] at hf; exact i4 x j y hx hf
    · -- fast path: src is a nursery object, or already in the mod-buffer
      have hu' : h.unlogged src = false := by simpa using hu
      refine ⟨?_, i2, i3, ?_, i5⟩
      · intro x j y hx hyx hf hy
        by_cases e : x = src ∧ j = f
        · obtain ⟨e1, _⟩ := e
          rw [e1] at hx hyx ⊢
          exact Or.inl (i2 src hx hyx hu')
        · simp only [e, if_false] at hf
          exact i1 x j y hx hyx hf hy
      · intro x j y hx hf
        by_cases e : x = src ∧ j = f
        · simp only [e, and_self, if_true] at hf; exact hv y hf
        · simp only [e, if_false] at hf; exact i4 x j y hx hf
  | copyRange dst lo hi vals =>
    obtain ⟨hdst, hv⟩ := hl
    simp only [apply]
    split_ifs with hy
    · -- destination in the nursery: nothing to remember
      refine ⟨?_, i2, i3, ?_, i5⟩
      · intro x j y hx hyx hf hyy
        by_cases e : x = dst ∧ lo ≤ j ∧ j < hi
        · rw [e.1, hy] at hyx; cases hyx
        · simp only [e, if_false] at hf
          exact i1 x j y hx hyx hf hyy
      · intro x j y hx hf
        by_cases e : x = dst ∧ lo ≤ j ∧ j < hi
        · simp only [e, and_self, if_true] at hf; exact hv j y hf
        · simp only [e, if_false] at hf; exact i4 x j y hx hf
    · refine ⟨?_, i2, i3, ?_, i5⟩
      · intro x j y hx hyx hf hyy
        by_cases e : x = dst ∧ lo ≤ j ∧ j < hi
        · exact Or.inr ⟨lo, hi, by rw [e.1]; exact List.mem_cons_self .., e.2.1, e.2.2⟩
        · simp only [e, if_false] at hf
          exact Remembered.mono_modbuf (h := h) (fun _ hz => hz) (fun _ ht => List.mem_cons_of_mem _ ht)
            (i1 x j y hx hyx hf hyy)
      · intro x j y hx hf
        by_cases e : x = dst ∧ lo ≤ j ∧ j < hi
        · simp only [e, and_self, if_true] at hf; exact hv j y hf
        · simp only [e, if_false] at hf; exact i4 x j y hx hf
  | setRoots rs => exact ⟨i1, i2, i3, i4, hl⟩

/-- The key lemma: under the invariant, everything reachable in the whole heap that is young is
reachable the way a nursery collection traces. -/
theorem reach_young_nreach (h : Heap) (hi : Inv h) (y : Nat) (hr : Reach h y) :
    h.alloc y = true ∧ (h.young y = true → NReach h y) := by
  induction hr with
  | root r hr => exact ⟨hi.roots_alloc r hr, fun _ => NReach.root r hr⟩
  | field x j z _ hf ih =>
    obtain ⟨hax, hnx⟩ := ih
    refine ⟨hi.closed x j z hax hf, fun hz => ?_⟩
    cases hyx : h.young x with
    | true => exact NReach.field x j z (hnx hyx) hyx hf
    | false => exact NReach.remembered x j z (hi.remset x j z hax hyx hf hz) hf

/-- **C05 (2)** a nursery collection keeps every reachable object — old or young, however it is
reachable (in particular only through a reference stored into an older object) — with its fields. -/
theorem nursery_sound (h h' : Heap) (hi : Inv h) (gc : NurseryGC h h') (y : Nat) (hr : Reach h y) :
    h'.alloc y = true ∧ ∀ j, h'.fld y j = h.fld y j := by
  obtain ⟨hay, hny⟩ := reach_young_nreach h hi y hr
  have : h'.alloc y = true := by
    cases hyy : h.young y with
    | false => exact gc.keep_old y hay hyy
    | true => exact gc.keep_young y hay hyy (hny hyy)
  exact ⟨this, fun j => gc.fields y j this⟩

/-- … and the reachable graph is the same graph afterwards. -/
theorem nursery_reach_preserved (h h' : Heap) (hi : Inv h) (gc : NurseryGC h h') (y : Nat) (hr : Reach h y) :
    Reach h' y := by
  induction hr with
  | root r hr => exact Reach.root r (by rw [gc.roots]; exact hr)
  | field x j z hx hf ih =>
    have := nursery_sound h h' hi gc x hx
    exact Reach.field x j z ih (by rw [this.2 j]; exact hf)

/-- **C05 (3)** the invariant is re-established by the collection (everything is old and unlogged,
the buffers are empty), so the argument repeats for every later nursery GC. -/
theorem nursery_inv (h h' : Heap) (hi : Inv h) (gc : NurseryGC h h') : Inv h' := by
  refine ⟨?_, ?_, ?_, ?_, ?_⟩
  · intro x j y hx _ hf hy
    -- y is allocated after the GC (closed, below), hence old: contradiction
    have hax := gc.only_survivors x hx
    have hf' : h.fld x j = some y := by rw [← gc.fields x j hx]; exact hf
    have hay : h'.alloc y = true := by
      rcases hax.2 with hox | hnx
      · -- x old: the edge x→y; y young before ⇒ remembered ⇒ NReach; y old before ⇒ kept
        have hay0 := hi.closed x j y hax.1 hf'
        cases hyy : h.young y with
        | false => exact gc.keep_old y hay0 hyy
        | true => exact gc.keep_young y hay0 hyy (NReach.remembered x j y (hi.remset x j y hax.1 hox hf' hyy) hf')
      · have hay0 := hi.closed x j y hax.1 hf'
        cases hyy : h.young y with
        | false => exact gc.keep_old y hay0 hyy
        | true =>
          cases hyx : h.young x with
          | true => exact gc.keep_young y hay0 hyy (NReach.field x j y hnx hyx hf')
          | false => exact gc.keep_young y hay0 hyy (NReach.remembered x j y (hi.remset x j y hax.1 hyx hf' hyy) hf')
    rw [(gc.promoted y hay).1] at hy; cases hy
  · intro x hx _ hu
    rw [(gc.promoted x hx).2] at hu; cases hu
  · intro x hx hy
    rw [(gc.promoted x hx).1] at hy; cases hy
  · intro x j y hx hf
    have hax := gc.only_survivors x hx
    have hf' : h.fld x j = some y := by rw [← gc.fields x j hx]; exact hf
    have hay0 := hi.closed x j y hax.1 hf'
    cases hyy : h.young y with
    | false => exact gc.keep_old y hay0 hyy
    | true =>
      rcases hax.2 with hox | hnx
      · exact gc.keep_young y hay0 hyy (NReach.remembered x j y (hi.remset x j y hax.1 hox hf' hyy) hf')
      · cases hyx : h.young x with
        | true => exact gc.keep_young y hay0 hyy (NReach.field x j y hnx hyx hf')
        | false => exact gc.keep_young y hay0 hyy (NReach.remembered x j y (hi.remset x j y hax.1 hyx hf' hyy) hf')
  · intro r hr
    rw [gc.roots] at hr
    have har := hi.roots_alloc r hr
    cases hyr : h.young r with
    | false => exact gc.keep_old r har hyr
    | true => exact gc.keep_young r har hyr (NReach.root r hr)

/-- **C05 (4)** all histories: from the empty heap, any sequence of legal mutator operations
satisfies the invariant (so `nursery_sound` applies at every nursery GC). -/
def emptyHeap : Heap :=
  { alloc := fun _ => false, young := fun _ => false, fld := fun _ _ => none, unlogged := fun _ => false,
    roots := [], modbuf := [], rmod := [] }

theorem empty_inv : Inv emptyHeap :=
  ⟨(fun _ _ _ h => by cases h), (fun _ h => by cases h), (fun _ h => by cases h), (fun _ _ _ h => by cases h),
   (fun _ h => by cases h)⟩

theorem history_inv (ops : List Op) (h : Heap) (hi : Inv h)
    (hl : ∀ (pre : List Op) (op : Op) (post : List Op), ops = pre ++ op :: post → Legal (pre.foldl apply h) op) :
    Inv (ops.foldl apply h) := by
  induction ops generalizing h with
  | nil => exact hi
  | cons op rest ih =>
    simp only [List.foldl_cons]
    apply ih (apply h op) (apply_inv h op hi (hl [] op rest rfl))
    intro pre op' post e
    have := hl (op :: pre) op' post (by rw [e]; rfl)
    simpa using this

/-! ## Why the barrier matters: without it the invariant — and the young object — is lost -/

/-- the same write with the barrier removed -/
def writeNoBarrier (h : Heap) (src f : Nat) (v : Option Nat) : Heap :=
  { h with fld := fun x j => if x = src ∧ j = f then v else h.fld x j }

def demoHeap : Heap := apply (apply (apply emptyHeap (.allocOld 0)) (.allocYoung 1)) (.setRoots [0])

/-- Old object 0 (unlogged, rooted), young object 1 reachable only through `0.f0`: with the
barrier the slot is remembered; a barrier-less store leaves it unremembered. -/
example : (apply demoHeap (.write 0 0 (some 1))).modbuf = [0] ∧ (apply demoHeap (.write 0 0 (some 1))).fld 0 0 = some 1 := by
  decide

example : (writeNoBarrier demoHeap 0 0 (some 1)).modbuf = [] ∧ (writeNoBarrier demoHeap 0 0 (some 1)).rmod = [] ∧
    (writeNoBarrier demoHeap 0 0 (some 1)).fld 0 0 = some 1 := by
  decide

end Mmtk.Gen
