import MmtkModel.Model.Pages
/-!
# C28 — Page resources hand out disjoint in-space pages with exact accounting

Statement (properties.jsonl): for any sequence of page acquisitions and releases on monotone,
free-list and block page resources, granted page ranges are page-aligned, pairwise disjoint among live
grants, inside the owning space's address range, and the reserved and committed page counters equal
the pages currently granted (never underflowing) — single and multi-threaded.

`Step` is one ATOMIC action of one thread on one page resource: `reserve_pages` (outside any lock), the
grant decided inside `get_new_pages` under the space's `acquire_lock`, the two counter updates of
`commit_pages`, `clear_request`, the two `fetch_sub`s of `accounting.release`, `reset`. `Reachable`
therefore contains every interleaving. The page supplier is abstract: `free p` = page `p` may be handed
out (free list / block pool / beyond the monotone cursor); a grant takes free pages and un-frees them,
a release frees them again. `monoAlloc_grantable` shows that the monotone cursor bump is such a supplier.
-/
namespace Mmtk.Pages

def sumR (ts : List TState) : Nat := (ts.map TState.R).sum
def sumC (ts : List TState) : Nat := (ts.map TState.C).sum
def inflR (o : Option InFlight) : Nat := (o.map InFlight.R).getD 0

inductive Step : PR → PR → Prop
  /-- a new mutator / GC worker starts using the space -/
  | spawn (s : PR) : Step s { s with threads := s.threads ++ [.idle] }
  /-- `Space::acquire`: `pr.reserve_pages(n)` -/
  | reserve (s : PR) (i n : Nat) (h : s.threads[i]? = some .idle) :
      Step s { s with threads := s.threads.set i (.holding n), acct := s.acct.reserve n }
  /-- `get_new_pages` under the `acquire_lock`: the page resource picks free pages inside the space -/
  | grant (s : PR) (i r : Nat) (reg : Region) (h : s.threads[i]? = some (.holding r)) (hl : s.inflight = none)
      (hfree : ∀ p, reg.contains p → s.free p = true) (hcap : reg.stop ≤ s.cap) (hr : r ≤ reg.pages)
      (hpos : 0 < reg.pages) :
      Step s { s with threads := s.threads.set i .locked, inflight := some ⟨r, reg, false⟩,
                      free := setFree s.free reg false }
  /-- `commit_pages`: `accounting.reserve(actual - reserved)` -/
  | commitA (s : PR) (f : InFlight) (h : s.inflight = some f) (hp : f.phaseB = false) :
      Step s { s with inflight := some { f with phaseB := true }, acct := s.acct.reserve (f.reg.pages - f.r) }
  /-- `commit_pages`: `accounting.commit(actual)`; the lock is dropped -/
  | commitB (s : PR) (i : Nat) (f : InFlight) (h : s.inflight = some f) (hp : f.phaseB = true)
      (ht : s.threads[i]? = some .locked) :
      Step s { s with inflight := none, grants := f.reg :: s.grants, acct := s.acct.commit f.reg.pages,
                      threads := s.threads.set i .idle }
  /-- `Space::not_acquiring`: `pr.clear_request(r)` -/
  | fail (s : PR) (i r : Nat) (a' : Acct) (h : s.threads[i]? = some (.holding r))
      (ha : s.acct.clearReserved r = some a') :
      Step s { s with threads := s.threads.set i .idle, acct := a' }
  /-- `release_pages` / `release_block`: first `fetch_sub` of `accounting.release`; the pages go back to
  the free list / block pool -/
  | release1 (s : PR) (i : Nat) (reg : Region) (a' : Acct) (h : s.threads[i]? = some .idle) (hm : reg ∈ s.grants)
      (ha : s.acct.releaseReserved reg.pages = some a') :
      Step s { s with threads := s.threads.set i (.releasing reg.pages), grants := s.grants.erase reg, acct := a',
                      free := setFree s.free reg true }
  /-- second `fetch_sub` of `accounting.release` -/
  | release2 (s : PR) (i a : Nat) (a' : Acct) (h : s.threads[i]? = some (.releasing a))
      (ha : s.acct.releaseCommitted a = some a') :
      Step s { s with threads := s.threads.set i .idle, acct := a' }
  /-- `MonotonePageResource::reset` (`CopySpace::release`): only while no thread uses the resource -/
  | reset (s : PR) (h : ∀ t ∈ s.threads, t = .idle) (hl : s.inflight = none) :
      Step s { s with acct := s.acct.reset, grants := [], free := fun _ => true }

inductive Reachable (cap : Nat) : PR → Prop
  | init : Reachable cap { cap := cap }
  | step {s s' : PR} : Reachable cap s → Step s s' → Reachable cap s'

structure Inv (s : PR) : Prop where
  accR : s.acct.reserved = pagesSum s.grants + sumR s.threads + inflR s.inflight
  accC : s.acct.committed = pagesSum s.grants + sumC s.threads
  disj : s.live.Pairwise Region.disjoint
  inCap : ∀ g ∈ s.live, g.stop ≤ s.cap
  notFree : ∀ g ∈ s.live, ∀ p, g.contains p → s.free p = false
  inflOk : ∀ f, s.inflight = some f → f.r ≤ f.reg.pages
  pos : ∀ g ∈ s.live, 0 < g.pages

/-! ## helper lemmas -/

theorem sum_map_set (f : TState → Nat) (ts : List TState) (i : Nat) (x st : TState) (h : ts[i]? = some st) :
    ((ts.set i x).map f).sum + f st = (ts.map f).sum + f x := by
  induction ts generalizing i with
  | nil => simp at h
  | cons t ts ih =>
    cases i with
    | zero =>
      simp at h; subst h
      simp only [List.set_cons_zero, List.map_cons, List.sum_cons]; omega
    | succ i =>
      simp at h
      have := ih i h
      simp only [List.set_cons_succ, List.map_cons, List.sum_cons]; omega

theorem sumR_set (ts : List TState) (i : Nat) (x st : TState) (h : ts[i]? = some st) :
    sumR (ts.set i x) + st.R = sumR ts + x.R := sum_map_set TState.R ts i x st h
theorem sumC_set (ts : List TState) (i : Nat) (x st : TState) (h : ts[i]? = some st) :
    sumC (ts.set i x) + st.C = sumC ts + x.C := sum_map_set TState.C ts i x st h

theorem sum_all_idle (f : TState → Nat) (hf : f .idle = 0) (ts : List TState) (h : ∀ t ∈ ts, t = .idle) :
    (ts.map f).sum = 0 := by
  induction ts with
  | nil => simp
  | cons t ts ih =>
    have ht : t = .idle := h t (by simp)
    have := ih (fun t' ht' => h t' (by simp [ht']))
    simp [ht, hf, this]

theorem pagesSum_cons (g : Region) (l : List Region) : pagesSum (g :: l) = g.pages + pagesSum l := by
  simp [pagesSum]

theorem pagesSum_erase (l : List Region) (reg : Region) (h : reg ∈ l) :
    pagesSum (l.erase reg) + reg.pages = pagesSum l := by
  induction l with
  | nil => simp at h
  | cons x xs ih =>
    by_cases hx : x = reg
    · subst hx; simp [pagesSum_cons]; omega
    · have hmem : reg ∈ xs := by
        rcases List.mem_cons.1 h with h' | h'
        · exact absurd h'.symm hx
        · exact h'
      have := ih hmem
      rw [List.erase_cons_tail (by simpa using hx)]
      simp only [pagesSum_cons]; omega

theorem disjoint_symm {r s : Region} (h : r.disjoint s) : s.disjoint r := by
  unfold Region.disjoint at *; omega

theorem erase_disjoint (l : List Region) (reg g : Region) (hp : l.Pairwise Region.disjoint)
    (hg : g ∈ l.erase reg) (hr : reg ∈ l) : g.disjoint reg := by
  induction l with
  | nil => simp at hr
  | cons x xs ih =>
    rw [List.pairwise_cons] at hp
    by_cases hx : x = reg
    · subst hx
      rw [List.erase_cons_head] at hg
      exact disjoint_symm (hp.1 g hg)
    · rw [List.erase_cons_tail (by simpa using hx)] at hg
      have hmem : reg ∈ xs := by
        rcases List.mem_cons.1 hr with h' | h'
        · exact absurd h'.symm hx
        · exact h'
      rcases List.mem_cons.1 hg with h' | h'
      · subst h'; exact hp.1 reg hmem
      · exact ih hp.2 h' hmem

theorem mem_erase_mem {l : List Region} {reg g : Region} (h : g ∈ l.erase reg) : g ∈ l :=
  List.mem_of_mem_erase h

/-! ## the invariant is inductive -/

theorem inv_init (cap : Nat) : Inv { cap := cap } := by
  constructor <;> simp [pagesSum, sumR, sumC, inflR, PR.live]

theorem inv_step {s s' : PR} (hi : Inv s) (hs : Step s s') : Inv s' := by
  cases hs with
  | spawn =>
    constructor
    · simpa [sumR, TState.R] using hi.accR
    · simpa [sumC, TState.C] using hi.accC
    · exact hi.disj
    · exact hi.inCap
    · exact hi.notFree
    · exact hi.inflOk
    · exact hi.pos
  | reserve i n h =>
    have hR := sumR_set s.threads i (.holding n) .idle h
    have hC := sumC_set s.threads i (.holding n) .idle h
    simp only [TState.R, TState.C] at hR hC
    constructor
    · have := hi.accR; simp only [Acct.reserve]; omega
    · have := hi.accC; simp only [Acct.reserve]; omega
    · exact hi.disj
    · exact hi.inCap
    · exact hi.notFree
    · exact hi.inflOk
    · exact hi.pos
  | grant i r reg h hl hfree hcap hr hpos =>
    have hR := sumR_set s.threads i .locked (.holding r) h
    have hC := sumC_set s.threads i .locked (.holding r) h
    simp only [TState.R, TState.C] at hR hC
    have hlive : s.live = s.grants := by simp [PR.live, hl]
    constructor
    · have := hi.accR; simp only [inflR, hl, Option.map_none, Option.getD_none] at this
      simp only [inflR, Option.map_some, Option.getD_some, InFlight.R]; simp; omega
    · have := hi.accC; simp only; omega
    · simp only [PR.live, Option.map_some, Option.toList_some, List.singleton_append, List.pairwise_cons]
      refine ⟨?_, by simpa [hlive] using hi.disj⟩
      intro g hg
      -- the pages of an existing grant are not free, those of the new one are
      have hnf := hi.notFree g (by rw [hlive]; exact hg)
      unfold Region.disjoint
      by_cases hd : reg.stop ≤ g.start ∨ g.stop ≤ reg.start
      · exact hd
      · exfalso
        have hz : 0 < g.pages := hi.pos g (by rw [hlive]; exact hg)
        -- a common page
        let p := max reg.start g.start
        have h1 : reg.contains p := by simp only [Region.contains, Region.stop, p] at *; omega
        have h2 : g.contains p := by simp only [Region.contains, Region.stop, p] at *; omega
        have := hfree p h1
        rw [hnf p h2] at this
        exact absurd this (by decide)
    · intro g hg
      simp only [PR.live, Option.map_some, Option.toList_some, List.singleton_append, List.mem_cons] at hg
      rcases hg with rfl | hg
      · exact hcap
      · exact hi.inCap g (by rw [hlive]; exact hg)
    · intro g hg p hp
      simp only [PR.live, Option.map_some, Option.toList_some, List.singleton_append, List.mem_cons] at hg
      simp only [setFree]
      split
      · rfl
      · next hnot =>
        rcases hg with rfl | hg
        · exact absurd hp hnot
        · exact hi.notFree g (by rw [hlive]; exact hg) p hp
    · intro f hf
      simp only [Option.some.injEq] at hf
      subst hf; exact hr
    · intro g hg
      simp only [PR.live, Option.map_some, Option.toList_some, List.singleton_append, List.mem_cons] at hg
      rcases hg with rfl | hg
      · exact hpos
      · exact hi.pos g (by rw [hlive]; exact hg)
  | commitA f h hp =>
    have hle := hi.inflOk f h
    have hlive : ({ s with inflight := some { f with phaseB := true }, acct := s.acct.reserve (f.reg.pages - f.r) } : PR).live = s.live := by
      simp [PR.live, h]
    constructor
    · have := hi.accR
      simp only [inflR, h, Option.map_some, Option.getD_some, InFlight.R, hp] at this
      simp only [inflR, Option.map_some, Option.getD_some, InFlight.R, Acct.reserve]
      simp at this ⊢; omega
    · simpa [Acct.reserve] using hi.accC
    · rw [hlive]; exact hi.disj
    · rw [hlive]; exact hi.inCap
    · rw [hlive]; exact hi.notFree
    · intro f' hf'
      simp only [Option.some.injEq] at hf'
      subst hf'; exact hle
    · rw [hlive]; exact hi.pos
  | commitB i f h hp ht =>
    have hR := sumR_set s.threads i .idle .locked ht
    have hC := sumC_set s.threads i .idle .locked ht
    simp only [TState.R, TState.C] at hR hC
    have hlive : ({ s with inflight := none, grants := f.reg :: s.grants, acct := s.acct.commit f.reg.pages, threads := s.threads.set i .idle } : PR).live = s.live := by
      simp [PR.live, h]
    constructor
    · have := hi.accR
      simp only [inflR, h, Option.map_some, Option.getD_some, InFlight.R, hp] at this
      simp only [inflR, Option.map_none, Option.getD_none, Acct.commit, pagesSum_cons]
      simp at this ⊢; omega
    · have := hi.accC
      simp only [Acct.commit, pagesSum_cons]; omega
    · rw [hlive]; exact hi.disj
    · rw [hlive]; exact hi.inCap
    · rw [hlive]; exact hi.notFree
    · intro f' hf'; simp at hf'
    · rw [hlive]; exact hi.pos
  | fail i r a' h ha =>
    have hR := sumR_set s.threads i .idle (.holding r) h
    have hC := sumC_set s.threads i .idle (.holding r) h
    simp only [TState.R, TState.C] at hR hC
    unfold Acct.clearReserved at ha
    split at ha
    · simp only [Option.some.injEq] at ha
      subst ha
      constructor
      · have := hi.accR; simp only; omega
      · have := hi.accC; simp only; omega
      · exact hi.disj
      · exact hi.inCap
      · exact hi.notFree
      · exact hi.inflOk
      · exact hi.pos
    · simp at ha
  | release1 i reg a' h hm ha =>
    have hR := sumR_set s.threads i (.releasing reg.pages) .idle h
    have hC := sumC_set s.threads i (.releasing reg.pages) .idle h
    simp only [TState.R, TState.C] at hR hC
    have hsum := pagesSum_erase s.grants reg hm
    unfold Acct.releaseReserved at ha
    split at ha
    · simp only [Option.some.injEq] at ha
      subst ha
      have hsub : ∀ g, g ∈ ({ s with threads := s.threads.set i (.releasing reg.pages), grants := s.grants.erase reg, acct := { s.acct with reserved := s.acct.reserved - reg.pages }, free := setFree s.free reg true } : PR).live → g ∈ s.live ∧ g.disjoint reg := by
        intro g hg
        simp only [PR.live, List.mem_append] at hg ⊢
        have hpw := hi.disj
        simp only [PR.live, List.pairwise_append] at hpw
        rcases hg with hg | hg
        · refine ⟨Or.inl hg, hpw.2.2 g hg reg hm⟩
        · exact ⟨Or.inr (mem_erase_mem hg), erase_disjoint s.grants reg g hpw.2.1 hg hm⟩
      constructor
      · have := hi.accR; simp only; omega
      · have := hi.accC; simp only; omega
      · have hpw := hi.disj
        simp only [PR.live, List.pairwise_append] at hpw ⊢
        refine ⟨hpw.1, hpw.2.1.sublist (List.erase_sublist), ?_⟩
        intro a ha b hb
        exact hpw.2.2 a ha b (mem_erase_mem hb)
      · intro g hg; exact hi.inCap g (hsub g hg).1
      · intro g hg p hp
        obtain ⟨hg1, hg2⟩ := hsub g hg
        simp only [setFree]
        split
        · next hin =>
          exfalso
          simp only [Region.disjoint, Region.contains, Region.stop] at hg2 hp hin
          omega
        · exact hi.notFree g hg1 p hp
      · exact hi.inflOk
      · intro g hg; exact hi.pos g (hsub g hg).1
    · simp at ha
  | release2 i a a' h ha =>
    have hR := sumR_set s.threads i .idle (.releasing a) h
    have hC := sumC_set s.threads i .idle (.releasing a) h
    simp only [TState.R, TState.C] at hR hC
    unfold Acct.releaseCommitted at ha
    split at ha
    · simp only [Option.some.injEq] at ha
      subst ha
      constructor
      · have := hi.accR; simp only; omega
      · have := hi.accC; simp only; omega
      · exact hi.disj
      · exact hi.inCap
      · exact hi.notFree
      · exact hi.inflOk
      · exact hi.pos
    · simp at ha
  | reset h hl =>
    have h1 : sumR s.threads = 0 := sum_all_idle TState.R rfl s.threads h
    have h2 : sumC s.threads = 0 := sum_all_idle TState.C rfl s.threads h
    constructor
    · simp [Acct.reset, pagesSum, h1, inflR, hl]
    · simp [Acct.reset, pagesSum, h2]
    · simp [PR.live, hl]
    · simp [PR.live, hl]
    · simp [PR.live, hl]
    · intro f hf; simp [hl] at hf
    · simp [PR.live, hl]

theorem Reachable.inv {cap : Nat} {s : PR} (h : Reachable cap s) : Inv s := by
  induction h with
  | init => exact inv_init cap
  | step _ hs ih => exact inv_step ih hs

theorem Reachable.cap_eq {cap : Nat} {s : PR} (h : Reachable cap s) : s.cap = cap := by
  induction h with
  | init => rfl
  | step _ hs ih => cases hs <;> exact ih

/-! ## The property -/

/-- **Exact accounting in every interleaving**: `reserved` = pages of the completed grants + what threads
have reserved but not yet been granted / cleared (+ the part of the grant in progress already added);
`committed` = pages of the completed grants + what releasing threads have not yet subtracted. -/
theorem accounting_exact {cap : Nat} {s : PR} (h : Reachable cap s) :
    s.acct.reserved = pagesSum s.grants + sumR s.threads + inflR s.inflight ∧
    s.acct.committed = pagesSum s.grants + sumC s.threads :=
  ⟨h.inv.accR, h.inv.accC⟩

/-- At any quiescent point (no thread inside `acquire` / `release`): `reserved = committed =` the pages
currently granted. -/
theorem accounting_exact_quiescent {cap : Nat} {s : PR} (h : Reachable cap s)
    (hq : ∀ t ∈ s.threads, t = .idle) (hl : s.inflight = none) :
    s.acct.reserved = pagesSum s.live ∧ s.acct.committed = pagesSum s.live := by
  have h1 : sumR s.threads = 0 := sum_all_idle TState.R rfl s.threads hq
  have h2 : sumC s.threads = 0 := sum_all_idle TState.C rfl s.threads hq
  have hlive : s.live = s.grants := by simp [PR.live, hl]
  obtain ⟨a, b⟩ := accounting_exact h
  rw [hlive]
  simp [h1, h2, inflR, hl] at a b
  exact ⟨a, b⟩

/-- `reserved = committed + pending` with the pending amounts of every thread made explicit. -/
theorem reserved_eq_committed_plus_pending {cap : Nat} {s : PR} (h : Reachable cap s) :
    s.acct.reserved + sumC s.threads = s.acct.committed + sumR s.threads + inflR s.inflight := by
  obtain ⟨a, b⟩ := accounting_exact h
  omega

/-- **No counter update ever underflows** (the `debug_assert!`s of `PageAccounting` hold and the `usize`
subtractions do not wrap), in every reachable state and for every thread. -/
theorem no_underflow {cap : Nat} {s : PR} (h : Reachable cap s) :
    (∀ (i r : Nat), s.threads[i]? = some (TState.holding r) → ∃ a', s.acct.clearReserved r = some a') ∧
    (∀ reg, reg ∈ s.grants → ∃ a', s.acct.releaseReserved reg.pages = some a') ∧
    (∀ (i a : Nat), s.threads[i]? = some (TState.releasing a) → ∃ a', s.acct.releaseCommitted a = some a') ∧
    (∀ f, s.inflight = some f → ∃ a', commitPages s.acct f.r f.reg.pages = some a') := by
  have hi := h.inv
  refine ⟨?_, ?_, ?_, ?_⟩
  · intro i r ht
    have := sumR_set s.threads i .idle (.holding r) ht
    simp only [TState.R] at this
    have hr := hi.accR
    exact ⟨_, by unfold Acct.clearReserved; rw [if_pos (by omega)]⟩
  · intro reg hm
    have := pagesSum_erase s.grants reg hm
    have hr := hi.accR
    exact ⟨_, by unfold Acct.releaseReserved; rw [if_pos (by omega)]⟩
  · intro i a ht
    have := sumC_set s.threads i .idle (.releasing a) ht
    simp only [TState.C] at this
    have hc := hi.accC
    exact ⟨_, by unfold Acct.releaseCommitted; rw [if_pos (by omega)]⟩
  · intro f hf
    have := hi.inflOk f hf
    exact ⟨_, by unfold commitPages; rw [if_pos (by omega)]⟩

/-- **Live grants are pairwise disjoint, inside the space, and page aligned** (for a page-aligned
space start `base`; the grant of page index `g.start` is the address `base + g.start · 4096`). -/
theorem granted_disjoint_aligned_in_space {cap : Nat} {s : PR} (h : Reachable cap s) :
    s.live.Pairwise Region.disjoint ∧
    ∀ g ∈ s.live, g.stop ≤ cap ∧
      ∀ base, base % bytesInPage = 0 →
        (base + g.start * bytesInPage) % bytesInPage = 0 ∧
        base ≤ base + g.start * bytesInPage ∧
        base + g.start * bytesInPage + g.pages * bytesInPage ≤ base + cap * bytesInPage := by
  have hi := h.inv
  refine ⟨hi.disj, ?_⟩
  intro g hg
  have hc := hi.inCap g hg
  rw [h.cap_eq] at hc
  refine ⟨hc, ?_⟩
  intro base hb
  refine ⟨?_, Nat.le_add_right _ _, ?_⟩
  · rw [Nat.add_mul_mod_self_right]; exact hb
  · have : (g.start + g.pages) * bytesInPage ≤ cap * bytesInPage := Nat.mul_le_mul_right _ hc
    rw [Nat.add_mul] at this
    omega

/-- A page is never part of two live grants. -/
theorem page_granted_once {cap : Nat} {s : PR} (h : Reachable cap s) (g1 g2 : Region) (p : Nat)
    (h1 : g1 ∈ s.grants) (h2 : g2 ∈ s.grants.erase g1) : ¬ (g1.contains p ∧ g2.contains p) := by
  have hpw := h.inv.disj
  simp only [PR.live, List.pairwise_append] at hpw
  have := erase_disjoint s.grants g1 g2 hpw.2.1 h2 h1
  intro ⟨a, b⟩
  simp only [Region.disjoint, Region.contains, Region.stop] at this a b
  omega

/-- The monotone cursor bump is a legitimate supplier: if every live grant ends at or below the cursor
(true after `reset` and preserved by the bump), the pages it returns are in no live grant and inside
the space. -/
theorem monoAlloc_grantable (cursor sentinel pages : Nat) (reg : Region) (cursor' : Nat) (live : List Region)
    (hbelow : ∀ g ∈ live, g.stop ≤ cursor) (h : monoAlloc cursor sentinel pages = some (reg, cursor')) :
    reg.stop ≤ sentinel ∧ reg.pages = pages ∧ cursor' = reg.stop ∧
    (∀ g ∈ live, g.disjoint reg) ∧ (∀ g ∈ reg :: live, g.stop ≤ cursor') := by
  unfold monoAlloc at h
  simp only at h
  split at h
  · simp at h
  · simp only [Option.some.injEq, Prod.mk.injEq] at h
    obtain ⟨rfl, rfl⟩ := h
    refine ⟨by simp [Region.stop]; omega, rfl, rfl, ?_, ?_⟩
    · intro g hg; left; exact hbelow g hg
    · intro g hg
      rcases List.mem_cons.1 hg with rfl | hg
      · exact Nat.le_refl _
      · have := hbelow g hg; simp [Region.stop] at *; omega

/-! ### the hypotheses are satisfiable; the `r ≤ pages` hypothesis of `grant` is needed -/

example : commitPages { reserved := 8, committed := 0 } 8 8 = some { reserved := 8, committed := 8 } := by decide
example : commitPages { reserved := 8, committed := 0 } 8 4 = none := by decide
example : (Acct.mk 8 8).release 8 = some {} := by decide
example : (Acct.mk 4 8).release 8 = none := by decide
example : monoAlloc 3 10 7 = some (⟨3, 7⟩, 10) ∧ monoAlloc 3 10 8 = none := by decide

/-- a concrete two-thread interleaving: thread 0 reserves 8, thread 1 reserves 8, thread 0 is granted
pages 0..8 and commits, thread 1's request fails and is cleared. -/
example : ∃ s, Reachable 16 s ∧ s.acct = { reserved := 8, committed := 8 } ∧ s.grants = [⟨0, 8⟩] := by
  have r0 : Reachable 16 { cap := 16 } := .init
  have r1 := Reachable.step (Reachable.step r0 (.spawn _)) (.spawn _)
  have r2 := Reachable.step r1 (.reserve _ 0 8 rfl)
  have r3 := Reachable.step r2 (.reserve _ 1 8 rfl)
  have r4 := Reachable.step r3 (.grant _ 0 8 ⟨0, 8⟩ rfl rfl (by intro p _; rfl) (by decide) (by decide) (by decide))
  have r5 := Reachable.step r4 (.commitA _ ⟨8, ⟨0, 8⟩, false⟩ rfl rfl)
  have r6 := Reachable.step r5 (.commitB _ 0 ⟨8, ⟨0, 8⟩, true⟩ rfl rfl rfl)
  have r7 := Reachable.step r6 (.fail _ 1 8 { reserved := 8, committed := 8 } rfl (by decide))
  exact ⟨_, r7, rfl, rfl⟩

end Mmtk.Pages
