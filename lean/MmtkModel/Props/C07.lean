import MmtkModel.Model.VO
import Mathlib.Tactic.SplitIfs
import Mathlib.Data.List.Nodup
/-!
# C07 — after a full-heap collection the VO bits are exactly the survivors, and enumeration lists each once

For every policy of `Model/VO.lean`: if before the collection the VO bits of the space are exactly the
references of its objects (`hex`), then after the policy's tracing + release they are exactly the new
references of the objects the collection traced (`liveFwd`: reachable ∪ soft-retained ∪
finalizer-resurrected), and never-collected spaces keep every bit (`vo_exact_after_full_gc`).
`enumerate_exact_once`: scanning disjoint regions (plus the LOS treadmill) visits every set bit exactly
once and nothing else.
-/
namespace Mmtk.VO

/-! ## closed forms of the bulk operations -/

theorem setAll_apply (l : List Nat) (v : Bits) (x : Nat) : setAll v l x = (v x || decide (x ∈ l)) := by
  induction l generalizing v with
  | nil => simp [setAll]
  | cons a l ih =>
    have : setAll v (a :: l) = setAll (setBit v a) l := rfl
    rw [this, ih]
    by_cases h : x = a <;> simp [setBit, h]

theorem unsetAll_apply (l : List Nat) (v : Bits) (x : Nat) : unsetAll v l x = (v x && !decide (x ∈ l)) := by
  induction l generalizing v with
  | nil => simp [unsetAll]
  | cons a l ih =>
    have : unsetAll v (a :: l) = unsetAll (unsetBit v a) l := rfl
    rw [this, ih]
    by_cases h : x = a <;> simp [unsetBit, h]

theorem bzeroAll_apply (rs : List (Nat × Nat)) (v : Bits) (x : Nat) :
    (rs.foldl (fun v r => bzero v r.1 r.2) v) x = (v x && !inAny rs x) := by
  induction rs generalizing v with
  | nil => simp [inAny]
  | cons r rs ih =>
    simp only [List.foldl_cons, ih, inAny, List.any_cons, bzero, inRange]
    by_cases h : r.1 ≤ x ∧ x < r.1 + r.2 <;> simp [h]

theorem marksAfter_apply (objs : List GObj) (x : Nat) : marksAfter objs x = decide (x ∈ liveFwd objs) := by
  simp [marksAfter, setAll_apply]

theorem sweepBlock_eq (objs : List GObj) (v : Bits) (b : Nat × Nat) (x : Nat) :
    sweepBlock (marksAfter objs) (liveFwd objs) v b x =
      (if inRange b x then marksAfter objs x else v x) := by
  unfold sweepBlock
  by_cases hocc : (liveFwd objs).any (inRange b) = true
  · rw [if_pos hocc]
    by_cases h : b.1 ≤ x ∧ x < b.1 + b.2 <;> simp [bcopy, inRange, h]
  · rw [if_neg hocc]
    by_cases h : b.1 ≤ x ∧ x < b.1 + b.2
    · have hm : marksAfter objs x = false := by
        rw [marksAfter_apply]
        simp only [decide_eq_false_iff_not]
        intro hx
        apply hocc
        rw [List.any_eq_true]
        exact ⟨x, hx, by simp [inRange, h]⟩
      simp [bzero, inRange, h, hm]
    · simp [bzero, inRange, h]

theorem sweepBlocks_apply (objs : List GObj) (bs : List (Nat × Nat)) (v : Bits) (x : Nat) :
    (bs.foldl (sweepBlock (marksAfter objs) (liveFwd objs)) v) x =
      (if inAny bs x then marksAfter objs x else v x) := by
  induction bs generalizing v with
  | nil => simp [inAny]
  | cons b bs ih =>
    simp only [List.foldl_cons, ih, inAny, List.any_cons, sweepBlock_eq]
    by_cases h1 : bs.any (inRange · x) = true <;> by_cases h2 : inRange b x = true <;> simp [h1, h2]

/-! ## the policies -/

theorem mem_liveFwd {objs : List GObj} {x : Nat} : x ∈ liveFwd objs ↔ ∃ o ∈ objs, o.live = true ∧ o.fwd = x := by
  simp [liveFwd, and_assoc]

theorem mem_deadRefs {objs : List GObj} {x : Nat} : x ∈ deadRefs objs ↔ ∃ o ∈ objs, o.live = false ∧ o.ref = x := by
  simp [deadRefs, and_assoc]

theorem mem_refs {objs : List GObj} {x : Nat} : x ∈ refs objs ↔ ∃ o ∈ objs, o.ref = x := by
  simp [refs]

/-- CopySpace (from-space): every object lies in an allocated region of the from-space, every copy outside. -/
theorem copy_exact (v : Bits) (objs : List GObj) (fr : List (Nat × Nat))
    (hex : ∀ x, v x = true ↔ x ∈ refs objs)
    (hin : ∀ o ∈ objs, inAny fr o.ref = true) (hout : ∀ o ∈ objs, o.live = true → inAny fr o.fwd = false) :
    ∀ x, gcCopy v objs fr x = true ↔ x ∈ liveFwd objs := by
  intro x
  simp only [gcCopy, bzeroAll_apply, setAll_apply, Bool.and_eq_true, Bool.or_eq_true, decide_eq_true_eq,
    Bool.not_eq_true']
  constructor
  · rintro ⟨h | h, hn⟩
    · obtain ⟨o, ho, rfl⟩ := mem_refs.1 ((hex x).1 h)
      rw [hin o ho] at hn; cases hn
    · exact h
  · intro h
    obtain ⟨o, ho, hl, rfl⟩ := mem_liveFwd.1 h
    exact ⟨Or.inr h, hout o ho hl⟩

theorem eq_of_ref_eq {objs : List GObj} (hnd : (refs objs).Nodup) {a b : GObj} (ha : a ∈ objs) (hb : b ∈ objs)
    (h : a.ref = b.ref) : a = b := by
  induction objs with
  | nil => cases ha
  | cons o os ih =>
    simp only [refs, List.map_cons, List.nodup_cons] at hnd
    rcases List.mem_cons.1 ha with rfl | ha' <;> rcases List.mem_cons.1 hb with rfl | hb'
    · rfl
    · exact absurd (List.mem_map.2 ⟨b, hb', h.symm⟩) hnd.1
    · exact absurd (List.mem_map.2 ⟨a, ha', h⟩) hnd.1
    · exact ih hnd.2 ha' hb'

/-- native MarkSweepSpace / LargeObjectSpace: objects do not move, references are distinct. -/
theorem sweep_exact (v : Bits) (objs : List GObj) (hex : ∀ x, v x = true ↔ x ∈ refs objs)
    (hfix : ∀ o ∈ objs, o.fwd = o.ref) (hnd : (refs objs).Nodup) :
    ∀ x, gcSweep v objs x = true ↔ x ∈ liveFwd objs := by
  intro x
  simp only [gcSweep, unsetAll_apply, Bool.and_eq_true, Bool.not_eq_true', decide_eq_false_iff_not]
  constructor
  · rintro ⟨h, hn⟩
    obtain ⟨o, ho, rfl⟩ := mem_refs.1 ((hex x).1 h)
    refine mem_liveFwd.2 ⟨o, ho, ?_, hfix o ho⟩
    cases hl : o.live with
    | true => rfl
    | false => exact absurd (mem_deadRefs.2 ⟨o, ho, hl, rfl⟩) hn
  · intro h
    obtain ⟨o, ho, hl, rfl⟩ := mem_liveFwd.1 h
    refine ⟨(hex _).2 (mem_refs.2 ⟨o, ho, (hfix o ho).symm⟩), ?_⟩
    intro hd
    obtain ⟨o', ho', hl', he⟩ := mem_deadRefs.1 hd
    have : o' = o := eq_of_ref_eq hnd ho' ho (by rw [he, hfix o ho])
    subst this
    rw [hl] at hl'; cases hl'

/-- ImmixSpace: every object and every copy lies in an allocated block of the space. -/
theorem immix_exact (v : Bits) (objs : List GObj) (blocks : List (Nat × Nat))
    (hex : ∀ x, v x = true ↔ x ∈ refs objs)
    (hin : ∀ o ∈ objs, inAny blocks o.ref = true) (hfin : ∀ o ∈ objs, o.live = true → inAny blocks o.fwd = true) :
    ∀ x, gcImmix v objs blocks x = true ↔ x ∈ liveFwd objs := by
  intro x
  simp only [gcImmix, sweepBlocks_apply, marksAfter_apply, setAll_apply]
  by_cases hb : inAny blocks x = true
  · simp [hb]
  · simp only [hb, Bool.false_eq_true, if_false, Bool.or_eq_true, decide_eq_true_eq]
    constructor
    · rintro (h | h)
      · obtain ⟨o, ho, rfl⟩ := mem_refs.1 ((hex x).1 h)
        exact absurd (hin o ho) hb
      · exact h
    · exact Or.inr

/-! ### line-level `Block::sweep`: reusable or not, a surviving block's VO bits are refreshed -/

theorem markedLines_eq_zero (lm : Nat → Bool) (n : Nat) : markedLines lm n = 0 ↔ ∀ k, k < n → lm k = false := by
  simp only [markedLines, List.length_eq_zero_iff, List.filter_eq_nil_iff, List.mem_range, Bool.not_eq_true]

theorem markedLines_full (lm : Nat → Bool) (n : Nat) (h : ∀ k, k < n → lm k = true) : markedLines lm n = n := by
  have : (List.range n).filter lm = List.range n := List.filter_eq_self.2 (fun k hk => h k (List.mem_range.1 hk))
  simp [markedLines, this]

/-- the VO effect of the line-level sweep does not depend on reusability: it is `sweepBlock`'s, provided the line
marks agree with the mark bits on "the block holds a live object" (`mark_lines_for_object` marks the lines of every
object that is marked or copied into the block). -/
theorem sweepBlockLines_vo (objs : List GObj) (lm : Nat → Bool) (n : Nat) (v : Bits) (b : Nat × Nat)
    (hlm : (∃ k, k < n ∧ lm k = true) ↔ (liveFwd objs).any (inRange b) = true) :
    (sweepBlockLines (marksAfter objs) lm n v b).1 = sweepBlock (marksAfter objs) (liveFwd objs) v b := by
  unfold sweepBlockLines sweepBlock
  by_cases h0 : markedLines lm n = 0
  · have hno : ¬ (liveFwd objs).any (inRange b) = true := by
      intro hl
      obtain ⟨k, hk, hm⟩ := hlm.2 hl
      rw [(markedLines_eq_zero lm n).1 h0 k hk] at hm; cases hm
    simp only [h0, if_true, if_neg hno]
  · have hyes : (liveFwd objs).any (inRange b) = true := by
      apply hlm.1
      by_contra hc
      exact h0 ((markedLines_eq_zero lm n).2 fun k hk => by
        cases hv : lm k with
        | false => rfl
        | true => exact absurd ⟨k, hk, hv⟩ hc)
    simp only [h0, if_false, if_pos hyes]
    split_ifs <;> rfl

theorem gcImmixLines_eq (v : Bits) (objs : List GObj) (blocks : List (Nat × Nat)) (lm : Nat × Nat → Nat → Bool) (n : Nat)
    (hlm : ∀ b ∈ blocks, (∃ k, k < n ∧ lm b k = true) ↔ (liveFwd objs).any (inRange b) = true) :
    gcImmixLines v objs blocks lm n = gcImmix v objs blocks := by
  unfold gcImmixLines gcImmix
  generalize setAll v (liveFwd objs) = w
  induction blocks generalizing w with
  | nil => rfl
  | cons b bs ih =>
    simp only [List.foldl_cons]
    rw [sweepBlockLines_vo objs (lm b) n w b (hlm b List.mem_cons_self)]
    exact ih (fun b' hb' => hlm b' (List.mem_cons_of_mem _ hb')) _

/-- **C07 (Immix, line level)**: exactness holds for the line-level sweep of every block, reusable or not. -/
theorem immix_lines_exact (v : Bits) (objs : List GObj) (blocks : List (Nat × Nat)) (lm : Nat × Nat → Nat → Bool) (n : Nat)
    (hex : ∀ x, v x = true ↔ x ∈ refs objs)
    (hin : ∀ o ∈ objs, inAny blocks o.ref = true) (hfin : ∀ o ∈ objs, o.live = true → inAny blocks o.fwd = true)
    (hlm : ∀ b ∈ blocks, (∃ k, k < n ∧ lm b k = true) ↔ (liveFwd objs).any (inRange b) = true) :
    ∀ x, gcImmixLines v objs blocks lm n x = true ↔ x ∈ liveFwd objs := by
  rw [gcImmixLines_eq v objs blocks lm n hlm]
  exact immix_exact v objs blocks hex hin hfin

/-- **C07 (completely full block)**: a block that ends the collection with NO free line — all `n` lines marked, so
`Block::sweep` answers `NoReuse` and does not push it to the reusable blocks — still has exactly the survivors' VO
bits afterwards: a dead object that shares its line(s) with survivors is no longer reported. -/
theorem immix_exact_full_block (v : Bits) (objs : List GObj) (blocks : List (Nat × Nat)) (lm : Nat × Nat → Nat → Bool) (n : Nat)
    (hex : ∀ x, v x = true ↔ x ∈ refs objs)
    (hin : ∀ o ∈ objs, inAny blocks o.ref = true) (hfin : ∀ o ∈ objs, o.live = true → inAny blocks o.fwd = true)
    (hlm : ∀ b ∈ blocks, (∃ k, k < n ∧ lm b k = true) ↔ (liveFwd objs).any (inRange b) = true)
    (b : Nat × Nat) (hn : 0 < n) (hfull : ∀ k, k < n → lm b k = true) :
    (∀ w, (sweepBlockLines (marksAfter objs) (lm b) n w b).2 = .noReuse) ∧
    (∀ x, inRange b x = true → (gcImmixLines v objs blocks lm n x = true ↔ x ∈ liveFwd objs)) ∧
    (∀ d ∈ objs, d.live = false → d.ref ∉ liveFwd objs → gcImmixLines v objs blocks lm n d.ref = false) := by
  refine ⟨fun w => ?_, fun x _ => immix_lines_exact v objs blocks lm n hex hin hfin hlm x, fun d _ _ hd => ?_⟩
  · unfold sweepBlockLines
    have hm := markedLines_full (lm b) n hfull
    have h0 : ¬ n = 0 := by omega
    simp [hm, h0]
  · cases h : gcImmixLines v objs blocks lm n d.ref with
    | false => rfl
    | true => exact absurd ((immix_lines_exact v objs blocks lm n hex hin hfin hlm d.ref).1 h) hd

theorem compact_fold (objs : List GObj) (v : Bits) (hs : (refs objs).Pairwise (· < ·))
    (hle : ∀ o ∈ objs, o.live = true → o.fwd ≤ o.ref) (x : Nat) :
    gcCompact v objs x = true ↔ (x ∈ liveFwd objs ∨ (v x = true ∧ x ∉ refs objs)) := by
  induction objs generalizing v with
  | nil => simp [gcCompact, liveFwd, refs]
  | cons o objs ih =>
    have hs' : (refs objs).Pairwise (· < ·) := (List.pairwise_cons.1 hs).2
    have hgt : ∀ r ∈ refs objs, o.ref < r := (List.pairwise_cons.1 hs).1
    have hle' : ∀ o' ∈ objs, o'.live = true → o'.fwd ≤ o'.ref := fun o' h => hle o' (List.mem_cons_of_mem _ h)
    have step : gcCompact v (o :: objs) = gcCompact (if o.live then setBit (unsetBit v o.ref) o.fwd else unsetBit v o.ref) objs := by
      simp [gcCompact]
    have hrf : refs (o :: objs) = o.ref :: refs objs := rfl
    rw [step, ih _ hs' hle', hrf]
    cases hl : o.live with
    | false =>
      have hlf : liveFwd (o :: objs) = liveFwd objs := by simp [liveFwd, hl]
      rw [hlf]
      simp only [Bool.false_eq_true, if_false, List.mem_cons, not_or]
      by_cases hx : x = o.ref
      · subst hx; simp [unsetBit]
      · simp [unsetBit, hx]
    | true =>
      have hlf : liveFwd (o :: objs) = o.fwd :: liveFwd objs := by simp [liveFwd, hl]
      have hfr : o.fwd ∉ refs objs := fun hm => by
        have := hgt _ hm
        have := hle o (List.mem_cons_self) hl
        omega
      rw [hlf]
      simp only [if_true, List.mem_cons, not_or]
      by_cases hx : x = o.fwd
      · subst hx
        constructor
        · intro _; exact Or.inl (Or.inl rfl)
        · intro _; exact Or.inr ⟨by simp [setBit], hfr⟩
      · by_cases hx2 : x = o.ref
        · subst hx2; simp [setBit, unsetBit, hx]
        · simp [setBit, unsetBit, hx, hx2]

/-- MarkCompactSpace: the linear scan visits the objects in address order and slides them downwards. -/
theorem compact_exact (v : Bits) (objs : List GObj) (hex : ∀ x, v x = true ↔ x ∈ refs objs)
    (hs : (refs objs).Pairwise (· < ·)) (hle : ∀ o ∈ objs, o.live = true → o.fwd ≤ o.ref) :
    ∀ x, gcCompact v objs x = true ↔ x ∈ liveFwd objs := by
  intro x
  rw [compact_fold objs v hs hle x]
  constructor
  · rintro (h | ⟨h, hn⟩)
    · exact h
    · exact absurd ((hex x).1 h) hn
  · exact Or.inl

/-- CompressorSpace: every object lies in a region that is zeroed before the new bits are set. -/
theorem compressor_exact (v : Bits) (objs : List GObj) (rs : List (Nat × Nat))
    (hex : ∀ x, v x = true ↔ x ∈ refs objs) (hin : ∀ o ∈ objs, inAny rs o.ref = true) :
    ∀ x, gcCompressor v objs rs x = true ↔ x ∈ liveFwd objs := by
  intro x
  simp only [gcCompressor, setAll_apply, bzeroAll_apply, Bool.or_eq_true, Bool.and_eq_true, decide_eq_true_eq,
    Bool.not_eq_true']
  constructor
  · rintro (⟨h, hn⟩ | h)
    · obtain ⟨o, ho, rfl⟩ := mem_refs.1 ((hex x).1 h)
      rw [hin o ho] at hn; cases hn
    · exact h
  · exact Or.inr

/-- The policies and their side conditions, in one statement. -/
inductive Policy where
  | copy (fromRegions : List (Nat × Nat))
  | sweep
  | immix (blocks : List (Nat × Nat))
  | compact
  | compressor (regions : List (Nat × Nat))
  | immortal

def gc : Policy → Bits → List GObj → Bits
  | .copy fr, v, objs => gcCopy v objs fr
  | .sweep, v, objs => gcSweep v objs
  | .immix bs, v, objs => gcImmix v objs bs
  | .compact, v, objs => gcCompact v objs
  | .compressor rs, v, objs => gcCompressor v objs rs
  | .immortal, v, _ => v

/-- what must be reported afterwards: the new references of the traced objects; everything for a never-collected space -/
def survivors : Policy → List GObj → List Nat
  | .immortal, objs => refs objs
  | _, objs => liveFwd objs

def WF : Policy → List GObj → Prop
  | .copy fr, objs => (∀ o ∈ objs, inAny fr o.ref = true) ∧ (∀ o ∈ objs, o.live = true → inAny fr o.fwd = false)
  | .sweep, objs => (∀ o ∈ objs, o.fwd = o.ref) ∧ (refs objs).Nodup
  | .immix bs, objs => (∀ o ∈ objs, inAny bs o.ref = true) ∧ (∀ o ∈ objs, o.live = true → inAny bs o.fwd = true)
  | .compact, objs => (refs objs).Pairwise (· < ·) ∧ (∀ o ∈ objs, o.live = true → o.fwd ≤ o.ref)
  | .compressor rs, objs => ∀ o ∈ objs, inAny rs o.ref = true
  | .immortal, _ => True

/-- **C07 (1)** After a full-heap collection the VO bits of a space are exactly the (new) references of the
objects that survived; a never-collected space keeps exactly its objects. -/
theorem vo_exact_after_full_gc (p : Policy) (v : Bits) (objs : List GObj)
    (hex : ∀ x, v x = true ↔ x ∈ refs objs) (hwf : WF p objs) :
    ∀ x, gc p v objs x = true ↔ x ∈ survivors p objs := by
  cases p with
  | copy fr => exact copy_exact v objs fr hex hwf.1 hwf.2
  | sweep => exact sweep_exact v objs hex hwf.1 hwf.2
  | immix bs => exact immix_exact v objs bs hex hwf.1 hwf.2
  | compact => exact compact_exact v objs hex hwf.1 hwf.2
  | compressor rs => exact compressor_exact v objs rs hex hwf
  | immortal => exact hex

/-- no reclaimed object is still reported: a dead object's old reference carries no bit afterwards unless a survivor
now lives there -/
theorem dead_not_reported (p : Policy) (v : Bits) (objs : List GObj)
    (hex : ∀ x, v x = true ↔ x ∈ refs objs) (hwf : WF p objs) (x : Nat) (hx : x ∉ survivors p objs) :
    gc p v objs x = false := by
  cases h : gc p v objs x with
  | false => rfl
  | true => exact absurd ((vo_exact_after_full_gc p v objs hex hwf x).1 h) hx

/-- `post_alloc` keeps exactness -/
theorem postAlloc_exact (v : Bits) (S : List Nat) (hex : ∀ x, v x = true ↔ x ∈ S) (r : Nat) :
    ∀ x, postAlloc v r x = true ↔ x ∈ r :: S := by
  intro x
  by_cases h : x = r <;> simp [postAlloc, setBit, h, hex]

/-! ## enumeration -/

/-- the word grid of a region `(start, number of words)` -/
def grid (r : Nat × Nat) (x : Nat) : Prop := ∃ k, k < r.2 ∧ x = r.1 + 8 * k

theorem mem_scanRange (v : Bits) (s n x : Nat) : x ∈ scanRange v s n ↔ v x = true ∧ grid (s, n) x := by
  induction n generalizing s with
  | zero => simp [scanRange, grid]
  | succ n ih =>
    simp only [scanRange, List.mem_append, ih]
    constructor
    · rintro (h | ⟨hv, k, hk, rfl⟩)
      · by_cases hs : v s = true
        · simp only [hs, if_true, List.mem_singleton] at h
          subst h
          exact ⟨hs, 0, Nat.succ_pos _, by simp⟩
        · simp [hs] at h
      · exact ⟨hv, k + 1, Nat.succ_lt_succ hk, by simp only; omega⟩
    · rintro ⟨hv, k, hk, rfl⟩
      cases k with
      | zero => left; simp at hv ⊢; simp [hv]
      | succ k => right; exact ⟨hv, k, Nat.lt_of_succ_lt_succ hk, by simp only; omega⟩

theorem scanRange_nodup (v : Bits) (s n : Nat) : (scanRange v s n).Nodup := by
  induction n generalizing s with
  | zero => simp [scanRange]
  | succ n ih =>
    simp only [scanRange]
    refine List.nodup_append.2 ⟨?_, ih _, ?_⟩
    · split_ifs <;> simp
    · intro a ha b hb hab
      have : a = s := by split_ifs at ha <;> simp_all
      subst this
      subst hab
      obtain ⟨_, k, _, hk⟩ := (mem_scanRange v (a + 8) n a).1 hb
      simp only at hk
      omega

theorem count_one_of_mem {l : List Nat} (d : l.Nodup) {a : Nat} (h : a ∈ l) : l.count a = 1 :=
  List.count_eq_one_of_mem d h

open Classical in
theorem count_scanRange (v : Bits) (s n x : Nat) :
    (scanRange v s n).count x = if v x = true ∧ grid (s, n) x then 1 else 0 := by
  split_ifs with h
  · exact count_one_of_mem (scanRange_nodup v s n) ((mem_scanRange v s n x).2 h)
  · exact List.count_eq_zero_of_not_mem (fun hm => h ((mem_scanRange v s n x).1 hm))

open Classical in
/-- **C07 (2)** `enumerate_objects` visits every object exactly once and nothing else: the scanned regions are
pairwise disjoint (blocks / allocated regions of one space never overlap, spaces are disjoint), the treadmill has
no duplicates (C36) and its objects lie outside the scanned regions. -/
theorem enumerate_exact_once (v : Bits) (regions : List (Nat × Nat)) (treadmill : List Nat)
    (hdis : regions.Pairwise (fun a b => ∀ x, grid a x → ¬ grid b x))
    (htn : treadmill.Nodup) (hto : ∀ t ∈ treadmill, ∀ r ∈ regions, ¬ grid r t) (x : Nat) :
    (enumerate v regions treadmill).count x =
      if (v x = true ∧ ∃ r ∈ regions, grid r x) ∨ x ∈ treadmill then 1 else 0 := by
  have hreg : ∀ (rs : List (Nat × Nat)), rs.Pairwise (fun a b => ∀ x, grid a x → ¬ grid b x) →
      (rs.flatMap fun r => scanRange v r.1 r.2).count x = if v x = true ∧ ∃ r ∈ rs, grid r x then 1 else 0 := by
    intro rs
    induction rs with
    | nil => simp
    | cons r rs ih =>
      intro hp
      have hp' := (List.pairwise_cons.1 hp).2
      have hd := (List.pairwise_cons.1 hp).1
      simp only [List.flatMap_cons, List.count_append, ih hp', count_scanRange]
      by_cases hv : v x = true
      · by_cases h1 : grid r x
        · have h2 : ¬ ∃ r' ∈ rs, grid r' x := fun ⟨r', hr', hg⟩ => hd r' hr' x h1 hg
          have h3 : ∃ r' ∈ r :: rs, grid r' x := ⟨r, List.mem_cons_self, h1⟩
          simp [hv, h1, h2, h3]
        · by_cases h2 : ∃ r' ∈ rs, grid r' x
          · have h3 : ∃ r' ∈ r :: rs, grid r' x := by
              obtain ⟨r', hr', hg⟩ := h2; exact ⟨r', List.mem_cons_of_mem _ hr', hg⟩
            simp [hv, h1, h2, h3]
          · have h3 : ¬ ∃ r' ∈ r :: rs, grid r' x := by
              rintro ⟨r', hr', hg⟩
              rcases List.mem_cons.1 hr' with rfl | hr'
              · exact h1 hg
              · exact h2 ⟨r', hr', hg⟩
            simp [hv, h1, h2, h3]
      · simp [hv]
  simp only [enumerate, List.count_append, hreg regions hdis]
  by_cases ht : x ∈ treadmill
  · have hnr : ¬ (v x = true ∧ ∃ r ∈ regions, grid r x) := fun ⟨_, r, hr, hg⟩ => hto x ht r hr hg
    rw [if_neg hnr, if_pos (Or.inr ht), count_one_of_mem htn ht]
  · simp only [ht, or_false, List.count_eq_zero_of_not_mem ht, Nat.add_zero]

/-! ## the hypotheses are satisfiable: a concrete from-space with one survivor, a compaction of two objects -/

def demoCopy : List GObj := [⟨0x1008, true, 0x9008⟩, ⟨0x1040, false, 0x1040⟩]
example : ∀ x, gc (.copy [(0x1000, 0x1000)]) (fun x => decide (x ∈ refs demoCopy)) demoCopy x = true ↔ x ∈ [0x9008] :=
  vo_exact_after_full_gc _ _ _ (by intro x; simp) ⟨by decide, by decide⟩

def demoCompact : List GObj := [⟨16, false, 16⟩, ⟨48, true, 16⟩, ⟨80, true, 56⟩]
example : ∀ x, gc .compact (fun x => decide (x ∈ refs demoCompact)) demoCompact x = true ↔ x ∈ [16, 56] :=
  vo_exact_after_full_gc _ _ _ (by intro x; simp) ⟨by decide, by decide⟩

/-- a "block" of two 256-byte lines at 0x8000 completely filled with four 128-byte objects, the first of each line
survives, the second is dead: both lines stay marked (no free line, `NoReuse`), the dead objects lose their bit -/
def demoFull : List GObj := [⟨0x8008, true, 0x8008⟩, ⟨0x8088, false, 0x8088⟩, ⟨0x8108, true, 0x8108⟩, ⟨0x8188, false, 0x8188⟩]
example : (∀ w, (sweepBlockLines (marksAfter demoFull) (fun _ => true) 2 w (0x8000, 512)).2 = .noReuse) ∧
    (∀ x, inRange (0x8000, 512) x = true →
      (gcImmixLines (fun x => decide (x ∈ refs demoFull)) demoFull [(0x8000, 512)] (fun _ _ => true) 2 x = true ↔ x ∈ liveFwd demoFull)) ∧
    (∀ d ∈ demoFull, d.live = false → d.ref ∉ liveFwd demoFull →
      gcImmixLines (fun x => decide (x ∈ refs demoFull)) demoFull [(0x8000, 512)] (fun _ _ => true) 2 d.ref = false) :=
  immix_exact_full_block _ demoFull [(0x8000, 512)] (fun _ _ => true) 2 (by intro x; simp) (by decide) (by decide)
    (by intro b hb; simp only [List.mem_singleton] at hb; subst hb; exact ⟨fun _ => by decide, fun _ => ⟨0, by decide, rfl⟩⟩)
    (0x8000, 512) (by decide) (fun _ _ => rfl)
example : gcImmixLines (fun x => decide (x ∈ refs demoFull)) demoFull [(0x8000, 512)] (fun _ _ => true) 2 0x8088 = false ∧
    gcImmixLines (fun x => decide (x ∈ refs demoFull)) demoFull [(0x8000, 512)] (fun _ _ => true) 2 0x8108 = true := by decide

example : enumerate (setAll (fun _ => false) [8, 24, 4096]) [(0, 4), (4096, 2)] [70000] = [8, 24, 4096, 70000] := by decide

end Mmtk.VO
