import MmtkModel.Model.MemBalancer
/-!
# C38 — Dynamic heap size stays within its bounds

*Statement*: with `DynamicHeapSize(min, max)` the current heap size reported to the binding stays
within `[min, max]` pages after any history of GC starts, releases, ends and pending-allocation
notifications; with `FixedHeapSize` it never changes.

The floating-point value `e` and the page counts `live`, `extra` are universally quantified
(arbitrary naturals), so the bound holds whatever the statistics were — including NaN (`e = 0`),
+∞ (`e = 2^64 - 1`) and sums that wrap in the release profile.
-/
namespace Mmtk.MemBalancer

/-- The invariant: bounds are the configured ones and the current size lies between them. -/
def InBounds (mn mx : Nat) (t : Trig) : Prop :=
  t.minPages = mn ∧ t.maxPages = mx ∧ mn ≤ t.current ∧ t.current ≤ mx

theorem clamp_bounds {v lo hi r : Nat} (h : clamp v lo hi = some r) : lo ≤ hi ∧ lo ≤ r ∧ r ≤ hi := by
  unfold clamp at h
  split at h
  · injection h with h
    subst h
    refine ⟨by assumption, ?_, ?_⟩ <;> (split <;> try split) <;> omega
  · contradiction

/-- `clamp` is the identity on values already in range, and total when `lo ≤ hi`. -/
theorem clamp_of_le {v lo hi : Nat} (h : lo ≤ hi) :
    ∃ r, clamp v lo hi = some r ∧ (lo ≤ v → v ≤ hi → r = v) := by
  unfold clamp
  refine ⟨_, by simp [h]; rfl, ?_⟩
  intro h1 h2
  split <;> try split
  all_goals omega

theorem compute_inBounds {debug : Bool} {t t' : Trig} {live e extra mn mx : Nat}
    (hb : t.minPages = mn ∧ t.maxPages = mx)
    (h : computeNewHeapLimit debug t live e extra = some t') :
    InBounds mn mx t' ∧ t'.pending = t.pending := by
  unfold computeNewHeapLimit at h
  split at h
  · contradiction
  · split at h
    · contradiction
    · rename_i newHeap hc
      injection h with h
      subst h
      have := clamp_bounds hc
      exact ⟨⟨hb.1, hb.2, by simp only; omega, by simp only; omega⟩, rfl⟩

theorem step_inBounds {debug : Bool} {t t' : Trig} {ev : Ev} {mn mx : Nat}
    (hi : InBounds mn mx t) (h : step debug t ev = some t') : InBounds mn mx t' := by
  cases ev with
  | pending p => simp only [step, Option.some.injEq] at h; subst h; exact hi
  | gcStart => simp only [step, Option.some.injEq] at h; subst h; exact hi
  | gcRelease => simp only [step, Option.some.injEq] at h; subst h; exact hi
  | gcEnd c =>
    cases c with
    | none => simp only [step, Option.some.injEq] at h; subst h; exact hi
    | some c =>
      obtain ⟨live, e, extra⟩ := c
      simp only [step] at h
      split at h
      · contradiction
      · rename_i t'' hc
        injection h with h
        subst h
        exact (compute_inBounds ⟨hi.1, hi.2.1⟩ hc).1

theorem run_inBounds {debug : Bool} {mn mx : Nat} (evs : List Ev) :
    ∀ {t t' : Trig}, InBounds mn mx t → run debug t evs = some t' → InBounds mn mx t' := by
  induction evs with
  | nil => intro t t' hi h; simp only [run, Option.some.injEq] at h; subst h; exact hi
  | cons ev evs ih =>
    intro t t' hi h
    simp only [run] at h
    split at h
    · contradiction
    · rename_i t1 hs
      exact ih (step_inBounds hi hs) h

/-- **C38 (membalancer_in_bounds)** for `min ≤ max`, after ANY history of events that the code
survives (in either profile, wrapping arithmetic included) the reported heap size satisfies
`min ≤ current ≤ max`, the configured bounds never change, and `get_max_heap_size` is `max`. -/
theorem membalancer_in_bounds (debug : Bool) (mn mx : Nat) (hmm : mn ≤ mx) (evs : List Ev) (t : Trig)
    (h : run debug (new mn mx) evs = some t) :
    mn ≤ currentHeapSize t ∧ currentHeapSize t ≤ mx ∧ maxHeapSize t = mx ∧ t.minPages = mn := by
  have h0 : InBounds mn mx (new mn mx) := ⟨rfl, rfl, Nat.le_refl _, hmm⟩
  obtain ⟨h1, h2, h3, h4⟩ := run_inBounds evs h0 h
  exact ⟨h3, h4, h2, h1⟩

/-- The bound does not even need `min ≤ max` as a hypothesis when at least one limit was computed:
`clamp` asserts it. (With `min > max` the initial state `current = min` is itself out of range;
option validation rejects such a configuration — C39.) -/
theorem membalancer_in_bounds_after_compute (debug : Bool) (t t' : Trig) (live e extra : Nat)
    (h : step debug t (.gcEnd (some (live, e, extra))) = some t') :
    t.minPages ≤ t'.current ∧ t'.current ≤ t.maxPages ∧ t.minPages ≤ t.maxPages ∧ t'.pending = 0 := by
  simp only [step] at h
  split at h
  · contradiction
  · rename_i t'' hc
    injection h with h
    subst h
    unfold computeNewHeapLimit at hc
    split at hc
    · contradiction
    · split at hc
      · contradiction
      · rename_i nh hcl
        injection hc with hc
        subst hc
        have := clamp_bounds hcl
        exact ⟨by simp only; omega, by simp only; omega, this.1, rfl⟩

theorem cadd_release_total (a b : Nat) : ∃ s, cadd false a b = some s := by
  unfold cadd
  split
  · exact ⟨_, rfl⟩
  · exact ⟨_, rfl⟩

theorem compute_release_total (t : Trig) (live e extra : Nat) (hle : t.minPages ≤ t.maxPages) :
    ∃ t', computeNewHeapLimit false t live e extra = some t' := by
  obtain ⟨s1, h1⟩ := cadd_release_total live e
  obtain ⟨s2, h2⟩ := cadd_release_total s1 extra
  obtain ⟨s3, h3⟩ := cadd_release_total s2 t.pending
  obtain ⟨r, hr, _⟩ := clamp_of_le (v := s3) hle
  exact ⟨{ t with current := r }, by simp only [computeNewHeapLimit, optimalHeap, h1, h2, h3, hr]⟩

/-- **C38 (release profile is total)** with `min ≤ max` the release build never panics: every
history has an outcome (sums wrap, the clamp still applies). -/
theorem membalancer_release_total (mn mx : Nat) (hmm : mn ≤ mx) (evs : List Ev) :
    ∃ t, run false (new mn mx) evs = some t := by
  have key : ∀ (evs : List Ev) (t : Trig), InBounds mn mx t → ∃ t', run false t evs = some t' := by
    intro evs
    induction evs with
    | nil => intro t _; exact ⟨t, rfl⟩
    | cons ev evs ih =>
      intro t hi
      have hstep : ∃ t1, step false t ev = some t1 := by
        cases ev with
        | pending p => exact ⟨_, rfl⟩
        | gcStart => exact ⟨_, rfl⟩
        | gcRelease => exact ⟨_, rfl⟩
        | gcEnd c =>
          cases c with
          | none => exact ⟨_, rfl⟩
          | some c =>
            obtain ⟨live, e, extra⟩ := c
            have hle : t.minPages ≤ t.maxPages := by rw [hi.1, hi.2.1]; exact hmm
            obtain ⟨t2, h2⟩ := compute_release_total t live e extra hle
            exact ⟨{ t2 with pending := 0 }, by simp only [step, h2]⟩
      obtain ⟨t1, h1⟩ := hstep
      obtain ⟨t', h'⟩ := ih t1 (step_inBounds hi h1)
      exact ⟨t', by simp only [run, h1, h']⟩
  exact key evs _ ⟨rfl, rfl, Nat.le_refl _, hmm⟩

/-- **C38 (no_overflow_if)** the debug profile computes a limit without panicking whenever the
four summands are below `2^62` (page counts of any realistic heap; `e` is below `2^62` unless the
statistics are degenerate — a ratio of ∞ saturates `e` to `2^64-1`, and then the debug build's
checked `+` panics: see the `example` below) and `min ≤ max`; the result is the un-wrapped sum,
clamped. -/
theorem no_overflow_if (debug : Bool) (t : Trig) (live e extra : Nat) (hmm : t.minPages ≤ t.maxPages)
    (h1 : live < 2^62) (h2 : e < 2^62) (h3 : extra < 2^62) (h4 : t.pending < 2^62) :
    ∃ t', computeNewHeapLimit debug t live e extra = some t' ∧
      clamp (live + e + extra + t.pending) t.minPages t.maxPages = some t'.current := by
  have a1 : live + e < 2^64 := by omega
  have a2 : live + e + extra < 2^64 := by omega
  have a3 : live + e + extra + t.pending < 2^64 := by omega
  simp only [computeNewHeapLimit, optimalHeap, cadd, a1, a2, a3, if_true, clamp, hmm]
  exact ⟨_, rfl, rfl⟩

/-- Pending allocations are taken into account: if the optimal size fits under `max`, the new
limit covers `live + extra + pending`. -/
theorem limit_covers_pending (debug : Bool) (t t' : Trig) (live e extra : Nat)
    (hno : live + e + extra + t.pending < 2^64) (hfit : live + e + extra + t.pending ≤ t.maxPages)
    (h : computeNewHeapLimit debug t live e extra = some t') :
    live + extra + t.pending ≤ t'.current := by
  have a1 : live + e < 2^64 := by omega
  have a2 : live + e + extra < 2^64 := by omega
  simp only [computeNewHeapLimit, optimalHeap, cadd, a1, a2, hno, if_true] at h
  split at h
  · contradiction
  · rename_i nh hc
    injection h with h
    subst h
    have hb := clamp_bounds hc
    obtain ⟨r, hr, hid⟩ := clamp_of_le (v := live + e + extra + t.pending) hb.1
    rw [hr] at hc
    injection hc with hc
    subst hc
    simp only
    by_cases hlo : t.minPages ≤ live + e + extra + t.pending
    · rw [hid hlo hfit]; omega
    · omega

/-- **C38 (fixed_never_changes)** a fixed-size trigger reports the same size after any history. -/
theorem fixed_never_changes (t : Fixed) (evs : List Ev) :
    Fixed.run t evs = t ∧ Fixed.currentHeapSize (Fixed.run t evs) = t.totalPages ∧
    Fixed.maxHeapSize (Fixed.run t evs) = t.totalPages ∧ Fixed.canGrow (Fixed.run t evs) = false := by
  have : Fixed.run t evs = t := by
    unfold Fixed.run
    induction evs with
    | nil => rfl
    | cons ev evs ih => simpa [List.foldl, Fixed.step] using ih
  rw [this]
  exact ⟨rfl, rfl, rfl, rfl⟩

/-! ## Hypotheses are satisfiable; boundary examples -/

/-- a history with pending pages, a nursery GC, and two limit computations (NaN → `e = 0`;
+∞ → `e = 2^64 - 1` wraps in release) -/
example : run false (new 100 1000)
    [.pending 7, .gcStart, .gcRelease, .gcEnd (some (300, 0, 20)), .gcStart, .gcEnd none,
     .pending 5, .gcEnd (some (300, 2^64 - 1, 0))] =
    some { minPages := 100, maxPages := 1000, current := 304, pending := 0 } := by decide
/-- the same history panics in the debug profile at the saturated `e` (checked `+`) -/
example : run true (new 100 1000)
    [.pending 7, .gcEnd (some (300, 0, 20)), .pending 5, .gcEnd (some (300, 2^64 - 1, 0))] = none := by decide
example : run true (new 100 1000) [.pending 7, .gcEnd (some (300, 0, 20))] =
    some { minPages := 100, maxPages := 1000, current := 327, pending := 0 } := by decide
/-- `min > max`: `clamp` asserts -/
example : run false (new 10 5) [.gcEnd (some (1, 1, 1))] = none := by decide

end Mmtk.MemBalancer
