import MmtkModel.Lemmas.Sched
import MmtkModel.Lemmas.SchedLive
import MmtkModel.Lemmas.SchedExitGc
import MmtkModel.Generated.Stages
/-!
# C16 — Worker shutdown and fork round-trip every worker exactly once

Model: `Model/Sched.lean` with the goals `StopForFork` / `Shutdown`: `respond_to_requests` returns
`WakeAll`; every worker that unparks while an exit goal is current leaves its loop (`exited`) and
surrenders its `GCWorker` struct (`surrendered`, pool + 1); the `n`-th surrender completes the goal;
`respawn` moves all `n` structs back to running threads.  All theorems: every reachable state / every
transition, all interleavings, all `n ≥ 1`.

* `exit_only_on_request` — a worker is in the exited state only while an exit goal is current.
* `exit_once` — the only transitions *into* `exited` are a worker's own `park`/`wake` (from
  `parking`/`woken`, never from `exited` or `surrendered`), the only transition out of it is its own
  `surrender`, and a surrendered worker leaves that state only through `respawn`: per stop request each
  worker exits at most once and surrenders at most once.
* `surrender_once` — the pool size is exactly the number of surrendered workers (no struct twice).
* `goal_completed_once` — the exit goal is completed by exactly the transition that puts the `n`-th
  struct into the pool; afterwards no goal is current.
* `no_work_lost` — stop, surrender and respawn do not touch any bucket, local deque or designated
  queue, and the local deque inside every exited / surrendered / parked struct is empty.
* `respawn_restores` — after `respawn` every worker is at its loop head with its own (empty) deque,
  the state is `Spawned`, `parked_workers = 0`, no goal is current.
* `gc_after_fork` — the state after `respawn` is a reachable state of the same system, so every
  theorem of C14/C15 applies to the GCs that follow.
* **liveness** (`Lemmas/SchedLive.lean`: `FairRun` = weak fairness of every worker's loop actions `take`,
  `look`, `miss`, `park`, `wake`, `surrender`, `finish`):
  - `workers_exit_after_goal` — once an exit goal is current and the surrender pool is prepared (`ExitPhase`:
    every worker is `woken`, `exited` or `surrendered`, which is the state right after the last parker started
    the goal), under `FairRun` alone (any environment actions, any spurious wake-ups) the run reaches a state in
    which all `n` workers are `surrendered`; each worker goes `woken → exited → surrendered`.
  - `workers_exit_under_fairness` — from the *request*: if `Shutdown` / `StopForFork` is requested, no goal is
    current, every worker thread exists, `prepare_surrender_buffer` has been called and no Gc request is
    pending or arrives, then under `FairRun` + `FiniteSpawn` + `FiniteEnv` + `NoAssert` (the hypotheses of C14)
    the exit goal becomes current and later all `n` workers are `surrendered`.  Together with `exit_once` /
    `surrender_once`: every worker exits exactly once and surrenders exactly once.
  - `exit_hypotheses_satisfiable` — a concrete fair run satisfying every hypothesis (kernel-evaluated).
  - `exit_request_survives_gc` (`Lemmas/SchedExitGc.lean`) — the exit request arrives WHILE a GC is in progress
    (`prepare_to_fork` / `mmtk_shutdown` called during a collection; the `notify_one` of `make_request` is consumed
    by a worker that sees `current = Gc`, finds nothing and parks again).  The `park` step that completes the GC
    (`gcDone` changes) with `reqShutdown ∨ reqFork` set is the park of the last parker with the Gc goal current and
    no Gc request pending; it wakes every other worker, and afterwards either an exit goal is current and the parker
    has left its loop (`respond_to_requests` after `on_current_goal_completed`), or — concurrent work scheduled — no
    goal is current, the request flag is still set and the parker polls again.  (`onLastParked_completing`,
    `onLastParked_keeps_exit_reqs`: nothing `on_last_parked` does before `respond` touches the exit requests.)
  - `workers_exit_under_fairness_during_gc` — the combined statement: `GcPending` (a Gc request is pending or a Gc
    goal is current) and an exit request pending at the start, `prepare_surrender_buffer` called, the hypotheses of
    C14 (`FairRun`, `FiniteSpawn`, `FiniteEnv`, `NoAssert`, `mutAddOpen = false`), and no Gc request pending once
    that GC has completed.  Then the GC completes first (step `jg`, a `park` with the Gc goal current; up to it
    `gcDone` is unchanged and no exit goal is current), strictly later an exit goal is current, and finally all
    `n` workers are `surrendered`.  Proof: `gc_request_completes` (the core of C14's
    `gc_completes_under_fairness`) + `first_change` give the completing step; the invariant
    `gcPending_exitReq_step` carries the request and the pool up to it; `exit_request_survives_gc` splits into
    `workers_exit_after_goal` (goal started) and `workers_exit_under_fairness` (concurrent work: request still set).
  - `exit_during_gc_hypotheses_satisfiable` — a concrete run (request made while `ScheduleCollection` runs)
    satisfying every hypothesis (kernel-evaluated), the theorem applied to it, and the 2-worker scenario of the
    seeded regression (`forkDuringGcRun`: the woken worker goes back to sleep, the completing park serves the
    request) evaluated by `decide`.
  Remaining hypothesis (explicit): no *further* Gc request after the GC in progress (`Gc` has priority over the exit
  goals, so an unbounded stream of GC requests starves an exit request — by design of `poll_next_goal`).
-/
namespace Mmtk.Sched

theorem exit_only_on_request {c : Cfg} (hn : 0 < c.n) {s : State} (h : Reachable c s) (x : Nat) (hx : x < c.n)
    (he : s.pc x = .exited) : ∃ g, s.current = some g ∧ g.isExit = true :=
  (reachable_invE hn h).2.exited x hx he

/-- **exit_once**: how a worker's program counter can reach / leave `exited` and `surrendered`. -/
theorem exit_once {c : Cfg} {s s' : State} {a : Act} (hr : Reachable c s) (hs : step c s a = some s') (x : Nat)
    (hx : x < c.n) :
    (s'.pc x = .exited → s.pc x ≠ .exited →
        (∃ tag, a = .park x tag ∧ s.pc x = .parking) ∨ (a = .wake x ∧ s.pc x = .woken)) ∧
    (s.pc x = .exited → s'.pc x ≠ .exited → a = .surrender x ∧ s'.pc x = .surrendered) ∧
    (s.pc x = .surrendered → s'.pc x ≠ .surrendered → a = .respawn) := by
  rcases step_other_exsu c s s' a hs with ⟨w, tag, rfl⟩ | ⟨w, rfl⟩ | ⟨w, rfl⟩ | rfl | h3
  · -- park w
    obtain ⟨hw, hpc, _, hcase⟩ := step_park_cases hs
    have hother : x ≠ w → s'.pc x = s.pc x ∨ (s.pc x = .waiting ∧ s'.pc x = .woken) := by
      intro e
      simp only [step] at hs
      split at hs
      · split at hs
        · split at hs
          · cases hs
          · rename_i s1 hl; have f := frame_onLastParked c _ _ _ _ hl
            injection hs with hs; subst hs; left; simp [setPc, e, f.pc]
          · rename_i s1 hl; have f := frame_onLastParked c _ _ _ _ hl
            injection hs with hs; subst hs; left; rw [afterUnpark_pc_other e]; show s1.pc x = _; rw [f.pc]
          · rename_i s1 hl; have f := frame_onLastParked c _ _ _ _ hl
            injection hs with hs; subst hs
            rw [afterUnpark_pc_other e]
            show (notifyAll s1).pc x = s.pc x ∨ _
            simp only [notifyAll, f.pc]
            by_cases hwx : s.pc x = .waiting
            · right; simp [hwx]
            · left; simp [hwx]
        · injection hs with hs; subst hs; left; simp [setPc, e]
      · cases hs
    by_cases e : x = w
    · subst e
      refine ⟨fun _ _ => Or.inl ⟨tag, rfl, hpc⟩, fun h => ?_, fun h => ?_⟩ <;> (rw [hpc] at h; cases h)
    · rcases hother e with h | ⟨h1, h2⟩
      · refine ⟨fun a b => absurd (h ▸ a) b, fun a b => absurd (h ▸ a) b, fun a b => absurd (h ▸ a) b⟩
      · refine ⟨fun a => ?_, fun a => ?_, fun a => ?_⟩
        · rw [h2] at a; cases a
        · rw [h1] at a; cases a
        · rw [h1] at a; cases a
  · -- wake w
    simp only [step] at hs
    split at hs
    · rename_i hg; injection hs with hs; subst hs
      by_cases e : x = w
      · subst e
        refine ⟨fun _ _ => Or.inr ⟨rfl, hg.2.1⟩, fun h => ?_, fun h => ?_⟩ <;> (rw [hg.2.1] at h; cases h)
      · have : (afterUnpark { s with parked := s.parked - 1 } w).pc x = s.pc x := afterUnpark_pc_other e
        refine ⟨fun a b => absurd (this ▸ a) b, fun a b => absurd (this ▸ a) b, fun a b => absurd (this ▸ a) b⟩
    · cases hs
  · -- surrender w
    simp only [step] at hs
    split at hs
    · split at hs
      · rename_i hg
        have key : s'.pc = (setPc s w .surrendered).pc := by
          split at hs <;> (injection hs with hs; subst hs; rfl)
        by_cases e : x = w
        · subst e
          refine ⟨fun a => ?_, fun _ _ => ⟨rfl, by rw [key]; simp [setPc]⟩, fun a => ?_⟩
          · rw [key] at a; simp [setPc] at a
          · rw [hg.2] at a; cases a
        · have : s'.pc x = s.pc x := by rw [key]; simp [setPc, e]
          refine ⟨fun a b => absurd (this ▸ a) b, fun a b => absurd (this ▸ a) b, fun a b => absurd (this ▸ a) b⟩
      · cases hs
    · cases hs
  · -- respawn
    simp only [step] at hs
    split at hs
    · split at hs
      · injection hs with hs; subst hs
        refine ⟨fun a b => ?_, fun a b => ?_, fun _ _ => rfl⟩
        · simp only at a; split at a <;> first | cases a | exact absurd a b
        · rename_i k hcr hk
          have := no_parking_when_all_surrendered (reachable_invA hr) (by rw [hcr, hk]) x hx
          rw [this] at a; cases a
      · cases hs
    · cases hs
  · obtain ⟨e1, e2⟩ := h3 x
    exact ⟨fun a b => absurd (e1.1 a) b, fun a b => absurd (e1.2 a) b, fun a b => absurd (e2.2 a) b⟩

/-- **surrender_once**: the pool holds exactly the structs of the surrendered workers. -/
theorem surrender_once {c : Cfg} {s : State} (h : Reachable c s) (k : Nat) (hk : s.creation = .surrendered k) :
    k = countW c.n (fun x => decide (s.pc x = .surrendered)) :=
  (reachable_invA h).pool k hk

/-- **goal_completed_once**: `exitsDone` changes only in the `surrender` transition that fills the
pool, which also clears the current goal. -/
theorem goal_completed_once {c : Cfg} {s s' : State} {a : Act} (hs : step c s a = some s')
    (hd : s'.exitsDone ≠ s.exitsDone) :
    ∃ w, a = .surrender w ∧ s.creation = .surrendered (c.n - 1) ∧ s'.creation = .surrendered c.n ∧
      s'.current = none ∧ s'.exitsDone = s.exitsDone + 1 ∧ 0 < c.n := by
  cases a
  case surrender w =>
    simp only [step] at hs
    split at hs
    · rename_i k hcr
      split at hs
      · split at hs
        · rename_i hk; injection hs with hs; subst hs
          exact ⟨w, rfl, by rw [hcr, ← hk]; rfl, by show Creation.surrendered (k + 1) = _; rw [hk], rfl, rfl, by omega⟩
        · injection hs with hs; subst hs; exact absurd rfl hd
      · cases hs
    · cases hs
  case park w tag =>
    exfalso; apply hd
    obtain ⟨_, _, _, hcase⟩ := step_park_cases hs
    rcases hcase with ⟨_, rfl⟩ | ⟨_, s1, r, hl, he⟩
    · rfl
    · rw [he]; have := onLastParked_exitsDone hl; exact this
  case wake w =>
    exfalso; apply hd
    simp only [step] at hs
    split at hs
    · injection hs with hs; subst hs
      obtain ⟨p, _, he⟩ := afterUnpark_pc { s with parked := s.parked - 1 } w
      rw [he]; rfl
    · cases hs
  case makeRequest g x =>
    exfalso; apply hd
    simp only [step] at hs
    have hc : (consumePending s g).exitsDone = s.exitsDone := by unfold consumePending; split <;> rfl
    split at hs
    · cases hs
    · split at hs
      · split at hs
        · injection hs with hs; subst hs; exact hc
        · cases hs
      · rw [notifyOne_same hs]; cases g <;> exact hc
  case bucketNotifyOne w b x =>
    exfalso; apply hd
    simp only [step] at hs
    split at hs
    · rw [notifyOne_same hs]
    · cases hs
  case mutNotifyOne b x =>
    exfalso; apply hd
    simp only [step] at hs
    split at hs
    · rw [notifyOne_same hs]
    · cases hs
  all_goals
    exfalso; apply hd
    simp only [step] at hs
    repeat' (split at hs)
    all_goals first
      | (injection hs with hs; subst hs; rfl)
      | cases hs

/-- **no_work_lost (1)**: the stop / surrender / respawn transitions do not touch any queue. -/
theorem no_work_lost_frame {c : Cfg} {s s' : State} {a : Act} (hs : step c s a = some s')
    (ha : (∃ w, a = .surrender w) ∨ a = .respawn ∨ a = .prepareSurrender) :
    s'.bkt = s.bkt ∧ s'.buf = s.buf ∧ s'.desig = s.desig := by
  rcases ha with ⟨w, rfl⟩ | rfl | rfl <;> simp only [step] at hs <;> repeat' (split at hs)
  all_goals first
    | (injection hs with hs; subst hs; exact ⟨rfl, rfl, rfl⟩)
    | cases hs

/-- **no_work_lost (2)**: a worker that is not running a packet and not polling — in particular every
exited or surrendered worker — holds no packet in its local deque. -/
theorem no_work_lost {c : Cfg} {s : State} (h : Reachable c s) (x : Nat) (hx : x < c.n)
    (hp : s.pc x = .exited ∨ s.pc x = .surrendered ∨ s.pc x = .waiting ∨ s.pc x = .woken ∨ s.pc x = .parking) :
    s.buf x = [] := by
  have := reachable_invF h x hx
  unfold bufOk at this
  rcases hp with e | e | e | e | e <;> (rw [e] at this; exact this)

/-- **respawn_restores**: after `respawn` every worker is at its loop head, the group is `Spawned`,
nobody is counted as parked, no goal is current, and every local deque is (still) empty. -/
theorem respawn_restores {c : Cfg} (hn : 0 < c.n) {s s' : State} (hr : Reachable c s) (hs : step c s .respawn = some s') :
    (∀ x, x < c.n → s'.pc x = .polling [] ∧ s'.buf x = []) ∧ s'.creation = .spawned ∧ s'.parked = 0 ∧
    s'.current = none ∧ s'.bkt = s.bkt ∧ s'.desig = s.desig := by
  obtain ⟨hA, hE⟩ := reachable_invE hn hr
  simp only [step] at hs
  split at hs
  · rename_i k hcr
    split at hs
    · rename_i hk; injection hs with hs; subst hs
      have hall := no_parking_when_all_surrendered hA (by rw [hcr, hk])
      refine ⟨fun x hx => ⟨by simp [hx], ?_⟩, rfl, ?_, ?_, rfl, rfl⟩
      · exact no_work_lost hr x hx (Or.inr (Or.inl (hall x hx)))
      · show s.parked = 0
        rw [hA.parked_eq]
        apply countW_zero; intro x hx; rw [hall x hx]; rfl
      · exact hE.done (by rw [hcr, hk])
    · cases hs
  · cases hs

/-- **gc_after_fork**: reachability is closed under steps, so the state after `respawn` (or after any
other transition) satisfies every theorem proved for reachable states (C14, C15). -/
theorem gc_after_fork {c : Cfg} {s s' : State} {a : Act} (hr : Reachable c s) (hs : step c s a = some s') :
    Reachable c s' := by
  obtain ⟨run, h⟩ := hr
  refine ⟨run ++ [a], ?_⟩
  have : ∀ (l : List Act) (t : State), exec c t l = some s → exec c t (l ++ [a]) = some s' := by
    intro l
    induction l with
    | nil => intro t e; simp only [exec] at e; injection e with e; subst e; simp [exec, hs]
    | cons b l ih =>
      intro t e
      simp only [exec, List.cons_append] at e ⊢
      cases ht : step c t b with
      | none => rw [ht] at e; cases e
      | some t1 => rw [ht] at e; exact ih t1 e
  exact this run _ h

/-! ## liveness: every worker exits and surrenders -/

/-- the exit phase: an exit goal is current, `prepare_surrender_buffer` has been called, and every worker
has been notified (`woken`), has left its loop (`exited`) or has surrendered its struct -/
def ExitPhase (c : Cfg) (s : State) : Prop :=
  (∃ g, s.current = some g ∧ g.isExit = true) ∧ (∃ k, s.creation = .surrendered k) ∧
  ∀ w, w < c.n → qLate (s.pc w) = true

theorem step_wake_exit {c : Cfg} {s s' : State} {x : Nat} (hs : step c s (.wake x) = some s')
    (hg : ∃ g, s.current = some g ∧ g.isExit = true) : s.pc x = .woken ∧ s'.pc x = .exited := by
  simp only [step] at hs
  split at hs
  · rename_i hgd; injection hs with hs; subst hs
    refine ⟨hgd.2.1, ?_⟩
    obtain ⟨g, h1, h2⟩ := hg
    unfold afterUnpark
    cases g
    · cases h2
    · simp [h1, setPc]
    · simp [h1, setPc]
  · cases hs

theorem step_surrender_pc {c : Cfg} {s s' : State} {x : Nat} (hs : step c s (.surrender x) = some s') :
    s.pc x = .exited ∧ s'.pc x = .surrendered ∧ ∃ k, s'.creation = .surrendered k := by
  simp only [step] at hs
  split at hs
  · split at hs
    · rename_i hg
      split at hs <;> (injection hs with hs; subst hs; exact ⟨hg.2, by simp [setPc], _, rfl⟩)
    · cases hs
  · cases hs

/-- one step inside the exit phase stays inside it, unless all workers have surrendered before or after it -/
theorem exitPhase_step {c : Cfg} (hn : 0 < c.n) {s s' : State} {a : Act} (hr : Reachable c s) (h : ExitPhase c s)
    (hs : step c s a = some s') (hG : ¬ ∀ w, w < c.n → s.pc w = .surrendered)
    (hG' : ¬ ∀ w, w < c.n → s'.pc w = .surrendered) : ExitPhase c s' := by
  obtain ⟨hgoal, ⟨k, hcr⟩, hlate⟩ := h
  have hA := reachable_invA hr
  have hA' := reachable_invA (gc_after_fork hr hs)
  have hnoresp : a ≠ .respawn := by
    intro e; subst e
    simp only [step] at hs
    rw [hcr] at hs
    simp only at hs
    split at hs
    · rename_i hk
      exact hG (no_parking_when_all_surrendered hA (by rw [hcr, hk]))
    · cases hs
  have hnopark : ∀ w tag, a ≠ .park w tag := by
    intro w tag e; subst e
    obtain ⟨hw, hp, _, _⟩ := step_park_cases hs
    have := hlate w hw; rw [hp] at this; cases this
  have hlate' : ∀ w, w < c.n → qLate (s'.pc w) = true := by
    intro w hw
    rcases step_late_stable late_qLate hs w (hlate w hw) with h | rfl | rfl | rfl
    · exact h
    · rw [(step_wake_exit hs hgoal).2]; rfl
    · rw [(step_surrender_pc hs).2.1]; rfl
    · exact absurd rfl hnoresp
  rcases step_other_E c s s' a hs with ⟨w, tag, rfl⟩ | ⟨w, rfl⟩ | ⟨w, rfl⟩ | rfl | ⟨hcur, hcre, _⟩
  · exact absurd rfl (hnopark w tag)
  · refine ⟨?_, ?_, hlate'⟩
    · simp only [step] at hs
      split at hs
      · injection hs with hs; subst hs; rw [afterUnpark_current]; exact hgoal
      · cases hs
    · simp only [step] at hs
      split at hs
      · injection hs with hs; subst hs; rw [afterUnpark_creation]; exact ⟨k, hcr⟩
      · cases hs
  · refine ⟨?_, (step_surrender_pc hs).2.2, hlate'⟩
    simp only [step] at hs
    rw [hcr] at hs
    simp only at hs
    split at hs
    · split at hs
      · rename_i hk
        injection hs with hs
        exfalso
        apply hG'
        apply no_parking_when_all_surrendered hA'
        rw [← hs]; show Creation.surrendered (k + 1) = _; rw [hk]
      · injection hs with hs; subst hs; exact hgoal
    · cases hs
  · exact absurd rfl hnoresp
  · refine ⟨by rw [hcur]; exact hgoal, ?_, hlate'⟩
    rcases hcre with e | e
    · exact ⟨k, by rw [e]; exact hcr⟩
    · exact ⟨0, e⟩

/-- **C16 (liveness, exit phase)**: once an exit goal is current (the last parker woke everybody and left its
loop) and the surrender pool is prepared, under fairness every worker leaves its loop and surrenders its
struct: the run reaches a state where all `n` workers are `surrendered`.  (Each worker goes
`woken → exited → surrendered`, each transition once: `exit_once`.) -/
theorem workers_exit_after_goal {c : Cfg} {tr : Nat → State} {act : Nat → Option Act} (hn : 0 < c.n)
    (R : FairRun c tr act) (h0 : ExitPhase c (tr 0)) : ∃ j, ∀ w, w < c.n → (tr j).pc w = .surrendered := by
  apply Classical.byContradiction
  intro hno
  have hG : ∀ j, ¬ ∀ w, w < c.n → (tr j).pc w = .surrendered := fun j h => hno ⟨j, h⟩
  have hI : ∀ j, ExitPhase c (tr j) := by
    intro j
    induction j with
    | zero => exact h0
    | succ j ih =>
      cases ha : act j with
      | none => rw [R.stutter_at ha]; exact ih
      | some a => exact exitPhase_step hn (R.reach j) ih (R.step_at ha) (hG j) (hG (j+1))
  have hnoresp : ∀ j, act j ≠ some .respawn := by
    intro j ha
    have hs := R.step_at ha
    obtain ⟨_, ⟨k, hcr⟩, _⟩ := hI j
    simp only [step] at hs
    rw [hcr] at hs
    simp only at hs
    split at hs
    · rename_i hk
      exact hG j (no_parking_when_all_surrendered (reachable_invA (R.reach j)) (by rw [hcr, hk]))
    · cases hs
  -- a surrendered worker stays surrendered
  have surrForever : ∀ x j, (tr j).pc x = .surrendered → ∀ i, j ≤ i → (tr i).pc x = .surrendered := by
    intro x j h
    have : ∀ d, (tr (j + d)).pc x = .surrendered := by
      intro d
      induction d with
      | zero => exact h
      | succ d ih =>
        show (tr (j + d + 1)).pc x = _
        cases ha : act (j + d) with
        | none => rw [R.stutter_at ha]; exact ih
        | some a =>
          have hs := R.step_at ha
          rcases step_late_stable late_qSurr hs x (by rw [ih]; rfl) with h | rfl | rfl | rfl
          · cases hp : (tr (j + d + 1)).pc x <;> rw [hp] at h <;> first | rfl | cases h
          · have := (step_wake_exit hs (hI (j + d)).1).1; rw [ih] at this; cases this
          · have := (step_surrender_pc hs).1; rw [ih] at this; cases this
          · exact absurd ha (hnoresp _)
    intro i hi
    have := this (i - j)
    rwa [show j + (i - j) = i by omega] at this
  have fromExited : ∀ x, x < c.n → ∀ j, (tr j).pc x = .exited → ∃ J, ∀ i, J ≤ i → (tr i).pc x = .surrendered := by
    intro x hx j h
    obtain ⟨m, _, _, a, ha, hmem⟩ := wf1 R (.surrender x) (fun m => (tr m).pc x = .exited) j h
      (by
        intro m _ hPm hnt
        cases ha : act m with
        | none => rw [R.stutter_at ha]; exact hPm
        | some a =>
          have hs := R.step_at ha
          rcases step_late_stable late_qExited hs x (by rw [hPm]; rfl) with h | rfl | rfl | rfl
          · cases hp : (tr (m + 1)).pc x <;> rw [hp] at h <;> first | rfl | cases h
          · have := (step_wake_exit hs (hI m).1).1; rw [hPm] at this; cases this
          · exact absurd ⟨_, ha, rfl⟩ hnt
          · exact absurd ha (hnoresp _))
      (by
        intro m _ hPm
        obtain ⟨_, ⟨k, hcr⟩, _⟩ := hI m
        refine ⟨.surrender x, rfl, ?_⟩
        simp only [step, hcr]
        rw [if_pos ⟨hx, hPm⟩]
        split <;> rfl)
    simp only [FairAct.mem] at hmem; subst hmem
    exact ⟨m + 1, surrForever x (m + 1) (step_surrender_pc (R.step_at ha)).2.1⟩
  have fromWoken : ∀ x, x < c.n → ∀ j, (tr j).pc x = .woken → ∃ J, ∀ i, J ≤ i → (tr i).pc x = .surrendered := by
    intro x hx j h
    obtain ⟨m, _, _, a, ha, hmem⟩ := wf1 R (.wake x) (fun m => (tr m).pc x = .woken) j h
      (by
        intro m _ hPm hnt
        cases ha : act m with
        | none => rw [R.stutter_at ha]; exact hPm
        | some a =>
          have hs := R.step_at ha
          rcases step_late_stable late_qWoken hs x (by rw [hPm]; rfl) with h | rfl | rfl | rfl
          · cases hp : (tr (m + 1)).pc x <;> rw [hp] at h <;> first | rfl | cases h
          · exact absurd ⟨_, ha, rfl⟩ hnt
          · have := (step_surrender_pc hs).1; rw [hPm] at this; cases this
          · exact absurd ha (hnoresp _))
      (by
        intro m _ hPm
        refine ⟨.wake x, rfl, ?_⟩
        have hAm := reachable_invA (R.reach m)
        have hpos : 0 < (tr m).parked := by
          rw [hAm.parked_eq]
          exact countW_pos c.n _ x hx (by rw [hPm]; rfl)
        simp [step, hx, hPm, hpos])
    simp only [FairAct.mem] at hmem; subst hmem
    exact fromExited x hx (m + 1) (step_wake_exit (R.step_at ha) (hI m).1).2
  obtain ⟨J, hJ⟩ := eventually_forall_lt c.n (fun w j => (tr j).pc w = .surrendered) (fun x hx => by
    have hl := (hI 0).2.2 x hx
    cases hp : (tr 0).pc x <;> rw [hp] at hl <;> first | cases hl | skip
    · exact fromWoken x hx 0 hp
    · exact fromExited x hx 0 hp
    · exact ⟨0, surrForever x 0 hp⟩)
  exact hG J (fun w hw => hJ w hw J (Nat.le_refl _))

theorem onLastParked_starts_exit {c : Cfg} {s : State} {tag : Nat} (hcur : s.current = none) (hgc : s.reqGc = false)
    (hreq : s.reqShutdown = true ∨ s.reqFork = true) :
    ∃ s1 g, onLastParked c s tag = some (s1, .wakeAll) ∧ s1.current = some g ∧ g.isExit = true ∧ s1.pc = s.pc ∧
      s1.creation = s.creation ∧ s1.parked = s.parked := by
  unfold onLastParked
  simp only [hcur]
  unfold respond
  simp only [hcur, hgc, Option.isSome_none, Bool.false_eq_true, if_false]
  by_cases h1 : s.reqShutdown = true
  · simp only [h1, if_true]
    exact ⟨_, .shutdown, rfl, rfl, rfl, rfl, rfl, rfl⟩
  · have h2 : s.reqFork = true := by
      rcases hreq with h | h
      · exact absurd h h1
      · exact h
    simp only [h1, h2, if_true]
    exact ⟨_, .stopForFork, rfl, rfl, rfl, rfl, rfl, rfl⟩

/-- **C16 (liveness)** after a `Shutdown` / `StopForFork` request every worker exits and surrenders.
Hypotheses (all explicit): a fair run with finitely many packets and environment actions and no assertion
failure (as for C14); at the start the request is pending, no goal is current, every worker thread exists,
and `prepare_surrender_buffer` has been called (`stop_gc_threads_for_forking` does so before `make_request`);
no Gc request is pending or arrives (`Gc` has priority over exit goals: a GC requested meanwhile is served
first — `gc_completes_under_fairness` — and this theorem applies to the run after it). -/
theorem workers_exit_under_fairness {c : Cfg} {tr : Nat → State} {act : Nat → Option Act}
    (hn : 0 < c.n) (hmut : c.mutAddOpen = false) (hu : c.unconIdx < c.L)
    (R : FairRun c tr act) (hN : FiniteSpawn tr) (hE : FiniteEnv act) (hA : NoAssert c tr)
    (hreq : (tr 0).reqShutdown = true ∨ (tr 0).reqFork = true) (hcur : (tr 0).current = none)
    (hns : ∀ w, w < c.n → (tr 0).pc w ≠ .surrendered) (hcr : ∃ k, (tr 0).creation = .surrendered k)
    (hnogc : ∀ j, (tr j).reqGc = false) :
    ∃ j0 j, j0 ≤ j ∧ (∃ g, (tr j0).current = some g ∧ g.isExit = true) ∧ (∀ w, w < c.n → (tr j).pc w = .surrendered) := by
  have hP0 : Pending c (tr 0) := by
    refine ⟨Or.inl ?_, (show NoExit (tr 0) from fun g hg => by rw [hcur] at hg; cases hg), hns⟩
    simp only [anyRequested, Bool.or_eq_true]
    rcases hreq with h | h
    · exact Or.inl (Or.inr h)
    · exact Or.inr h
  obtain ⟨jl, hjl⟩ := last_park_eventually hn hmut hu R hN hE hA hP0
  obtain ⟨j0, hl0, hleast⟩ := exists_least (fun j => IsLastPark c (tr j) (act j)) ⟨jl, hjl.1⟩
  have hpre : ∀ i, i ≤ j0 → Pending c (tr i) ∧ (tr i).current = none ∧
      ((tr i).reqShutdown = true ∨ (tr i).reqFork = true) ∧ ∃ k, (tr i).creation = .surrendered k := by
    intro i
    induction i with
    | zero => intro _; exact ⟨hP0, hcur, hreq, hcr⟩
    | succ i ih =>
      intro hi
      obtain ⟨hp, hc, hrq, k, hk⟩ := ih (by omega)
      cases ha : act i with
      | none => rw [R.stutter_at ha]; exact ⟨hp, hc, hrq, k, hk⟩
      | some a =>
        have hs := R.step_at ha
        have hnl : ¬ IsLastPark c (tr i) (some a) := by rw [← ha]; exact hleast i (by omega)
        obtain ⟨f1, _, f3, f4, _⟩ := nonlast_step_frame hn (R.reach i) hp.2.1 hs hnl
        refine ⟨pending_step hn (R.reach i) hp hs hnl, by rw [f1]; exact hc, ?_, ?_⟩
        · rcases hrq with h | h
          · exact Or.inl (f3 h)
          · exact Or.inr (f4 h)
        · have hA' := reachable_invA (R.reach i)
          have hE' := (reachable_invE hn (R.reach i)).2
          rcases step_other_E c _ _ a hs with ⟨w, tag, rfl⟩ | ⟨w, rfl⟩ | ⟨w, rfl⟩ | rfl | ⟨_, hcre, _⟩
          · obtain ⟨_, _, _, hcase⟩ := step_park_cases hs
            rcases hcase with ⟨_, e⟩ | ⟨hl, _⟩
            · exact ⟨k, by rw [e]; exact hk⟩
            · exact absurd ⟨w, tag, rfl, hl⟩ hnl
          · simp only [step] at hs
            split at hs
            · injection hs with hs; rw [← hs, afterUnpark_creation]; exact ⟨k, hk⟩
            · cases hs
          · exact ⟨_, (step_surrender_pc hs).2.2.choose_spec⟩
          · exfalso
            simp only [step] at hs
            rw [hk] at hs
            simp only at hs
            split at hs
            · rename_i hkn
              have := no_parking_when_all_surrendered hA' (by rw [hk, hkn]) 0 hn
              exact hp.2.2 0 hn this
            · cases hs
          · rcases hcre with e | e
            · exact ⟨k, by rw [e]; exact hk⟩
            · exact ⟨0, e⟩
  obtain ⟨hp0, hc0, hrq0, k0, hk0⟩ := hpre j0 (Nat.le_refl _)
  obtain ⟨w, tag, hact, hlast⟩ := hl0
  have hs := R.step_at hact
  obtain ⟨hw, hpcw, _, _⟩ := step_park_cases hs
  obtain ⟨s1, g, hlp, hg1, hg2, hpc1, hcr1, _⟩ := onLastParked_starts_exit (c := c) (tag := tag)
    (s := { tr j0 with parked := (tr j0).parked + 1, trace := [] }) hc0 (hnogc j0) hrq0
  have hs' := step_park_wakeAll hs hlast hlp
  have hA0 := reachable_invA (R.reach j0)
  have hphase : ExitPhase c (tr (j0 + 1)) := by
    rw [hs']
    refine ⟨⟨g, by rw [afterUnpark_current]; exact hg1, hg2⟩, ⟨k0, by rw [afterUnpark_creation]; show s1.creation = _; rw [hcr1]; exact hk0⟩, ?_⟩
    intro x hx
    by_cases e : x = w
    · subst e
      rw [afterUnpark_exit (t := { notifyAll s1 with parked := (notifyAll s1).parked - 1 }) x hg1 hg2]; rfl
    · rw [afterUnpark_pc_other e]
      have hpar := countW_all_but c.n (fun y => ((tr j0).pc y).isParked) w hw (by simp [hpcw, PC.isParked])
        (by have := hA0.parked_eq; unfold parkedCount at this; omega) x hx e
      show qLate ((notifyAll s1).pc x) = true
      simp only [notifyAll, hpc1]
      cases hp : (tr j0).pc x <;> rw [hp] at hpar <;> simp_all [PC.isParked, qLate]
  obtain ⟨j, hj⟩ := workers_exit_after_goal hn (R.shift (j0 + 1)) hphase
  exact ⟨j0 + 1, j0 + 1 + j, by omega, hphase.1, hj⟩

/-! ## an exit request that arrives while a GC is pending or in progress -/

/-- `prepare_surrender_buffer` stays in effect while a goal is pending and no worker thread has exited -/
theorem creation_prepared_step {c : Cfg} (hn : 0 < c.n) {s s' : State} {a : Act} (hr : Reachable c s)
    (hp : Pending c s) (hs : step c s a = some s') (hk : ∃ k, s.creation = .surrendered k) :
    ∃ k, s'.creation = .surrendered k := by
  obtain ⟨k, hk⟩ := hk
  have hA' := reachable_invA hr
  rcases step_other_E c _ _ a hs with ⟨w, tag, rfl⟩ | ⟨w, rfl⟩ | ⟨w, rfl⟩ | rfl | ⟨_, hcre, _⟩
  · obtain ⟨_, _, _, hcase⟩ := step_park_cases hs
    rcases hcase with ⟨_, e⟩ | ⟨_, s1, r, hl, he⟩
    · exact ⟨k, by rw [e]; exact hk⟩
    · have f := frame_onLastParked c _ _ _ _ hl
      exact ⟨k, by rw [he]; show s1.creation = _; rw [f.creation]; exact hk⟩
  · simp only [step] at hs
    split at hs
    · injection hs with hs; rw [← hs, afterUnpark_creation]; exact ⟨k, hk⟩
    · cases hs
  · exact ⟨_, (step_surrender_pc hs).2.2.choose_spec⟩
  · exfalso
    simp only [step] at hs
    rw [hk] at hs
    simp only at hs
    split at hs
    · rename_i hkn
      have := no_parking_when_all_surrendered hA' (by rw [hk, hkn]) 0 hn
      exact hp.2.2 0 hn this
    · cases hs
  · rcases hcre with e | e
    · exact ⟨k, by rw [e]; exact hk⟩
    · exact ⟨0, e⟩

/-- one step of a run while the GC that was pending / in progress at the start has not completed: the Gc goal
stays pending or current, no exit goal becomes current, the exit request and the surrender pool stay -/
theorem gcPending_exitReq_step {c : Cfg} (hn : 0 < c.n) {s s' : State} {a : Act} (hr : Reachable c s)
    (hp : GcPending c s) (hreq : s.reqShutdown = true ∨ s.reqFork = true) (hk : ∃ k, s.creation = .surrendered k)
    (hs : step c s a = some s') (hd : s'.gcDone = s.gcDone) :
    GcPending c s' ∧ (s'.reqShutdown = true ∨ s'.reqFork = true) ∧ ∃ k, s'.creation = .surrendered k := by
  have hcre := creation_prepared_step hn hr hp.pending hs hk
  by_cases hnl : IsLastPark c s (some a)
  · obtain ⟨w, tag, ha, hlast⟩ := hnl
    injection ha with ha; subst ha
    obtain ⟨hw, hpcw, _, hcase⟩ := step_park_cases hs
    rcases hcase with ⟨hne, _⟩ | ⟨_, s1, r, hl, he⟩
    · exact absurd hlast hne
    · have hd1 : s1.gcDone = ({ s with parked := s.parked + 1, trace := [] } : State).gcDone := by
        have : s'.gcDone = s1.gcDone := by rw [he]
        rw [← this]; exact hd
      obtain ⟨k1, k2, k3⟩ := onLastParked_keeps_exit_reqs hl hp.1 (fun g hg => hp.2.1 g hg) hd1
      have hc' : s'.current = some .gc := by rw [he]; exact k1
      refine ⟨⟨Or.inr hc', ?_, ?_⟩, ?_, hcre⟩
      · intro g hg; rw [hc'] at hg; injection hg with hg; subst hg; rfl
      · intro x hx
        by_cases e : x = w
        · subst e
          rcases step_park_self hs with h | h | h <;> rw [h] <;> simp
        · rcases step_park_other hs e with h | ⟨_, h⟩
          · rw [h]; exact hp.2.2 x hx
          · rw [h]; simp
      · rcases hreq with h | h
        · left; rw [he]; show s1.reqShutdown = true; rw [k2]; exact h
        · right; rw [he]; show s1.reqFork = true; rw [k3]; exact h
  · obtain ⟨f1, f2, f3, f4, _⟩ := nonlast_step_frame hn hr hp.2.1 hs hnl
    have hp' := pending_step hn hr hp.pending hs hnl
    refine ⟨⟨?_, hp'.2.1, hp'.2.2⟩, ?_, hcre⟩
    · rcases hp.1 with h | h
      · exact Or.inl (f2 h)
      · exact Or.inr (by rw [f1]; exact h)
    · rcases hreq with h | h
      · exact Or.inl (f3 h)
      · exact Or.inr (f4 h)

/-- **C16 (liveness, request during a GC)**: a `Shutdown` / `StopForFork` request that is pending while a Gc
request is pending or a GC is in progress (`GcPending`: e.g. `prepare_to_fork` called from inside a collection).
Hypotheses: those of C14's `gc_completes_under_fairness` (fair run, finitely many packets and environment
actions, no assertion failure, no mutator push into open buckets), `prepare_surrender_buffer` has been called, and
once that GC has completed no further Gc request is pending (`Gc` has priority over the exit goals; for a
concurrent plan the theorem is applied at the final pause).  Then: the GC completes first — at the `park` step
`jg → jg+1` of the last parker, up to which `gcDone` is unchanged, the Gc goal or request stays pending and no
exit goal is current —, strictly later an exit goal is current (`j0`), and finally (`j`) all `n` workers are
`surrendered`.  With `exit_once` / `surrender_once`: every worker exits and surrenders exactly once. -/
theorem workers_exit_under_fairness_during_gc {c : Cfg} {tr : Nat → State} {act : Nat → Option Act}
    (hn : 0 < c.n) (hmut : c.mutAddOpen = false) (hu : c.unconIdx < c.L)
    (R : FairRun c tr act) (hN : FiniteSpawn tr) (hE : FiniteEnv act) (hA : NoAssert c tr)
    (hP : GcPending c (tr 0)) (hreq : (tr 0).reqShutdown = true ∨ (tr 0).reqFork = true)
    (hcr : ∃ k, (tr 0).creation = .surrendered k)
    (hnogc : ∀ i j, i ≤ j → (tr i).gcDone ≠ (tr 0).gcDone → (tr j).reqGc = false) :
    ∃ jg j0 j w tag, jg < j0 ∧ j0 ≤ j ∧ act jg = some (.park w tag) ∧ (tr jg).current = some .gc ∧
      (∀ i, i ≤ jg → (tr i).gcDone = (tr 0).gcDone ∧ NoExit (tr i)) ∧ (tr (jg+1)).gcDone ≠ (tr 0).gcDone ∧
      (∃ g, (tr j0).current = some g ∧ g.isExit = true) ∧ (∀ x, x < c.n → (tr j).pc x = .surrendered) := by
  obtain ⟨_, _, _, j1, _, hj1⟩ := gc_request_completes hn hmut hu R hN hE hA hP
  obtain ⟨jg, hne, hsame⟩ := first_change (fun i => (tr i).gcDone) ⟨j1, hj1⟩
  -- up to the completing step: the GC stays pending, the exit request and the pool stay
  have hpre : ∀ i, i ≤ jg → GcPending c (tr i) ∧ ((tr i).reqShutdown = true ∨ (tr i).reqFork = true) ∧
      ∃ k, (tr i).creation = .surrendered k := by
    intro i
    induction i with
    | zero => intro _; exact ⟨hP, hreq, hcr⟩
    | succ i ih =>
      intro hi
      obtain ⟨hp, hrq, hk⟩ := ih (by omega)
      cases ha : act i with
      | none => rw [R.stutter_at ha]; exact ⟨hp, hrq, hk⟩
      | some a =>
        exact gcPending_exitReq_step hn (R.reach i) hp hrq hk (R.step_at ha)
          (by have h1 := hsame (i+1) hi; have h2 := hsame i (by omega); rw [h1, h2])
  obtain ⟨hpg, hrqg, kg, hkg⟩ := hpre jg (Nat.le_refl _)
  have hne0 : (tr (jg+1)).gcDone ≠ (tr 0).gcDone := by
    have := hsame jg (Nat.le_refl _); rw [← this]; exact hne
  cases ha : act jg with
  | none => rw [R.stutter_at ha] at hne; exact absurd rfl hne
  | some a =>
    have hs := R.step_at ha
    have hpark : ∃ w tag, a = .park w tag := by
      rcases step_other c _ _ a hs with h | ⟨h, _⟩
      · exact h
      · exact absurd h hne
    obtain ⟨w, tag, rfl⟩ := hpark
    obtain ⟨hw, _, _, _⟩ := step_park_cases hs
    obtain ⟨hcg, _, _, hcre, hothers, hcases⟩ := exit_request_survives_gc (R.reach jg) hs hne hrqg
    have hbefore : ∀ i, i ≤ jg → (tr i).gcDone = (tr 0).gcDone ∧ NoExit (tr i) :=
      fun i hi => ⟨hsame i hi, (hpre i hi).1.2.1⟩
    have hcr1 : ∃ k, (tr (jg+1)).creation = .surrendered k := ⟨kg, by rw [hcre]; exact hkg⟩
    rcases hcases with ⟨hgoal, hpcw⟩ | ⟨hnone, _, hrq1, hpcw⟩
    · -- `respond_to_requests` started the exit goal
      have hphase : ExitPhase c (tr (jg + 1)) := by
        refine ⟨hgoal, hcr1, fun x hx => ?_⟩
        by_cases e : x = w
        · subst e; rw [hpcw]; rfl
        · rw [hothers x hx e]; rfl
      obtain ⟨j, hj⟩ := workers_exit_after_goal hn (R.shift (jg + 1)) hphase
      exact ⟨jg, jg + 1, jg + 1 + j, w, tag, by omega, by omega, ha, hcg, hbefore, hne0, hgoal, hj⟩
    · -- concurrent work was scheduled: the request is still pending, no goal is current
      obtain ⟨j0, j, hle, hg, hj⟩ := workers_exit_under_fairness hn hmut hu (R.shift (jg + 1)) (hN.shift (jg + 1))
        (hE.shift (jg + 1)) (hA.shift (jg + 1)) hrq1 hnone
        (fun x hx => by
          by_cases e : x = w
          · subst e; rw [hpcw]; simp
          · rw [hothers x hx e]; simp)
        hcr1 (fun i => hnogc (jg + 1) (jg + 1 + i) (by omega) hne0)
      exact ⟨jg, jg + 1 + j0, jg + 1 + j, w, tag, by omega, by omega, ha, hcg, hbefore, hne0, hg, hj⟩

/-! ## the hypotheses of `workers_exit_under_fairness` are satisfiable -/

open Mmtk.Generated.Stages in
/-- one worker; `prepare_surrender_buffer` and `make_request(StopForFork)` have been called -/
def exitStart : State :=
  (exec (cfg 1) (init (cfg 1)) [.prepareSurrender, .makeRequest .stopForFork none]).getD (init (cfg 1))

open Mmtk.Generated.Stages in
/-- the worker finds nothing, parks (last parker: starts the exit goal, leaves its loop), surrenders (goal
completed); the binding respawns it; it finds nothing and goes to sleep -/
def exitRun : List Act :=
  (allConts (cfg 1)).map (Act.observeEmpty 0) ++ [.pollMiss 0, .park 0 0, .surrender 0, .respawn] ++
  (allConts (cfg 1)).map (Act.observeEmpty 0) ++ [.pollMiss 0, .park 0 0]

open Mmtk.Generated.Stages in
def exitEnd : State := (exec (cfg 1) exitStart exitRun).getD exitStart

open Mmtk.Generated.Stages in
theorem exitRun_exec : exec (cfg 1) exitStart exitRun = some exitEnd := exec_getD (by decide +kernel)

open Mmtk.Generated.Stages in
/-- **a concrete instance of all hypotheses** of `workers_exit_under_fairness` -/
theorem exit_hypotheses_satisfiable :
    0 < (cfg 1).n ∧ (cfg 1).mutAddOpen = false ∧ (cfg 1).unconIdx < (cfg 1).L ∧
    FairRun (cfg 1) (runStates (cfg 1) exitStart exitRun) (fun k => exitRun[k]?) ∧
    FiniteSpawn (runStates (cfg 1) exitStart exitRun) ∧ FiniteEnv (fun k => exitRun[k]?) ∧
    NoAssert (cfg 1) (runStates (cfg 1) exitStart exitRun) ∧
    ((runStates (cfg 1) exitStart exitRun 0).reqShutdown = true ∨ (runStates (cfg 1) exitStart exitRun 0).reqFork = true) ∧
    (runStates (cfg 1) exitStart exitRun 0).current = none ∧
    (∀ w, w < (cfg 1).n → (runStates (cfg 1) exitStart exitRun 0).pc w ≠ .surrendered) ∧
    (∃ k, (runStates (cfg 1) exitStart exitRun 0).creation = .surrendered k) ∧
    (∀ j, (runStates (cfg 1) exitStart exitRun j).reqGc = false) := by
  have hreach : Reachable (cfg 1) exitStart :=
    ⟨[.prepareSurrender, .makeRequest .stopForFork none], exec_getD (by decide +kernel)⟩
  have hend : ∀ w, w < (cfg 1).n → exitEnd.pc w = .waiting := by
    intro w hw
    have : w = 0 := by have : (cfg 1).n = 1 := rfl; omega
    subst this; decide +kernel
  refine ⟨by decide, rfl, by decide, fairRun_of_finite hreach exitRun_exec hend, ?_, ?_, ?_, ?_, ?_, ?_, ?_, ?_⟩
  · exact ⟨0, runStates_forall exitRun_exec (fun s => s.added ≤ 0) (by decide +kernel) (by decide +kernel)⟩
  · refine ⟨exitRun.length, fun j a hj ha => ?_⟩
    have : exitRun[j]? = none := List.getElem?_eq_none hj
    have ha' : exitRun[j]? = some a := ha
    rw [this] at ha'; cases ha'
  · intro j w hw
    have : w = 0 := by have : (cfg 1).n = 1 := rfl; omega
    subst this
    exact runStates_forall exitRun_exec
      (fun s => s.pc 0 = .parking → ∃ tag, (step (cfg 1) s (.park 0 tag)).isSome = true)
      (fun k hk hp => ⟨0, by
        have : ∀ k, k < exitRun.length → (runStates (cfg 1) exitStart exitRun k).pc 0 = .parking →
            (step (cfg 1) (runStates (cfg 1) exitStart exitRun k) (.park 0 0)).isSome = true := by decide +kernel
        exact this k hk hp⟩)
      (fun hp => by have : exitEnd.pc 0 = .waiting := by decide +kernel
                    rw [this] at hp; cases hp) j
  · rw [runStates_zero]; exact Or.inr (by decide +kernel)
  · rw [runStates_zero]; decide +kernel
  · intro w hw
    have : w = 0 := by have : (cfg 1).n = 1 := rfl; omega
    subst this; rw [runStates_zero]; decide +kernel
  · rw [runStates_zero]; exact ⟨0, by decide +kernel⟩
  · exact runStates_forall exitRun_exec (fun s => s.reqGc = false) (by decide +kernel) (by decide +kernel)

open Mmtk.Generated.Stages in
/-- the liveness theorem applied to the concrete run -/
example : ∃ j, ∀ w, w < (cfg 1).n → (runStates (cfg 1) exitStart exitRun j).pc w = .surrendered := by
  obtain ⟨h1, h2, h3, h4, h5, h6, h7, h8, h9, h10, h11, h12⟩ := exit_hypotheses_satisfiable
  obtain ⟨_, j, _, _, hj⟩ := workers_exit_under_fairness h1 h2 h3 h4 h5 h6 h7 h8 h9 h10 h11 h12
  exact ⟨j, hj⟩

/-! ## the hypotheses of `workers_exit_under_fairness_during_gc` are satisfiable -/

open Mmtk.Generated.Stages in
/-- one worker; a GC has been requested and started, the worker runs `ScheduleCollection`, and *meanwhile*
`prepare_surrender_buffer` + `make_request(StopForFork)` are called (nobody waits: the `notify_one` is lost) -/
def forkGcStart : State :=
  (exec (cfg 1) (init (cfg 1)) ([.requestFlag, .makeRequest .gc none] ++
    (allConts (cfg 1)).map (Act.observeEmpty 0) ++ [.pollMiss 0, .park 0 7, .pollBucket 0 0 ⟨0, 0, 7⟩,
      .prepareSurrender, .makeRequest .stopForFork none])).getD (init (cfg 1))

open Mmtk.Generated.Stages in
/-- the packet ends, the worker finds nothing and parks: it completes the GC and `respond` starts the exit goal;
the worker leaves its loop and surrenders; the binding respawns it; it finds nothing and goes to sleep -/
def forkGcRun : List Act :=
  [.execEnd 0] ++ (allConts (cfg 1)).map (Act.observeEmpty 0) ++ [.pollMiss 0, .park 0 0, .surrender 0, .respawn] ++
  (allConts (cfg 1)).map (Act.observeEmpty 0) ++ [.pollMiss 0, .park 0 0]

open Mmtk.Generated.Stages in
def forkGcEnd : State := (exec (cfg 1) forkGcStart forkGcRun).getD forkGcStart

open Mmtk.Generated.Stages in
theorem forkGcRun_exec : exec (cfg 1) forkGcStart forkGcRun = some forkGcEnd := exec_getD (by decide +kernel)

open Mmtk.Generated.Stages in
/-- the request really is made while the GC is in progress, and the completing park serves it -/
example : (forkGcStart.current, forkGcStart.reqFork, forkGcStart.gcDone, forkGcStart.pc 0) =
    (some .gc, true, 0, .exec ⟨0, 0, 7⟩) := by decide +kernel

open Mmtk.Generated.Stages in
example : (exec (cfg 1) forkGcStart (forkGcRun.take ((allConts (cfg 1)).length + 3))).map
    (fun s => (s.current, s.reqFork, s.gcDone, s.pc 0)) = some (some .stopForFork, false, 1, .exited) := by
  decide +kernel

open Mmtk.Generated.Stages in
/-- **a concrete instance of all hypotheses** of `workers_exit_under_fairness_during_gc` -/
theorem exit_during_gc_hypotheses_satisfiable :
    0 < (cfg 1).n ∧ (cfg 1).mutAddOpen = false ∧ (cfg 1).unconIdx < (cfg 1).L ∧
    FairRun (cfg 1) (runStates (cfg 1) forkGcStart forkGcRun) (fun k => forkGcRun[k]?) ∧
    FiniteSpawn (runStates (cfg 1) forkGcStart forkGcRun) ∧ FiniteEnv (fun k => forkGcRun[k]?) ∧
    NoAssert (cfg 1) (runStates (cfg 1) forkGcStart forkGcRun) ∧
    GcPending (cfg 1) (runStates (cfg 1) forkGcStart forkGcRun 0) ∧
    ((runStates (cfg 1) forkGcStart forkGcRun 0).reqShutdown = true ∨ (runStates (cfg 1) forkGcStart forkGcRun 0).reqFork = true) ∧
    (∃ k, (runStates (cfg 1) forkGcStart forkGcRun 0).creation = .surrendered k) ∧
    (∀ i j, i ≤ j → (runStates (cfg 1) forkGcStart forkGcRun i).gcDone ≠ (runStates (cfg 1) forkGcStart forkGcRun 0).gcDone →
      (runStates (cfg 1) forkGcStart forkGcRun j).reqGc = false) := by
  have hreach : Reachable (cfg 1) forkGcStart :=
    ⟨[.requestFlag, .makeRequest .gc none] ++
      (allConts (cfg 1)).map (Act.observeEmpty 0) ++ [.pollMiss 0, .park 0 7, .pollBucket 0 0 ⟨0, 0, 7⟩,
        .prepareSurrender, .makeRequest .stopForFork none], exec_getD (by decide +kernel)⟩
  have hend : ∀ w, w < (cfg 1).n → forkGcEnd.pc w = .waiting := by
    intro w hw
    have : w = 0 := by have : (cfg 1).n = 1 := rfl; omega
    subst this; decide +kernel
  refine ⟨by decide, rfl, by decide, fairRun_of_finite hreach forkGcRun_exec hend, ?_, ?_, ?_, ?_, ?_, ?_, ?_⟩
  · exact ⟨1, runStates_forall forkGcRun_exec (fun s => s.added ≤ 1) (by decide +kernel) (by decide +kernel)⟩
  · refine ⟨forkGcRun.length, fun j a hj ha => ?_⟩
    have : forkGcRun[j]? = none := List.getElem?_eq_none hj
    have ha' : forkGcRun[j]? = some a := ha
    rw [this] at ha'; cases ha'
  · intro j w hw
    have : w = 0 := by have : (cfg 1).n = 1 := rfl; omega
    subst this
    exact runStates_forall forkGcRun_exec
      (fun s => s.pc 0 = .parking → ∃ tag, (step (cfg 1) s (.park 0 tag)).isSome = true)
      (fun k hk hp => ⟨0, by
        have : ∀ k, k < forkGcRun.length → (runStates (cfg 1) forkGcStart forkGcRun k).pc 0 = .parking →
            (step (cfg 1) (runStates (cfg 1) forkGcStart forkGcRun k) (.park 0 0)).isSome = true := by decide +kernel
        exact this k hk hp⟩)
      (fun hp => by have : forkGcEnd.pc 0 = .waiting := by decide +kernel
                    rw [this] at hp; cases hp) j
  · rw [runStates_zero]
    refine ⟨Or.inr (by decide +kernel), ?_, ?_⟩
    · intro g hg
      have : forkGcStart.current = some .gc := by decide +kernel
      rw [this] at hg; injection hg with hg; subst hg; rfl
    · intro w hw
      have : w = 0 := by have : (cfg 1).n = 1 := rfl; omega
      subst this; decide +kernel
  · rw [runStates_zero]; exact Or.inr (by decide +kernel)
  · rw [runStates_zero]; exact ⟨0, by decide +kernel⟩
  · intro i j _ _
    exact runStates_forall forkGcRun_exec (fun s => s.reqGc = false) (by decide +kernel) (by decide +kernel) j

open Mmtk.Generated.Stages in
/-- the theorem applied to the concrete run: the GC completes first, then the worker surrenders -/
example : ∃ jg j, jg < j ∧ (runStates (cfg 1) forkGcStart forkGcRun (jg+1)).gcDone ≠
      (runStates (cfg 1) forkGcStart forkGcRun 0).gcDone ∧
    ∀ w, w < (cfg 1).n → (runStates (cfg 1) forkGcStart forkGcRun j).pc w = .surrendered := by
  obtain ⟨h1, h2, h3, h4, h5, h6, h7, h8, h9, h10, h11⟩ := exit_during_gc_hypotheses_satisfiable
  obtain ⟨jg, j0, j, _, _, hlt, hle, _, _, _, hd, _, hj⟩ :=
    workers_exit_under_fairness_during_gc h1 h2 h3 h4 h5 h6 h7 h8 h9 h10 h11
  exact ⟨jg, j, by omega, hd, hj⟩

open Mmtk.Generated.Stages in
/-- the scenario of the seeded regression, 2 workers: worker 1 sleeps, worker 0 (last parker) starts the GC and runs
`ScheduleCollection`; `prepare_to_fork` arrives now: its single `notify_one` wakes worker 1, which sees
`current = Gc`, finds nothing and goes back to sleep; worker 0 finishes, parks as the last parker: the GC is
completed and `respond` starts `StopForFork` — worker 0 has left its loop, worker 1 is woken. -/
def forkDuringGcRun : List Act :=
  (allConts (cfg 2)).map (Act.observeEmpty 1) ++ [.pollMiss 1, .park 1 0, .requestFlag, .makeRequest .gc (some 1)] ++
  (allConts (cfg 2)).map (Act.observeEmpty 0) ++ [.pollMiss 0, .wake 1] ++
  (allConts (cfg 2)).map (Act.observeEmpty 1) ++ [.pollMiss 1, .park 1 0, .park 0 7, .pollBucket 0 0 ⟨0, 0, 7⟩,
    .prepareSurrender, .makeRequest .stopForFork (some 1), .wake 1] ++
  (allConts (cfg 2)).map (Act.observeEmpty 1) ++ [.pollMiss 1, .park 1 0, .execEnd 0] ++
  (allConts (cfg 2)).map (Act.observeEmpty 0) ++ [.pollMiss 0, .park 0 0]

open Mmtk.Generated.Stages in
example : (exec (cfg 2) (init (cfg 2)) forkDuringGcRun).map
    (fun s => (s.current, s.reqFork, s.gcDone, s.pc 0, s.pc 1, s.parked)) =
    some (some .stopForFork, false, 1, .exited, .woken, 1) := by decide +kernel

open Mmtk.Generated.Stages in
example : (exec (cfg 2) (init (cfg 2)) (forkDuringGcRun ++ [.wake 1, .surrender 0, .surrender 1, .respawn])).map
    (fun s => (s.current, s.pc 0, s.pc 1, s.parked, s.exitsDone, decide (s.creation = .spawned))) =
    some (none, .polling [], .polling [], 0, 1, true) := by decide +kernel

open Mmtk.Generated.Stages in
/-- a complete fork round trip with 2 workers: request, both workers exit and surrender, respawn -/
def forkRun : List Act :=
  [.prepareSurrender, .makeRequest .stopForFork none] ++
  (allConts (cfg 2)).map (Act.observeEmpty 0) ++ [.pollMiss 0, .park 0 0] ++
  (allConts (cfg 2)).map (Act.observeEmpty 1) ++ [.pollMiss 1, .park 1 0, .wake 0, .surrender 1, .surrender 0, .respawn]

open Mmtk.Generated.Stages in
example : (exec (cfg 2) (init (cfg 2)) forkRun).map
    (fun s => (s.pc 0, s.pc 1, s.parked, s.exitsDone)) = some (.polling [], .polling [], 0, 1) := by decide +kernel

open Mmtk.Generated.Stages in
example : (exec (cfg 2) (init (cfg 2)) forkRun).map
    (fun s => (decide (s.creation = .spawned), s.current)) = some (true, none) := by decide +kernel

end Mmtk.Sched
