import MmtkModel.Lemmas.Sched
import MmtkModel.Lemmas.SchedLive
import MmtkModel.Lemmas.SchedExitGc
import MmtkModel.Props.C15
import MmtkModel.Generated.Stages
/-!
# C14 — Every requested GC completes; workers never deadlock or lose a wake-up

Model: `Model/Sched.lean` (interleaving transition system, `n` workers for every `n`, every stage
table).  All theorems quantify over **every reachable state**, i.e. every interleaving of worker,
mutator and spurious-wake-up actions, every packet-spawning pattern, every `n ≥ 1`.

Proved (safety part of C14):
* `parked_count_exact` — `parked_workers` is exactly the number of workers inside `Condvar::wait` or
  woken-but-not-yet-unparked; the pool of surrendered `GCWorker` structs is counted exactly.
* `no_lost_request` — whenever a goal is requested or current, some worker is *not* waiting: the
  `notify_one` of `make_request` finds a waiter if all wait, and the last parked worker never goes to
  sleep with a request pending (`last_parker_sleeps_only_when_idle`).
* `no_stranded_packet` — a packet in an open ∧ enabled bucket or in a local deque is covered: some
  worker is running a packet or is polling and has not yet seen that container empty.  Hence
  `all_parked_no_work`: if no worker is running/polling, nothing is runnable.  Hypothesis (explicit):
  mutators do not push into open ∧ enabled buckets (`mutAddOpen = false`; true for the
  stop-the-world plans).
* `stranded_with_mutator_push` — the hypothesis is necessary: with one worker and a mutator that
  pushes into an open bucket (the SATB barrier of ConcurrentImmix during concurrent marking) the
  state "the only worker waits, a runnable packet exists, no wake-up in flight" is reachable
  (kernel-evaluated witness run).  This is the race the comment in `park_and_wait` describes.
* `designated_not_forgotten` — designated work exists only during a GC and never while all workers wait.
* `gc_never_sleeps_partial` — the safety half of "each GC request eventually leads to a completed
  collection": while a Gc goal is current, never do all workers wait (no deadlock inside a GC), and
  the transition that makes the last worker wait has no request pending.  (The liveness half is
  `gc_completes_under_fairness` below.)

Proved (liveness part of C14; definitions and the proof are in `Lemmas/SchedLive.lean`):
* `FairRun c tr act` — an infinite run `tr 0 →(act 0) tr 1 → …` (`act k = none`: stutter) from a reachable
  state with *weak fairness* of each worker's loop actions: `finish w` (`execEnd`: a running packet
  terminates), `take w` (some poll / pop / steal of `w`), `look w k` (`observeEmpty w k`), `miss w`, `park w`,
  `wake w`, `surrender w`: none of them is continuously enabled from some point on without being taken.
  What a running packet does, mutator / binding actions and spurious wake-ups are unconstrained by `FairRun`.
* explicit hypotheses: `FiniteSpawn` (finitely many packets are created: `added` is bounded along the run),
  `FiniteEnv` (from some point on only GC workers act: finitely many mutator actions **and finitely many
  spurious wake-ups**), `NoAssert` (a worker about to park can park: no debug assertion of
  `on_last_parked` fires; the model disables `park` exactly where the code panics), `mutAddOpen = false`,
  `GcPending` (a Gc request is pending or a Gc goal is current, no exit goal is current, no worker thread has
  surrendered).
* `all_workers_park_eventually` (= `last_park_eventually`) — the progress lemma: the run reaches a `park` of the
  last parker (the worker that runs `on_last_parked`).  Proof: otherwise the counters `started`, `ended` are
  eventually constant, no worker runs a packet (`finish` fairness), only "quiet" steps remain, every worker ends
  up waiting (`take`/`look`/`miss`/`park`/`wake` fairness + invariant C: no stranded packet), which
  contradicts invariant B (the last parker never sleeps on a request) — `Stuck.false`.
* `request_leads_to_goal` — a pending Gc request becomes the current goal.
* `gc_in_progress_completes` (= `gc_done_changes`) — a Gc goal in progress completes: otherwise `on_last_parked`
  runs infinitely often; each time it empties a sentinel slot, opens a closed bucket (both can happen only
  finitely often: flags are monotone during a GC) or finds designated work — and then the designated worker,
  once woken, can take its packet forever and by `take` fairness does, contradicting "no packet starts".
* **`gc_completes_under_fairness`** — the full statement: under the hypotheses above the run reaches the
  transition that completes *that* GC: `gcDone` is unchanged up to it and one larger after it; it is the `park`
  of the last parker while the Gc goal is current and every other worker is parked; afterwards all
  stop-the-world buckets are closed and empty, no worker runs a packet, all local deques are empty.
* `no_lost_request_at_gc_end` — a `Shutdown` / `StopForFork` request made *while a GC is in progress* (its
  `notify_one` was consumed by a worker that saw `current = Gc` and went back to sleep) is not lost: the `park`
  that completes the GC does not put the last parker to sleep, wakes every other worker, and either the exit goal
  is current afterwards or the request flag is still set (`exit_request_survives_gc`,
  `onLastParked_completing` in `Lemmas/SchedExitGc.lean`; liveness from there: C16
  `workers_exit_under_fairness_during_gc`).
* `live_hypotheses_satisfiable` — a concrete run (1 worker, request → ScheduleCollection → completion →
  sleep, then stuttering) satisfies every hypothesis (kernel-evaluated), and the theorem applied to it.
Why `FiniteEnv` (finitely many spurious wake-ups) and not "spurious wake-ups allowed without bound": with two
workers A, B the schedule  A.spurious, A.wake, B.park, A.observe…, A.pollMiss, B.spurious, B.wake, A.park, …
is weakly fair for every class above and never lets `parked_workers` reach `n`: the GC never completes.  The
hypothesis cannot be dropped; it is the model's form of "spurious wake-ups are rare".  (Not proved as a Lean
counterexample — it needs an infinite fair run with unboundedly many wake-ups; only the argument is given.)
Not assumed: any bound on what a packet does while it runs, on the number of workers, on the interleaving.
-/
namespace Mmtk.Sched

/-- **C14 (1)** `parked_workers` counts exactly the workers between `inc` and `dec`. -/
theorem parked_count_exact {c : Cfg} {s : State} (h : Reachable c s) :
    s.parked = countW c.n (fun x => (s.pc x).isParked) :=
  (reachable_invA h).parked_eq

/-- the pool of surrendered worker structs is counted exactly -/
theorem pool_count_exact {c : Cfg} {s : State} (h : Reachable c s) (k : Nat) (hk : s.creation = .surrendered k) :
    k = countW c.n (fun x => decide (s.pc x = .surrendered)) :=
  (reachable_invA h).pool k hk

/-- **C14 (2)** no lost request: with a goal requested or current, not every worker is waiting.
(`0 < n`: MMTk always has at least one GC worker.) -/
theorem no_lost_request {c : Cfg} (hn : 0 < c.n) {s : State} (h : Reachable c s)
    (hreq : anyRequested s = true ∨ s.current ≠ none) : ∃ x, x < c.n ∧ s.pc x ≠ .waiting := by
  have hb := (reachable_invAB hn h).2
  apply Classical.byContradiction
  intro hno
  have hall : AllWaiting c s := by
    intro x hx
    apply Classical.byContradiction
    intro hx2
    exact hno ⟨x, hx, hx2⟩
  obtain ⟨h1, h2⟩ := hb hall
  rcases hreq with h | h
  · rw [h1] at h; cases h
  · exact h h2

/-- the transition in which the last parked worker goes to sleep has nothing requested and no goal -/
theorem last_parker_sleeps_only_when_idle {c : Cfg} {s s' : State} {tag : Nat}
    (h : onLastParked c s tag = some (s', .parkSelf)) : anyRequested s' = false ∧ s'.current = none :=
  onLastParked_parkSelf h

/-- **C14 (3)** no stranded packet: every runnable packet (open ∧ enabled bucket, or a local deque)
is covered by a worker that is running a packet or still has to look into that container. -/
theorem no_stranded_packet {c : Cfg} (hn : 0 < c.n) (hmut : c.mutAddOpen = false) {s : State}
    (h : Reachable c s) (k : Cont) (hk : NonEmpty c s k) :
    ∃ x, x < c.n ∧ ((s.pc x).isExec = true ∨ ∃ seen, s.pc x = .polling seen ∧ k ∉ seen) := by
  obtain ⟨x, hx, hc⟩ := (reachable_inv hn hmut h).c' k hk
  refine ⟨x, hx, ?_⟩
  unfold covers at hc
  cases hp : s.pc x <;> rw [hp] at hc <;> first | exact hc.elim | (left; rfl) | (right; exact ⟨_, rfl, hc⟩)

/-- corollary: if no worker is running or polling (all parked, about to park, or gone), no bucket
would hand out a packet and every local deque is empty -/
theorem all_parked_no_work {c : Cfg} (hn : 0 < c.n) (hmut : c.mutAddOpen = false) {s : State}
    (h : Reachable c s)
    (hidle : ∀ x, x < c.n → (s.pc x).isExec = false ∧ ∀ seen, s.pc x ≠ .polling seen) :
    (∀ b, b < c.L → (s.bkt b).runnable = false) ∧ ∀ v, v < c.n → s.buf v = [] := by
  apply noRun_of_invC (reachable_inv hn hmut h).c'
  intro x k hx hc
  obtain ⟨h1, h2⟩ := hidle x hx
  unfold covers at hc
  cases hp : s.pc x <;> rw [hp] at hc h1 <;> first | exact hc | (exact absurd rfl (h2 _ )) | cases h1
  all_goals exact h2 _ hp

/-- designated work (packets only one worker may run) is never forgotten: it exists only while a Gc
goal is current, so (by `gc_never_sleeps_partial`) never while all workers wait; and the last parked
worker that finds designated work wakes everybody (`on_last_parked`, first branch). -/
theorem designated_not_forgotten {c : Cfg} (hn : 0 < c.n) {s : State} (h : Reachable c s) (x : Nat) (hx : x < c.n)
    (hd : s.desig x ≠ []) : s.current = some .gc ∧ ∃ y, y < c.n ∧ s.pc y ≠ .waiting := by
  have hg := reachable_invD hn h x hx hd
  exact ⟨hg, no_lost_request hn h (Or.inr (by rw [hg]; simp))⟩

/-- **C14 (liveness, proved part)** inside a GC the workers never all sleep: if every worker waits,
no goal is current and nothing is requested. -/
theorem gc_never_sleeps_partial {c : Cfg} (hn : 0 < c.n) {s : State} (h : Reachable c s)
    (hall : ∀ x, x < c.n → s.pc x = .waiting) : s.current = none ∧ anyRequested s = false :=
  let ⟨h1, h2⟩ := (reachable_invAB hn h).2 hall
  ⟨h2, h1⟩

/-! ## liveness under fairness -/

/-- **C14 (progress)** every worker eventually parks: in a fair run with finitely many packets and
finitely many environment actions in which no assertion fires, from a state where some goal is requested
(or a Gc goal is current) the run reaches a `park` step of the *last* parker, the worker that runs
`on_last_parked`; the request / goal is still there (`Pending`) at that step. -/
theorem all_workers_park_eventually {c : Cfg} {tr : Nat → State} {act : Nat → Option Act}
    (hn : 0 < c.n) (hmut : c.mutAddOpen = false) (hu : c.unconIdx < c.L)
    (R : FairRun c tr act) (hN : FiniteSpawn tr) (hE : FiniteEnv act) (hA : NoAssert c tr) (hP : Pending c (tr 0)) :
    ∃ j, IsLastPark c (tr j) (act j) ∧ ∀ i, i ≤ j → Pending c (tr i) :=
  last_park_eventually hn hmut hu R hN hE hA hP

/-- **C14 (request leads to goal)** a pending Gc request becomes the current goal, before any GC completes. -/
theorem request_leads_to_goal {c : Cfg} {tr : Nat → State} {act : Nat → Option Act}
    (hn : 0 < c.n) (hmut : c.mutAddOpen = false) (hu : c.unconIdx < c.L)
    (R : FairRun c tr act) (hN : FiniteSpawn tr) (hE : FiniteEnv act) (hA : NoAssert c tr) (hP : GcPending c (tr 0)) :
    ∃ j, (tr j).current = some .gc ∧ ∀ i, i ≤ j → (tr i).gcDone = (tr 0).gcDone := by
  obtain ⟨j0, h1, h2, _⟩ := gc_request_completes hn hmut hu R hN hE hA hP
  exact ⟨j0, h1, h2⟩

/-- **C14 (a GC in progress completes)** `gcDone` changes. -/
theorem gc_in_progress_completes {c : Cfg} {tr : Nat → State} {act : Nat → Option Act}
    (hn : 0 < c.n) (hmut : c.mutAddOpen = false) (hu : c.unconIdx < c.L)
    (R : FairRun c tr act) (hN : FiniteSpawn tr) (hE : FiniteEnv act) (hA : NoAssert c tr) (hP : Pending c (tr 0))
    (hc : (tr 0).current = some .gc) : ∃ j, (tr j).gcDone ≠ (tr 0).gcDone :=
  gc_done_changes hn hmut hu R hN hE hA hP hc

/-- **C14 (liveness) every requested GC completes.**  Let `tr` be a fair run (`FairRun`: weak fairness of
every worker's loop actions, running packets terminate) from a reachable state with a pending Gc request or
a Gc goal in progress (`GcPending`), in which finitely many packets are created (`FiniteSpawn`), finitely many
mutator actions / spurious wake-ups occur (`FiniteEnv`), no debug assertion fires (`NoAssert`), and mutators do
not push into open buckets (`mutAddOpen = false`).  Then the run reaches the transition `j → j+1` that
completes that GC: up to `j` the counter `gcDone` is unchanged and at `j+1` it is one larger; the transition is
the `park` of the last parker `w` while the Gc goal is current and every other worker is parked; afterwards
every stop-the-world bucket is closed and empty, no worker runs a packet and every local deque is empty. -/
theorem gc_completes_under_fairness {c : Cfg} {tr : Nat → State} {act : Nat → Option Act}
    (hwf : c.WF) (hmut : c.mutAddOpen = false) (hu : c.unconIdx < c.L)
    (R : FairRun c tr act) (hN : FiniteSpawn tr) (hE : FiniteEnv act) (hA : NoAssert c tr) (hP : GcPending c (tr 0)) :
    ∃ j w tag, (∀ i, i ≤ j → (tr i).gcDone = (tr 0).gcDone) ∧ act j = some (.park w tag) ∧
      (tr (j+1)).gcDone = (tr 0).gcDone + 1 ∧ (tr j).current = some .gc ∧ w < c.n ∧ (tr j).pc w = .parking ∧
      (∀ x, x < c.n → x ≠ w → ((tr j).pc x).isParked = true) ∧
      (∀ b, b < c.L → (c.info b).isStw = true → ((tr (j+1)).bkt b).isOpen = false ∧ ((tr (j+1)).bkt b).q = []) ∧
      (∀ x, x < c.n → ((tr (j+1)).pc x).isExec = false ∧ (tr (j+1)).buf x = []) := by
  obtain ⟨_, _, _, j1, _, hj1⟩ := gc_request_completes hwf.npos hmut hu R hN hE hA hP
  obtain ⟨j, hne, hsame⟩ := first_change (fun i => (tr i).gcDone) ⟨j1, hj1⟩
  cases ha : act j with
  | none => rw [R.stutter_at ha] at hne; exact absurd rfl hne
  | some a =>
    have hs := R.step_at ha
    obtain ⟨⟨w, tag, rfl⟩, hplus, hcur, hstw⟩ := all_closed_at_end hwf hs hne
    obtain ⟨hq1, hq2⟩ := quiescent_at_end hwf hmut (R.reach j) hs hne
    obtain ⟨hw, hpc, _, hcase⟩ := step_park_cases hs
    have hA' := reachable_invA (R.reach j)
    refine ⟨j, w, tag, hsame, ha, by rw [hplus, hsame j (Nat.le_refl _)], hcur, hw, hpc, ?_, hstw, ?_⟩
    · rcases hcase with ⟨_, e⟩ | ⟨hlast, _⟩
      · rw [e] at hne; exact absurd rfl hne
      · intro x hx hxw
        exact countW_all_but c.n (fun x => ((tr j).pc x).isParked) w hw (by simp [hpc, PC.isParked])
          (by have := hA'.parked_eq; unfold parkedCount at this; omega) x hx hxw
    · intro x hx
      exact ⟨by rw [step_park_isExec hs]; exact hq1 x hx, hq2 x hx⟩

/-- **C14 (no request is lost at the end of a GC)** a `Shutdown` / `StopForFork` request that is pending when the
last parker completes a GC (`gcDone` changes) — i.e. a request made while the GC was in progress, whose single
`notify_one` may have been consumed by a worker that found `current = Gc` and parked again — is served or kept:
after that `park` step the parker is not waiting, no worker is waiting (every other worker has been woken), and
either an exit goal is current or the request flag is still set.  Hence `no_lost_request` holds across the
end of a GC with an exit request pending without relying on any further notification. -/
theorem no_lost_request_at_gc_end {c : Cfg} {s s' : State} {w tag : Nat} (hr : Reachable c s)
    (hs : step c s (.park w tag) = some s') (hd : s'.gcDone ≠ s.gcDone)
    (hreq : s.reqShutdown = true ∨ s.reqFork = true) :
    (∀ x, x < c.n → s'.pc x ≠ .waiting) ∧
    ((∃ g, s'.current = some g ∧ g.isExit = true) ∨ (s'.reqShutdown = true ∨ s'.reqFork = true)) := by
  obtain ⟨_, _, _, _, hothers, hcases⟩ := exit_request_survives_gc hr hs hd hreq
  obtain ⟨hw, _, _, _⟩ := step_park_cases hs
  refine ⟨fun x hx => ?_, ?_⟩
  · by_cases e : x = w
    · subst e
      rcases hcases with ⟨_, h⟩ | ⟨_, _, _, h⟩ <;> rw [h] <;> simp
    · rw [hothers x hx e]; simp
  · rcases hcases with ⟨h, _⟩ | ⟨_, _, h, _⟩
    · exact Or.inl h
    · exact Or.inr h

/-! ## the hypotheses of the liveness theorems are satisfiable -/

open Mmtk.Generated.Stages in
/-- the state after `GCTrigger::request` + `make_request(Gc)`: one worker, a Gc request is pending -/
def liveStart : State := (exec (cfg 1) (init (cfg 1)) [.requestFlag, .makeRequest .gc none]).getD (init (cfg 1))

open Mmtk.Generated.Stages in
/-- the worker finds nothing, parks (last parker: starts the Gc goal), runs `ScheduleCollection`, finds
nothing, parks again (last parker: completes the GC and goes to sleep) -/
def liveRun : List Act :=
  (allConts (cfg 1)).map (Act.observeEmpty 0) ++ [.pollMiss 0, .park 0 7, .pollBucket 0 0 ⟨0, 0, 7⟩, .execEnd 0] ++
  (allConts (cfg 1)).map (Act.observeEmpty 0) ++ [.pollMiss 0, .park 0 0]

open Mmtk.Generated.Stages in
def liveEnd : State := (exec (cfg 1) liveStart liveRun).getD liveStart

open Mmtk.Generated.Stages in
theorem liveRun_exec : exec (cfg 1) liveStart liveRun = some liveEnd :=
  exec_getD (by decide +kernel)

open Mmtk.Generated.Stages in
/-- **a concrete instance of all hypotheses** of `gc_completes_under_fairness` (and of
`all_workers_park_eventually`): the run `liveRun` from `liveStart`, continued by stuttering, is a fair run
with a pending Gc request at its start, 1 packet, no environment action, no assertion failure. -/
theorem live_hypotheses_satisfiable :
    (cfg 1).WF ∧ (cfg 1).mutAddOpen = false ∧ (cfg 1).unconIdx < (cfg 1).L ∧
    FairRun (cfg 1) (runStates (cfg 1) liveStart liveRun) (fun k => liveRun[k]?) ∧
    FiniteSpawn (runStates (cfg 1) liveStart liveRun) ∧ FiniteEnv (fun k => liveRun[k]?) ∧
    NoAssert (cfg 1) (runStates (cfg 1) liveStart liveRun) ∧
    GcPending (cfg 1) (runStates (cfg 1) liveStart liveRun 0) := by
  have hreach : Reachable (cfg 1) liveStart := ⟨[.requestFlag, .makeRequest .gc none], exec_getD (by decide +kernel)⟩
  have hend : ∀ w, w < (cfg 1).n → liveEnd.pc w = .waiting := by
    intro w hw
    have : w = 0 := by have : (cfg 1).n = 1 := rfl; omega
    subst this; decide +kernel
  refine ⟨generated_wf 1 (by decide) false, rfl, by decide, fairRun_of_finite hreach liveRun_exec hend, ?_, ?_, ?_, ?_⟩
  · exact ⟨1, runStates_forall liveRun_exec (fun s => s.added ≤ 1) (by decide +kernel) (by decide +kernel)⟩
  · refine ⟨0, fun j a _ ha => ?_⟩
    have hall : liveRun.all (fun a => !a.isEnv) = true := by decide +kernel
    have := (List.all_eq_true.1 hall) a (List.mem_of_getElem? ha)
    simpa using this
  · intro j w hw
    have : w = 0 := by have : (cfg 1).n = 1 := rfl; omega
    subst this
    exact runStates_forall liveRun_exec
      (fun s => s.pc 0 = .parking → ∃ tag, (step (cfg 1) s (.park 0 tag)).isSome = true)
      (fun k hk hp => ⟨0, by
        have : ∀ k, k < liveRun.length → (runStates (cfg 1) liveStart liveRun k).pc 0 = .parking →
            (step (cfg 1) (runStates (cfg 1) liveStart liveRun k) (.park 0 0)).isSome = true := by decide +kernel
        exact this k hk hp⟩)
      (fun hp => by have : liveEnd.pc 0 = .waiting := by decide +kernel
                    rw [this] at hp; cases hp) j
  · rw [runStates_zero]
    refine ⟨Or.inl (by decide +kernel), ?_, ?_⟩
    · intro g hg
      have : liveStart.current = none := by decide +kernel
      rw [this] at hg; cases hg
    · intro w hw
      have : w = 0 := by have : (cfg 1).n = 1 := rfl; omega
      subst this; decide +kernel

open Mmtk.Generated.Stages in
/-- the liveness theorem applied to the concrete run: it does reach the completing `park` -/
example : ∃ j w tag, liveRun[j]? = some (.park w tag) ∧
    (runStates (cfg 1) liveStart liveRun (j+1)).gcDone = (runStates (cfg 1) liveStart liveRun 0).gcDone + 1 := by
  obtain ⟨h1, h2, h3, h4, h5, h6, h7, h8⟩ := live_hypotheses_satisfiable
  obtain ⟨j, w, tag, _, ha, hg, _⟩ := gc_completes_under_fairness h1 h2 h3 h4 h5 h6 h7 h8
  exact ⟨j, w, tag, ha, hg⟩

/-! ## the hypotheses are satisfiable; the mutator-push hypothesis is necessary -/

open Mmtk.Generated.Stages in
/-- a non-trivial reachable state: 2 workers, a GC has been requested, worker 1 waits, worker 0
(last parked) started the Gc goal, polled `ScheduleCollection` and runs it -/
def demoRun : List Act :=
  (allConts (cfg 2)).map (Act.observeEmpty 1) ++ [.pollMiss 1, .park 1 0, .requestFlag, .makeRequest .gc (some 1)] ++
  (allConts (cfg 2)).map (Act.observeEmpty 0) ++ [.pollMiss 0, .wake 1] ++
  (allConts (cfg 2)).map (Act.observeEmpty 1) ++ [.pollMiss 1, .park 1 0, .park 0 7,
    .pollBucket 0 0 ⟨0, 0, 7⟩, .push 0 2 9]

open Mmtk.Generated.Stages in
example : (exec (cfg 2) (init (cfg 2)) demoRun).map
    (fun s => (s.current, s.parked, s.pc 0, s.pc 1, (s.bkt 2).q.length)) =
    some (some .gc, 1, .exec ⟨0, 0, 7⟩, .waiting, 1) := by decide +kernel

open Mmtk.Generated.Stages in
/-- One worker and a mutator that may push into open buckets (ConcurrentImmix's SATB barrier).
The Concurrent bucket is open and enabled during concurrent marking: reach that state first
(a GC that schedules concurrent work), then the mutator pushes between the worker's last poll and its
`wait`: the only worker sleeps, the packet is runnable, the `notify_one` found nobody. -/
def strandRun2 : List Act :=
  -- request + start a GC
  [.requestFlag, .makeRequest .gc none] ++
  (allConts (cfg 1 true)).map (Act.observeEmpty 0) ++ [.pollMiss 0, .park 0 7, .pollBucket 0 0 ⟨0, 0, 7⟩,
    -- the packet leaves a packet in the (disabled) Concurrent bucket and ends
    .push 0 1 8, .execEnd 0] ++
  (allConts (cfg 1 true)).map (Act.observeEmpty 0) ++
  -- last parked: nothing to open (Prepare was never opened in this abstract run), GC ends, the
  -- Concurrent bucket is enabled and opened, the worker is woken and runs the concurrent packet
  [.pollMiss 0, .park 0 0, .pollBucket 0 1 ⟨1, 1, 8⟩, .execEnd 0] ++
  (allConts (cfg 1 true)).map (Act.observeEmpty 0) ++
  -- the worker has seen everything empty; now the mutator's barrier pushes and notifies nobody
  [.pollMiss 0, .mutPush 1 5, .mutNotifyOne 1 none, .park 0 0]

open Mmtk.Generated.Stages in
/-- **necessity of the hypothesis** (`stranded_with_mutator_push`): the only worker waits, no goal is
current or requested, and an open ∧ enabled bucket holds a packet. -/
theorem stranded_with_mutator_push :
    (exec (cfg 1 true) (init (cfg 1 true)) strandRun2).map
      (fun s => (s.pc 0, s.current, anyRequested s, (s.bkt 1).runnable, (s.bkt 1).q.length)) =
    some (.waiting, none, false, true, 1) := by decide +kernel

open Mmtk.Generated.Stages in
example : 0 < (cfg 3).n ∧ (cfg 3).mutAddOpen = false := by decide

end Mmtk.Sched
