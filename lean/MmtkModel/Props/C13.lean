import MmtkModel.Props.C15
/-!
# C13 (ordering part) — VM weak-reference rounds run only after the closure is complete

`VMProcessWeakRefs` is the *sentinel* of the `VMRefClosure` bucket (`schedule_common_work`); when
`process_weak_refs` returns `true` the packet installs itself as the sentinel again
(`plan/tracing/gc_work/weakref.rs`).  In the model (`Model/Sched.lean`) a sentinel is a packet parked in
`Bucket.sentinel`; it becomes runnable only through `maybe_schedule_sentinel`.

* `sentinel_only_when_drained` — a sentinel leaves its slot only in the `park` transition of the last
  parked worker, with every other worker parked, a Gc goal current, **every open ∧ enabled bucket
  empty and no designated work** (`assert_all_open_buckets_are_empty`, `has_designated_work`) — i.e.
  after everything that was runnable, including the transitive closure spawned from earlier stages and
  from the previous round of the same sentinel, has finished.  Every other action keeps the slot or
  fills an empty one.
* together with C15 (`open_only_when_quiescent`: the sentinel's own bucket was opened only after all
  earlier enabled stages were empty) this is `weak_after_closure`; `weak_repeats_until_false` is the
  same theorem applied to the re-installed sentinel.
* "objects it traced survive with updated addresses" and "`forward_weak_refs` is called once iff the
  plan forwards after liveness" are checked on real GCs by the monitor / oracle
  (`gc:weak-before-closure`, `gc:weak-after-false`, `gc:weak-not-finished`, `gc:forward-weak-count`);
  they are statements about concrete packets the abstract-packet model cannot name.
-/
namespace Mmtk.Sched

theorem sentinel_only_when_drained {c : Cfg} {s s' : State} {a : Act} (hr : Reachable c s)
    (hs : step c s a = some s') (b : Nat) (p : Pkt) (h1 : (s.bkt b).sentinel = some p)
    (h2 : (s'.bkt b).sentinel ≠ some p) :
    ∃ w tag, a = .park w tag ∧ w < c.n ∧ s.pc w = .parking ∧
      (∀ x, x < c.n → x ≠ w → (s.pc x).isParked = true) ∧
      s.current = some .gc ∧ allOpenEmpty c s = true ∧ hasDesignated c s = false := by
  have hA := reachable_invA hr
  rcases step_other_sentinel c s s' a hs with ⟨w, tag, rfl⟩ | hsame
  · obtain ⟨hw, hpc, _, hcase⟩ := step_park_cases hs
    refine ⟨w, tag, rfl, hw, hpc, ?_⟩
    rcases hcase with ⟨_, rfl⟩ | ⟨hlast, s1, r, hl, he⟩
    · exact absurd h1 h2
    · have hne : (s1.bkt b).sentinel ≠ (s.bkt b).sentinel := by
        intro e; apply h2; rw [he]; show (s1.bkt b).sentinel = _; rw [e, h1]
      obtain ⟨g1, g2, g3⟩ := onLastParked_sentinel c _ s1 tag r hl b hne
      refine ⟨?_, g1, g2, g3⟩
      apply countW_all_but c.n (fun x => (s.pc x).isParked) w hw (by simp [hpc, PC.isParked])
      have := hA.parked_eq; unfold parkedCount at this; omega
  · rcases hsame b with e | e
    · rw [e, h1] at h2; exact absurd rfl h2
    · rw [h1] at e; cases e

/-- a sentinel is installed only by a running packet into an empty slot (`set_sentinel`); together with
`sentinel_only_when_drained`: each installed sentinel is scheduled at most once. -/
theorem sentinel_installed_by_packet {c : Cfg} {s s' : State} {w b tag : Nat} (hs : step c s (.setSentinel w b tag) = some s') :
    (s.pc w).isExec = true ∧ (s.bkt b).sentinel = none ∧ (s'.bkt b).sentinel = some (newPkt s b tag) := by
  simp only [step] at hs
  split at hs
  · rename_i hg; injection hs with hs; subst hs
    exact ⟨hg.2.1, hg.2.2.2, by simp [setBkt]⟩
  · cases hs

end Mmtk.Sched
