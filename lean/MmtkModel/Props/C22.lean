import MmtkModel.Model.SideMetaSearch
import MmtkModel.Props.C21
import MmtkModel.Lemmas.SideSearch
import MmtkModel.Lemmas.SideFind
/-!
# C22 — Side-metadata search and scan agree with a naive scan

Status: **proved** (all five top-level statements, for a general `MapEnv`).

Top-level theorems (this file; abstract-level lemmas in `Lemmas/SideSearch.lean`, `Lemmas/SideFind.lean`):

* scan — `scanFast_eq_scanSpec` (any `start ≤ end`), `scan_fast_eq_naive` (`scanSimple … = some (scanFast …)`),
  `scan_spec` (membership + strictly ascending), `scan_public_spec` (public entry, every field width).
  Hypotheses: `s.ok`, 1-bit spec (for the fast path), `ByteMem m`, region-aligned `start ≤ end < 2^64`, and for
  the naive version in a debug build the visited region starts mapped.
* forward search — `findNext_fast_eq_simple`, `findNext_spec`, `findNext_public`.
* backward search (this tree's `findPrevFast`, whose quick check applies the limit) — `findPrev_fast_eq_simple`,
  `findPrev_spec`, `findPrev_public`; for the pinned `findPrevFastOld`: `findPrevOld_fast_eq_simple` (with the
  side condition `alignDown a R ≥ a - limit + 1 ∨ load s m a = 0`) and, on its complement,
  `findPrev_own_region_defect` (fast ≠ naive, with a `decide` witness).

Hypotheses of the search theorems (each set has an `example` with a non-trivial instance: an unmapped data
chunk inside the searched range):
  `env.ok` (granule = positive multiple of 8, mapped-ness per granule), `2^logRegion ∣ gran`, `s.ok`,
  `ByteMem m`, table start aligned to the field size (`s.start % 2^(logBits-3) = 0`), `logBits ≤ logRegion` for
  sub-byte fields (the code computes `log_bytes_in_region - log_num_of_bits` on `usize`), `0 < limit`,
  `MapConsistent env s m lo hi dir` on the searched regions (`Lemmas/SideFind.lean`: a mapped data region has
  mapped metadata; at and behind an unmapped data region every readable metadata bit is zero);
  forward: `0 < s.start`, `alignUp (a+limit) R < 2^64`, and for fast = naive `mapped a ∨ R ≤ a` — the naive loop
  never asks whether address 0 is mapped (`findNext_region0_witness` shows the model needs it);
  backward: `0 < a`, `a + 1 < 2^64`, `metaAddr s a < 2^64 - 1` (the loops' caches start at `usize::MAX`).

Proof structure: each range scanner / finder is shown equal to a search on global bit positions
(`ScanOk`, `fwdSearch`, `bwdSearch`; uses `ctz_spec`, `hiBit_spec`, `findFirstBit_spec`, `findLastBit_spec`);
`breakBitRange_partition` (C21) composes the ranges; `field_position` / `resData_found` / `metaToData_bit` map
positions back to regions; under `MapConsistent` the position-level search is the region-level search
(`fwd_fast_region`, `bwd_fast_region`), which is also what the naive loops compute
(`findNextSimpleLoop_eq`, `findPrevSimpleLoop_eq`, `scanSimpleLoop_eq`).

Also here: the exact characterisation of the one in-scope disagreement of the pinned code
(`findPrev_own_region_defect`), the quick-check lemmas (`…_partial`, `…_fixed_…`), and `decide`-checked
counter-models outside the property's scope (no `MapConsistent`; region-unaligned scan end).
The theorems are additionally tied to the code by the exact differential of all three variants (fast / naive /
public with the debug build's own `assert_eq!(fast, naive)`) and the independent naive-scan oracle of
`checks/C22.py`.
-/
namespace Mmtk.SideMeta
open Mmtk.Mem
open Mmtk.HeaderMeta (ByteMem)

/-! ## bit selection in the inner loops -/

theorem ctzF_spec (f n : Nat) (h0 : n ≠ 0) (hlt : n < 2 ^ f) :
    n.testBit (ctzF f n) = true ∧ ∀ i, i < ctzF f n → n.testBit i = false := by
  induction f generalizing n with
  | zero => simp at hlt; omega
  | succ f ih =>
    unfold ctzF
    by_cases h : n % 2 = 1
    · simp only [h, if_true]
      exact ⟨by simp [Nat.testBit_zero, h], fun i hi => by omega⟩
    · simp only [h, if_false]
      have hn2 : n / 2 ≠ 0 := by omega
      have hl2 : n / 2 < 2 ^ f := by rw [Nat.pow_succ] at hlt; omega
      obtain ⟨a, b⟩ := ih (n / 2) hn2 hl2
      refine ⟨?_, ?_⟩
      · rw [Nat.add_comm, Nat.testBit_succ]; exact a
      · intro i hi
        cases i with
        | zero => simp [Nat.testBit_zero]; omega
        | succ j => rw [Nat.testBit_succ]; exact b j (by omega)

/-- **`trailing_zeros`**: the selected bit is set and is the lowest set bit. -/
theorem ctz_spec (n : Nat) (h0 : n ≠ 0) (hlt : n < 2 ^ 64) :
    n.testBit (ctz n) = true ∧ ∀ i, i < ctz n → n.testBit i = false := ctzF_spec 64 n h0 hlt

theorem log2F_spec (f n : Nat) (h0 : n ≠ 0) (hlt : n < 2 ^ f) :
    n.testBit (log2F f n) = true ∧ ∀ i, log2F f n < i → n.testBit i = false := by
  induction f generalizing n with
  | zero => simp at hlt; omega
  | succ f ih =>
    unfold log2F
    by_cases h : n < 2
    · have : n = 1 := by omega
      subst this
      simp only [h, if_true]
      refine ⟨by decide, fun i hi => ?_⟩
      exact Nat.testBit_lt_two_pow (Nat.lt_of_lt_of_le (by decide : 1 < 2 ^ 1) (Nat.pow_le_pow_right (by omega) hi))
    · simp only [h, if_false]
      have hn2 : n / 2 ≠ 0 := by omega
      have hl2 : n / 2 < 2 ^ f := by rw [Nat.pow_succ] at hlt; omega
      obtain ⟨a, b⟩ := ih (n / 2) hn2 hl2
      refine ⟨?_, ?_⟩
      · rw [Nat.add_comm, Nat.testBit_succ]; exact a
      · intro i hi
        cases i with
        | zero => omega
        | succ j => rw [Nat.testBit_succ]; exact b j (by omega)

/-- **`bits − leading_zeros − 1`**: the selected bit is set and is the highest set bit. -/
theorem hiBit_spec (n : Nat) (h0 : n ≠ 0) (hlt : n < 2 ^ 64) :
    n.testBit (hiBit n) = true ∧ ∀ i, hiBit n < i → n.testBit i = false := log2F_spec 64 n h0 hlt

/-- the mask of `find_*_non_zero_bit::<T>(_, start, end)` selects exactly the bits `start ≤ i < end`. -/
theorem testBit_rangeMask (tb st en i : Nat) (h1 : st ≤ en) (h2 : en ≤ tb) :
    (rangeMask tb st en).testBit i = (decide (st ≤ i) && decide (i < en)) := by
  unfold rangeMask
  by_cases h : en - st < tb
  · simp only [h, if_true]
    rw [Nat.testBit_mod_two_pow, Nat.testBit_shiftLeft, Nat.testBit_two_pow_sub_one]
    by_cases a : st ≤ i <;> by_cases b : i < en <;> simp [a, b] <;> omega
  · simp only [h, if_false]
    have e1 : st = 0 := by omega
    have e2 : en = tb := by omega
    subst e1; subst e2
    rw [Nat.testBit_mod_two_pow, Nat.testBit_shiftLeft, Nat.testBit_two_pow_sub_one]
    by_cases b : i < en <;> simp [b]

theorem masked_lt (tb v st en : Nat) (htb : tb ≤ 64) : v &&& rangeMask tb st en < 2 ^ 64 := by
  apply Nat.lt_of_le_of_lt Nat.and_le_right
  have : rangeMask tb st en < 2 ^ tb := by
    unfold rangeMask; split <;> exact Nat.mod_lt _ (Nat.two_pow_pos _)
  exact Nat.lt_of_lt_of_le this (Nat.pow_le_pow_right (by omega) htb)

/-- **`find_first_non_zero_bit`** returns the lowest set bit of `value` inside `[start, end)`, or
`None` iff there is none. -/
theorem findFirstBit_spec (tb v st en : Nat) (h1 : st ≤ en) (h2 : en ≤ tb) (htb : tb ≤ 64) :
    match findFirstBit tb v st en with
    | some b => st ≤ b ∧ b < en ∧ v.testBit b = true ∧ ∀ i, st ≤ i → i < b → v.testBit i = false
    | none => ∀ i, st ≤ i → i < en → v.testBit i = false := by
  unfold findFirstBit
  by_cases h0 : v &&& rangeMask tb st en = 0
  · simp only [h0, if_true]
    intro i hi1 hi2
    have : (v &&& rangeMask tb st en).testBit i = false := by rw [h0]; simp
    rw [Nat.testBit_and, testBit_rangeMask tb st en i h1 h2] at this
    simpa [hi1, hi2] using this
  · simp only [h0, if_false]
    obtain ⟨a, b⟩ := ctz_spec _ h0 (masked_lt tb v st en htb)
    rw [Nat.testBit_and, testBit_rangeMask tb st en _ h1 h2] at a
    simp only [Bool.and_eq_true, decide_eq_true_eq] at a
    refine ⟨a.2.1, a.2.2, a.1, fun i hi1 hi2 => ?_⟩
    have := b i hi2
    rw [Nat.testBit_and, testBit_rangeMask tb st en i h1 h2] at this
    have hi3 : i < en := by omega
    simpa [hi1, hi3] using this

/-- **`find_last_non_zero_bit`** returns the highest set bit of `value` inside `[start, end)`, or
`None` iff there is none. -/
theorem findLastBit_spec (tb v st en : Nat) (h1 : st ≤ en) (h2 : en ≤ tb) (htb : tb ≤ 64) :
    match findLastBit tb v st en with
    | some b => st ≤ b ∧ b < en ∧ v.testBit b = true ∧ ∀ i, b < i → i < en → v.testBit i = false
    | none => ∀ i, st ≤ i → i < en → v.testBit i = false := by
  unfold findLastBit
  by_cases h0 : v &&& rangeMask tb st en = 0
  · simp only [h0, if_true]
    intro i hi1 hi2
    have : (v &&& rangeMask tb st en).testBit i = false := by rw [h0]; simp
    rw [Nat.testBit_and, testBit_rangeMask tb st en i h1 h2] at this
    simpa [hi1, hi2] using this
  · simp only [h0, if_false]
    obtain ⟨a, b⟩ := hiBit_spec _ h0 (masked_lt tb v st en htb)
    rw [Nat.testBit_and, testBit_rangeMask tb st en _ h1 h2] at a
    simp only [Bool.and_eq_true, decide_eq_true_eq] at a
    refine ⟨a.2.1, a.2.2, a.1, fun i hi1 hi2 => ?_⟩
    have := b i hi1
    rw [Nat.testBit_and, testBit_rangeMask tb st en i h1 h2] at this
    have hi3 : st ≤ i := by omega
    simpa [hi2, hi3] using this

/-! ## the quick-check case of the backward search: where the real fast and naive versions part -/

/-- **Defect of the pinned code, characterised exactly.**  If the origin's own region holds a non-zero
field but its start lies below `data_addr - limit + 1` (i.e. `limit ≤ data_addr mod region`), the fast
version's quick check returns that region start *without applying the limit*, while the naive version
never visits it: `find_prev_non_zero_value` trips its own `assert_eq!(fast, naive)` in debug builds and
returns an address outside the requested range in release builds. -/
theorem findPrev_own_region_defect (env : MapEnv) (s : Spec) (m : Mem) (a limit : Nat)
    (hmap : env.mapped a = true) (hload : load s m a ≠ 0)
    (hlim : limit ≤ a % 2 ^ s.logRegion) :
    findPrevFastOld env s m a limit = some (alignDown a (2 ^ s.logRegion)) ∧
    findPrevSimple env s m a limit = none := by
  have hfast : findPrevFastOld env s m a limit = some (alignDown a (2 ^ s.logRegion)) := by
    unfold findPrevFastOld; simp [hmap, hload]
  have hmod : a % 2 ^ s.logRegion ≤ a := Nat.mod_le _ _
  have hsimple : findPrevSimple env s m a limit = none := by
    unfold findPrevSimple
    simp only
    show findPrevSimpleLoop env s m (a - limit + 1) (limit / 2 ^ s.logRegion + 1 + 1) (alignDown a (2 ^ s.logRegion)) (2 ^ 64 - 1) = none
    unfold findPrevSimpleLoop
    have : ¬ (alignDown a (2 ^ s.logRegion) ≥ a - limit + 1) := by unfold alignDown; omega
    simp only [this, not_false_eq_true, if_true]
  exact ⟨hfast, hsimple⟩

/-- the concrete failing input: 1 bit per 8-byte region, bit of region 1 set,
`find_prev_non_zero_value(data_addr = 15, limit = 7)`. -/
theorem findPrev_own_region_defect_witness :
    let env : MapEnv := { mapped := fun _ => true, gran := 64 }
    let s : Spec := { start := 1000, logBits := 0, logRegion := 3 }
    let m : Mem := fun x => if x = 1000 then 2 else 0
    findPrevFastOld env s m 15 7 = some 8 ∧ findPrevSimple env s m 15 7 = none ∧
    findPrevFast env s m 15 7 = none := by
  decide

/-- **The true part (quick-check case)**: when the own region's start is inside the limit, both
versions return it. -/
theorem findPrev_own_region_partial (env : MapEnv) (s : Spec) (hs : s.ok) (m : Mem) (a limit : Nat) (ha1 : a + 1 < 2 ^ 64)
    (hmap : env.mapped a = true) (hmap' : env.mapped (alignDown a (2 ^ s.logRegion)) = true)
    (hload : load s m a ≠ 0) (hlim : a % 2 ^ s.logRegion < limit) (hle : limit ≤ a) :
    findPrevFastOld env s m a limit = some (alignDown a (2 ^ s.logRegion)) ∧
    findPrevSimple env s m a limit = some (alignDown a (2 ^ s.logRegion)) := by
  have ha : a < 2 ^ 64 := by omega
  have hfast : findPrevFastOld env s m a limit = some (alignDown a (2 ^ s.logRegion)) := by
    unfold findPrevFastOld; simp [hmap, hload]
  refine ⟨hfast, ?_⟩
  have hmod : a % 2 ^ s.logRegion ≤ a := Nat.mod_le _ _
  have hreg : (alignDown a (2 ^ s.logRegion)) >>> s.logRegion = a >>> s.logRegion := by
    unfold alignDown
    rw [Nat.shiftRight_eq_div_pow, Nat.shiftRight_eq_div_pow]
    have hp := Nat.two_pow_pos s.logRegion
    have e : a - a % 2 ^ s.logRegion = 2 ^ s.logRegion * (a / 2 ^ s.logRegion) := by
      have := Nat.div_add_mod a (2 ^ s.logRegion); omega
    rw [e, Nat.mul_div_cancel_left _ hp]
  have hload' : load s m (alignDown a (2 ^ s.logRegion)) ≠ 0 := by
    have hlt : alignDown a (2 ^ s.logRegion) < 2 ^ 64 := by unfold alignDown; omega
    rw [load_eq_absArr s hs m _ hlt, hreg, ← load_eq_absArr s hs m a ha]; exact hload
  unfold findPrevSimple
  simp only
  show findPrevSimpleLoop env s m (a - limit + 1) (limit / 2 ^ s.logRegion + 1 + 1) (alignDown a (2 ^ s.logRegion)) (2 ^ 64 - 1) = _
  unfold findPrevSimpleLoop
  have h1 : alignDown a (2 ^ s.logRegion) ≥ a - limit + 1 := by unfold alignDown; omega
  have h2 : alignDown a (2 ^ s.logRegion) < 2 ^ 64 - 1 := by unfold alignDown; omega
  simp [h1, h2, hmap', hload']

/-- **After the `fix:` commit** the quick check applies the limit: in the case that used to differ,
the repaired fast version and the naive version agree (both find nothing) … -/
theorem findPrev_own_region_fixed_below (env : MapEnv) (s : Spec) (m : Mem) (a limit : Nat)
    (hmap : env.mapped a = true) (hload : load s m a ≠ 0) (hlim : limit ≤ a % 2 ^ s.logRegion) :
    findPrevFast env s m a limit = none ∧ findPrevSimple env s m a limit = none := by
  refine ⟨?_, (findPrev_own_region_defect env s m a limit hmap hload hlim).2⟩
  have hmod : a % 2 ^ s.logRegion ≤ a := Nat.mod_le _ _
  have : ¬ (alignDown a (2 ^ s.logRegion) ≥ a - limit + 1) := by unfold alignDown; omega
  unfold findPrevFast; simp [hmap, hload, this]

/-- … and in the other case both still return the own region's start. -/
theorem findPrev_own_region_fixed_within (env : MapEnv) (s : Spec) (hs : s.ok) (m : Mem) (a limit : Nat) (ha1 : a + 1 < 2 ^ 64)
    (hmap : env.mapped a = true) (hmap' : env.mapped (alignDown a (2 ^ s.logRegion)) = true)
    (hload : load s m a ≠ 0) (hlim : a % 2 ^ s.logRegion < limit) (hle : limit ≤ a) :
    findPrevFast env s m a limit = some (alignDown a (2 ^ s.logRegion)) ∧
    findPrevSimple env s m a limit = some (alignDown a (2 ^ s.logRegion)) := by
  refine ⟨?_, (findPrev_own_region_partial env s hs m a limit ha1 hmap hmap' hload hlim hle).2⟩
  have hmod : a % 2 ^ s.logRegion ≤ a := Nat.mod_le _ _
  have : alignDown a (2 ^ s.logRegion) ≥ a - limit + 1 := by unfold alignDown; omega
  unfold findPrevFast; simp [hmap, hload, this]

/-- the forward search has no such case: its quick check and the naive walk agree on the own region. -/
theorem findNext_own_region_partial (env : MapEnv) (s : Spec) (hs : s.ok) (m : Mem) (a limit : Nat) (ha : a < 2 ^ 64)
    (hmap : env.mapped a = true) (hmap' : env.mapped (alignDown a (2 ^ s.logRegion)) = true)
    (hload : load s m a ≠ 0) (hlim : 0 < limit) :
    findNextFast env s m a limit = some (alignDown a (2 ^ s.logRegion)) ∧
    findNextSimple env s m a limit = some (alignDown a (2 ^ s.logRegion)) := by
  have hfast : findNextFast env s m a limit = some (alignDown a (2 ^ s.logRegion)) := by
    unfold findNextFast; simp [hmap, hload]
  refine ⟨hfast, ?_⟩
  have hmod : a % 2 ^ s.logRegion ≤ a := Nat.mod_le _ _
  have hreg : (alignDown a (2 ^ s.logRegion)) >>> s.logRegion = a >>> s.logRegion := by
    unfold alignDown
    rw [Nat.shiftRight_eq_div_pow, Nat.shiftRight_eq_div_pow]
    have hp := Nat.two_pow_pos s.logRegion
    have e : a - a % 2 ^ s.logRegion = 2 ^ s.logRegion * (a / 2 ^ s.logRegion) := by
      have := Nat.div_add_mod a (2 ^ s.logRegion); omega
    rw [e, Nat.mul_div_cancel_left _ hp]
  have hload' : load s m (alignDown a (2 ^ s.logRegion)) ≠ 0 := by
    have hlt : alignDown a (2 ^ s.logRegion) < 2 ^ 64 := by unfold alignDown; omega
    rw [load_eq_absArr s hs m _ hlt, hreg, ← load_eq_absArr s hs m a ha]; exact hload
  unfold findNextSimple
  simp only
  show findNextSimpleLoop env s m (a + limit) (limit / 2 ^ s.logRegion + 1 + 1) (alignDown a (2 ^ s.logRegion)) 0 = _
  unfold findNextSimpleLoop
  have h1 : alignDown a (2 ^ s.logRegion) < a + limit := by unfold alignDown; omega
  by_cases h0 : alignDown a (2 ^ s.logRegion) > 0
  · simp [h1, h0, hmap', hload']
  · simp [h1, h0, hload']

/-! ## counter-models outside the property's scope -/

/-- Without `MapConsistent` the two backward searches differ by design (DESIGN §7): data "chunks"
(64 bytes here) `[64,128)` and `[192,256)` mapped, `[128,192)` not, all metadata mapped, the bit of
region 9 (address 72) set; searching back from 200 over 150 bytes the fast version walks the
metadata and finds 72, the naive one stops at the unmapped data chunk. -/
theorem findPrev_fast_ne_simple_without_mapConsistent :
    let env : MapEnv := { mapped := fun x => decide (x ≥ 1000) || decide (64 ≤ x ∧ x < 128) || decide (192 ≤ x ∧ x < 256), gran := 64 }
    let s : Spec := { start := 1000, logBits := 0, logRegion := 3 }
    let m : Mem := fun x => if x = 1001 then 2 else 0
    findPrevFastOld env s m 200 150 = some 72 ∧ findPrevSimple env s m 200 150 = none := by
  decide

/-- A region-unaligned scan end (caller precondition violated): the fast scan stops before the region
cut by `end`, the naive one still visits it. -/
theorem scan_fast_ne_simple_unaligned_end_witness :
    let env : MapEnv := { mapped := fun _ => true, gran := 64 }
    let s : Spec := { start := 1000, logBits := 0, logRegion := 3 }
    let m : Mem := fun x => if x = 1001 then 3 else 0
    scanFast s m 64 76 = [64] ∧ scanSimple true env s m 64 76 = some [64, 72] ∧
    scanFast s m 64 80 = [64, 72] ∧ scanSimple true env s m 64 80 = some [64, 72] := by
  decide

/-! # the scans: fast = naive = specification -/

/-- `word & (word - 1)` clears exactly the lowest set bit. -/
theorem testBit_clear_lowest (w c : Nat) (hc : w.testBit c = true) (hlow : ∀ i, i < c → w.testBit i = false) (i : Nat) :
    (w &&& (w - 1)).testBit i = (w.testBit i && decide (i ≠ c)) := by
  have hmod : w % 2 ^ (c + 1) = 2 ^ c := by
    apply Nat.eq_of_testBit_eq
    intro j
    rw [Nat.testBit_mod_two_pow, Nat.testBit_two_pow]
    by_cases hj : j < c
    · have : c ≠ j := by omega
      simp [hlow j hj, this]
    · by_cases hjc : j = c
      · subst hjc; simp [hc]
      · have h1 : ¬ j < c + 1 := by omega
        have h2 : c ≠ j := by omega
        simp [h1, h2]
  have hw : w = 2 ^ (c + 1) * (w / 2 ^ (c + 1)) + 2 ^ c := by
    have := Nat.div_add_mod w (2 ^ (c + 1)); omega
  generalize w / 2 ^ (c + 1) = h at hw
  subst hw
  have hpos := Nat.two_pow_pos c
  have hlt : 2 ^ c < 2 ^ (c + 1) := Nat.pow_lt_pow_right (by omega) (by omega)
  have hw1 : 2 ^ (c + 1) * h + 2 ^ c - 1 = 2 ^ (c + 1) * h + (2 ^ c - 1) := by omega
  rw [Nat.testBit_and, hw1, Nat.testBit_two_pow_mul_add _ hlt, Nat.testBit_two_pow_mul_add _ (by omega : 2 ^ c - 1 < 2 ^ (c + 1))]
  by_cases hi : i < c + 1
  · simp only [hi, if_true, Nat.testBit_two_pow, Nat.testBit_two_pow_sub_one]
    by_cases e : c = i
    · subst e; simp
    · have : ¬ i = c := by omega
      simp [e]
  · have : i ≠ c := by omega
    simp [hi, this]

theorem scanWord_eq (ma N : Nat) (hN : N ≤ 64) : ∀ fuel word k, (∀ i, i < k → word.testBit i = false) →
    word < 2 ^ N → N ≤ fuel + k →
    scanWord ma fuel word = ((List.range' k (N - k)).filter (fun i => word.testBit i)).map (fun i => (ma, i)) := by
  intro fuel
  induction fuel with
  | zero =>
    intro word k _ _ hf
    have : N - k = 0 := by omega
    simp [scanWord, this]
  | succ f ih =>
    intro word k hlow hlt hf
    simp only [scanWord]
    by_cases h0 : word = 0
    · subst h0; simp
    · simp only [h0, if_false]
      have hlt64 : word < 2 ^ 64 := Nat.lt_of_lt_of_le hlt (Nat.pow_le_pow_right (by omega) hN)
      obtain ⟨hc, hb⟩ := ctz_spec word h0 hlt64
      generalize ctz word = c at hc hb ⊢
      have hck : k ≤ c := by
        apply Nat.le_of_not_lt; intro h; have := hlow c h; rw [this] at hc; cases hc
      have hcN : c < N := by
        apply Nat.lt_of_not_le; intro h
        have := Nat.testBit_lt_two_pow (Nat.lt_of_lt_of_le hlt (Nat.pow_le_pow_right (by omega) h))
        rw [this] at hc; cases hc
      have hclr := testBit_clear_lowest word c hc hb
      have hlow' : ∀ i, i < c + 1 → (word &&& (word - 1)).testBit i = false := by
        intro i hi; rw [hclr i]
        by_cases e : i = c
        · simp [e]
        · simp [hb i (by omega)]
      rw [ih (word &&& (word - 1)) (c + 1) hlow' (Nat.lt_of_le_of_lt Nat.and_le_left hlt) (by omega)]
      have esplit : List.range' k (N - k) = List.range' k (c - k) ++ (c :: List.range' (c + 1) (N - (c + 1))) := by
        have e1 : N - k = (c - k) + ((N - (c + 1)) + 1) := by omega
        rw [e1, ← List.range'_append_1, List.range'_succ]
        have : k + (c - k) = c := by omega
        rw [this]
      rw [esplit, List.filter_append, List.filter_cons]
      have e1 : (List.range' k (c - k)).filter (fun i => word.testBit i) = [] := by
        apply List.filter_eq_nil_iff.2
        intro i hi
        have := List.mem_range'_1.1 hi
        simp [hb i (by omega)]
      have e2 : (List.range' (c + 1) (N - (c + 1))).filter (fun i => (word &&& (word - 1)).testBit i) =
          (List.range' (c + 1) (N - (c + 1))).filter (fun i => word.testBit i) := by
        apply List.filter_congr
        intro i hi
        have := List.mem_range'_1.1 hi
        rw [hclr i]
        have : i ≠ c := by omega
        simp [this]
      rw [e1, e2, hc]; simp

theorem scanWord_byte_ok (m : Mem) (hm : ByteMem m) (a : Nat) : ScanOk m (8 * a) (8 * a + 8) (scanWord a 8 (m a)) := by
  rw [scanWord_eq a 8 (by omega) 8 (m a) 0 (fun i hi => by omega) (hm a) (by omega)]
  have := scanOk_of_bits m a 0 8 (fun i => (m a).testBit i) (by omega) (by omega)
    (fun i hi => by rw [Nat.add_zero, bitAt_mk m a i hi])
  simpa using this

theorem pow256_8 : (256 : Nat) ^ 8 = 2 ^ 64 := by decide

theorem scanWord_word_ok (m : Mem) (hm : ByteMem m) (a : Nat) :
    ScanOk m (8 * a) (8 * a + 64) (scanWord a 64 (readLE m a 8)) := by
  have hlt : readLE m a 8 < 2 ^ 64 := by rw [← pow256_8]; exact HeaderMeta.readLE_lt m hm a 8
  rw [scanWord_eq a 64 (by omega) 64 _ 0 (fun i hi => by omega) hlt (by omega)]
  have := scanOk_of_bits m a 0 64 (fun i => (readLE m a 8).testBit i) (by omega) (by omega)
    (fun i hi => by
      rw [testBit_readLE m hm, Nat.add_zero]
      have h1 : (8 * a + i) / 8 = a + i / 8 := by omega
      have h2 : (8 * a + i) % 8 = i % 8 := by omega
      have h3 : i < 8 * 8 := by omega
      unfold bitAt
      rw [h1, h2]; simp [h3])
  simpa using this


theorem scanHead_ok (m : Mem) (hm : ByteMem m) (E : Nat) : ∀ fuel cursor, cursor ≤ E →
    cursor ≤ (scanHead m E fuel cursor).2 ∧ (scanHead m E fuel cursor).2 ≤ E ∧
    ScanOk m (8 * cursor) (8 * (scanHead m E fuel cursor).2) (scanHead m E fuel cursor).1 := by
  intro fuel
  induction fuel with
  | zero => intro c hc; simp only [scanHead]; exact ⟨Nat.le_refl _, hc, scanOk_nil m _⟩
  | succ f ih =>
    intro c hc
    simp only [scanHead]
    by_cases h : c < E ∧ c % 8 ≠ 0
    · rw [if_pos h]
      obtain ⟨h1, h2, h3⟩ := ih (c + 1) (by omega)
      rcases hp : scanHead m E f (c + 1) with ⟨l, c'⟩
      rw [hp] at h1 h2 h3
      simp only at h1 h2 h3 ⊢
      refine ⟨by omega, h2, ?_⟩
      have hb := scanWord_byte_ok m hm c
      have e : 8 * c + 8 = 8 * (c + 1) := by omega
      rw [e] at hb
      exact scanOk_append m (by omega) (by omega) hb h3
    · rw [if_neg h]
      exact ⟨Nat.le_refl _, hc, scanOk_nil m _⟩

theorem scanWords_ok (m : Mem) (hm : ByteMem m) (E : Nat) : ∀ fuel cursor, cursor ≤ E → E - cursor < fuel * 8 + 8 →
    cursor ≤ (scanWords m E fuel cursor).2 ∧ (scanWords m E fuel cursor).2 ≤ E ∧
    E ≤ (scanWords m E fuel cursor).2 + 8 ∧
    ScanOk m (8 * cursor) (8 * (scanWords m E fuel cursor).2) (scanWords m E fuel cursor).1 := by
  intro fuel
  induction fuel with
  | zero => intro c hc hf; simp only [scanWords]; exact ⟨Nat.le_refl _, hc, by omega, scanOk_nil m _⟩
  | succ f ih =>
    intro c hc hf
    simp only [scanWords]
    by_cases h : c + 8 < E
    · rw [if_pos h]
      obtain ⟨h1, h2, h3, h4⟩ := ih (c + 8) (by omega) (by omega)
      rcases hp : scanWords m E f (c + 8) with ⟨l, c'⟩
      rw [hp] at h1 h2 h3 h4
      simp only at h1 h2 h3 h4 ⊢
      refine ⟨by omega, h2, h3, ?_⟩
      have hb := scanWord_word_ok m hm c
      have e : 8 * c + 64 = 8 * (c + 8) := by omega
      rw [e] at hb
      exact scanOk_append m (by omega) (by omega) hb h4
    · rw [if_neg h]
      exact ⟨Nat.le_refl _, hc, by omega, scanOk_nil m _⟩

theorem scanTail_ok (m : Mem) (hm : ByteMem m) (E : Nat) : ∀ fuel cursor, cursor ≤ E → E - cursor ≤ fuel →
    ScanOk m (8 * cursor) (8 * E) (scanTail m E fuel cursor) := by
  intro fuel
  induction fuel with
  | zero =>
    intro c hc hf
    have : c = E := by omega
    subst this
    simp only [scanTail]; exact scanOk_nil m _
  | succ f ih =>
    intro c hc hf
    simp only [scanTail]
    by_cases h : c < E
    · rw [if_pos h]
      have hb := scanWord_byte_ok m hm c
      have e : 8 * c + 8 = 8 * (c + 1) := by omega
      rw [e] at hb
      exact scanOk_append m (by omega) (by omega) hb (ih (c + 1) (by omega) (by omega))
    · rw [if_neg h]
      have : c = E := by omega
      subst this
      exact scanOk_nil m _

/-- **`scan_non_zero_bits_in_metadata_bytes`** reports exactly the set bits of `[8·start, 8·end)`, ascending. -/
theorem scanBytes_ok (m : Mem) (hm : ByteMem m) (S E : Nat) (h : S ≤ E) : ScanOk m (8 * S) (8 * E) (scanBytes m S E) := by
  obtain ⟨a1, a2, a3⟩ := scanHead_ok m hm E 8 S h
  obtain ⟨b1, b2, b3, b4⟩ := scanWords_ok m hm E ((E - S) / 8 + 1) (scanHead m E 8 S).2 a2 (by omega)
  have c := scanTail_ok m hm E 9 (scanWords m E ((E - S) / 8 + 1) (scanHead m E 8 S).2).2 b2 (by omega)
  have e : scanBytes m S E = (scanHead m E 8 S).1 ++ (scanWords m E ((E - S) / 8 + 1) (scanHead m E 8 S).2).1 ++
      scanTail m E 9 (scanWords m E ((E - S) / 8 + 1) (scanHead m E 8 S).2).2 := rfl
  rw [e]
  exact scanOk_append m (by omega) (by omega) (scanOk_append m (by omega) (by omega) a3 b4) c

theorem and_two_pow_ne_zero (x k : Nat) : decide (x &&& 2 ^ k ≠ 0) = x.testBit k := by
  by_cases h : x.testBit k = true
  · have : (x &&& 2 ^ k).testBit k = true := by rw [Nat.testBit_and, Nat.testBit_two_pow, h]; simp
    have hne : x &&& 2 ^ k ≠ 0 := by intro c; rw [c] at this; simp at this
    simp [h, hne]
  · have hz : x &&& 2 ^ k = 0 := by
      apply Nat.eq_of_testBit_eq
      intro j
      rw [Nat.testBit_and, Nat.testBit_two_pow, Nat.zero_testBit]
      by_cases e : k = j
      · subst e; simp [h]
      · simp [e]
    simp [h, hz]

/-- **`scan_non_zero_bits_in_metadata_bits`** reports exactly the set bits of `[bs, be)` of its byte, ascending. -/
theorem scanBits_ok (m : Mem) (_hm : ByteMem m) (a bs be : Nat) (h1 : bs < be) (h2 : be ≤ 8) :
    ScanOk m (8 * a + bs) (8 * a + be) (scanBits m a bs be) := by
  unfold scanBits
  have e0 : (List.range (be - bs)).map (· + bs) = (List.range' 0 (be - bs)).map (fun i => bs + i) := by
    rw [List.range_eq_range']
    apply List.map_congr_left; intro i _; omega
  rw [e0, List.filterMap_map]
  have e1 : ((fun bit => if (m a &&& ((1 <<< bit) % 256)) ≠ 0 then some (a, bit) else none) ∘ fun i => bs + i) =
      fun i => if (m a &&& ((1 <<< (bs + i)) % 256)) ≠ 0 then some ((fun i => (a, bs + i)) i) else none := rfl
  rw [e1, filterMap_ite (fun i => (m a &&& ((1 <<< (bs + i)) % 256)) ≠ 0) (fun i => (a, bs + i))]
  have := scanOk_of_bits m a bs (be - bs) (fun i => decide ((m a &&& ((1 <<< (bs + i)) % 256)) ≠ 0)) (by omega) (by omega)
    (fun i hi => by
      have hlt : bs + i < 8 := by omega
      have e : 8 * a + bs + i = 8 * a + (bs + i) := by omega
      rw [e, bitAt_mk m a _ hlt, Nat.one_shiftLeft,
        Nat.mod_eq_of_lt (Nat.lt_of_lt_of_le (Nat.pow_lt_pow_right (by omega) hlt) (by decide : 2 ^ 8 ≤ 256)),
        and_two_pow_ne_zero])
  have e2 : 8 * a + bs + (be - bs) = 8 * a + be := by omega
  rw [e2] at this
  exact this

theorem scanRange_ok (m : Mem) (hm : ByteMem m) (r : BBR) (hw : r.wf) : ScanOk m r.lo r.hi (scanRange m r) := by
  cases r with
  | bytes s e => exact scanBytes_ok m hm s e (Nat.le_of_lt hw)
  | bits a bs be => exact scanBits_ok m hm a bs be hw.1 hw.2


/-! ## the fast scan -/

theorem scanFast_eq_flat (s : Spec) (m : Mem) (a b : Nat) :
    scanFast s m a b = ((breakBitRange (metaAddr s a) (lshift s a) (metaAddr s b) (lshift s b) true).flatMap
      (scanRange m)).map (fun ab => metaToData s ab.1 ab.2) := by
  unfold scanFast
  rw [List.map_flatMap]
  congr 1

/-- **the fast scan computes the specification** — for *any* `start ≤ end` (the regions visited are
`⌊start/R⌋ … ⌊end/R⌋ − 1`; they are the regions of `[start, end)` when both are region-aligned). -/
theorem scanFast_eq_scanSpec (s : Spec) (hs : s.ok) (h0 : s.logBits = 0) (m : Mem) (hm : ByteMem m)
    (dStart dEnd : Nat) (hle : dStart ≤ dEnd) (h64 : dEnd < 2 ^ 64) :
    scanFast s m dStart dEnd = scanSpec s m dStart dEnd := by
  have hR := Nat.two_pow_pos s.logRegion
  obtain ⟨e1, e2, b1, b2, ho⟩ := bulk_interval s hs dStart (dEnd - dStart) (by omega)
  have eE : dStart + (dEnd - dStart) = dEnd := by omega
  rw [eE] at e2 b2 ho
  have ht := breakBitRange_partition _ _ _ _ b1 b2 ho
  rw [e1, e2] at ht
  obtain ⟨k1, k2⟩ := scanOk_tiles m (scanRange_ok m hm) ht
  simp only [Nat.shiftRight_eq_div_pow] at k1 k2
  have hq : dStart / 2 ^ s.logRegion ≤ dEnd / 2 ^ s.logRegion := Nat.div_le_div_right hle
  have hq1 : dEnd / 2 ^ s.logRegion * 2 ^ s.logRegion ≤ dEnd := Nat.div_mul_le_self ..
  rw [scanFast_eq_flat]
  unfold scanSpec
  generalize dStart / 2 ^ s.logRegion = q0 at k1 k2 hq ⊢
  generalize dEnd / 2 ^ s.logRegion = q1 at k1 k2 hq hq1 ⊢
  generalize (breakBitRange (metaAddr s dStart) (lshift s dStart) (metaAddr s dEnd) (lshift s dEnd) true).flatMap (scanRange m) = l at k1 k2
  have hfb : ∀ r, fieldBase s r = 8 * s.start + r := by intro r; unfold fieldBase; rw [h0]; simp
  have step : l.map (fun ab => metaToData s ab.1 ab.2) = (l.map pos).map (fun p => (p - 8 * s.start) * 2 ^ s.logRegion) := by
    rw [List.map_map]
    apply List.map_congr_left
    intro ab hab
    have hp : pos ab ∈ bitsIn m (fieldBase s q0) (fieldBase s q1) := by
      rw [← k1]; exact List.mem_map_of_mem hab
    obtain ⟨p1, p2, _⟩ := (mem_bitsIn m _ _ _).1 hp
    obtain ⟨p3, _⟩ := k2 ab hab
    rw [hfb] at p1 p2 p3
    unfold pos at p1 p2
    have hst : s.start ≤ ab.1 := by omega
    have hlt : (ab.1 - s.start) * 8 + ab.2 < q1 := by omega
    have := Nat.mul_lt_mul_of_pos_right hlt hR
    rw [metaToData_bit s h0 ab.1 ab.2 (Nat.lt_of_lt_of_le this (by omega))]
    simp only [Function.comp, pos]
    congr 1
    omega
  rw [step, k1, bits_to_regions s hs h0 m hm _ _ hq (by omega)]

/-- membership in the specification list (region-aligned bounds). -/
theorem mem_scanSpec (s : Spec) (m : Mem) (dStart dEnd : Nat)
    (h1 : dStart % 2 ^ s.logRegion = 0) (h2 : dEnd % 2 ^ s.logRegion = 0) (x : Nat) :
    x ∈ scanSpec s m dStart dEnd ↔ (dStart ≤ x ∧ x < dEnd ∧ x % 2 ^ s.logRegion = 0 ∧ load s m x ≠ 0) := by
  have hR := Nat.two_pow_pos s.logRegion
  obtain ⟨q0, rfl⟩ : ∃ q0, dStart = q0 * 2 ^ s.logRegion := ⟨_, (aligned_eq dStart s.logRegion h1).symm⟩
  obtain ⟨q1, rfl⟩ : ∃ q1, dEnd = q1 * 2 ^ s.logRegion := ⟨_, (aligned_eq dEnd s.logRegion h2).symm⟩
  unfold scanSpec
  rw [Nat.mul_div_cancel _ hR, Nat.mul_div_cancel _ hR]
  simp only [List.mem_filter, List.mem_map, List.mem_range'_1, decide_eq_true_eq]
  constructor
  · rintro ⟨⟨r, ⟨a, b⟩, rfl⟩, c⟩
    exact ⟨Nat.mul_le_mul_right _ a, Nat.mul_lt_mul_of_pos_right (by omega) hR, Nat.mul_mod_left .., c⟩
  · rintro ⟨a, b, c, d⟩
    obtain ⟨r, rfl⟩ : ∃ r, x = r * 2 ^ s.logRegion := ⟨_, (aligned_eq x s.logRegion c).symm⟩
    have a' := Nat.le_of_mul_le_mul_right a hR
    have b' := Nat.lt_of_mul_lt_mul_right b
    exact ⟨⟨r, ⟨a', by omega⟩, rfl⟩, d⟩

theorem scanSpec_sorted (s : Spec) (m : Mem) (dStart dEnd : Nat) : (scanSpec s m dStart dEnd).Pairwise (· < ·) := by
  have hR := Nat.two_pow_pos s.logRegion
  unfold scanSpec
  apply List.Pairwise.filter
  rw [List.pairwise_map]
  exact (List.pairwise_lt_range' (s := _) (n := _)).imp (fun h => Nat.mul_lt_mul_of_pos_right h hR)

/-- **C22 (scan, fast = naive)**: for a 1-bit spec and region-aligned `start ≤ end` the word-at-a-time
scan returns exactly what the region-by-region scan returns (whose `debug_assert!` needs the visited
region starts mapped in a debug build). -/
theorem scan_fast_eq_naive (debug : Bool) (env : MapEnv) (s : Spec) (hs : s.ok) (h0 : s.logBits = 0)
    (m : Mem) (hm : ByteMem m) (dStart dEnd : Nat)
    (h1 : dStart % 2 ^ s.logRegion = 0) (h2 : dEnd % 2 ^ s.logRegion = 0) (hle : dStart ≤ dEnd) (h64 : dEnd < 2 ^ 64)
    (hmap : debug = true → ∀ x, dStart ≤ x → x < dEnd → x % 2 ^ s.logRegion = 0 → env.mapped x = true) :
    scanSimple debug env s m dStart dEnd = some (scanFast s m dStart dEnd) := by
  rw [scanFast_eq_scanSpec s hs h0 m hm dStart dEnd hle h64]
  exact scanSimple_eq_spec debug env s m dStart dEnd h1 h2 hle hmap

/-- **C22 (scan, specification)**: the fast scan visits exactly the region starts of `[start, end)`
whose field is non-zero, in strictly ascending order (hence once each). -/
theorem scan_spec (s : Spec) (hs : s.ok) (h0 : s.logBits = 0) (m : Mem) (hm : ByteMem m) (dStart dEnd : Nat)
    (h1 : dStart % 2 ^ s.logRegion = 0) (h2 : dEnd % 2 ^ s.logRegion = 0) (hle : dStart ≤ dEnd) (h64 : dEnd < 2 ^ 64) :
    (∀ x, x ∈ scanFast s m dStart dEnd ↔ (dStart ≤ x ∧ x < dEnd ∧ x % 2 ^ s.logRegion = 0 ∧ load s m x ≠ 0)) ∧
    (scanFast s m dStart dEnd).Pairwise (· < ·) := by
  rw [scanFast_eq_scanSpec s hs h0 m hm dStart dEnd hle h64]
  exact ⟨mem_scanSpec s m dStart dEnd h1 h2, scanSpec_sorted s m dStart dEnd⟩

/-- **C22 (public `scan_non_zero_values`, every field width)**: the result is the specification list. -/
theorem scan_public_spec (debug : Bool) (env : MapEnv) (s : Spec) (hs : s.ok) (m : Mem) (hm : ByteMem m) (dStart dEnd : Nat)
    (h1 : dStart % 2 ^ s.logRegion = 0) (h2 : dEnd % 2 ^ s.logRegion = 0) (hle : dStart ≤ dEnd) (h64 : dEnd < 2 ^ 64)
    (hmap : debug = true → ∀ x, dStart ≤ x → x < dEnd → x % 2 ^ s.logRegion = 0 → env.mapped x = true) :
    scan debug env s m dStart dEnd = some (scanSpec s m dStart dEnd) ∧
    (∀ x, x ∈ scanSpec s m dStart dEnd ↔ (dStart ≤ x ∧ x < dEnd ∧ x % 2 ^ s.logRegion = 0 ∧ load s m x ≠ 0)) ∧
    (scanSpec s m dStart dEnd).Pairwise (· < ·) := by
  refine ⟨?_, mem_scanSpec s m dStart dEnd h1 h2, scanSpec_sorted s m dStart dEnd⟩
  unfold scan
  by_cases h0 : s.logBits = 0
  · rw [if_pos h0, scanFast_eq_scanSpec s hs h0 m hm dStart dEnd hle h64]
  · rw [if_neg h0]; exact scanSimple_eq_spec debug env s m dStart dEnd h1 h2 hle hmap

/-- the hypotheses are satisfiable by a non-trivial state: 8-byte regions, bits of regions 8, 9, 17 set. -/
example : let s : Spec := { start := 1000, logBits := 0, logRegion := 3 }
    let m : Mem := fun x => if x = 1001 then 3 else if x = 1002 then 2 else 0
    s.ok ∧ s.logBits = 0 ∧ (64 % 2 ^ s.logRegion = 0) ∧ (160 % 2 ^ s.logRegion = 0) ∧
    scanFast s m 64 160 = [64, 72, 136] ∧ scanSpec s m 64 160 = [64, 72, 136] := by decide

/-! # the forward search: fast = naive = specification -/

theorem testBit_readLE8 (m : Mem) (hm : ByteMem m) (c i : Nat) (hi : i < 64) :
    (readLE m c 8).testBit i = bitAt m (8 * c + i) := by
  rw [testBit_readLE m hm]
  have h1 : (8 * c + i) / 8 = c + i / 8 := by omega
  have h2 : (8 * c + i) % 8 = i % 8 := by omega
  have h3 : i < 8 * 8 := by omega
  unfold bitAt
  rw [h1, h2]; simp [h3]

theorem readLE8_lt (m : Mem) (hm : ByteMem m) (c : Nat) : readLE m c 8 < 2 ^ 64 := by
  rw [← pow256_8]; exact HeaderMeta.readLE_lt m hm c 8

/-- the bytes of an 8-aligned word lie in one granule. -/
theorem word_block (env : MapEnv) (henv : env.ok) (c i : Nat) (hc : c % 8 = 0) (hi : i < 8) :
    env.mapped (c + i) = env.mapped c := by
  apply henv.const
  obtain ⟨k, hk⟩ := henv.gran8
  have hkpos : 0 < k := by
    have := henv.gpos; rw [hk] at this; omega
  rw [hk, ← Nat.div_div_eq_div_mul, ← Nat.div_div_eq_div_mul]
  congr 1
  omega

/-- one in-byte step of the forward search (`find_first_non_zero_bit::<u8>` on a mapped byte). -/
theorem byte_fwd (env : MapEnv) (m : Mem) (c sb eb : Nat) (hmc : env.mapped c = true) (h1 : sb < eb) (h2 : eb ≤ 8) :
    match findFirstBit 8 (m c) sb eb with
    | some bit => bit < 8 ∧ ∀ n, eb - sb ≤ n → fwdSearch env m n (8 * c + sb) = .found (8 * c + bit)
    | none => fwdSearch env m (eb - sb) (8 * c + sb) = .notFound := by
  have hspec := findFirstBit_spec 8 (m c) sb eb (Nat.le_of_lt h1) h2 (by omega)
  cases h : findFirstBit 8 (m c) sb eb with
  | some bit =>
    rw [h] at hspec
    obtain ⟨a1, a2, a3, a4⟩ := hspec
    refine ⟨by omega, fun n hn => ?_⟩
    apply fwdSearch_hit env m n _ _ (by omega) (by omega)
    · intro p p1 p2
      have e1 : p / 8 = c := by omega
      refine ⟨by rw [e1]; exact hmc, ?_⟩
      unfold bitAt; rw [e1]; exact a4 (p % 8) (by omega) (by omega)
    · have e1 : (8 * c + bit) / 8 = c := by omega
      rw [e1]; exact hmc
    · rw [bitAt_mk m c bit (by omega)]; exact a3
  | none =>
    rw [h] at hspec
    apply fwdSearch_clear
    intro p p1 p2
    have e1 : p / 8 = c := by omega
    refine ⟨by rw [e1]; exact hmc, ?_⟩
    unfold bitAt; rw [e1]; exact hspec (p % 8) (by omega) (by omega)

/-- one word step of the forward search (`find_first_non_zero_bit::<usize>` on an aligned, mapped word). -/
theorem word_fwd (env : MapEnv) (henv : env.ok) (m : Mem) (hm : ByteMem m) (c : Nat) (hc8 : c % 8 = 0)
    (hmc : env.mapped c = true) :
    (readLE m c 8 = 0 → fwdSearch env m 64 (8 * c) = .notFound) ∧
    (readLE m c 8 ≠ 0 → ∃ bit, findFirstBit 64 (readLE m c 8) 0 64 = some bit ∧ bit < 64 ∧
      ∀ n, 64 ≤ n → fwdSearch env m n (8 * c) = .found (8 * c + bit)) := by
  have hmap : ∀ p, 8 * c ≤ p → p < 8 * c + 64 → env.mapped (p / 8) = true := by
    intro p p1 p2
    have : p / 8 = c + (p / 8 - c) := by omega
    rw [this, word_block env henv c _ hc8 (by omega)]; exact hmc
  have hspec := findFirstBit_spec 64 (readLE m c 8) 0 64 (by omega) (by omega) (by omega)
  constructor
  · intro h0
    apply fwdSearch_clear
    intro p p1 p2
    refine ⟨hmap p p1 p2, ?_⟩
    have := testBit_readLE8 m hm c (p - 8 * c) (by omega)
    have e : 8 * c + (p - 8 * c) = p := by omega
    rw [e, h0] at this
    simpa using this.symm
  · intro hne
    cases h : findFirstBit 64 (readLE m c 8) 0 64 with
    | none =>
      rw [h] at hspec
      exfalso; apply hne
      apply Nat.eq_of_testBit_eq
      intro i
      rw [Nat.zero_testBit]
      by_cases hi : i < 64
      · exact hspec i (by omega) hi
      · exact Nat.testBit_lt_two_pow (Nat.lt_of_lt_of_le (readLE8_lt m hm c) (Nat.pow_le_pow_right (by omega) (by omega)))
    | some bit =>
      rw [h] at hspec
      obtain ⟨a1, a2, a3, a4⟩ := hspec
      refine ⟨bit, rfl, a2, fun n hn => ?_⟩
      apply fwdSearch_hit env m n _ _ (by omega) (by omega)
      · intro p p1 p2
        refine ⟨hmap p p1 (by omega), ?_⟩
        have := testBit_readLE8 m hm c (p - 8 * c) (by omega)
        have e : 8 * c + (p - 8 * c) = p := by omega
        rw [e] at this
        rw [← this]; exact a4 _ (by omega) (by omega)
      · exact hmap _ (by omega) (by omega)
      · rw [← testBit_readLE8 m hm c bit a2]; exact a3

/-- the mapped-chunk check of the forward loops. -/
theorem chkFwd (env : MapEnv) (henv : env.ok) (cursor grain : Nat)
    (hc : ∀ x, cursor ≤ x → x ≤ grain → env.mapped x = true) :
    ((if cursor > grain then (if env.mapped cursor then some (alignUp cursor env.gran - 1) else none) else some grain) = none ∧
      env.mapped cursor = false) ∨
    (∃ g', (if cursor > grain then (if env.mapped cursor then some (alignUp cursor env.gran - 1) else none) else some grain) = some g' ∧
      env.mapped cursor = true ∧ ∀ x, cursor ≤ x → x ≤ g' → env.mapped x = true) := by
  by_cases hg : cursor > grain
  · by_cases hmp : env.mapped cursor = true
    · refine Or.inr ⟨alignUp cursor env.gran - 1, by simp only [hg, hmp, if_true], hmp, fun x a b => ?_⟩
      rw [alignUp_block env henv _ x a b, hmp]
    · have hmp' : env.mapped cursor = false := by simpa using hmp
      exact Or.inl ⟨by simp [hg, hmp'], hmp'⟩
  · exact Or.inr ⟨grain, by simp only [hg, if_false], hc _ (Nat.le_refl _) (by omega), hc⟩

/-- **`find_first_non_zero_bit_in_metadata_bytes`** is the position-level forward search. -/
theorem findFirstInBytesLoop_eq (env : MapEnv) (henv : env.ok) (m : Mem) (hm : ByteMem m) (E : Nat) :
    ∀ fuel cursor grain, cursor ≤ E → E - cursor ≤ fuel →
    (∀ x, cursor ≤ x → x ≤ grain → env.mapped x = true) →
    findFirstInBytesLoop env m E fuel cursor grain = (fwdSearch env m (8 * (E - cursor)) (8 * cursor)).toFind := by
  intro fuel
  induction fuel with
  | zero =>
    intro cursor grain h1 h2 _
    have : E - cursor = 0 := by omega
    simp [findFirstInBytesLoop, this, fwdSearch, PosRes.toFind]
  | succ f ih =>
    intro cursor grain h1 h2 hc
    simp only [findFirstInBytesLoop]
    by_cases hlt : cursor < E
    · simp only [hlt, not_true_eq_false, if_false]
      rcases chkFwd env henv cursor grain hc with ⟨e, hmp⟩ | ⟨g', e, hmp, hv⟩
      · rw [e]
        have hq : (8 * cursor) / 8 = cursor := by omega
        rw [fwdSearch_unm env m _ _ (8 * cursor) (Nat.le_refl _) (by omega) (fun p a b => by omega) (by rw [hq]; exact hmp)]
        rfl
      · rw [e]
        by_cases hstep : cursor % 8 = 0 ∧ cursor + 8 ≤ E
        · simp only [hstep, and_self, if_true]
          have esplit : 8 * (E - cursor) = 64 + 8 * (E - (cursor + 8)) := by omega
          have h64 : 64 ≤ 8 * (E - cursor) := by omega
          have hfuel : E - (cursor + 8) ≤ f := by omega
          obtain ⟨w0, w1⟩ := word_fwd env henv m hm cursor hstep.1 hmp
          by_cases hv0 : readLE m cursor 8 = 0
          · simp only [hv0, ne_eq, not_true_eq_false, if_false]
            rw [ih (cursor + 8) g' hstep.2 hfuel (fun x a b => hv x (Nat.le_trans (Nat.le_add_right _ _) a) b), esplit, fwdSearch_append, w0 hv0]
            have e8 : 8 * cursor + 64 = 8 * (cursor + 8) := by omega
            simp only [PosRes.orElse, e8]
          · obtain ⟨bit, b1, b2, b3⟩ := w1 hv0
            simp only [hv0, ne_eq, not_false_eq_true, if_true, b1]
            rw [b3 _ h64]
            simp only [PosRes.toFind, Nat.shiftRight_eq_div_pow, Nat.shiftLeft_eq]
            have e1 : (8 * cursor + bit) / 8 = cursor + bit / 2 ^ 3 := by omega
            have e2 : (8 * cursor + bit) % 8 = bit - bit / 2 ^ 3 * 2 ^ 3 := by omega
            rw [e1, e2]
        · have hs1 : (if cursor % 8 = 0 ∧ cursor + 8 ≤ E then 8 else 1) = 1 := by simp only [hstep, if_false]
          simp only [hs1, Nat.reduceEqDiff, if_false]
          have hb := byte_fwd env m cursor 0 8 hmp (by omega) (by omega)
          have esplit : 8 * (E - cursor) = 8 + 8 * (E - (cursor + 1)) := by omega
          cases hfb : findFirstBit 8 (m cursor) 0 8 with
          | some bit =>
            rw [hfb] at hb
            obtain ⟨b1, b2⟩ := hb
            have := b2 (8 * (E - cursor)) (by omega)
            rw [Nat.add_zero] at this
            rw [this]
            simp only [PosRes.toFind]
            have e1 : (8 * cursor + bit) / 8 = cursor := by omega
            have e2 : (8 * cursor + bit) % 8 = bit := by omega
            rw [e1, e2]
          | none =>
            rw [hfb] at hb
            simp only [Nat.add_zero, Nat.sub_zero] at hb
            rw [ih (cursor + 1) g' (by omega) (by omega) (fun x a b => hv x (by omega) b), esplit, fwdSearch_append, hb]
            have e8 : 8 * cursor + 8 = 8 * (cursor + 1) := by omega
            simp only [PosRes.orElse, e8]
    · have : E - cursor = 0 := by omega
      simp [hlt, this, fwdSearch, PosRes.toFind]

/-- **`find_first_non_zero_bit_in_metadata_bits`** is the position-level forward search. -/
theorem findFirstInBits_eq (env : MapEnv) (m : Mem) (a sb eb : Nat) (h1 : sb < eb) (h2 : eb ≤ 8) :
    findFirstInBits env m a sb eb = (fwdSearch env m (eb - sb) (8 * a + sb)).toFind := by
  unfold findFirstInBits
  by_cases hmp : env.mapped a = true
  · simp only [hmp, Bool.not_true, Bool.false_eq_true, if_false]
    have hb := byte_fwd env m a sb eb hmp h1 h2
    cases hfb : findFirstBit 8 (m a) sb eb with
    | some bit =>
      rw [hfb] at hb
      obtain ⟨b1, b2⟩ := hb
      rw [b2 _ (Nat.le_refl _)]
      simp only [PosRes.toFind]
      have e1 : (8 * a + bit) / 8 = a := by omega
      have e2 : (8 * a + bit) % 8 = bit := by omega
      rw [e1, e2]
    | none =>
      rw [hfb] at hb
      rw [hb]; rfl
  · have hmp' : env.mapped a = false := by simpa using hmp
    simp only [hmp', Bool.not_false, if_true]
    have hq : (8 * a + sb) / 8 = a := by omega
    rw [fwdSearch_unm env m _ _ (8 * a + sb) (Nat.le_refl _) (by omega) (fun p x y => by omega) (by rw [hq]; exact hmp')]
    rfl


/-- arithmetic of the bounds of the forward search. -/
theorem next_bounds (a limit lr : Nat) (hlim : 0 < limit) :
    alignDown a (2 ^ lr) = a / 2 ^ lr * 2 ^ lr ∧
    alignUp (a + limit) (2 ^ lr) = (a + limit + 2 ^ lr - 1) / 2 ^ lr * 2 ^ lr ∧
    a / 2 ^ lr < (a + limit + 2 ^ lr - 1) / 2 ^ lr ∧
    a + limit ≤ (a + limit + 2 ^ lr - 1) / 2 ^ lr * 2 ^ lr ∧
    (∀ q, q < (a + limit + 2 ^ lr - 1) / 2 ^ lr → q * 2 ^ lr < a + limit) ∧
    (a + limit + 2 ^ lr - 1) / 2 ^ lr - a / 2 ^ lr ≤ limit / 2 ^ lr + 2 := by
  have hR := Nat.two_pow_pos lr
  generalize 2 ^ lr = R at *
  have f1 : a / R * R ≤ a := Nat.div_mul_le_self a R
  have f2 : a < a / R * R + R := Nat.lt_div_mul_add hR
  have f3 : (a + limit + R - 1) / R * R ≤ a + limit + R - 1 := Nat.div_mul_le_self _ R
  have f4 : a + limit + R - 1 < (a + limit + R - 1) / R * R + R := Nat.lt_div_mul_add hR
  have f5 : limit / R * R ≤ limit := Nat.div_mul_le_self _ R
  have f6 : limit < limit / R * R + R := Nat.lt_div_mul_add hR
  have g3 : a / R < (a + limit + R - 1) / R := by
    apply Nat.lt_of_succ_le
    apply (Nat.le_div_iff_mul_le hR).2
    rw [Nat.succ_mul]; omega
  refine ⟨alignDown_eq_div a R, by unfold alignUp; exact alignDown_eq_div _ R, ?_⟩
  generalize a / R = r0 at *
  generalize limit / R = L at *
  generalize (a + limit + R - 1) / R = r1 at *
  refine ⟨g3, by omega, ?_, ?_⟩
  · intro q hq
    have := Nat.mul_le_mul_right R (Nat.succ_le_of_lt hq)
    rw [Nat.succ_mul] at this
    omega
  · have e : (r0 + L + 3) * R = r0 * R + L * R + 3 * R := by rw [Nat.add_mul, Nat.add_mul]
    have : r1 * R < (r0 + L + 3) * R := by omega
    have := Nat.lt_of_mul_lt_mul_right this
    omega

/-- a region lies in one granule. -/
theorem region_block (env : MapEnv) (henv : env.ok) (lr : Nat) (hgran : 2 ^ lr ∣ env.gran) (a : Nat) :
    env.mapped (a / 2 ^ lr * 2 ^ lr) = env.mapped a := by
  apply henv.const
  obtain ⟨k, hk⟩ := hgran
  rw [hk, ← Nat.div_div_eq_div_mul, ← Nat.div_div_eq_div_mul, Nat.mul_div_cancel _ (Nat.two_pow_pos lr)]

/-- **the fast forward search is the region-level search** over the regions
`⌊a/R⌋ … ⌈(a+limit)/R⌉ − 1`. -/
theorem findNextFast_eq_region (env : MapEnv) (henv : env.ok) (s : Spec) (hs : s.ok)
    (hal : s.start % 2 ^ (s.logBits - 3) = 0) (hlr : s.logBits < 3 → s.logBits ≤ s.logRegion) (hst : 0 < s.start)
    (hgran : 2 ^ s.logRegion ∣ env.gran) (m : Mem) (hm : ByteMem m) (a limit : Nat) (hlim : 0 < limit)
    (hend : alignUp (a + limit) (2 ^ s.logRegion) < 2 ^ 64)
    (hmc : MapConsistent env s m (a / 2 ^ s.logRegion) ((a + limit + 2 ^ s.logRegion - 1) / 2 ^ s.logRegion) true) :
    findNextFast env s m a limit =
      regionFwd env s m ((a + limit + 2 ^ s.logRegion - 1) / 2 ^ s.logRegion - a / 2 ^ s.logRegion) (a / 2 ^ s.logRegion) := by
  have hR := Nat.two_pow_pos s.logRegion
  obtain ⟨b1, b2, b3, b4, b5, b6⟩ := next_bounds a limit s.logRegion hlim
  have hmap0 := region_block env henv s.logRegion hgran a
  have hr0 : a >>> s.logRegion = a / 2 ^ s.logRegion := Nat.shiftRight_eq_div_pow ..
  rw [b2] at hend
  generalize a / 2 ^ s.logRegion = r0 at *
  generalize (a + limit + 2 ^ s.logRegion - 1) / 2 ^ s.logRegion = r1 at *
  have ha64 : a < 2 ^ 64 := by omega
  obtain ⟨n, hn⟩ : ∃ n, r1 - r0 = n + 1 := ⟨r1 - r0 - 1, by omega⟩
  have hlabs : load s m a = absArr m s r0 := by rw [load_eq_absArr s hs m a ha64, hr0]
  unfold findNextFast
  by_cases hmapa : env.mapped a = true
  · simp only [hmapa, Bool.not_true, Bool.false_eq_true, if_false]
    by_cases hload : load s m a ≠ 0
    · rw [if_pos hload, hn]
      simp only [regionFwd]
      rw [hlabs] at hload
      rw [hmap0, hmapa, b1]
      simp [hload]
    · rw [if_neg hload, b1, b2]
      have hle : r0 * 2 ^ s.logRegion ≤ r1 * 2 ^ s.logRegion := Nat.mul_le_mul_right _ (by omega)
      have eE : r0 * 2 ^ s.logRegion + (r1 * 2 ^ s.logRegion - r0 * 2 ^ s.logRegion) = r1 * 2 ^ s.logRegion := by omega
      obtain ⟨e1, e2, c1, c2, ho⟩ := bulk_interval s hs (r0 * 2 ^ s.logRegion) (r1 * 2 ^ s.logRegion - r0 * 2 ^ s.logRegion) (by omega)
      rw [eE] at e2 c2 ho
      rw [shiftRight_mul_pow] at e1 e2
      have ht := breakBitRange_partition _ _ _ _ c1 c2 ho
      rw [e1, e2] at ht
      rw [findVisit_tiles_fwd env s m _ (fieldBase s r0) ?_ ht (Nat.le_refl _)]
      · have e : r0 + (r1 - r0) = r1 := by omega
        rw [fieldBase_sub s r0 r1 (by omega),
          fwd_fast_region env s hs hal hlr m hm (r1 - r0) r0 (by rw [e]; omega) (by rw [e]; exact hmc)]
        cases hres : regionFwd env s m (r1 - r0) r0 with
        | none => rfl
        | some x =>
          obtain ⟨r', q1, q2, q3, _⟩ := (regionFwd_some_iff env s m _ _ _).1 hres
          subst q3
          have g1 : r' * 2 ^ s.logRegion ≥ r0 * 2 ^ s.logRegion := Nat.mul_le_mul_right _ q1
          have g2 : r' * 2 ^ s.logRegion < r1 * 2 ^ s.logRegion := Nat.mul_lt_mul_of_pos_right (by omega) hR
          simp [alignDown_mul, g1, g2]
      · intro r hw hlo
        have hfb : 8 * s.start ≤ fieldBase s r0 := by unfold fieldBase; omega
        cases r with
        | bytes st en =>
          simp only [BBR.lo, BBR.hi, BBR.wf] at hw hlo ⊢
          have e8 : 8 * en - 8 * st = 8 * (en - st) := by omega
          rw [e8]
          exact findFirstInBytesLoop_eq env henv m hm en _ st 0 (Nat.le_of_lt hw) (by omega) (fun x a b => by omega)
        | bits ad bs be =>
          simp only [BBR.lo, BBR.hi, BBR.wf] at hw hlo ⊢
          have e8 : 8 * ad + be - (8 * ad + bs) = be - bs := by omega
          rw [e8]
          exact findFirstInBits_eq env m ad bs be hw.1 hw.2
  · have hmapa' : env.mapped a = false := by simpa using hmapa
    rw [hn]
    simp only [hmapa', Bool.not_false, if_true, regionFwd, hmap0]

/-- **the naive forward search is the region-level search** over the same regions. The naive loop
never asks whether address 0 is mapped (its cache starts at 0), hence the side condition. -/
theorem findNextSimple_eq_region (env : MapEnv) (henv : env.ok) (s : Spec) (hs : s.ok)
    (hgran : 2 ^ s.logRegion ∣ env.gran) (m : Mem) (a limit : Nat) (hlim : 0 < limit)
    (hend : alignUp (a + limit) (2 ^ s.logRegion) < 2 ^ 64)
    (h0 : env.mapped a = true ∨ 2 ^ s.logRegion ≤ a) :
    findNextSimple env s m a limit =
      regionFwd env s m ((a + limit + 2 ^ s.logRegion - 1) / 2 ^ s.logRegion - a / 2 ^ s.logRegion) (a / 2 ^ s.logRegion) := by
  have hR := Nat.two_pow_pos s.logRegion
  obtain ⟨b1, b2, b3, b4, b5, b6⟩ := next_bounds a limit s.logRegion hlim
  have hmap0 := region_block env henv s.logRegion hgran a
  rw [b2] at hend
  have hr0 : 2 ^ s.logRegion ≤ a → 1 ≤ a / 2 ^ s.logRegion := fun h => (Nat.le_div_iff_mul_le hR).2 (by omega)
  generalize a / 2 ^ s.logRegion = r0 at *
  generalize (a + limit + 2 ^ s.logRegion - 1) / 2 ^ s.logRegion = r1 at *
  unfold findNextSimple
  simp only
  rw [b1]
  have e : r0 + (r1 - r0) = r1 := by omega
  apply findNextSimpleLoop_eq env henv s hs m (a + limit) (r1 - r0) _ r0 0 b6
  · rw [e]; omega
  · intro q q1 q2; exact b5 q (by omega)
  · rw [e]; omega
  · intro x x1 x2
    have hx : x = 0 := by omega
    subst hx
    rcases h0 with h | h
    · have : r0 * 2 ^ s.logRegion = 0 := by omega
      rw [this] at hmap0
      rw [hmap0]; exact h
    · have := hr0 h
      have := Nat.mul_le_mul_right (2 ^ s.logRegion) this
      omega


/-- **C22 (forward search, fast = naive)**: under `MapConsistent` on the searched regions
`⌊a/R⌋ … ⌈(a+limit)/R⌉ − 1` the word-at-a-time search and the region-by-region search return the same.
Side conditions (all true of the real layout): granules are multiples of 8 bytes and of the region size and
mapped-ness is per granule (`env.ok`, `hgran`); the metadata table does not start at address 0 and is
aligned to the field size; sub-byte fields are not wider than their region is long; no address wraps;
the search does not start in an unmapped region at address 0 (the naive loop never asks whether
address 0 is mapped — see `findNext_region0_witness`). -/
theorem findNext_fast_eq_simple (env : MapEnv) (henv : env.ok) (s : Spec) (hs : s.ok)
    (hal : s.start % 2 ^ (s.logBits - 3) = 0) (hlr : s.logBits < 3 → s.logBits ≤ s.logRegion) (hst : 0 < s.start)
    (hgran : 2 ^ s.logRegion ∣ env.gran) (m : Mem) (hm : ByteMem m) (a limit : Nat) (hlim : 0 < limit)
    (hend : alignUp (a + limit) (2 ^ s.logRegion) < 2 ^ 64)
    (h0 : env.mapped a = true ∨ 2 ^ s.logRegion ≤ a)
    (hmc : MapConsistent env s m (a / 2 ^ s.logRegion) ((a + limit + 2 ^ s.logRegion - 1) / 2 ^ s.logRegion) true) :
    findNextFast env s m a limit = findNextSimple env s m a limit := by
  rw [findNextFast_eq_region env henv s hs hal hlr hst hgran m hm a limit hlim hend hmc,
    findNextSimple_eq_region env henv s hs hgran m a limit hlim hend h0]

/-- the public entry never trips its `assert_eq!(fast, naive)`. -/
theorem findNext_public (debug : Bool) (env : MapEnv) (henv : env.ok) (s : Spec) (hs : s.ok)
    (hal : s.start % 2 ^ (s.logBits - 3) = 0) (hlr : s.logBits < 3 → s.logBits ≤ s.logRegion) (hst : 0 < s.start)
    (hgran : 2 ^ s.logRegion ∣ env.gran) (m : Mem) (hm : ByteMem m) (a limit : Nat) (hlim : 0 < limit)
    (hend : alignUp (a + limit) (2 ^ s.logRegion) < 2 ^ 64)
    (h0 : env.mapped a = true ∨ 2 ^ s.logRegion ≤ a)
    (hmc : MapConsistent env s m (a / 2 ^ s.logRegion) ((a + limit + 2 ^ s.logRegion - 1) / 2 ^ s.logRegion) true) :
    findNext debug env s m a limit = some (findNextFast env s m a limit) := by
  have h := findNext_fast_eq_simple env henv s hs hal hlr hst hgran m hm a limit hlim hend h0 hmc
  have hl : (limit == 0) = false := by simp; omega
  unfold findNext
  simp [hl, h]

/-- **C22 (forward search, specification)**: the result is the least region start `x ≥ ⌊a⌋` with a
non-zero field and `x < a + limit`, provided no data region from `⌊a⌋` up to and including `x` is
unmapped; otherwise nothing. -/
theorem findNext_spec (env : MapEnv) (henv : env.ok) (s : Spec) (hs : s.ok)
    (hal : s.start % 2 ^ (s.logBits - 3) = 0) (hlr : s.logBits < 3 → s.logBits ≤ s.logRegion) (hst : 0 < s.start)
    (hgran : 2 ^ s.logRegion ∣ env.gran) (m : Mem) (hm : ByteMem m) (a limit : Nat) (hlim : 0 < limit)
    (hend : alignUp (a + limit) (2 ^ s.logRegion) < 2 ^ 64)
    (hmc : MapConsistent env s m (a / 2 ^ s.logRegion) ((a + limit + 2 ^ s.logRegion - 1) / 2 ^ s.logRegion) true)
    (x : Nat) :
    findNextFast env s m a limit = some x ↔
      (x % 2 ^ s.logRegion = 0 ∧ alignDown a (2 ^ s.logRegion) ≤ x ∧ x < a + limit ∧ load s m x ≠ 0 ∧
        (∀ y, alignDown a (2 ^ s.logRegion) ≤ y → y < x → y % 2 ^ s.logRegion = 0 → load s m y = 0) ∧
        (∀ y, alignDown a (2 ^ s.logRegion) ≤ y → y ≤ x → y % 2 ^ s.logRegion = 0 → env.mapped y = true)) := by
  have hR := Nat.two_pow_pos s.logRegion
  rw [findNextFast_eq_region env henv s hs hal hlr hst hgran m hm a limit hlim hend hmc, regionFwd_some_iff]
  obtain ⟨b1, b2, b3, b4, b5, b6⟩ := next_bounds a limit s.logRegion hlim
  rw [b2] at hend
  rw [b1]
  generalize a / 2 ^ s.logRegion = r0 at *
  generalize (a + limit + 2 ^ s.logRegion - 1) / 2 ^ s.logRegion = r1 at *
  have hld : ∀ q, q < r1 → load s m (q * 2 ^ s.logRegion) = absArr m s q := fun q hq =>
    load_region s hs m q (by have := Nat.mul_lt_mul_of_pos_right hq hR; omega)
  constructor
  · rintro ⟨r', q1, q2, rfl, q4, q5, q6⟩
    have hr' : r' < r1 := by omega
    refine ⟨Nat.mul_mod_left .., Nat.mul_le_mul_right _ q1, b5 r' hr', by rw [hld r' hr']; exact q4, ?_, ?_⟩
    · intro y y1 y2 y3
      obtain ⟨q, rfl⟩ : ∃ q, y = q * 2 ^ s.logRegion := ⟨_, (aligned_eq y s.logRegion y3).symm⟩
      have c1 := Nat.le_of_mul_le_mul_right y1 hR
      have c2 := Nat.lt_of_mul_lt_mul_right y2
      rw [hld q (by omega)]; exact q5 q c1 c2
    · intro y y1 y2 y3
      obtain ⟨q, rfl⟩ : ∃ q, y = q * 2 ^ s.logRegion := ⟨_, (aligned_eq y s.logRegion y3).symm⟩
      exact q6 q (Nat.le_of_mul_le_mul_right y1 hR) (Nat.le_of_mul_le_mul_right y2 hR)
  · rintro ⟨x1, x2, x3, x4, x5, x6⟩
    obtain ⟨r', rfl⟩ : ∃ q, x = q * 2 ^ s.logRegion := ⟨_, (aligned_eq x s.logRegion x1).symm⟩
    have c1 := Nat.le_of_mul_le_mul_right x2 hR
    have c2 : r' < r1 := by
      apply Nat.lt_of_mul_lt_mul_right (a := 2 ^ s.logRegion); omega
    refine ⟨r', c1, by omega, rfl, by rw [← hld r' c2]; exact x4, fun q d1 d2 => ?_, fun q d1 d2 => ?_⟩
    · rw [← hld q (by omega)]
      exact x5 _ (Nat.mul_le_mul_right _ d1) (Nat.mul_lt_mul_of_pos_right d2 hR) (Nat.mul_mod_left ..)
    · exact x6 _ (Nat.mul_le_mul_right _ d1) (Nat.mul_le_mul_right _ d2) (Nat.mul_mod_left ..)

/-- the side condition `h0` cannot be dropped from the *model*: nothing mapped, origin in the region at
address 0 whose field is non-zero — the fast version asks `is_mapped(3)` and gives up, the naive loop's
cache (`mapped_chunk = 0`) skips the question for cursor 0. (No heap contains address 0.) -/
theorem findNext_region0_witness :
    let env : MapEnv := { mapped := fun _ => false, gran := 64 }
    let s : Spec := { start := 1024, logBits := 0, logRegion := 3 }
    let m : Mem := fun x => if x = 1024 then 1 else 0
    findNextFast env s m 3 8 = none ∧ findNextSimple env s m 3 8 = some 0 := by
  decide

/-- the hypotheses of the forward theorems are satisfiable by a non-trivial state: data `[0,128)` mapped,
`[128, 1024)` not, metadata (from 1024) mapped, the bit of region 10 (address 80) set; searching from 20
over 200 bytes crosses the unmapped chunk boundary at region 16. -/
example :
    let env : MapEnv := { mapped := fun x => decide (x < 128) || decide (1024 ≤ x), gran := 64 }
    let s : Spec := { start := 1024, logBits := 0, logRegion := 3 }
    let m : Mem := fun x => if x = 1025 then 4 else 0
    env.ok ∧ s.ok ∧ s.start % 2 ^ (s.logBits - 3) = 0 ∧ (s.logBits < 3 → s.logBits ≤ s.logRegion) ∧ 0 < s.start ∧
    2 ^ s.logRegion ∣ env.gran ∧ ByteMem m ∧ alignUp (20 + 200) (2 ^ s.logRegion) < 2 ^ 64 ∧
    MapConsistent env s m (20 / 2 ^ s.logRegion) ((20 + 200 + 2 ^ s.logRegion - 1) / 2 ^ s.logRegion) true ∧
    findNextFast env s m 20 200 = some 80 ∧ findNextFast env s m 100 200 = none := by
  intro env s m
  refine ⟨⟨by decide, by decide, ?_⟩, by decide, by decide, by decide, by decide, by decide, ?_, by decide, ?_, by decide, by decide⟩
  · intro x y h
    show (decide (x < 128) || decide (1024 ≤ x)) = (decide (y < 128) || decide (1024 ≤ y))
    have h' : x / 64 = y / 64 := h
    have e1 : (x < 128) ↔ (y < 128) := by omega
    have e2 : (1024 ≤ x) ↔ (1024 ≤ y) := by omega
    simp [e1, e2]
  · intro x; show (if x = 1025 then 4 else 0) < 256; split <;> omega
  · have hr : (20 / 2 ^ s.logRegion) = 2 := by decide
    have hr1 : ((20 + 200 + 2 ^ s.logRegion - 1) / 2 ^ s.logRegion) = 28 := by decide
    rw [hr, hr1]
    have hfb : ∀ r, fieldBase s r = 8192 + r := by intro r; show 8 * 1024 + r * 2 ^ 0 = _; omega
    constructor
    · intro r _ _ _ p hp
      obtain ⟨p1, p2⟩ := hp
      rw [hfb] at p1
      show (decide (p / 8 < 128) || decide (1024 ≤ p / 8)) = true
      have : 1024 ≤ p / 8 := by omega
      simp [this]
    · intro r r' a1 a2 a3 a4 a5 hun p hp _
      obtain ⟨p1, p2⟩ := hp
      rw [hfb] at p1 p2
      have p2' : p < 8192 + r' + 1 := p2
      have a5' : r ≤ r' := a5
      have hun' : (decide (r * 8 < 128) || decide (1024 ≤ r * 8)) = false := hun
      have hr16 : 16 ≤ r := by
        simp at hun'; omega
      show (if p / 8 = 1025 then 4 else 0).testBit (p % 8) = false
      have : p / 8 ≠ 1025 := by omega
      simp [this]

/-! # the backward search: fast = naive = specification -/

/-- one in-byte step of the backward search (`find_last_non_zero_bit::<u8>` on a mapped byte). -/
theorem byte_bwd (env : MapEnv) (m : Mem) (c sb eb : Nat) (hmc : env.mapped c = true) (h1 : sb < eb) (h2 : eb ≤ 8) :
    match findLastBit 8 (m c) sb eb with
    | some bit => bit < 8 ∧ ∀ n, eb - sb ≤ n → n ≤ 8 * c + eb → bwdSearch env m n (8 * c + eb) = .found (8 * c + bit)
    | none => bwdSearch env m (eb - sb) (8 * c + eb) = .notFound := by
  have hspec := findLastBit_spec 8 (m c) sb eb (Nat.le_of_lt h1) h2 (by omega)
  cases h : findLastBit 8 (m c) sb eb with
  | some bit =>
    rw [h] at hspec
    obtain ⟨a1, a2, a3, a4⟩ := hspec
    refine ⟨by omega, fun n hn hn2 => ?_⟩
    apply bwdSearch_hit env m n _ _ hn2 (by omega) (by omega)
    · intro p p1 p2
      have e1 : p / 8 = c := by omega
      refine ⟨by rw [e1]; exact hmc, ?_⟩
      unfold bitAt; rw [e1]; exact a4 (p % 8) (by omega) (by omega)
    · have e1 : (8 * c + bit) / 8 = c := by omega
      rw [e1]; exact hmc
    · rw [bitAt_mk m c bit (by omega)]; exact a3
  | none =>
    rw [h] at hspec
    apply bwdSearch_clear _ _ _ _ (by omega)
    intro p p1 p2
    have e1 : p / 8 = c := by omega
    refine ⟨by rw [e1]; exact hmc, ?_⟩
    unfold bitAt; rw [e1]; exact hspec (p % 8) (by omega) (by omega)

/-- one word step of the backward search (`find_last_non_zero_bit::<usize>` on an aligned, mapped word). -/
theorem word_bwd (env : MapEnv) (henv : env.ok) (m : Mem) (hm : ByteMem m) (c : Nat) (hc8 : c % 8 = 0)
    (hmc : env.mapped c = true) :
    (readLE m c 8 = 0 → bwdSearch env m 64 (8 * c + 64) = .notFound) ∧
    (readLE m c 8 ≠ 0 → ∃ bit, findLastBit 64 (readLE m c 8) 0 64 = some bit ∧ bit < 64 ∧
      ∀ n, 64 ≤ n → n ≤ 8 * c + 64 → bwdSearch env m n (8 * c + 64) = .found (8 * c + bit)) := by
  have hmap : ∀ p, 8 * c ≤ p → p < 8 * c + 64 → env.mapped (p / 8) = true := by
    intro p p1 p2
    have : p / 8 = c + (p / 8 - c) := by omega
    rw [this, word_block env henv c _ hc8 (by omega)]; exact hmc
  have hspec := findLastBit_spec 64 (readLE m c 8) 0 64 (by omega) (by omega) (by omega)
  constructor
  · intro h0
    apply bwdSearch_clear _ _ _ _ (by omega)
    intro p p1 p2
    refine ⟨hmap p (by omega) p2, ?_⟩
    have := testBit_readLE8 m hm c (p - 8 * c) (by omega)
    have e : 8 * c + (p - 8 * c) = p := by omega
    rw [e, h0] at this
    simpa using this.symm
  · intro hne
    cases h : findLastBit 64 (readLE m c 8) 0 64 with
    | none =>
      rw [h] at hspec
      exfalso; apply hne
      apply Nat.eq_of_testBit_eq
      intro i
      rw [Nat.zero_testBit]
      by_cases hi : i < 64
      · exact hspec i (by omega) hi
      · exact Nat.testBit_lt_two_pow (Nat.lt_of_lt_of_le (readLE8_lt m hm c) (Nat.pow_le_pow_right (by omega) (by omega)))
    | some bit =>
      rw [h] at hspec
      obtain ⟨a1, a2, a3, a4⟩ := hspec
      refine ⟨bit, rfl, a2, fun n hn hn2 => ?_⟩
      apply bwdSearch_hit env m n _ _ hn2 (by omega) (by omega)
      · intro p p1 p2
        refine ⟨hmap p (by omega) p2, ?_⟩
        have := testBit_readLE8 m hm c (p - 8 * c) (by omega)
        have e : 8 * c + (p - 8 * c) = p := by omega
        rw [e] at this
        rw [← this]; exact a4 _ (by omega) (by omega)
      · exact hmap _ (by omega) (by omega)
      · rw [← testBit_readLE8 m hm c bit a2]; exact a3

/-- the mapped-chunk check of the backward loops. -/
theorem chkBwd (env : MapEnv) (henv : env.ok) (cur grain : Nat)
    (hc : ∀ x, grain ≤ x → x ≤ cur → env.mapped x = true) :
    ((if cur < grain then (if env.mapped cur then some (alignDown cur env.gran) else none) else some grain) = none ∧
      env.mapped cur = false) ∨
    (∃ g', (if cur < grain then (if env.mapped cur then some (alignDown cur env.gran) else none) else some grain) = some g' ∧
      env.mapped cur = true ∧ ∀ x, g' ≤ x → x ≤ cur → env.mapped x = true) := by
  by_cases hg : cur < grain
  · by_cases hmp : env.mapped cur = true
    · refine Or.inr ⟨alignDown cur env.gran, by simp only [hg, hmp, if_true], hmp, fun x a b => ?_⟩
      rw [alignDown_block env henv _ x a b, hmp]
    · have hmp' : env.mapped cur = false := by simpa using hmp
      exact Or.inl ⟨by simp [hg, hmp'], hmp'⟩
  · exact Or.inr ⟨grain, by simp only [hg, if_false], hc _ (by omega) (Nat.le_refl _), hc⟩

/-- **`find_last_non_zero_bit_in_metadata_bytes`** is the position-level backward search. -/
theorem findLastInBytesLoop_eq (env : MapEnv) (henv : env.ok) (m : Mem) (hm : ByteMem m) (S : Nat) :
    ∀ fuel cur grain, S ≤ cur → cur - S ≤ fuel →
    (∀ x, grain ≤ x → x < cur → env.mapped x = true) →
    findLastInBytesLoop env m S fuel cur grain = (bwdSearch env m (8 * (cur - S)) (8 * cur)).toFind := by
  intro fuel
  induction fuel with
  | zero =>
    intro cur grain h1 h2 _
    have : cur - S = 0 := by omega
    simp [findLastInBytesLoop, this, bwdSearch, PosRes.toFind]
  | succ f ih =>
    intro cur grain h1 h2 hc
    simp only [findLastInBytesLoop]
    by_cases hlt : cur > S
    · simp only [hlt, not_true_eq_false, if_false]
      by_cases hstep : cur % 8 = 0 ∧ cur - 8 ≥ S ∧ cur ≥ 8
      · simp only [hstep, and_self, if_true]
        obtain ⟨c, rfl⟩ : ∃ c, cur = c + 8 := ⟨cur - 8, by omega⟩
        have hc8 : c % 8 = 0 := by omega
        have hcS : S ≤ c := by omega
        have esplit : 8 * (c + 8 - S) = 64 + 8 * (c - S) := by omega
        have h64 : 64 ≤ 8 * (c + 8 - S) := by omega
        have hle : 8 * (c + 8 - S) ≤ 8 * c + 64 := by omega
        have hfuel : c - S ≤ f := by omega
        have e8 : 8 * (c + 8) = 8 * c + 64 := by omega
        have e8' : 8 * c + 64 - 64 = 8 * c := by omega
        simp only [Nat.add_sub_cancel]
        rcases chkBwd env henv c grain (fun x a b => hc x a (by omega)) with ⟨e, hmp⟩ | ⟨g', e, hmp, hv⟩
        · rw [e]
          have hq : (8 * c + 64 - 1) / 8 = c + 7 := by omega
          rw [e8, bwdSearch_unm env m _ _ (8 * c + 64 - 1) hle (by omega) (by omega) (fun p a b => by omega)
            (by rw [hq, word_block env henv c 7 hc8 (by omega)]; exact hmp)]
          rfl
        · rw [e]
          obtain ⟨w0, w1⟩ := word_bwd env henv m hm c hc8 hmp
          by_cases hv0 : readLE m c 8 = 0
          · simp only [hv0, ne_eq, not_true_eq_false, if_false]
            rw [ih c g' hcS hfuel (fun x a b => hv x a (Nat.le_of_lt b)), esplit, e8, bwdSearch_append, w0 hv0]
            simp only [PosRes.orElse, e8']
          · obtain ⟨bit, b1, b2, b3⟩ := w1 hv0
            simp only [hv0, ne_eq, not_false_eq_true, if_true, b1]
            rw [e8, b3 _ h64 hle]
            simp only [PosRes.toFind, Nat.shiftRight_eq_div_pow, Nat.shiftLeft_eq]
            have e1 : (8 * c + bit) / 8 = c + bit / 2 ^ 3 := by omega
            have e2 : (8 * c + bit) % 8 = bit - bit / 2 ^ 3 * 2 ^ 3 := by omega
            rw [e1, e2]
      · have hs1 : (if cur % 8 = 0 ∧ cur - 8 ≥ S ∧ cur ≥ 8 then 8 else 1) = 1 := by simp only [hstep, if_false]
        simp only [hs1, Nat.reduceEqDiff, if_false]
        obtain ⟨c, rfl⟩ : ∃ c, cur = c + 1 := ⟨cur - 1, by omega⟩
        have hcS : S ≤ c := by omega
        have esplit : 8 * (c + 1 - S) = 8 + 8 * (c - S) := by omega
        have hle : 8 * (c + 1 - S) ≤ 8 * c + 8 := by omega
        have h8 : 8 ≤ 8 * (c + 1 - S) := by omega
        have hfuel : c - S ≤ f := by omega
        have e8 : 8 * (c + 1) = 8 * c + 8 := by omega
        have e8' : 8 * c + 8 - 8 = 8 * c := by omega
        simp only [Nat.add_sub_cancel]
        rcases chkBwd env henv c grain (fun x a b => hc x a (by omega)) with ⟨e, hmp⟩ | ⟨g', e, hmp, hv⟩
        · rw [e]
          have hq : (8 * c + 8 - 1) / 8 = c := by omega
          rw [e8, bwdSearch_unm env m _ _ (8 * c + 8 - 1) hle (by omega) (by omega) (fun p a b => by omega)
            (by rw [hq]; exact hmp)]
          rfl
        · rw [e]
          have hb := byte_bwd env m c 0 8 hmp (by omega) (by omega)
          cases hfb : findLastBit 8 (m c) 0 8 with
          | some bit =>
            rw [hfb] at hb
            obtain ⟨b1, b2⟩ := hb
            rw [e8, b2 _ (by omega) hle]
            simp only [PosRes.toFind]
            have e1 : (8 * c + bit) / 8 = c := by omega
            have e2 : (8 * c + bit) % 8 = bit := by omega
            rw [e1, e2]
          | none =>
            rw [hfb] at hb
            simp only [Nat.sub_zero] at hb
            show findLastInBytesLoop env m S f c g' = _
            rw [ih c g' hcS hfuel (fun x a b => hv x a (Nat.le_of_lt b)), esplit, e8, bwdSearch_append, hb]
            simp only [PosRes.orElse, e8']
    · have : cur - S = 0 := by omega
      simp [hlt, this, bwdSearch, PosRes.toFind]

/-- **`find_last_non_zero_bit_in_metadata_bits`** is the position-level backward search. -/
theorem findLastInBits_eq (env : MapEnv) (m : Mem) (a sb eb : Nat) (h1 : sb < eb) (h2 : eb ≤ 8) :
    findLastInBits env m a sb eb = (bwdSearch env m (eb - sb) (8 * a + eb)).toFind := by
  unfold findLastInBits
  by_cases hmp : env.mapped a = true
  · simp only [hmp, Bool.not_true, Bool.false_eq_true, if_false]
    have hb := byte_bwd env m a sb eb hmp h1 h2
    cases hfb : findLastBit 8 (m a) sb eb with
    | some bit =>
      rw [hfb] at hb
      obtain ⟨b1, b2⟩ := hb
      rw [b2 _ (Nat.le_refl _) (by omega)]
      simp only [PosRes.toFind]
      have e1 : (8 * a + bit) / 8 = a := by omega
      have e2 : (8 * a + bit) % 8 = bit := by omega
      rw [e1, e2]
    | none =>
      rw [hfb] at hb
      rw [hb]; rfl
  · have hmp' : env.mapped a = false := by simpa using hmp
    simp only [hmp', Bool.not_false, if_true]
    have hq : (8 * a + eb - 1) / 8 = a := by omega
    rw [bwdSearch_unm env m _ _ (8 * a + eb - 1) (by omega) (by omega) (by omega) (fun p x y => by omega) (by rw [hq]; exact hmp')]
    rfl


/-- arithmetic of the bounds of the backward search (`S = a - limit + 1`). -/
theorem prev_bounds (a limit lr : Nat) (hlim : 0 < limit) (ha0 : 0 < a) :
    alignDown a (2 ^ lr) = a / 2 ^ lr * 2 ^ lr ∧
    a - limit + 1 ≤ a ∧
    (a - limit + 1) / 2 ^ lr ≤ a / 2 ^ lr ∧
    (a - limit + 1) / 2 ^ lr ≤ (a - limit + 1 + 2 ^ lr - 1) / 2 ^ lr ∧
    (a - limit + 1 + 2 ^ lr - 1) / 2 ^ lr ≤ (a - limit + 1) / 2 ^ lr + 1 ∧
    (∀ q, q * 2 ^ lr ≥ a - limit + 1 ↔ (a - limit + 1 + 2 ^ lr - 1) / 2 ^ lr ≤ q) ∧
    a / 2 ^ lr * 2 ^ lr ≤ a ∧ a < (a / 2 ^ lr + 1) * 2 ^ lr ∧
    a / 2 ^ lr + 1 - (a - limit + 1 + 2 ^ lr - 1) / 2 ^ lr ≤ limit / 2 ^ lr + 2 ∧
    1 ≤ (a - limit + 1 + 2 ^ lr - 1) / 2 ^ lr := by
  have hR := Nat.two_pow_pos lr
  generalize 2 ^ lr = R at *
  have hS : a - limit + 1 ≤ a := by omega
  have hS1 : 1 ≤ a - limit + 1 := by omega
  have hSl : a < a - limit + 1 + limit := by omega
  generalize a - limit + 1 = S at *
  have f1 : a / R * R ≤ a := Nat.div_mul_le_self a R
  have f2 : a < a / R * R + R := Nat.lt_div_mul_add hR
  have f3 : S / R * R ≤ S := Nat.div_mul_le_self _ R
  have f4 : S < S / R * R + R := Nat.lt_div_mul_add hR
  have f5 : (S + R - 1) / R * R ≤ S + R - 1 := Nat.div_mul_le_self _ R
  have f6 : S + R - 1 < (S + R - 1) / R * R + R := Nat.lt_div_mul_add hR
  have f7 : limit / R * R ≤ limit := Nat.div_mul_le_self _ R
  have f8 : limit < limit / R * R + R := Nat.lt_div_mul_add hR
  have g1 : S / R ≤ a / R := Nat.div_le_div_right hS
  have g2 : S / R ≤ (S + R - 1) / R := Nat.div_le_div_right (by omega)
  have g3 : (S + R - 1) / R ≤ S / R + 1 := by
    apply Nat.le_of_lt_succ
    apply (Nat.div_lt_iff_lt_mul hR).2
    rw [Nat.succ_mul, Nat.add_mul, Nat.one_mul]; omega
  have g4 : 1 ≤ (S + R - 1) / R := (Nat.le_div_iff_mul_le hR).2 (by omega)
  have g5 : (a / R + 1) * R = a / R * R + R := by rw [Nat.add_mul, Nat.one_mul]
  refine ⟨alignDown_eq_div a R, hS, g1, g2, g3, ?_, f1, by omega, ?_, g4⟩
  · intro q
    generalize (S + R - 1) / R = t at *
    constructor
    · intro h
      apply Nat.le_of_not_lt
      intro hlt
      have := Nat.mul_le_mul_right R (Nat.succ_le_of_lt hlt)
      rw [Nat.succ_mul] at this
      omega
    · intro h
      have := Nat.mul_le_mul_right R h
      omega
  · generalize a / R = ra at *
    generalize (S + R - 1) / R = t at *
    generalize limit / R = L at *
    by_cases ht : t ≤ ra
    · have e : (ra - t) * R = ra * R - t * R := Nat.sub_mul ..
      have : (ra - t) * R ≤ L * R + R := by
        have := Nat.mul_le_mul_right R ht
        omega
      have e2 : (L + 1) * R = L * R + R := by rw [Nat.add_mul, Nat.one_mul]
      rw [← e2] at this
      have := Nat.le_of_mul_le_mul_right this hR
      omega
    · omega

/-- the region-level effect of the final range filter of `find_prev_non_zero_value_fast`: the fast
version also looks at the region cut by `S = a - limit + 1` and then discards it. -/
theorem regionBwd_filter (env : MapEnv) (s : Spec) (m : Mem) (rs rs' ra S a : Nat)
    (h1 : rs ≤ rs') (h2 : rs' ≤ rs + 1) (h3 : rs ≤ ra) (hrs' : 1 ≤ rs')
    (h5 : ∀ q, q * 2 ^ s.logRegion ≥ S ↔ rs' ≤ q) (h6 : ra * 2 ^ s.logRegion ≤ a)
    (hz : absArr m s ra = 0) (hmp : env.mapped (ra * 2 ^ s.logRegion) = true) :
    ((regionBwd env s m (ra - rs) ra).map fun x => alignDown x (2 ^ s.logRegion)).filter
      (fun x => decide (x ≥ S) && decide (x < a)) = regionBwd env s m (ra + 1 - rs') (ra + 1) := by
  have hR := Nat.two_pow_pos s.logRegion
  have hiffL := regionBwd_some_iff env s m (ra - rs) ra
  have hiffR := regionBwd_some_iff env s m (ra + 1 - rs') (ra + 1)
  cases hL : regionBwd env s m (ra - rs) ra with
  | none =>
    symm
    apply Option.eq_none_iff_forall_ne_some.2
    intro x hx
    obtain ⟨r', a1, a2, a3, a4, a5, a6⟩ := (hiffR x (by omega)).1 hx
    have hne : r' ≠ ra := by intro e; rw [e] at a4; exact a4 hz
    have : regionBwd env s m (ra - rs) ra = some x :=
      (hiffL x (by omega)).2 ⟨r', by omega, by omega, a3, a4, fun q q1 q2 => a5 q q1 (by omega), fun q q1 q2 => a6 q q1 (by omega)⟩
    rw [hL] at this; cases this
  | some y =>
    obtain ⟨r', a1, a2, a3, a4, a5, a6⟩ := (hiffL y (by omega)).1 hL
    subst a3
    have hlt : r' * 2 ^ s.logRegion < a := by
      have := Nat.mul_lt_mul_of_pos_right a2 hR
      omega
    by_cases hge : rs' ≤ r'
    · have hS : r' * 2 ^ s.logRegion ≥ S := (h5 r').2 hge
      have : regionBwd env s m (ra + 1 - rs') (ra + 1) = some (r' * 2 ^ s.logRegion) :=
        (hiffR _ (by omega)).2 ⟨r', by omega, by omega, rfl, a4, fun q q1 q2 => by
          by_cases e : q = ra
          · rw [e]; exact hz
          · exact a5 q q1 (by omega), fun q q1 q2 => by
          by_cases e : q = ra
          · rw [e]; exact hmp
          · exact a6 q q1 (by omega)⟩
      rw [this]
      simp [alignDown_mul, hS, hlt]
    · have hS : ¬ r' * 2 ^ s.logRegion ≥ S := fun h => hge ((h5 r').1 h)
      have hnone : regionBwd env s m (ra + 1 - rs') (ra + 1) = none := by
        apply Option.eq_none_iff_forall_ne_some.2
        intro x hx
        obtain ⟨r'', c1, c2, c3, c4, c5, c6⟩ := (hiffR x (by omega)).1 hx
        by_cases e : r'' = ra
        · rw [e] at c4; exact c4 hz
        · exact c4 (a5 r'' (by omega) (by omega))
      rw [hnone]
      simp [alignDown_mul, hS]


/-- **the naive backward search is the region-level search** over the regions `⌊a/R⌋` down to
`⌈(a-limit+1)/R⌉` (those whose start is inside the limit). -/
theorem findPrevSimple_eq_region (env : MapEnv) (henv : env.ok) (s : Spec) (hs : s.ok)
    (m : Mem) (a limit : Nat) (hlim : 0 < limit) (ha0 : 0 < a) (ha1 : a + 1 < 2 ^ 64) :
    findPrevSimple env s m a limit =
      regionBwd env s m (a / 2 ^ s.logRegion + 1 - (a - limit + 1 + 2 ^ s.logRegion - 1) / 2 ^ s.logRegion)
        (a / 2 ^ s.logRegion + 1) := by
  obtain ⟨p1, p2, p3, p4, p4', p5, p6, p6', p7, p9⟩ := prev_bounds a limit s.logRegion hlim ha0
  unfold findPrevSimple
  simp only
  rw [p1]
  generalize a / 2 ^ s.logRegion = ra at *
  generalize (a - limit + 1 + 2 ^ s.logRegion - 1) / 2 ^ s.logRegion = t at *
  generalize (a - limit + 1) / 2 ^ s.logRegion = rs at *
  apply findPrevSimpleLoop_eq env henv s hs m _ (ra + 1 - t) _ ra (2 ^ 64 - 1) p7 (by omega) (by omega)
  · intro q q1 q2; exact (p5 q).2 (by omega)
  · intro h; have := (p5 _).1 h; omega
  · intro x x1 x2; omega

/-- **the fast backward search is the region-level search** over the same regions. -/
theorem findPrevFast_eq_region (env : MapEnv) (henv : env.ok) (s : Spec) (hs : s.ok)
    (hal : s.start % 2 ^ (s.logBits - 3) = 0) (hlr : s.logBits < 3 → s.logBits ≤ s.logRegion)
    (hgran : 2 ^ s.logRegion ∣ env.gran) (m : Mem) (hm : ByteMem m) (a limit : Nat) (hlim : 0 < limit)
    (ha0 : 0 < a) (ha1 : a + 1 < 2 ^ 64) (hmeta : metaAddr s a < 2 ^ 64 - 1)
    (hmc : MapConsistent env s m ((a - limit + 1) / 2 ^ s.logRegion) (a / 2 ^ s.logRegion + 1) false) :
    findPrevFast env s m a limit =
      regionBwd env s m (a / 2 ^ s.logRegion + 1 - (a - limit + 1 + 2 ^ s.logRegion - 1) / 2 ^ s.logRegion)
        (a / 2 ^ s.logRegion + 1) := by
  have hR := Nat.two_pow_pos s.logRegion
  obtain ⟨p1, p2, p3, p4, p4', p5, p6, p6', p7, p9⟩ := prev_bounds a limit s.logRegion hlim ha0
  have hmap0 := region_block env henv s.logRegion hgran a
  have hra : a >>> s.logRegion = a / 2 ^ s.logRegion := Nat.shiftRight_eq_div_pow ..
  have hrs : (a - limit + 1) >>> s.logRegion = (a - limit + 1) / 2 ^ s.logRegion := Nat.shiftRight_eq_div_pow ..
  have ha64 : a < 2 ^ 64 := by omega
  have hlabs : load s m a = absArr m s (a / 2 ^ s.logRegion) := by rw [load_eq_absArr s hs m a ha64, hra]
  obtain ⟨e1, e2, c1, c2, ho⟩ := bulk_interval s hs (a - limit + 1) (a - (a - limit + 1)) (by omega)
  have eE : a - limit + 1 + (a - (a - limit + 1)) = a := by omega
  rw [eE] at e2 c2 ho
  rw [hrs] at e1
  rw [hra] at e2
  unfold findPrevFast
  generalize a / 2 ^ s.logRegion = ra at *
  generalize (a - limit + 1 + 2 ^ s.logRegion - 1) / 2 ^ s.logRegion = t at *
  generalize (a - limit + 1) / 2 ^ s.logRegion = rs at *
  generalize hS : a - limit + 1 = S at *
  by_cases hmapa : env.mapped a = true
  · simp only [hmapa, Bool.not_true, Bool.false_eq_true, if_false]
    rw [hmapa] at hmap0
    by_cases hload : load s m a ≠ 0
    · rw [if_pos hload, p1]
      rw [hlabs] at hload
      by_cases hin : ra * 2 ^ s.logRegion ≥ S
      · have := (p5 ra).1 hin
        obtain ⟨k, hk⟩ : ∃ k, ra + 1 - t = k + 1 := ⟨ra - t, by omega⟩
        rw [if_pos hin, hk]
        simp only [regionBwd, Nat.add_sub_cancel, hmap0]
        simp [hload]
      · have : ¬ t ≤ ra := fun h => hin ((p5 ra).2 h)
        have hk : ra + 1 - t = 0 := by omega
        rw [if_neg hin, hk]; rfl
    · rw [if_neg hload]
      have hz : absArr m s ra = 0 := by rw [← hlabs]; simpa using hload
      have ht := breakBitRange_partition _ _ _ _ c1 c2 ho
      rw [e1, e2] at ht
      rw [breakBitRange_backwards, findVisit_tiles_bwd env s m _ (fieldBase s ra) ?_ ht (Nat.le_refl _)]
      · have e : ra - (ra - rs) = rs := by omega
        rw [fieldBase_sub s rs ra p3,
          bwd_fast_region env s hs hal hlr m hm (ra - rs) ra (by omega) (by omega)
            (by rw [e]; exact hmc.mono (Nat.le_refl _) (by omega))]
        exact regionBwd_filter env s m rs t ra S a p4 p4' p3 p9 p5 p6 hz hmap0
      · intro r hw hhi
        have hfb : fieldBase s ra < 8 * (2 ^ 64 - 1) := by omega
        cases r with
        | bytes st en =>
          simp only [BBR.lo, BBR.hi, BBR.wf] at hw hhi ⊢
          have e8 : 8 * en - 8 * st = 8 * (en - st) := by omega
          rw [e8]
          exact findLastInBytesLoop_eq env henv m hm st _ en (2 ^ 64 - 1) (Nat.le_of_lt hw) (by omega) (fun x a b => by omega)
        | bits ad bs be =>
          simp only [BBR.lo, BBR.hi, BBR.wf] at hw hhi ⊢
          have e8 : 8 * ad + be - (8 * ad + bs) = be - bs := by omega
          rw [e8]
          exact findLastInBits_eq env m ad bs be hw.1 hw.2
  · have hmapa' : env.mapped a = false := by simpa using hmapa
    rw [hmapa'] at hmap0
    simp only [hmapa', Bool.not_false, if_true]
    by_cases hk0 : ra + 1 - t = 0
    · rw [hk0]; rfl
    · obtain ⟨k, hk⟩ : ∃ k, ra + 1 - t = k + 1 := ⟨ra - t, by omega⟩
      rw [hk]
      simp only [regionBwd, Nat.add_sub_cancel, hmap0, Bool.not_false, if_true]


/-- **C22 (backward search, fast = naive)** for this tree's `find_prev_non_zero_value_fast` (whose quick
check applies the search limit; the pinned version is `findPrev_own_region_defect`): under
`MapConsistent` on the regions `⌊(a-limit+1)/R⌋ … ⌊a/R⌋` (searched downwards) the word-at-a-time search
and the region-by-region search return the same. Side conditions as for the forward search; `0 < a` and
`a + 1 < 2^64` keep `a - limit + 1` and the loops' initial cache (`usize::MAX`) meaningful, `hmeta` says
the metadata of `a` does not sit at the very last address. -/
theorem findPrev_fast_eq_simple (env : MapEnv) (henv : env.ok) (s : Spec) (hs : s.ok)
    (hal : s.start % 2 ^ (s.logBits - 3) = 0) (hlr : s.logBits < 3 → s.logBits ≤ s.logRegion)
    (hgran : 2 ^ s.logRegion ∣ env.gran) (m : Mem) (hm : ByteMem m) (a limit : Nat) (hlim : 0 < limit)
    (ha0 : 0 < a) (ha1 : a + 1 < 2 ^ 64) (hmeta : metaAddr s a < 2 ^ 64 - 1)
    (hmc : MapConsistent env s m ((a - limit + 1) / 2 ^ s.logRegion) (a / 2 ^ s.logRegion + 1) false) :
    findPrevFast env s m a limit = findPrevSimple env s m a limit := by
  rw [findPrevFast_eq_region env henv s hs hal hlr hgran m hm a limit hlim ha0 ha1 hmeta hmc,
    findPrevSimple_eq_region env henv s hs m a limit hlim ha0 ha1]

/-- the public entry never trips its `assert_eq!(fast, naive)`. -/
theorem findPrev_public (debug : Bool) (env : MapEnv) (henv : env.ok) (s : Spec) (hs : s.ok)
    (hal : s.start % 2 ^ (s.logBits - 3) = 0) (hlr : s.logBits < 3 → s.logBits ≤ s.logRegion)
    (hgran : 2 ^ s.logRegion ∣ env.gran) (m : Mem) (hm : ByteMem m) (a limit : Nat) (hlim : 0 < limit)
    (ha0 : 0 < a) (ha1 : a + 1 < 2 ^ 64) (hmeta : metaAddr s a < 2 ^ 64 - 1)
    (hmc : MapConsistent env s m ((a - limit + 1) / 2 ^ s.logRegion) (a / 2 ^ s.logRegion + 1) false) :
    findPrev debug env s m a limit = some (findPrevFast env s m a limit) := by
  have h := findPrev_fast_eq_simple env henv s hs hal hlr hgran m hm a limit hlim ha0 ha1 hmeta hmc
  have hl : (limit == 0) = false := by simp; omega
  unfold findPrev
  simp [hl, h]

/-- **C22 (backward search, specification)**: the result is the greatest region start `x` with
`a - limit < x ≤ a` and a non-zero field, provided no data region from `x` up to `⌊a⌋` is unmapped;
otherwise nothing. -/
theorem findPrev_spec (env : MapEnv) (henv : env.ok) (s : Spec) (hs : s.ok)
    (hal : s.start % 2 ^ (s.logBits - 3) = 0) (hlr : s.logBits < 3 → s.logBits ≤ s.logRegion)
    (hgran : 2 ^ s.logRegion ∣ env.gran) (m : Mem) (hm : ByteMem m) (a limit : Nat) (hlim : 0 < limit)
    (ha0 : 0 < a) (ha1 : a + 1 < 2 ^ 64) (hmeta : metaAddr s a < 2 ^ 64 - 1)
    (hmc : MapConsistent env s m ((a - limit + 1) / 2 ^ s.logRegion) (a / 2 ^ s.logRegion + 1) false)
    (x : Nat) :
    findPrevFast env s m a limit = some x ↔
      (x % 2 ^ s.logRegion = 0 ∧ a - limit + 1 ≤ x ∧ x ≤ a ∧ load s m x ≠ 0 ∧
        (∀ y, x < y → y ≤ a → y % 2 ^ s.logRegion = 0 → load s m y = 0) ∧
        (∀ y, x ≤ y → y ≤ a → y % 2 ^ s.logRegion = 0 → env.mapped y = true)) := by
  have hR := Nat.two_pow_pos s.logRegion
  obtain ⟨p1, p2, p3, p4, p4', p5, p6, p6', p7, p9⟩ := prev_bounds a limit s.logRegion hlim ha0
  rw [findPrevFast_eq_region env henv s hs hal hlr hgran m hm a limit hlim ha0 ha1 hmeta hmc,
    regionBwd_some_iff env s m _ _ x (by omega)]
  generalize a / 2 ^ s.logRegion = ra at *
  generalize (a - limit + 1 + 2 ^ s.logRegion - 1) / 2 ^ s.logRegion = t at *
  generalize (a - limit + 1) / 2 ^ s.logRegion = rs at *
  have hle : ∀ q, q * 2 ^ s.logRegion ≤ a → q ≤ ra := by
    intro q hq
    have : q * 2 ^ s.logRegion < (ra + 1) * 2 ^ s.logRegion := by omega
    have := Nat.lt_of_mul_lt_mul_right this
    omega
  have hld : ∀ q, q ≤ ra → load s m (q * 2 ^ s.logRegion) = absArr m s q := fun q hq =>
    load_region s hs m q (by have := Nat.mul_le_mul_right (2 ^ s.logRegion) hq; omega)
  constructor
  · rintro ⟨r', q1, q2, rfl, q4, q5, q6⟩
    have hr' : r' ≤ ra := by omega
    have hxa : r' * 2 ^ s.logRegion ≤ a := by have := Nat.mul_le_mul_right (2 ^ s.logRegion) hr'; omega
    refine ⟨Nat.mul_mod_left .., (p5 r').2 (by omega), hxa, by rw [hld r' hr']; exact q4, ?_, ?_⟩
    · intro y y1 y2 y3
      obtain ⟨q, rfl⟩ : ∃ q, y = q * 2 ^ s.logRegion := ⟨_, (aligned_eq y s.logRegion y3).symm⟩
      have c1 := Nat.lt_of_mul_lt_mul_right y1
      have c2 := hle q y2
      rw [hld q c2]; exact q5 q c1 (by omega)
    · intro y y1 y2 y3
      obtain ⟨q, rfl⟩ : ∃ q, y = q * 2 ^ s.logRegion := ⟨_, (aligned_eq y s.logRegion y3).symm⟩
      exact q6 q (Nat.le_of_mul_le_mul_right y1 hR) (by have := hle q y2; omega)
  · rintro ⟨x1, x2, x3, x4, x5, x6⟩
    obtain ⟨r', rfl⟩ : ∃ q, x = q * 2 ^ s.logRegion := ⟨_, (aligned_eq x s.logRegion x1).symm⟩
    have c1 := (p5 r').1 x2
    have c2 := hle r' x3
    refine ⟨r', by omega, by omega, rfl, by rw [← hld r' c2]; exact x4, fun q d1 d2 => ?_, fun q d1 d2 => ?_⟩
    · have hq : q ≤ ra := by omega
      have hqa : q * 2 ^ s.logRegion ≤ a := by have := Nat.mul_le_mul_right (2 ^ s.logRegion) hq; omega
      rw [← hld q hq]
      exact x5 _ (Nat.mul_lt_mul_of_pos_right d1 hR) hqa (Nat.mul_mod_left ..)
    · have hq : q ≤ ra := by omega
      have hqa : q * 2 ^ s.logRegion ≤ a := by have := Nat.mul_le_mul_right (2 ^ s.logRegion) hq; omega
      exact x6 _ (Nat.mul_le_mul_right _ d1) hqa (Nat.mul_mod_left ..)

/-- the hypotheses of the backward theorems are satisfiable by a non-trivial state: data `[128, 512)`
mapped, `[0,128)` not, metadata (from 1024) mapped, the bit of region 20 (address 160) set; searching back
from 300 over 250 bytes reaches the unmapped chunk below region 16. -/
example :
    let env : MapEnv := { mapped := fun x => (decide (128 ≤ x) && decide (x < 512)) || decide (1024 ≤ x), gran := 64 }
    let s : Spec := { start := 1024, logBits := 0, logRegion := 3 }
    let m : Mem := fun x => if x = 1026 then 16 else 0
    env.ok ∧ s.ok ∧ s.start % 2 ^ (s.logBits - 3) = 0 ∧ (s.logBits < 3 → s.logBits ≤ s.logRegion) ∧
    2 ^ s.logRegion ∣ env.gran ∧ ByteMem m ∧ metaAddr s 300 < 2 ^ 64 - 1 ∧
    MapConsistent env s m ((300 - 250 + 1) / 2 ^ s.logRegion) (300 / 2 ^ s.logRegion + 1) false ∧
    findPrevFast env s m 300 250 = some 160 ∧ findPrevFast env s m 150 140 = none ∧
    findPrevSimple env s m 300 250 = some 160 := by
  intro env s m
  refine ⟨⟨by decide, by decide, ?_⟩, by decide, by decide, by decide, by decide, ?_, by decide, ?_, by decide, by decide, by decide⟩
  · intro x y h
    show ((decide (128 ≤ x) && decide (x < 512)) || decide (1024 ≤ x)) = ((decide (128 ≤ y) && decide (y < 512)) || decide (1024 ≤ y))
    have h' : x / 64 = y / 64 := h
    have e1 : (128 ≤ x) ↔ (128 ≤ y) := by omega
    have e2 : (1024 ≤ x) ↔ (1024 ≤ y) := by omega
    have e3 : (x < 512) ↔ (y < 512) := by omega
    simp [e1, e2, e3]
  · intro x; show (if x = 1026 then 16 else 0) < 256; split <;> omega
  · have hr : ((300 - 250 + 1) / 2 ^ s.logRegion) = 6 := by decide
    have hr1 : (300 / 2 ^ s.logRegion + 1) = 38 := by decide
    rw [hr, hr1]
    have hfb : ∀ r, fieldBase s r = 8192 + r := by intro r; show 8 * 1024 + r * 2 ^ 0 = _; omega
    constructor
    · intro r _ _ _ p hp
      obtain ⟨p1, p2⟩ := hp
      rw [hfb] at p1
      show ((decide (128 ≤ p / 8) && decide (p / 8 < 512)) || decide (1024 ≤ p / 8)) = true
      have : 1024 ≤ p / 8 := by omega
      simp [this]
    · intro r r' a1 a2 a3 a4 a5 hun p hp _
      obtain ⟨p1, p2⟩ := hp
      rw [hfb] at p1 p2
      have p2' : p < 8192 + r' + 1 := p2
      have a5' : r' ≤ r := a5
      have hun' : ((decide (128 ≤ r * 8) && decide (r * 8 < 512)) || decide (1024 ≤ r * 8)) = false := hun
      have hr16 : r < 16 := by
        simp at hun'; omega
      show (if p / 8 = 1026 then 16 else 0).testBit (p % 8) = false
      have : p / 8 ≠ 1026 := by omega
      simp [this]

/-- outside the defect's case (`findPrev_own_region_defect`) the pinned and the repaired fast backward
search are the same function. -/
theorem findPrevFastOld_eq_fixed (env : MapEnv) (s : Spec) (m : Mem) (a limit : Nat)
    (h : alignDown a (2 ^ s.logRegion) ≥ a - limit + 1 ∨ load s m a = 0) :
    findPrevFastOld env s m a limit = findPrevFast env s m a limit := by
  unfold findPrevFastOld findPrevFast
  by_cases hmp : env.mapped a = true
  · by_cases hl : load s m a ≠ 0
    · have hge : alignDown a (2 ^ s.logRegion) ≥ a - limit + 1 := by
        rcases h with h | h
        · exact h
        · exact absurd h hl
      simp only [hmp, Bool.not_true, Bool.false_eq_true, if_false, hl, ne_eq, not_false_eq_true, if_true, hge]
    · simp only [hmp, Bool.not_true, Bool.false_eq_true, if_false, hl, if_false]
  · have hmp' : env.mapped a = false := by simpa using hmp
    simp only [hmp', Bool.not_false, if_true]

/-- **C22 (backward search, pinned code)**: the statement as first planned — the pinned
`find_prev_non_zero_value_fast` agrees with the naive version whenever the own region's start is inside the
limit or its field is zero (the complement is exactly `findPrev_own_region_defect`). -/
theorem findPrevOld_fast_eq_simple (env : MapEnv) (henv : env.ok) (s : Spec) (hs : s.ok)
    (hal : s.start % 2 ^ (s.logBits - 3) = 0) (hlr : s.logBits < 3 → s.logBits ≤ s.logRegion)
    (hgran : 2 ^ s.logRegion ∣ env.gran) (m : Mem) (hm : ByteMem m) (a limit : Nat) (hlim : 0 < limit)
    (ha0 : 0 < a) (ha1 : a + 1 < 2 ^ 64) (hmeta : metaAddr s a < 2 ^ 64 - 1)
    (hmc : MapConsistent env s m ((a - limit + 1) / 2 ^ s.logRegion) (a / 2 ^ s.logRegion + 1) false)
    (hside : alignDown a (2 ^ s.logRegion) ≥ a - limit + 1 ∨ load s m a = 0) :
    findPrevFastOld env s m a limit = findPrevSimple env s m a limit := by
  rw [findPrevFastOld_eq_fixed env s m a limit hside]
  exact findPrev_fast_eq_simple env henv s hs hal hlr hgran m hm a limit hlim ha0 ha1 hmeta hmc

end Mmtk.SideMeta
