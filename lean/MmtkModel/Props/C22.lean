import MmtkModel.Model.SideMetaSearch
import MmtkModel.Props.C21
import MmtkModel.Lemmas.SideSearch
/-!
# C22 — Side-metadata search and scan agree with a naive scan

Status: **partial**.  Proved here: the bit-selection lemmas of the inner loops (`ctz_spec`,
`hiBit_spec`, `rangeMask` and `findFirstBit_spec` / `findLastBit_spec`), the exact
characterisation of the one case in which the real fast and naive backward searches disagree on
inputs in the property's scope (`findPrev_own_region_defect`, with a `decide` witness), the agreement
of the quick-check case otherwise (`findPrev_own_region_partial`, `findNext_own_region_partial`),
and the `decide`-checked counter-models outside the property's scope (no `MapConsistent`; region-
unaligned scan end).  The top-level equivalences are stated below in comments; they are tied to
the code by the exact differential of all three variants (fast / naive / public with the debug
build's own `assert_eq!(fast, naive)`) and the independent naive-scan oracle of `checks/C22.py`.

Full statements (not proved here):

* `findPrev_fast_eq_simple` : `s.ok → s.logRegion ≤ log2 gran → ByteMem m → MapConsistent env s m I →
  alignDown a R ≥ a - limit + 1 ∨ load s m a = 0 → findPrevFastOld env s m a limit = findPrevSimple env s m a limit`
  where `I` = regions `⌊(a-limit+1)/R⌋ … ⌊a/R⌋`, `MapConsistent` = (data mapped → metadata mapped) ∧
  (data unmapped at `r` → every readable field at or below `r` in `I` is zero).
* `findNext_fast_eq_simple` : same with `I` = regions `⌊a/R⌋ … ⌈(a+limit)/R⌉-1`, no side condition.
* `findPrev_spec` : the result is the greatest region start `x` with `a - limit < x ≤ ⌊a⌋`, field ≠ 0 and
  no unmapped data region in `(x, a]`.
* `scan_fast_eq_naive`, `scan_spec` : for region-aligned `start ≤ end` and a 1-bit spec,
  `scanFast s m start end = (regions of [start,end) with a non-zero field, ascending, once each)`
  `= scanSimple … start end`.   **NOW PROVED** (section "the scans" below): `scanFast_eq_scanSpec`
  (any `start ≤ end`), `scan_fast_eq_naive`, `scan_spec`, `scan_public_spec` (public entry, every width),
  from `scanBytes_ok` / `scanBits_ok` (each range scanner reports exactly the set bits of its range,
  ascending), `breakBitRange_partition` (C21) and `metaToData_bit` (Lemmas/SideSearch.lean).
-/
namespace Mmtk.SideMeta
open Mmtk.Mem
open Mmtk.HeaderMeta (ByteMem)

/-! ## bit selection in the inner loops -/

theorem ctzF_spec (f n : Nat) (h0 : n ≠ 0) (hlt : n < 2 ^ f) :
    n.testBit (ctzF f n) = true ∧ ∀ i, i < ctzF f n → n.testBit i = false := by
  induction f generalizing n with
  | zero => simp at hlt; omega
  | succ f ih =>
    unfold ctzF
    by_cases h : n % 2 = 1
    · simp only [h, if_true]
      exact ⟨by simp [Nat.testBit_zero, h], fun i hi => by omega⟩
    · simp only [h, if_false]
      have hn2 : n / 2 ≠ 0 := by omega
      have hl2 : n / 2 < 2 ^ f := by rw [Nat.pow_succ] at hlt; omega
      obtain ⟨a, b⟩ := ih (n / 2) hn2 hl2
      refine ⟨?_, ?_⟩
      · rw [Nat.add_comm, Nat.testBit_succ]; exact a
      · intro i hi
        cases i with
        | zero => simp [Nat.testBit_zero]; omega
        | succ j => rw [Nat.testBit_succ]; exact b j (by omega)

/-- **`trailing_zeros`**: the selected bit is set and is the lowest set bit. -/
theorem ctz_spec (n : Nat) (h0 : n ≠ 0) (hlt : n < 2 ^ 64) :
    n.testBit (ctz n) = true ∧ ∀ i, i < ctz n → n.testBit i = false := ctzF_spec 64 n h0 hlt

theorem log2F_spec (f n : Nat) (h0 : n ≠ 0) (hlt : n < 2 ^ f) :
    n.testBit (log2F f n) = true ∧ ∀ i, log2F f n < i → n.testBit i = false := by
  induction f generalizing n with
  | zero => simp at hlt; omega
  | succ f ih =>
    unfold log2F
    by_cases h : n < 2
    · have : n = 1 := by omega
      subst this
      simp only [h, if_true]
      refine ⟨by decide, fun i hi => ?_⟩
      exact Nat.testBit_lt_two_pow (Nat.lt_of_lt_of_le (by decide : 1 < 2 ^ 1) (Nat.pow_le_pow_right (by omega) hi))
    · simp only [h, if_false]
      have hn2 : n / 2 ≠ 0 := by omega
      have hl2 : n / 2 < 2 ^ f := by rw [Nat.pow_succ] at hlt; omega
      obtain ⟨a, b⟩ := ih (n / 2) hn2 hl2
      refine ⟨?_, ?_⟩
      · rw [Nat.add_comm, Nat.testBit_succ]; exact a
      · intro i hi
        cases i with
        | zero => omega
        | succ j => rw [Nat.testBit_succ]; exact b j (by omega)

/-- **`bits − leading_zeros − 1`**: the selected bit is set and is the highest set bit. -/
theorem hiBit_spec (n : Nat) (h0 : n ≠ 0) (hlt : n < 2 ^ 64) :
    n.testBit (hiBit n) = true ∧ ∀ i, hiBit n < i → n.testBit i = false := log2F_spec 64 n h0 hlt

/-- the mask of `find_*_non_zero_bit::<T>(_, start, end)` selects exactly the bits `start ≤ i < end`. -/
theorem testBit_rangeMask (tb st en i : Nat) (h1 : st ≤ en) (h2 : en ≤ tb) :
    (rangeMask tb st en).testBit i = (decide (st ≤ i) && decide (i < en)) := by
  unfold rangeMask
  by_cases h : en - st < tb
  · simp only [h, if_true]
    rw [Nat.testBit_mod_two_pow, Nat.testBit_shiftLeft, Nat.testBit_two_pow_sub_one]
    by_cases a : st ≤ i <;> by_cases b : i < en <;> simp [a, b] <;> omega
  · simp only [h, if_false]
    have e1 : st = 0 := by omega
    have e2 : en = tb := by omega
    subst e1; subst e2
    rw [Nat.testBit_mod_two_pow, Nat.testBit_shiftLeft, Nat.testBit_two_pow_sub_one]
    by_cases b : i < en <;> simp [b]

theorem masked_lt (tb v st en : Nat) (htb : tb ≤ 64) : v &&& rangeMask tb st en < 2 ^ 64 := by
  apply Nat.lt_of_le_of_lt Nat.and_le_right
  have : rangeMask tb st en < 2 ^ tb := by
    unfold rangeMask; split <;> exact Nat.mod_lt _ (Nat.two_pow_pos _)
  exact Nat.lt_of_lt_of_le this (Nat.pow_le_pow_right (by omega) htb)

/-- **`find_first_non_zero_bit`** returns the lowest set bit of `value` inside `[start, end)`, or
`None` iff there is none. -/
theorem findFirstBit_spec (tb v st en : Nat) (h1 : st ≤ en) (h2 : en ≤ tb) (htb : tb ≤ 64) :
    match findFirstBit tb v st en with
    | some b => st ≤ b ∧ b < en ∧ v.testBit b = true ∧ ∀ i, st ≤ i → i < b → v.testBit i = false
    | none => ∀ i, st ≤ i → i < en → v.testBit i = false := by
  unfold findFirstBit
  by_cases h0 : v &&& rangeMask tb st en = 0
  · simp only [h0, if_true]
    intro i hi1 hi2
    have : (v &&& rangeMask tb st en).testBit i = false := by rw [h0]; simp
    rw [Nat.testBit_and, testBit_rangeMask tb st en i h1 h2] at this
    simpa [hi1, hi2] using this
  · simp only [h0, if_false]
    obtain ⟨a, b⟩ := ctz_spec _ h0 (masked_lt tb v st en htb)
    rw [Nat.testBit_and, testBit_rangeMask tb st en _ h1 h2] at a
    simp only [Bool.and_eq_true, decide_eq_true_eq] at a
    refine ⟨a.2.1, a.2.2, a.1, fun i hi1 hi2 => ?_⟩
    have := b i hi2
    rw [Nat.testBit_and, testBit_rangeMask tb st en i h1 h2] at this
    have hi3 : i < en := by omega
    simpa [hi1, hi3] using this

/-- **`find_last_non_zero_bit`** returns the highest set bit of `value` inside `[start, end)`, or
`None` iff there is none. -/
theorem findLastBit_spec (tb v st en : Nat) (h1 : st ≤ en) (h2 : en ≤ tb) (htb : tb ≤ 64) :
    match findLastBit tb v st en with
    | some b => st ≤ b ∧ b < en ∧ v.testBit b = true ∧ ∀ i, b < i → i < en → v.testBit i = false
    | none => ∀ i, st ≤ i → i < en → v.testBit i = false := by
  unfold findLastBit
  by_cases h0 : v &&& rangeMask tb st en = 0
  · simp only [h0, if_true]
    intro i hi1 hi2
    have : (v &&& rangeMask tb st en).testBit i = false := by rw [h0]; simp
    rw [Nat.testBit_and, testBit_rangeMask tb st en i h1 h2] at this
    simpa [hi1, hi2] using this
  · simp only [h0, if_false]
    obtain ⟨a, b⟩ := hiBit_spec _ h0 (masked_lt tb v st en htb)
    rw [Nat.testBit_and, testBit_rangeMask tb st en _ h1 h2] at a
    simp only [Bool.and_eq_true, decide_eq_true_eq] at a
    refine ⟨a.2.1, a.2.2, a.1, fun i hi1 hi2 => ?_⟩
    have := b i hi1
    rw [Nat.testBit_and, testBit_rangeMask tb st en i h1 h2] at this
    have hi3 : st ≤ i := by omega
    simpa [hi2, hi3] using this

/-! ## the quick-check case of the backward search: where the real fast and naive versions part -/

/-- **Defect of the pinned code, characterised exactly.**  If the origin's own region holds a non-zero
field but its start lies below `data_addr - limit + 1` (i.e. `limit ≤ data_addr mod region`), the fast
version's quick check returns that region start *without applying the limit*, while the naive version
never visits it: `find_prev_non_zero_value` trips its own `assert_eq!(fast, naive)` in debug builds and
returns an address outside the requested range in release builds. -/
theorem findPrev_own_region_defect (env : MapEnv) (s : Spec) (m : Mem) (a limit : Nat)
    (hmap : env.mapped a = true) (hload : load s m a ≠ 0)
    (hlim : limit ≤ a % 2 ^ s.logRegion) :
    findPrevFastOld env s m a limit = some (alignDown a (2 ^ s.logRegion)) ∧
    findPrevSimple env s m a limit = none := by
  have hfast : findPrevFastOld env s m a limit = some (alignDown a (2 ^ s.logRegion)) := by
    unfold findPrevFastOld; simp [hmap, hload]
  have hmod : a % 2 ^ s.logRegion ≤ a := Nat.mod_le _ _
  have hsimple : findPrevSimple env s m a limit = none := by
    unfold findPrevSimple
    simp only
    show findPrevSimpleLoop env s m (a - limit + 1) (limit / 2 ^ s.logRegion + 1 + 1) (alignDown a (2 ^ s.logRegion)) (2 ^ 64 - 1) = none
    unfold findPrevSimpleLoop
    have : ¬ (alignDown a (2 ^ s.logRegion) ≥ a - limit + 1) := by unfold alignDown; omega
    simp only [this, not_false_eq_true, if_true]
  exact ⟨hfast, hsimple⟩

/-- the concrete failing input: 1 bit per 8-byte region, bit of region 1 set,
`find_prev_non_zero_value(data_addr = 15, limit = 7)`. -/
theorem findPrev_own_region_defect_witness :
    let env : MapEnv := { mapped := fun _ => true, gran := 64 }
    let s : Spec := { start := 1000, logBits := 0, logRegion := 3 }
    let m : Mem := fun x => if x = 1000 then 2 else 0
    findPrevFastOld env s m 15 7 = some 8 ∧ findPrevSimple env s m 15 7 = none ∧
    findPrevFast env s m 15 7 = none := by
  decide

/-- **The true part (quick-check case)**: when the own region's start is inside the limit, both
versions return it. -/
theorem findPrev_own_region_partial (env : MapEnv) (s : Spec) (hs : s.ok) (m : Mem) (a limit : Nat) (ha1 : a + 1 < 2 ^ 64)
    (hmap : env.mapped a = true) (hmap' : env.mapped (alignDown a (2 ^ s.logRegion)) = true)
    (hload : load s m a ≠ 0) (hlim : a % 2 ^ s.logRegion < limit) (hle : limit ≤ a) :
    findPrevFastOld env s m a limit = some (alignDown a (2 ^ s.logRegion)) ∧
    findPrevSimple env s m a limit = some (alignDown a (2 ^ s.logRegion)) := by
  have ha : a < 2 ^ 64 := by omega
  have hfast : findPrevFastOld env s m a limit = some (alignDown a (2 ^ s.logRegion)) := by
    unfold findPrevFastOld; simp [hmap, hload]
  refine ⟨hfast, ?_⟩
  have hmod : a % 2 ^ s.logRegion ≤ a := Nat.mod_le _ _
  have hreg : (alignDown a (2 ^ s.logRegion)) >>> s.logRegion = a >>> s.logRegion := by
    unfold alignDown
    rw [Nat.shiftRight_eq_div_pow, Nat.shiftRight_eq_div_pow]
    have hp := Nat.two_pow_pos s.logRegion
    have e : a - a % 2 ^ s.logRegion = 2 ^ s.logRegion * (a / 2 ^ s.logRegion) := by
      have := Nat.div_add_mod a (2 ^ s.logRegion); omega
    rw [e, Nat.mul_div_cancel_left _ hp]
  have hload' : load s m (alignDown a (2 ^ s.logRegion)) ≠ 0 := by
    have hlt : alignDown a (2 ^ s.logRegion) < 2 ^ 64 := by unfold alignDown; omega
    rw [load_eq_absArr s hs m _ hlt, hreg, ← load_eq_absArr s hs m a ha]; exact hload
  unfold findPrevSimple
  simp only
  show findPrevSimpleLoop env s m (a - limit + 1) (limit / 2 ^ s.logRegion + 1 + 1) (alignDown a (2 ^ s.logRegion)) (2 ^ 64 - 1) = _
  unfold findPrevSimpleLoop
  have h1 : alignDown a (2 ^ s.logRegion) ≥ a - limit + 1 := by unfold alignDown; omega
  have h2 : alignDown a (2 ^ s.logRegion) < 2 ^ 64 - 1 := by unfold alignDown; omega
  simp [h1, h2, hmap', hload']

/-- **After the `fix:` commit** the quick check applies the limit: in the case that used to differ,
the repaired fast version and the naive version agree (both find nothing) … -/
theorem findPrev_own_region_fixed_below (env : MapEnv) (s : Spec) (m : Mem) (a limit : Nat)
    (hmap : env.mapped a = true) (hload : load s m a ≠ 0) (hlim : limit ≤ a % 2 ^ s.logRegion) :
    findPrevFast env s m a limit = none ∧ findPrevSimple env s m a limit = none := by
  refine ⟨?_, (findPrev_own_region_defect env s m a limit hmap hload hlim).2⟩
  have hmod : a % 2 ^ s.logRegion ≤ a := Nat.mod_le _ _
  have : ¬ (alignDown a (2 ^ s.logRegion) ≥ a - limit + 1) := by unfold alignDown; omega
  unfold findPrevFast; simp [hmap, hload, this]

/-- … and in the other case both still return the own region's start. -/
theorem findPrev_own_region_fixed_within (env : MapEnv) (s : Spec) (hs : s.ok) (m : Mem) (a limit : Nat) (ha1 : a + 1 < 2 ^ 64)
    (hmap : env.mapped a = true) (hmap' : env.mapped (alignDown a (2 ^ s.logRegion)) = true)
    (hload : load s m a ≠ 0) (hlim : a % 2 ^ s.logRegion < limit) (hle : limit ≤ a) :
    findPrevFast env s m a limit = some (alignDown a (2 ^ s.logRegion)) ∧
    findPrevSimple env s m a limit = some (alignDown a (2 ^ s.logRegion)) := by
  refine ⟨?_, (findPrev_own_region_partial env s hs m a limit ha1 hmap hmap' hload hlim hle).2⟩
  have hmod : a % 2 ^ s.logRegion ≤ a := Nat.mod_le _ _
  have : alignDown a (2 ^ s.logRegion) ≥ a - limit + 1 := by unfold alignDown; omega
  unfold findPrevFast; simp [hmap, hload, this]

/-- the forward search has no such case: its quick check and the naive walk agree on the own region. -/
theorem findNext_own_region_partial (env : MapEnv) (s : Spec) (hs : s.ok) (m : Mem) (a limit : Nat) (ha : a < 2 ^ 64)
    (hmap : env.mapped a = true) (hmap' : env.mapped (alignDown a (2 ^ s.logRegion)) = true)
    (hload : load s m a ≠ 0) (hlim : 0 < limit) :
    findNextFast env s m a limit = some (alignDown a (2 ^ s.logRegion)) ∧
    findNextSimple env s m a limit = some (alignDown a (2 ^ s.logRegion)) := by
  have hfast : findNextFast env s m a limit = some (alignDown a (2 ^ s.logRegion)) := by
    unfold findNextFast; simp [hmap, hload]
  refine ⟨hfast, ?_⟩
  have hmod : a % 2 ^ s.logRegion ≤ a := Nat.mod_le _ _
  have hreg : (alignDown a (2 ^ s.logRegion)) >>> s.logRegion = a >>> s.logRegion := by
    unfold alignDown
    rw [Nat.shiftRight_eq_div_pow, Nat.shiftRight_eq_div_pow]
    have hp := Nat.two_pow_pos s.logRegion
    have e : a - a % 2 ^ s.logRegion = 2 ^ s.logRegion * (a / 2 ^ s.logRegion) := by
      have := Nat.div_add_mod a (2 ^ s.logRegion); omega
    rw [e, Nat.mul_div_cancel_left _ hp]
  have hload' : load s m (alignDown a (2 ^ s.logRegion)) ≠ 0 := by
    have hlt : alignDown a (2 ^ s.logRegion) < 2 ^ 64 := by unfold alignDown; omega
    rw [load_eq_absArr s hs m _ hlt, hreg, ← load_eq_absArr s hs m a ha]; exact hload
  unfold findNextSimple
  simp only
  show findNextSimpleLoop env s m (a + limit) (limit / 2 ^ s.logRegion + 1 + 1) (alignDown a (2 ^ s.logRegion)) 0 = _
  unfold findNextSimpleLoop
  have h1 : alignDown a (2 ^ s.logRegion) < a + limit := by unfold alignDown; omega
  by_cases h0 : alignDown a (2 ^ s.logRegion) > 0
  · simp [h1, h0, hmap', hload']
  · simp [h1, h0, hload']

/-! ## counter-models outside the property's scope -/

/-- Without `MapConsistent` the two backward searches differ by design (DESIGN §7): data "chunks"
(64 bytes here) `[64,128)` and `[192,256)` mapped, `[128,192)` not, all metadata mapped, the bit of
region 9 (address 72) set; searching back from 200 over 150 bytes the fast version walks the
metadata and finds 72, the naive one stops at the unmapped data chunk. -/
theorem findPrev_fast_ne_simple_without_mapConsistent :
    let env : MapEnv := { mapped := fun x => decide (x ≥ 1000) || decide (64 ≤ x ∧ x < 128) || decide (192 ≤ x ∧ x < 256), gran := 64 }
    let s : Spec := { start := 1000, logBits := 0, logRegion := 3 }
    let m : Mem := fun x => if x = 1001 then 2 else 0
    findPrevFastOld env s m 200 150 = some 72 ∧ findPrevSimple env s m 200 150 = none := by
  decide

/-- A region-unaligned scan end (caller precondition violated): the fast scan stops before the region
cut by `end`, the naive one still visits it. -/
theorem scan_fast_ne_simple_unaligned_end_witness :
    let env : MapEnv := { mapped := fun _ => true, gran := 64 }
    let s : Spec := { start := 1000, logBits := 0, logRegion := 3 }
    let m : Mem := fun x => if x = 1001 then 3 else 0
    scanFast s m 64 76 = [64] ∧ scanSimple true env s m 64 76 = some [64, 72] ∧
    scanFast s m 64 80 = [64, 72] ∧ scanSimple true env s m 64 80 = some [64, 72] := by
  decide

/-! # the scans: fast = naive = specification -/

/-- `word & (word - 1)` clears exactly the lowest set bit. -/
theorem testBit_clear_lowest (w c : Nat) (hc : w.testBit c = true) (hlow : ∀ i, i < c → w.testBit i = false) (i : Nat) :
    (w &&& (w - 1)).testBit i = (w.testBit i && decide (i ≠ c)) := by
  have hmod : w % 2 ^ (c + 1) = 2 ^ c := by
    apply Nat.eq_of_testBit_eq
    intro j
    rw [Nat.testBit_mod_two_pow, Nat.testBit_two_pow]
    by_cases hj : j < c
    · have : c ≠ j := by omega
      simp [hlow j hj, this]
    · by_cases hjc : j = c
      · subst hjc; simp [hc]
      · have h1 : ¬ j < c + 1 := by omega
        have h2 : c ≠ j := by omega
        simp [h1, h2]
  have hw : w = 2 ^ (c + 1) * (w / 2 ^ (c + 1)) + 2 ^ c := by
    have := Nat.div_add_mod w (2 ^ (c + 1)); omega
  generalize w / 2 ^ (c + 1) = h at hw
  subst hw
  have hpos := Nat.two_pow_pos c
  have hlt : 2 ^ c < 2 ^ (c + 1) := Nat.pow_lt_pow_right (by omega) (by omega)
  have hw1 : 2 ^ (c + 1) * h + 2 ^ c - 1 = 2 ^ (c + 1) * h + (2 ^ c - 1) := by omega
  rw [Nat.testBit_and, hw1, Nat.testBit_two_pow_mul_add _ hlt, Nat.testBit_two_pow_mul_add _ (by omega : 2 ^ c - 1 < 2 ^ (c + 1))]
  by_cases hi : i < c + 1
  · simp only [hi, if_true, Nat.testBit_two_pow, Nat.testBit_two_pow_sub_one]
    by_cases e : c = i
    · subst e; simp
    · have : ¬ i = c := by omega
      simp [e]
  · have : i ≠ c := by omega
    simp [hi, this]

theorem scanWord_eq (ma N : Nat) (hN : N ≤ 64) : ∀ fuel word k, (∀ i, i < k → word.testBit i = false) →
    word < 2 ^ N → N ≤ fuel + k →
    scanWord ma fuel word = ((List.range' k (N - k)).filter (fun i => word.testBit i)).map (fun i => (ma, i)) := by
  intro fuel
  induction fuel with
  | zero =>
    intro word k _ _ hf
    have : N - k = 0 := by omega
    simp [scanWord, this]
  | succ f ih =>
    intro word k hlow hlt hf
    simp only [scanWord]
    by_cases h0 : word = 0
    · subst h0; simp
    · simp only [h0, if_false]
      have hlt64 : word < 2 ^ 64 := Nat.lt_of_lt_of_le hlt (Nat.pow_le_pow_right (by omega) hN)
      obtain ⟨hc, hb⟩ := ctz_spec word h0 hlt64
      generalize ctz word = c at hc hb ⊢
      have hck : k ≤ c := by
        apply Nat.le_of_not_lt; intro h; have := hlow c h; rw [this] at hc; cases hc
      have hcN : c < N := by
        apply Nat.lt_of_not_le; intro h
        have := Nat.testBit_lt_two_pow (Nat.lt_of_lt_of_le hlt (Nat.pow_le_pow_right (by omega) h))
        rw [this] at hc; cases hc
      have hclr := testBit_clear_lowest word c hc hb
      have hlow' : ∀ i, i < c + 1 → (word &&& (word - 1)).testBit i = false := by
        intro i hi; rw [hclr i]
        by_cases e : i = c
        · simp [e]
        · simp [hb i (by omega)]
      rw [ih (word &&& (word - 1)) (c + 1) hlow' (Nat.lt_of_le_of_lt Nat.and_le_left hlt) (by omega)]
      have esplit : List.range' k (N - k) = List.range' k (c - k) ++ (c :: List.range' (c + 1) (N - (c + 1))) := by
        have e1 : N - k = (c - k) + ((N - (c + 1)) + 1) := by omega
        rw [e1, ← List.range'_append_1, List.range'_succ]
        have : k + (c - k) = c := by omega
        rw [this]
      rw [esplit, List.filter_append, List.filter_cons]
      have e1 : (List.range' k (c - k)).filter (fun i => word.testBit i) = [] := by
        apply List.filter_eq_nil_iff.2
        intro i hi
        have := List.mem_range'_1.1 hi
        simp [hb i (by omega)]
      have e2 : (List.range' (c + 1) (N - (c + 1))).filter (fun i => (word &&& (word - 1)).testBit i) =
          (List.range' (c + 1) (N - (c + 1))).filter (fun i => word.testBit i) := by
        apply List.filter_congr
        intro i hi
        have := List.mem_range'_1.1 hi
        rw [hclr i]
        have : i ≠ c := by omega
        simp [this]
      rw [e1, e2, hc]; simp

theorem scanWord_byte_ok (m : Mem) (hm : ByteMem m) (a : Nat) : ScanOk m (8 * a) (8 * a + 8) (scanWord a 8 (m a)) := by
  rw [scanWord_eq a 8 (by omega) 8 (m a) 0 (fun i hi => by omega) (hm a) (by omega)]
  have := scanOk_of_bits m a 0 8 (fun i => (m a).testBit i) (by omega) (by omega)
    (fun i hi => by rw [Nat.add_zero, bitAt_mk m a i hi])
  simpa using this

theorem pow256_8 : (256 : Nat) ^ 8 = 2 ^ 64 := by decide

theorem scanWord_word_ok (m : Mem) (hm : ByteMem m) (a : Nat) :
    ScanOk m (8 * a) (8 * a + 64) (scanWord a 64 (readLE m a 8)) := by
  have hlt : readLE m a 8 < 2 ^ 64 := by rw [← pow256_8]; exact HeaderMeta.readLE_lt m hm a 8
  rw [scanWord_eq a 64 (by omega) 64 _ 0 (fun i hi => by omega) hlt (by omega)]
  have := scanOk_of_bits m a 0 64 (fun i => (readLE m a 8).testBit i) (by omega) (by omega)
    (fun i hi => by
      rw [testBit_readLE m hm, Nat.add_zero]
      have h1 : (8 * a + i) / 8 = a + i / 8 := by omega
      have h2 : (8 * a + i) % 8 = i % 8 := by omega
      have h3 : i < 8 * 8 := by omega
      unfold bitAt
      rw [h1, h2]; simp [h3])
  simpa using this


theorem scanHead_ok (m : Mem) (hm : ByteMem m) (E : Nat) : ∀ fuel cursor, cursor ≤ E →
    cursor ≤ (scanHead m E fuel cursor).2 ∧ (scanHead m E fuel cursor).2 ≤ E ∧
    ScanOk m (8 * cursor) (8 * (scanHead m E fuel cursor).2) (scanHead m E fuel cursor).1 := by
  intro fuel
  induction fuel with
  | zero => intro c hc; simp only [scanHead]; exact ⟨Nat.le_refl _, hc, scanOk_nil m _⟩
  | succ f ih =>
    intro c hc
    simp only [scanHead]
    by_cases h : c < E ∧ c % 8 ≠ 0
    · rw [if_pos h]
      obtain ⟨h1, h2, h3⟩ := ih (c + 1) (by omega)
      rcases hp : scanHead m E f (c + 1) with ⟨l, c'⟩
      rw [hp] at h1 h2 h3
      simp only at h1 h2 h3 ⊢
      refine ⟨by omega, h2, ?_⟩
      have hb := scanWord_byte_ok m hm c
      have e : 8 * c + 8 = 8 * (c + 1) := by omega
      rw [e] at hb
      exact scanOk_append m (by omega) (by omega) hb h3
    · rw [if_neg h]
      exact ⟨Nat.le_refl _, hc, scanOk_nil m _⟩

theorem scanWords_ok (m : Mem) (hm : ByteMem m) (E : Nat) : ∀ fuel cursor, cursor ≤ E → E - cursor < fuel * 8 + 8 →
    cursor ≤ (scanWords m E fuel cursor).2 ∧ (scanWords m E fuel cursor).2 ≤ E ∧
    E ≤ (scanWords m E fuel cursor).2 + 8 ∧
    ScanOk m (8 * cursor) (8 * (scanWords m E fuel cursor).2) (scanWords m E fuel cursor).1 := by
  intro fuel
  induction fuel with
  | zero => intro c hc hf; simp only [scanWords]; exact ⟨Nat.le_refl _, hc, by omega, scanOk_nil m _⟩
  | succ f ih =>
    intro c hc hf
    simp only [scanWords]
    by_cases h : c + 8 < E
    · rw [if_pos h]
      obtain ⟨h1, h2, h3, h4⟩ := ih (c + 8) (by omega) (by omega)
      rcases hp : scanWords m E f (c + 8) with ⟨l, c'⟩
      rw [hp] at h1 h2 h3 h4
      simp only at h1 h2 h3 h4 ⊢
      refine ⟨by omega, h2, h3, ?_⟩
      have hb := scanWord_word_ok m hm c
      have e : 8 * c + 64 = 8 * (c + 8) := by omega
      rw [e] at hb
      exact scanOk_append m (by omega) (by omega) hb h4
    · rw [if_neg h]
      exact ⟨Nat.le_refl _, hc, by omega, scanOk_nil m _⟩

theorem scanTail_ok (m : Mem) (hm : ByteMem m) (E : Nat) : ∀ fuel cursor, cursor ≤ E → E - cursor ≤ fuel →
    ScanOk m (8 * cursor) (8 * E) (scanTail m E fuel cursor) := by
  intro fuel
  induction fuel with
  | zero =>
    intro c hc hf
    have : c = E := by omega
    subst this
    simp only [scanTail]; exact scanOk_nil m _
  | succ f ih =>
    intro c hc hf
    simp only [scanTail]
    by_cases h : c < E
    · rw [if_pos h]
      have hb := scanWord_byte_ok m hm c
      have e : 8 * c + 8 = 8 * (c + 1) := by omega
      rw [e] at hb
      exact scanOk_append m (by omega) (by omega) hb (ih (c + 1) (by omega) (by omega))
    · rw [if_neg h]
      have : c = E := by omega
      subst this
      exact scanOk_nil m _

/-- **`scan_non_zero_bits_in_metadata_bytes`** reports exactly the set bits of `[8·start, 8·end)`, ascending. -/
theorem scanBytes_ok (m : Mem) (hm : ByteMem m) (S E : Nat) (h : S ≤ E) : ScanOk m (8 * S) (8 * E) (scanBytes m S E) := by
  obtain ⟨a1, a2, a3⟩ := scanHead_ok m hm E 8 S h
  obtain ⟨b1, b2, b3, b4⟩ := scanWords_ok m hm E ((E - S) / 8 + 1) (scanHead m E 8 S).2 a2 (by omega)
  have c := scanTail_ok m hm E 9 (scanWords m E ((E - S) / 8 + 1) (scanHead m E 8 S).2).2 b2 (by omega)
  have e : scanBytes m S E = (scanHead m E 8 S).1 ++ (scanWords m E ((E - S) / 8 + 1) (scanHead m E 8 S).2).1 ++
      scanTail m E 9 (scanWords m E ((E - S) / 8 + 1) (scanHead m E 8 S).2).2 := rfl
  rw [e]
  exact scanOk_append m (by omega) (by omega) (scanOk_append m (by omega) (by omega) a3 b4) c

theorem and_two_pow_ne_zero (x k : Nat) : decide (x &&& 2 ^ k ≠ 0) = x.testBit k := by
  by_cases h : x.testBit k = true
  · have : (x &&& 2 ^ k).testBit k = true := by rw [Nat.testBit_and, Nat.testBit_two_pow, h]; simp
    have hne : x &&& 2 ^ k ≠ 0 := by intro c; rw [c] at this; simp at this
    simp [h, hne]
  · have hz : x &&& 2 ^ k = 0 := by
      apply Nat.eq_of_testBit_eq
      intro j
      rw [Nat.testBit_and, Nat.testBit_two_pow, Nat.zero_testBit]
      by_cases e : k = j
      · subst e; simp [h]
      · simp [e]
    simp [h, hz]

/-- **`scan_non_zero_bits_in_metadata_bits`** reports exactly the set bits of `[bs, be)` of its byte, ascending. -/
theorem scanBits_ok (m : Mem) (_hm : ByteMem m) (a bs be : Nat) (h1 : bs < be) (h2 : be ≤ 8) :
    ScanOk m (8 * a + bs) (8 * a + be) (scanBits m a bs be) := by
  unfold scanBits
  have e0 : (List.range (be - bs)).map (· + bs) = (List.range' 0 (be - bs)).map (fun i => bs + i) := by
    rw [List.range_eq_range']
    apply List.map_congr_left; intro i _; omega
  rw [e0, List.filterMap_map]
  have e1 : ((fun bit => if (m a &&& ((1 <<< bit) % 256)) ≠ 0 then some (a, bit) else none) ∘ fun i => bs + i) =
      fun i => if (m a &&& ((1 <<< (bs + i)) % 256)) ≠ 0 then some ((fun i => (a, bs + i)) i) else none := rfl
  rw [e1, filterMap_ite (fun i => (m a &&& ((1 <<< (bs + i)) % 256)) ≠ 0) (fun i => (a, bs + i))]
  have := scanOk_of_bits m a bs (be - bs) (fun i => decide ((m a &&& ((1 <<< (bs + i)) % 256)) ≠ 0)) (by omega) (by omega)
    (fun i hi => by
      have hlt : bs + i < 8 := by omega
      have e : 8 * a + bs + i = 8 * a + (bs + i) := by omega
      rw [e, bitAt_mk m a _ hlt, Nat.one_shiftLeft,
        Nat.mod_eq_of_lt (Nat.lt_of_lt_of_le (Nat.pow_lt_pow_right (by omega) hlt) (by decide : 2 ^ 8 ≤ 256)),
        and_two_pow_ne_zero])
  have e2 : 8 * a + bs + (be - bs) = 8 * a + be := by omega
  rw [e2] at this
  exact this

theorem scanRange_ok (m : Mem) (hm : ByteMem m) (r : BBR) (hw : r.wf) : ScanOk m r.lo r.hi (scanRange m r) := by
  cases r with
  | bytes s e => exact scanBytes_ok m hm s e (Nat.le_of_lt hw)
  | bits a bs be => exact scanBits_ok m hm a bs be hw.1 hw.2


/-! ## the fast scan -/

theorem scanFast_eq_flat (s : Spec) (m : Mem) (a b : Nat) :
    scanFast s m a b = ((breakBitRange (metaAddr s a) (lshift s a) (metaAddr s b) (lshift s b) true).flatMap
      (scanRange m)).map (fun ab => metaToData s ab.1 ab.2) := by
  unfold scanFast
  rw [List.map_flatMap]
  congr 1

/-- **the fast scan computes the specification** — for *any* `start ≤ end` (the regions visited are
`⌊start/R⌋ … ⌊end/R⌋ − 1`; they are the regions of `[start, end)` when both are region-aligned). -/
theorem scanFast_eq_scanSpec (s : Spec) (hs : s.ok) (h0 : s.logBits = 0) (m : Mem) (hm : ByteMem m)
    (dStart dEnd : Nat) (hle : dStart ≤ dEnd) (h64 : dEnd < 2 ^ 64) :
    scanFast s m dStart dEnd = scanSpec s m dStart dEnd := by
  have hR := Nat.two_pow_pos s.logRegion
  obtain ⟨e1, e2, b1, b2, ho⟩ := bulk_interval s hs dStart (dEnd - dStart) (by omega)
  have eE : dStart + (dEnd - dStart) = dEnd := by omega
  rw [eE] at e2 b2 ho
  have ht := breakBitRange_partition _ _ _ _ b1 b2 ho
  rw [e1, e2] at ht
  obtain ⟨k1, k2⟩ := scanOk_tiles m (scanRange_ok m hm) ht
  simp only [Nat.shiftRight_eq_div_pow] at k1 k2
  have hq : dStart / 2 ^ s.logRegion ≤ dEnd / 2 ^ s.logRegion := Nat.div_le_div_right hle
  have hq1 : dEnd / 2 ^ s.logRegion * 2 ^ s.logRegion ≤ dEnd := Nat.div_mul_le_self ..
  rw [scanFast_eq_flat]
  unfold scanSpec
  generalize dStart / 2 ^ s.logRegion = q0 at k1 k2 hq ⊢
  generalize dEnd / 2 ^ s.logRegion = q1 at k1 k2 hq hq1 ⊢
  generalize (breakBitRange (metaAddr s dStart) (lshift s dStart) (metaAddr s dEnd) (lshift s dEnd) true).flatMap (scanRange m) = l at k1 k2
  have hfb : ∀ r, fieldBase s r = 8 * s.start + r := by intro r; unfold fieldBase; rw [h0]; simp
  have step : l.map (fun ab => metaToData s ab.1 ab.2) = (l.map pos).map (fun p => (p - 8 * s.start) * 2 ^ s.logRegion) := by
    rw [List.map_map]
    apply List.map_congr_left
    intro ab hab
    have hp : pos ab ∈ bitsIn m (fieldBase s q0) (fieldBase s q1) := by
      rw [← k1]; exact List.mem_map_of_mem hab
    obtain ⟨p1, p2, _⟩ := (mem_bitsIn m _ _ _).1 hp
    obtain ⟨p3, _⟩ := k2 ab hab
    rw [hfb] at p1 p2 p3
    unfold pos at p1 p2
    have hst : s.start ≤ ab.1 := by omega
    have hlt : (ab.1 - s.start) * 8 + ab.2 < q1 := by omega
    have := Nat.mul_lt_mul_of_pos_right hlt hR
    rw [metaToData_bit s h0 ab.1 ab.2 (Nat.lt_of_lt_of_le this (by omega))]
    simp only [Function.comp, pos]
    congr 1
    omega
  rw [step, k1, bits_to_regions s hs h0 m hm _ _ hq (by omega)]

/-- membership in the specification list (region-aligned bounds). -/
theorem mem_scanSpec (s : Spec) (m : Mem) (dStart dEnd : Nat)
    (h1 : dStart % 2 ^ s.logRegion = 0) (h2 : dEnd % 2 ^ s.logRegion = 0) (x : Nat) :
    x ∈ scanSpec s m dStart dEnd ↔ (dStart ≤ x ∧ x < dEnd ∧ x % 2 ^ s.logRegion = 0 ∧ load s m x ≠ 0) := by
  have hR := Nat.two_pow_pos s.logRegion
  obtain ⟨q0, rfl⟩ : ∃ q0, dStart = q0 * 2 ^ s.logRegion := ⟨_, (aligned_eq dStart s.logRegion h1).symm⟩
  obtain ⟨q1, rfl⟩ : ∃ q1, dEnd = q1 * 2 ^ s.logRegion := ⟨_, (aligned_eq dEnd s.logRegion h2).symm⟩
  unfold scanSpec
  rw [Nat.mul_div_cancel _ hR, Nat.mul_div_cancel _ hR]
  simp only [List.mem_filter, List.mem_map, List.mem_range'_1, decide_eq_true_eq]
  constructor
  · rintro ⟨⟨r, ⟨a, b⟩, rfl⟩, c⟩
    exact ⟨Nat.mul_le_mul_right _ a, Nat.mul_lt_mul_of_pos_right (by omega) hR, Nat.mul_mod_left .., c⟩
  · rintro ⟨a, b, c, d⟩
    obtain ⟨r, rfl⟩ : ∃ r, x = r * 2 ^ s.logRegion := ⟨_, (aligned_eq x s.logRegion c).symm⟩
    have a' := Nat.le_of_mul_le_mul_right a hR
    have b' := Nat.lt_of_mul_lt_mul_right b
    exact ⟨⟨r, ⟨a', by omega⟩, rfl⟩, d⟩

theorem scanSpec_sorted (s : Spec) (m : Mem) (dStart dEnd : Nat) : (scanSpec s m dStart dEnd).Pairwise (· < ·) := by
  have hR := Nat.two_pow_pos s.logRegion
  unfold scanSpec
  apply List.Pairwise.filter
  rw [List.pairwise_map]
  exact (List.pairwise_lt_range' (s := _) (n := _)).imp (fun h => Nat.mul_lt_mul_of_pos_right h hR)

/-- **C22 (scan, fast = naive)**: for a 1-bit spec and region-aligned `start ≤ end` the word-at-a-time
scan returns exactly what the region-by-region scan returns (whose `debug_assert!` needs the visited
region starts mapped in a debug build). -/
theorem scan_fast_eq_naive (debug : Bool) (env : MapEnv) (s : Spec) (hs : s.ok) (h0 : s.logBits = 0)
    (m : Mem) (hm : ByteMem m) (dStart dEnd : Nat)
    (h1 : dStart % 2 ^ s.logRegion = 0) (h2 : dEnd % 2 ^ s.logRegion = 0) (hle : dStart ≤ dEnd) (h64 : dEnd < 2 ^ 64)
    (hmap : debug = true → ∀ x, dStart ≤ x → x < dEnd → x % 2 ^ s.logRegion = 0 → env.mapped x = true) :
    scanSimple debug env s m dStart dEnd = some (scanFast s m dStart dEnd) := by
  rw [scanFast_eq_scanSpec s hs h0 m hm dStart dEnd hle h64]
  exact scanSimple_eq_spec debug env s m dStart dEnd h1 h2 hle hmap

/-- **C22 (scan, specification)**: the fast scan visits exactly the region starts of `[start, end)`
whose field is non-zero, in strictly ascending order (hence once each). -/
theorem scan_spec (s : Spec) (hs : s.ok) (h0 : s.logBits = 0) (m : Mem) (hm : ByteMem m) (dStart dEnd : Nat)
    (h1 : dStart % 2 ^ s.logRegion = 0) (h2 : dEnd % 2 ^ s.logRegion = 0) (hle : dStart ≤ dEnd) (h64 : dEnd < 2 ^ 64) :
    (∀ x, x ∈ scanFast s m dStart dEnd ↔ (dStart ≤ x ∧ x < dEnd ∧ x % 2 ^ s.logRegion = 0 ∧ load s m x ≠ 0)) ∧
    (scanFast s m dStart dEnd).Pairwise (· < ·) := by
  rw [scanFast_eq_scanSpec s hs h0 m hm dStart dEnd hle h64]
  exact ⟨mem_scanSpec s m dStart dEnd h1 h2, scanSpec_sorted s m dStart dEnd⟩

/-- **C22 (public `scan_non_zero_values`, every field width)**: the result is the specification list. -/
theorem scan_public_spec (debug : Bool) (env : MapEnv) (s : Spec) (hs : s.ok) (m : Mem) (hm : ByteMem m) (dStart dEnd : Nat)
    (h1 : dStart % 2 ^ s.logRegion = 0) (h2 : dEnd % 2 ^ s.logRegion = 0) (hle : dStart ≤ dEnd) (h64 : dEnd < 2 ^ 64)
    (hmap : debug = true → ∀ x, dStart ≤ x → x < dEnd → x % 2 ^ s.logRegion = 0 → env.mapped x = true) :
    scan debug env s m dStart dEnd = some (scanSpec s m dStart dEnd) ∧
    (∀ x, x ∈ scanSpec s m dStart dEnd ↔ (dStart ≤ x ∧ x < dEnd ∧ x % 2 ^ s.logRegion = 0 ∧ load s m x ≠ 0)) ∧
    (scanSpec s m dStart dEnd).Pairwise (· < ·) := by
  refine ⟨?_, mem_scanSpec s m dStart dEnd h1 h2, scanSpec_sorted s m dStart dEnd⟩
  unfold scan
  by_cases h0 : s.logBits = 0
  · rw [if_pos h0, scanFast_eq_scanSpec s hs h0 m hm dStart dEnd hle h64]
  · rw [if_neg h0]; exact scanSimple_eq_spec debug env s m dStart dEnd h1 h2 hle hmap

/-- the hypotheses are satisfiable by a non-trivial state: 8-byte regions, bits of regions 8, 9, 17 set. -/
example : let s : Spec := { start := 1000, logBits := 0, logRegion := 3 }
    let m : Mem := fun x => if x = 1001 then 3 else if x = 1002 then 2 else 0
    s.ok ∧ s.logBits = 0 ∧ (64 % 2 ^ s.logRegion = 0) ∧ (160 % 2 ^ s.logRegion = 0) ∧
    scanFast s m 64 160 = [64, 72, 136] ∧ scanSpec s m 64 160 = [64, 72, 136] := by decide

end Mmtk.SideMeta
