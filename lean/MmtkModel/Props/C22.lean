import MmtkModel.Model.SideMetaSearch
import MmtkModel.Props.C21
/-!
# C22 — Side-metadata search and scan agree with a naive scan

Status: **partial**.  Proved here: the bit-selection lemmas of the inner loops (`ctz_spec`,
`hiBit_spec`, `rangeMask` and `findFirstBit_spec` / `findLastBit_spec`), the exact
characterisation of the one case in which the real fast and naive backward searches disagree on
inputs in the property's scope (`findPrev_own_region_defect`, with a `decide` witness), the agreement
of the quick-check case otherwise (`findPrev_own_region_partial`, `findNext_own_region_partial`),
and the `decide`-checked counter-models outside the property's scope (no `MapConsistent`; region-
unaligned scan end).  The top-level equivalences are stated below in comments; they are tied to
the code by the exact differential of all three variants (fast / naive / public with the debug
build's own `assert_eq!(fast, naive)`) and the independent naive-scan oracle of `checks/C22.py`.

Full statements (not proved here):

* `findPrev_fast_eq_simple` : `s.ok → s.logRegion ≤ log2 gran → ByteMem m → MapConsistent env s m I →
  alignDown a R ≥ a - limit + 1 ∨ load s m a = 0 → findPrevFastOld env s m a limit = findPrevSimple env s m a limit`
  where `I` = regions `⌊(a-limit+1)/R⌋ … ⌊a/R⌋`, `MapConsistent` = (data mapped → metadata mapped) ∧
  (data unmapped at `r` → every readable field at or below `r` in `I` is zero).
* `findNext_fast_eq_simple` : same with `I` = regions `⌊a/R⌋ … ⌈(a+limit)/R⌉-1`, no side condition.
* `findPrev_spec` : the result is the greatest region start `x` with `a - limit < x ≤ ⌊a⌋`, field ≠ 0 and
  no unmapped data region in `(x, a]`.
* `scan_fast_eq_naive`, `scan_spec` : for region-aligned `start ≤ end` and a 1-bit spec,
  `scanFast s m start end = (regions of [start,end) with a non-zero field, ascending, once each)`
  `= scanSimple … start end`.
-/
namespace Mmtk.SideMeta
open Mmtk.Mem
open Mmtk.HeaderMeta (ByteMem)

/-! ## bit selection in the inner loops -/

theorem ctzF_spec (f n : Nat) (h0 : n ≠ 0) (hlt : n < 2 ^ f) :
    n.testBit (ctzF f n) = true ∧ ∀ i, i < ctzF f n → n.testBit i = false := by
  induction f generalizing n with
  | zero => simp at hlt; omega
  | succ f ih =>
    unfold ctzF
    by_cases h : n % 2 = 1
    · simp only [h, if_true]
      exact ⟨by simp [Nat.testBit_zero, h], fun i hi => by omega⟩
    · simp only [h, if_false]
      have hn2 : n / 2 ≠ 0 := by omega
      have hl2 : n / 2 < 2 ^ f := by rw [Nat.pow_succ] at hlt; omega
      obtain ⟨a, b⟩ := ih (n / 2) hn2 hl2
      refine ⟨?_, ?_⟩
      · rw [Nat.add_comm, Nat.testBit_succ]; exact a
      · intro i hi
        cases i with
        | zero => simp [Nat.testBit_zero]; omega
        | succ j => rw [Nat.testBit_succ]; exact b j (by omega)

/-- **`trailing_zeros`**: the selected bit is set and is the lowest set bit. -/
theorem ctz_spec (n : Nat) (h0 : n ≠ 0) (hlt : n < 2 ^ 64) :
    n.testBit (ctz n) = true ∧ ∀ i, i < ctz n → n.testBit i = false := ctzF_spec 64 n h0 hlt

theorem log2F_spec (f n : Nat) (h0 : n ≠ 0) (hlt : n < 2 ^ f) :
    n.testBit (log2F f n) = true ∧ ∀ i, log2F f n < i → n.testBit i = false := by
  induction f generalizing n with
  | zero => simp at hlt; omega
  | succ f ih =>
    unfold log2F
    by_cases h : n < 2
    · have : n = 1 := by omega
      subst this
      simp only [h, if_true]
      refine ⟨by decide, fun i hi => ?_⟩
      exact Nat.testBit_lt_two_pow (Nat.lt_of_lt_of_le (by decide : 1 < 2 ^ 1) (Nat.pow_le_pow_right (by omega) hi))
    · simp only [h, if_false]
      have hn2 : n / 2 ≠ 0 := by omega
      have hl2 : n / 2 < 2 ^ f := by rw [Nat.pow_succ] at hlt; omega
      obtain ⟨a, b⟩ := ih (n / 2) hn2 hl2
      refine ⟨?_, ?_⟩
      · rw [Nat.add_comm, Nat.testBit_succ]; exact a
      · intro i hi
        cases i with
        | zero => omega
        | succ j => rw [Nat.testBit_succ]; exact b j (by omega)

/-- **`bits − leading_zeros − 1`**: the selected bit is set and is the highest set bit. -/
theorem hiBit_spec (n : Nat) (h0 : n ≠ 0) (hlt : n < 2 ^ 64) :
    n.testBit (hiBit n) = true ∧ ∀ i, hiBit n < i → n.testBit i = false := log2F_spec 64 n h0 hlt

/-- the mask of `find_*_non_zero_bit::<T>(_, start, end)` selects exactly the bits `start ≤ i < end`. -/
theorem testBit_rangeMask (tb st en i : Nat) (h1 : st ≤ en) (h2 : en ≤ tb) :
    (rangeMask tb st en).testBit i = (decide (st ≤ i) && decide (i < en)) := by
  unfold rangeMask
  by_cases h : en - st < tb
  · simp only [h, if_true]
    rw [Nat.testBit_mod_two_pow, Nat.testBit_shiftLeft, Nat.testBit_two_pow_sub_one]
    by_cases a : st ≤ i <;> by_cases b : i < en <;> simp [a, b] <;> omega
  · simp only [h, if_false]
    have e1 : st = 0 := by omega
    have e2 : en = tb := by omega
    subst e1; subst e2
    rw [Nat.testBit_mod_two_pow, Nat.testBit_shiftLeft, Nat.testBit_two_pow_sub_one]
    by_cases b : i < en <;> simp [b]

theorem masked_lt (tb v st en : Nat) (htb : tb ≤ 64) : v &&& rangeMask tb st en < 2 ^ 64 := by
  apply Nat.lt_of_le_of_lt Nat.and_le_right
  have : rangeMask tb st en < 2 ^ tb := by
    unfold rangeMask; split <;> exact Nat.mod_lt _ (Nat.two_pow_pos _)
  exact Nat.lt_of_lt_of_le this (Nat.pow_le_pow_right (by omega) htb)

/-- **`find_first_non_zero_bit`** returns the lowest set bit of `value` inside `[start, end)`, or
`None` iff there is none. -/
theorem findFirstBit_spec (tb v st en : Nat) (h1 : st ≤ en) (h2 : en ≤ tb) (htb : tb ≤ 64) :
    match findFirstBit tb v st en with
    | some b => st ≤ b ∧ b < en ∧ v.testBit b = true ∧ ∀ i, st ≤ i → i < b → v.testBit i = false
    | none => ∀ i, st ≤ i → i < en → v.testBit i = false := by
  unfold findFirstBit
  by_cases h0 : v &&& rangeMask tb st en = 0
  · simp only [h0, if_true]
    intro i hi1 hi2
    have : (v &&& rangeMask tb st en).testBit i = false := by rw [h0]; simp
    rw [Nat.testBit_and, testBit_rangeMask tb st en i h1 h2] at this
    simpa [hi1, hi2] using this
  · simp only [h0, if_false]
    obtain ⟨a, b⟩ := ctz_spec _ h0 (masked_lt tb v st en htb)
    rw [Nat.testBit_and, testBit_rangeMask tb st en _ h1 h2] at a
    simp only [Bool.and_eq_true, decide_eq_true_eq] at a
    refine ⟨a.2.1, a.2.2, a.1, fun i hi1 hi2 => ?_⟩
    have := b i hi2
    rw [Nat.testBit_and, testBit_rangeMask tb st en i h1 h2] at this
    have hi3 : i < en := by omega
    simpa [hi1, hi3] using this

/-- **`find_last_non_zero_bit`** returns the highest set bit of `value` inside `[start, end)`, or
`None` iff there is none. -/
theorem findLastBit_spec (tb v st en : Nat) (h1 : st ≤ en) (h2 : en ≤ tb) (htb : tb ≤ 64) :
    match findLastBit tb v st en with
    | some b => st ≤ b ∧ b < en ∧ v.testBit b = true ∧ ∀ i, b < i → i < en → v.testBit i = false
    | none => ∀ i, st ≤ i → i < en → v.testBit i = false := by
  unfold findLastBit
  by_cases h0 : v &&& rangeMask tb st en = 0
  · simp only [h0, if_true]
    intro i hi1 hi2
    have : (v &&& rangeMask tb st en).testBit i = false := by rw [h0]; simp
    rw [Nat.testBit_and, testBit_rangeMask tb st en i h1 h2] at this
    simpa [hi1, hi2] using this
  · simp only [h0, if_false]
    obtain ⟨a, b⟩ := hiBit_spec _ h0 (masked_lt tb v st en htb)
    rw [Nat.testBit_and, testBit_rangeMask tb st en _ h1 h2] at a
    simp only [Bool.and_eq_true, decide_eq_true_eq] at a
    refine ⟨a.2.1, a.2.2, a.1, fun i hi1 hi2 => ?_⟩
    have := b i hi1
    rw [Nat.testBit_and, testBit_rangeMask tb st en i h1 h2] at this
    have hi3 : st ≤ i := by omega
    simpa [hi2, hi3] using this

/-! ## the quick-check case of the backward search: where the real fast and naive versions part -/

/-- **Defect of the pinned code, characterised exactly.**  If the origin's own region holds a non-zero
field but its start lies below `data_addr - limit + 1` (i.e. `limit ≤ data_addr mod region`), the fast
version's quick check returns that region start *without applying the limit*, while the naive version
never visits it: `find_prev_non_zero_value` trips its own `assert_eq!(fast, naive)` in debug builds and
returns an address outside the requested range in release builds. -/
theorem findPrev_own_region_defect (env : MapEnv) (s : Spec) (m : Mem) (a limit : Nat)
    (hmap : env.mapped a = true) (hload : load s m a ≠ 0)
    (hlim : limit ≤ a % 2 ^ s.logRegion) :
    findPrevFastOld env s m a limit = some (alignDown a (2 ^ s.logRegion)) ∧
    findPrevSimple env s m a limit = none := by
  have hfast : findPrevFastOld env s m a limit = some (alignDown a (2 ^ s.logRegion)) := by
    unfold findPrevFastOld; simp [hmap, hload]
  have hmod : a % 2 ^ s.logRegion ≤ a := Nat.mod_le _ _
  have hsimple : findPrevSimple env s m a limit = none := by
    unfold findPrevSimple
    simp only
    show findPrevSimpleLoop env s m (a - limit + 1) (limit / 2 ^ s.logRegion + 1 + 1) (alignDown a (2 ^ s.logRegion)) (2 ^ 64 - 1) = none
    unfold findPrevSimpleLoop
    have : ¬ (alignDown a (2 ^ s.logRegion) ≥ a - limit + 1) := by unfold alignDown; omega
    simp only [this, not_false_eq_true, if_true]
  exact ⟨hfast, hsimple⟩

/-- the concrete failing input: 1 bit per 8-byte region, bit of region 1 set,
`find_prev_non_zero_value(data_addr = 15, limit = 7)`. -/
theorem findPrev_own_region_defect_witness :
    let env : MapEnv := { mapped := fun _ => true, gran := 64 }
    let s : Spec := { start := 1000, logBits := 0, logRegion := 3 }
    let m : Mem := fun x => if x = 1000 then 2 else 0
    findPrevFastOld env s m 15 7 = some 8 ∧ findPrevSimple env s m 15 7 = none ∧
    findPrevFast env s m 15 7 = none := by
  decide

/-- **The true part (quick-check case)**: when the own region's start is inside the limit, both
versions return it. -/
theorem findPrev_own_region_partial (env : MapEnv) (s : Spec) (hs : s.ok) (m : Mem) (a limit : Nat) (ha1 : a + 1 < 2 ^ 64)
    (hmap : env.mapped a = true) (hmap' : env.mapped (alignDown a (2 ^ s.logRegion)) = true)
    (hload : load s m a ≠ 0) (hlim : a % 2 ^ s.logRegion < limit) (hle : limit ≤ a) :
    findPrevFastOld env s m a limit = some (alignDown a (2 ^ s.logRegion)) ∧
    findPrevSimple env s m a limit = some (alignDown a (2 ^ s.logRegion)) := by
  have ha : a < 2 ^ 64 := by omega
  have hfast : findPrevFastOld env s m a limit = some (alignDown a (2 ^ s.logRegion)) := by
    unfold findPrevFastOld; simp [hmap, hload]
  refine ⟨hfast, ?_⟩
  have hmod : a % 2 ^ s.logRegion ≤ a := Nat.mod_le _ _
  have hreg : (alignDown a (2 ^ s.logRegion)) >>> s.logRegion = a >>> s.logRegion := by
    unfold alignDown
    rw [Nat.shiftRight_eq_div_pow, Nat.shiftRight_eq_div_pow]
    have hp := Nat.two_pow_pos s.logRegion
    have e : a - a % 2 ^ s.logRegion = 2 ^ s.logRegion * (a / 2 ^ s.logRegion) := by
      have := Nat.div_add_mod a (2 ^ s.logRegion); omega
    rw [e, Nat.mul_div_cancel_left _ hp]
  have hload' : load s m (alignDown a (2 ^ s.logRegion)) ≠ 0 := by
    have hlt : alignDown a (2 ^ s.logRegion) < 2 ^ 64 := by unfold alignDown; omega
    rw [load_eq_absArr s hs m _ hlt, hreg, ← load_eq_absArr s hs m a ha]; exact hload
  unfold findPrevSimple
  simp only
  show findPrevSimpleLoop env s m (a - limit + 1) (limit / 2 ^ s.logRegion + 1 + 1) (alignDown a (2 ^ s.logRegion)) (2 ^ 64 - 1) = _
  unfold findPrevSimpleLoop
  have h1 : alignDown a (2 ^ s.logRegion) ≥ a - limit + 1 := by unfold alignDown; omega
  have h2 : alignDown a (2 ^ s.logRegion) < 2 ^ 64 - 1 := by unfold alignDown; omega
  simp [h1, h2, hmap', hload']

/-- **After the `fix:` commit** the quick check applies the limit: in the case that used to differ,
the repaired fast version and the naive version agree (both find nothing) … -/
theorem findPrev_own_region_fixed_below (env : MapEnv) (s : Spec) (m : Mem) (a limit : Nat)
    (hmap : env.mapped a = true) (hload : load s m a ≠ 0) (hlim : limit ≤ a % 2 ^ s.logRegion) :
    findPrevFast env s m a limit = none ∧ findPrevSimple env s m a limit = none := by
  refine ⟨?_, (findPrev_own_region_defect env s m a limit hmap hload hlim).2⟩
  have hmod : a % 2 ^ s.logRegion ≤ a := Nat.mod_le _ _
  have : ¬ (alignDown a (2 ^ s.logRegion) ≥ a - limit + 1) := by unfold alignDown; omega
  unfold findPrevFast; simp [hmap, hload, this]

/-- … and in the other case both still return the own region's start. -/
theorem findPrev_own_region_fixed_within (env : MapEnv) (s : Spec) (hs : s.ok) (m : Mem) (a limit : Nat) (ha1 : a + 1 < 2 ^ 64)
    (hmap : env.mapped a = true) (hmap' : env.mapped (alignDown a (2 ^ s.logRegion)) = true)
    (hload : load s m a ≠ 0) (hlim : a % 2 ^ s.logRegion < limit) (hle : limit ≤ a) :
    findPrevFast env s m a limit = some (alignDown a (2 ^ s.logRegion)) ∧
    findPrevSimple env s m a limit = some (alignDown a (2 ^ s.logRegion)) := by
  refine ⟨?_, (findPrev_own_region_partial env s hs m a limit ha1 hmap hmap' hload hlim hle).2⟩
  have hmod : a % 2 ^ s.logRegion ≤ a := Nat.mod_le _ _
  have : alignDown a (2 ^ s.logRegion) ≥ a - limit + 1 := by unfold alignDown; omega
  unfold findPrevFast; simp [hmap, hload, this]

/-- the forward search has no such case: its quick check and the naive walk agree on the own region. -/
theorem findNext_own_region_partial (env : MapEnv) (s : Spec) (hs : s.ok) (m : Mem) (a limit : Nat) (ha : a < 2 ^ 64)
    (hmap : env.mapped a = true) (hmap' : env.mapped (alignDown a (2 ^ s.logRegion)) = true)
    (hload : load s m a ≠ 0) (hlim : 0 < limit) :
    findNextFast env s m a limit = some (alignDown a (2 ^ s.logRegion)) ∧
    findNextSimple env s m a limit = some (alignDown a (2 ^ s.logRegion)) := by
  have hfast : findNextFast env s m a limit = some (alignDown a (2 ^ s.logRegion)) := by
    unfold findNextFast; simp [hmap, hload]
  refine ⟨hfast, ?_⟩
  have hmod : a % 2 ^ s.logRegion ≤ a := Nat.mod_le _ _
  have hreg : (alignDown a (2 ^ s.logRegion)) >>> s.logRegion = a >>> s.logRegion := by
    unfold alignDown
    rw [Nat.shiftRight_eq_div_pow, Nat.shiftRight_eq_div_pow]
    have hp := Nat.two_pow_pos s.logRegion
    have e : a - a % 2 ^ s.logRegion = 2 ^ s.logRegion * (a / 2 ^ s.logRegion) := by
      have := Nat.div_add_mod a (2 ^ s.logRegion); omega
    rw [e, Nat.mul_div_cancel_left _ hp]
  have hload' : load s m (alignDown a (2 ^ s.logRegion)) ≠ 0 := by
    have hlt : alignDown a (2 ^ s.logRegion) < 2 ^ 64 := by unfold alignDown; omega
    rw [load_eq_absArr s hs m _ hlt, hreg, ← load_eq_absArr s hs m a ha]; exact hload
  unfold findNextSimple
  simp only
  show findNextSimpleLoop env s m (a + limit) (limit / 2 ^ s.logRegion + 1 + 1) (alignDown a (2 ^ s.logRegion)) 0 = _
  unfold findNextSimpleLoop
  have h1 : alignDown a (2 ^ s.logRegion) < a + limit := by unfold alignDown; omega
  by_cases h0 : alignDown a (2 ^ s.logRegion) > 0
  · simp [h1, h0, hmap', hload']
  · simp [h1, h0, hload']

/-! ## counter-models outside the property's scope -/

/-- Without `MapConsistent` the two backward searches differ by design (DESIGN §7): data "chunks"
(64 bytes here) `[64,128)` and `[192,256)` mapped, `[128,192)` not, all metadata mapped, the bit of
region 9 (address 72) set; searching back from 200 over 150 bytes the fast version walks the
metadata and finds 72, the naive one stops at the unmapped data chunk. -/
theorem findPrev_fast_ne_simple_without_mapConsistent :
    let env : MapEnv := { mapped := fun x => decide (x ≥ 1000) || decide (64 ≤ x ∧ x < 128) || decide (192 ≤ x ∧ x < 256), gran := 64 }
    let s : Spec := { start := 1000, logBits := 0, logRegion := 3 }
    let m : Mem := fun x => if x = 1001 then 2 else 0
    findPrevFastOld env s m 200 150 = some 72 ∧ findPrevSimple env s m 200 150 = none := by
  decide

/-- A region-unaligned scan end (caller precondition violated): the fast scan stops before the region
cut by `end`, the naive one still visits it. -/
theorem scan_fast_ne_simple_unaligned_end_witness :
    let env : MapEnv := { mapped := fun _ => true, gran := 64 }
    let s : Spec := { start := 1000, logBits := 0, logRegion := 3 }
    let m : Mem := fun x => if x = 1001 then 3 else 0
    scanFast s m 64 76 = [64] ∧ scanSimple true env s m 64 76 = some [64, 72] ∧
    scanFast s m 64 80 = [64, 72] ∧ scanSimple true env s m 64 80 = some [64, 72] := by
  decide

end Mmtk.SideMeta
