import MmtkModel.Props.C18
import MmtkModel.Model.CasByte
import Mathlib.Tactic.SplitIfs
/-!
# C18, different objects of one metadata byte racing at the same time

The byte model `Mmtk.CasByte` (two objects' fields + the remaining bits in one byte, BYTE-wide CAS,
any number of threads per field) projects, for each of the two fields, onto the per-object model
`Mmtk.CasBit`: the neighbour's successful CAS and the environment's writes are environment steps of
the per-object model, every other neighbour step is invisible.  Hence every C18 theorem — and the
executable per-object verdict `outcomeOk` — holds for each object independently while its
neighbours in the same byte race too: a spurious CAS failure caused by a neighbour is exactly the
"environment changed the other bits" case the per-object model already quantifies over.
-/
namespace Mmtk.CasByte

open Mmtk.CasBit (Proto)

/-! ## the concrete pairing is injective -/

theorem pair_inj : ∀ a b c d : Nat, pair a b = pair c d → a = c ∧ b = d := by
  intro a
  induction a with
  | zero =>
    intro b c d h
    cases c with
    | zero => simp only [pair, Nat.pow_zero, Nat.one_mul] at h; exact ⟨rfl, by omega⟩
    | succ c =>
      exfalso
      simp only [pair, Nat.pow_zero, Nat.one_mul, Nat.pow_succ] at h
      have : 2 * b + 1 = 2 * (2 ^ c * (2 * d + 1)) := by
        rw [h, Nat.mul_comm (2 ^ c) 2, Nat.mul_assoc]
      omega
  | succ a ih =>
    intro b c d h
    cases c with
    | zero =>
      exfalso
      simp only [pair, Nat.pow_zero, Nat.one_mul, Nat.pow_succ] at h
      have : 2 * d + 1 = 2 * (2 ^ a * (2 * b + 1)) := by
        rw [← h, Nat.mul_comm (2 ^ a) 2, Nat.mul_assoc]
      omega
    | succ c =>
      have h' : pair a b = pair c d := by
        simp only [pair, Nat.pow_succ] at h ⊢
        have e1 : 2 ^ a * 2 * (2 * b + 1) = 2 * (2 ^ a * (2 * b + 1)) := by
          rw [Nat.mul_comm (2 ^ a) 2, Nat.mul_assoc]
        have e2 : 2 ^ c * 2 * (2 * d + 1) = 2 * (2 ^ c * (2 * d + 1)) := by
          rw [Nat.mul_comm (2 ^ c) 2, Nat.mul_assoc]
        rw [e1, e2] at h
        omega
      obtain ⟨h1, h2⟩ := ih b c d h'
      exact ⟨by rw [h1], h2⟩

/-! ## byte / field bookkeeping -/

theorem other_ne (k : Fld) : k.other ≠ k := by cases k <;> decide
theorem ne_other (k : Fld) : k ≠ k.other := by cases k <;> decide
theorem other_other (k : Fld) : k.other.other = k := by cases k <;> rfl
theorem eq_other_of_ne {j k : Fld} (h : j ≠ k) : j = k.other := by
  cases j <;> cases k <;> first | rfl | exact absurd rfl h

theorem get_set (b : Byte) (k : Fld) (v : Nat) : (b.set k v).get k = v := by cases k <;> rfl
theorem get_set_other (b : Byte) (k : Fld) (v : Nat) : (b.set k v).get k.other = b.get k.other := by
  cases k <;> rfl
theorem get_other_set (b : Byte) (k : Fld) (v : Nat) : (b.set k.other v).get k = b.get k := by
  cases k <;> rfl
theorem rest_set (b : Byte) (k : Fld) (v : Nat) : (b.set k v).rest = b.rest := by cases k <;> rfl

theorem byte_eq_iff (k : Fld) (a b : Byte) :
    a = b ↔ a.get k = b.get k ∧ a.get k.other = b.get k.other ∧ a.rest = b.rest := by
  constructor
  · intro h; subst h; exact ⟨rfl, rfl, rfl⟩
  · intro ⟨h1, h2, h3⟩
    cases a; cases b
    cases k <;> simp only [Byte.get, Fld.other] at h1 h2 h3 <;> subst h1 <;> subst h2 <;> subst h3 <;> rfl

theorem shared_ext {a b : CasBit.Shared} (h1 : a.field = b.field) (h2 : a.other = b.other)
    (h3 : a.winner = b.winner) (h4 : a.envMoved = b.envMoved) : a = b := by
  cases a; cases b
  simp only at h1 h2 h3 h4
  subst h1; subst h2; subst h3; subst h4; rfl

theorem state_ext {a b : CasBit.State} (h1 : a.sh = b.sh) (h2 : ∀ x, a.pc x = b.pc x) : a = b := by
  cases a; cases b
  simp only at h1 h2
  subst h1
  congr
  exact funext h2

/-! ## the projection theorem -/

section Projection
variable (enc : Nat → Nat → Nat) (henc : ∀ a b c d, enc a b = enc c d → a = c ∧ b = d)
include henc

/-- the byte-wide compare succeeds iff the per-object model's compare (own field and opaque other
bits) succeeds on the projection -/
theorem cas_cond_iff (k : Fld) (sh : Shared) (old : Nat) (b : Byte) :
    sh.byte = b.set k old ↔
      (projSh enc k sh).field = old ∧ (projSh enc k sh).other = enc (b.get k.other) b.rest := by
  rw [byte_eq_iff k, get_set, get_set_other, rest_set]
  simp only [projSh]
  constructor
  · intro ⟨h1, h2, h3⟩; exact ⟨h1, by rw [h2, h3]⟩
  · intro ⟨h1, h2⟩; obtain ⟨h3, h4⟩ := henc _ _ _ _ h2; exact ⟨h1, h3, h4⟩

/-- a step of a thread of field `k` is the same step of the per-object model on the projection -/
theorem proj_local (P : Fld → Proto) (k : Fld) (x : Nat) (sh : Shared) (p : PC) :
    projSh enc k (localStep P k x sh p).1 =
        (CasBit.localStep (P k) x (projSh enc k sh) (projPC enc k p)).1 ∧
    projPC enc k (localStep P k x sh p).2 =
        (CasBit.localStep (P k) x (projSh enc k sh) (projPC enc k p)).2 := by
  cases p with
  | l1 =>
    simp only [localStep, projPC, CasBit.localStep]
    have : (projSh enc k sh).field = sh.byte.get k := rfl
    rw [this]
    split_ifs <;> exact ⟨rfl, rfl⟩
  | l2 old => exact ⟨rfl, rfl⟩
  | ret r => exact ⟨rfl, rfl⟩
  | l3 old b =>
    simp only [localStep, projPC, CasBit.localStep]
    by_cases hc : sh.byte = b.set k old
    · have hc' := (cas_cond_iff enc henc k sh old b).mp hc
      rw [if_pos hc, if_pos hc']
      refine ⟨shared_ext ?_ ?_ ?_ ?_, rfl⟩
      · simp only [projSh, get_set]
      · simp only [projSh, get_set_other, rest_set]
        rw [hc, get_set_other, rest_set]
      · simp only [projSh, if_true]
      · simp only [projSh, if_neg (other_ne k)]
    · have hc' : ¬ ((projSh enc k sh).field = old ∧
          (projSh enc k sh).other = enc (b.get k.other) b.rest) :=
        fun h => hc ((cas_cond_iff enc henc k sh old b).mpr h)
      rw [if_neg hc, if_neg hc']
      refine ⟨rfl, ?_⟩
      split_ifs <;> rfl

omit henc in
/-- a step of a thread of the OTHER field: invisible, except a successful CAS, which is an
environment step (it changes the neighbour's bits of the byte) -/
theorem proj_local_other (P : Fld → Proto) (k j : Fld) (hj : j ≠ k) (x : Nat) (sh : Shared) (p : PC) :
    projSh enc k (localStep P j x sh p).1 =
      match p with
      | .l3 old b =>
        if sh.byte = b.set j old then
          { projSh enc k sh with other := enc ((P j).next old) sh.byte.rest, envMoved := true }
        else projSh enc k sh
      | _ => projSh enc k sh := by
  have hjo := eq_other_of_ne hj
  subst hjo
  cases p with
  | l1 => simp only [localStep]; split_ifs <;> rfl
  | l2 old => rfl
  | ret r => rfl
  | l3 old b =>
    simp only [localStep]
    by_cases hc : sh.byte = b.set k.other old
    · rw [if_pos hc, if_pos hc]
      refine shared_ext ?_ ?_ ?_ ?_
      · simp only [projSh, get_other_set]
        rw [hc, get_other_set]
      · simp only [projSh, get_set, rest_set]
        rw [hc, rest_set]
      · simp only [projSh, if_neg (ne_other k)]
      · simp only [projSh, if_true, Option.isSome_some, Bool.or_true]
    · rw [if_neg hc, if_neg hc]

/-- **projection, one step** -/
theorem proj_step (P : Fld → Proto) (k : Fld) (s : State) (a : Act) :
    proj enc k (step P s a) = CasBit.exec (P k) (proj enc k s) (projAct enc P k s a) := by
  cases a with
  | env v =>
    simp only [projAct, CasBit.exec, CasBit.step, step]
    refine state_ext (shared_ext ?_ ?_ ?_ ?_) (fun x => rfl)
    · cases k <;> rfl
    · cases k <;> rfl
    · rfl
    · simp only [proj, projSh, Bool.true_or]
  | thread j x =>
    by_cases hj : j = k
    · subst hj
      simp only [projAct, if_true, CasBit.exec, CasBit.step, step]
      obtain ⟨h1, h2⟩ := proj_local enc henc P j x s.sh (s.pc j x)
      refine state_ext h1 (fun y => ?_)
      simp only [proj]
      by_cases hy : y = x
      · subst hy; simp only [and_self, if_true]; exact h2
      · simp only [hy, and_false, if_false]
    · have hsh : (proj enc k (step P s (.thread j x))).sh = _ :=
        proj_local_other enc P k j hj x s.sh (s.pc j x)
      have hkj : ¬ k = j := fun e => hj e.symm
      have hpc : ∀ y, (proj enc k (step P s (.thread j x))).pc y = (proj enc k s).pc y := by
        intro y
        simp only [proj, step, hkj, false_and, if_false]
      simp only [projAct, if_neg hj]
      cases hp : s.pc j x with
      | l1 =>
        rw [hp] at hsh
        exact state_ext (by exact hsh) hpc
      | l2 old =>
        rw [hp] at hsh
        exact state_ext (by exact hsh) hpc
      | ret r =>
        rw [hp] at hsh
        exact state_ext (by exact hsh) hpc
      | l3 old b =>
        rw [hp] at hsh
        simp only at hsh ⊢
        by_cases hc : s.sh.byte = b.set j old
        · rw [if_pos hc] at hsh ⊢
          simp only [CasBit.exec, CasBit.step]
          exact state_ext (by exact hsh) hpc
        · rw [if_neg hc] at hsh ⊢
          exact state_ext (by exact hsh) hpc

omit henc in
theorem exec_append (P : Proto) (s : CasBit.State) (r1 r2 : List CasBit.Act) :
    CasBit.exec P s (r1 ++ r2) = CasBit.exec P (CasBit.exec P s r1) r2 := by
  induction r1 generalizing s with
  | nil => rfl
  | cons a r ih => exact ih _

/-- **projection**: every run of the byte model is, seen from field `k`, a run of the per-object
model. -/
theorem proj_exec (P : Fld → Proto) (k : Fld) (s : State) (run : List Act) :
    proj enc k (exec P s run) = CasBit.exec (P k) (proj enc k s) (projRun enc P k s run) := by
  induction run generalizing s with
  | nil => rfl
  | cons a rest ih =>
    simp only [exec, projRun]
    rw [exec_append, ← proj_step enc henc]
    exact ih _

omit henc in
theorem proj_init (P : Fld → Proto) (k : Fld) (f0 g0 r0 : Nat) :
    proj enc k (init P f0 g0 r0) =
      CasBit.init (P k) ((Byte.mk f0 g0 r0).get k) (enc ((Byte.mk f0 g0 r0).get k.other) r0) := by
  refine state_ext (shared_ext rfl rfl rfl rfl) (fun x => ?_)
  simp only [proj, init, CasBit.init, entry, Proto.entry]
  split_ifs <;> rfl

/-- every reachable state of the byte model projects to a reachable state of the per-object model -/
theorem proj_reachable (P : Fld → Proto) (k : Fld) (f0 g0 r0 : Nat) (run : List Act) :
    CasBit.Reachable (P k) ((Byte.mk f0 g0 r0).get k) (enc ((Byte.mk f0 g0 r0).get k.other) r0)
      (proj enc k (exec P (init P f0 g0 r0) run)) :=
  ⟨projRun enc P k (init P f0 g0 r0) run, by rw [proj_exec enc henc, proj_init]⟩

/-- **neighbours are independent**: for every run of the byte model — threads of BOTH objects and
the environment interleaved arbitrarily — each object's view is a run of its own per-object model
from its own initial value. -/
theorem neighbours_independent (P : Fld → Proto) (f0 g0 r0 : Nat) (run : List Act) :
    CasBit.Reachable (P .F) f0 (enc g0 r0) (proj enc .F (exec P (init P f0 g0 r0) run)) ∧
    CasBit.Reachable (P .G) g0 (enc f0 r0) (proj enc .G (exec P (init P f0 g0 r0) run)) :=
  ⟨proj_reachable enc henc P .F f0 g0 r0 run, proj_reachable enc henc P .G f0 g0 r0 run⟩

end Projection

/-- `neighbours_independent` for the concrete pairing. -/
theorem neighbours_independent_pair (P : Fld → Proto) (f0 g0 r0 : Nat) (run : List Act) :
    CasBit.Reachable (P .F) f0 (pair g0 r0) (proj pair .F (exec P (init P f0 g0 r0) run)) ∧
    CasBit.Reachable (P .G) g0 (pair f0 r0) (proj pair .G (exec P (init P f0 g0 r0) run)) :=
  neighbours_independent pair pair_inj P f0 g0 r0 run

/-- **a byte-level CAS of one field leaves the other fields unchanged**: a thread step on field `k`
changes neither the neighbour's field nor the remaining bits. -/
theorem cas_leaves_neighbour (P : Fld → Proto) (k : Fld) (x : Nat) (s : State) :
    (step P s (.thread k x)).sh.byte.get k.other = s.sh.byte.get k.other ∧
    (step P s (.thread k x)).sh.byte.rest = s.sh.byte.rest ∧
    (step P s (.thread k x)).sh.win k.other = s.sh.win k.other ∧
    (step P s (.thread k x)).sh.envMoved = s.sh.envMoved := by
  simp only [step]
  cases s.pc k x with
  | l1 => simp only [localStep]; split_ifs <;> exact ⟨rfl, rfl, rfl, rfl⟩
  | l2 old => exact ⟨rfl, rfl, rfl, rfl⟩
  | ret r => exact ⟨rfl, rfl, rfl, rfl⟩
  | l3 old b =>
    simp only [localStep]
    by_cases hc : s.sh.byte = b.set k old
    · rw [if_pos hc]
      refine ⟨?_, ?_, ?_, rfl⟩
      · simp only [get_set_other]; rw [hc, get_set_other]
      · simp only [rest_set]; rw [hc, rest_set]
      · simp only [if_neg (other_ne k)]
    · rw [if_neg hc]; exact ⟨rfl, rfl, rfl, rfl⟩

/-! ## the C18 theorems, per field, while the neighbour races too -/

section PerField
variable {P : Fld → Proto} {f0 g0 r0 : Nat} {run : List Act}

/-- the initial value of field `k` -/
abbrev init0 (f0 g0 : Nat) (k : Fld) : Nat := (Byte.mk f0 g0 0).get k

theorem reach_pair (P : Fld → Proto) (k : Fld) (f0 g0 r0 : Nat) (run : List Act) :
    CasBit.Reachable (P k) (init0 f0 g0 k) (pair (init0 f0 g0 k.other) r0)
      (proj pair k (exec P (init P f0 g0 r0) run)) := by
  have := proj_reachable pair pair_inj P k f0 g0 r0 run
  cases k <;> exact this

/-- **C18 per field** — for the state reached by ANY run of the byte model (both objects' threads
and the environment interleaved):
(a) at most one thread of field `k` returns `true`;
(b) looping variants: a thread of field `k` that returned `false` saw the transitioned state, and if
    the field was not transitioned initially another thread of field `k` is the winner;
(c) a thread of field `k` that returned `true` ⇒ the field holds `next` of its initial value;
(d) the ghost winner of field `k` is a thread of field `k` that returned `true`. -/
theorem one_winner_per_field (k : Fld) (hP : (P k).WF) :
    let s := exec P (init P f0 g0 r0) run
    (∀ x y, s.pc k x = .ret true → s.pc k y = .ret true → x = y) ∧
    ((P k).single = false → ∀ x, s.pc k x = .ret false →
        (P k).isDone (s.sh.byte.get k) = true ∧
        ((P k).isDone (init0 f0 g0 k) = false → ∃ w, s.sh.win k = some w ∧ w ≠ x)) ∧
    (∀ x, s.pc k x = .ret true →
        s.sh.byte.get k = (P k).next (init0 f0 g0 k) ∧ (P k).isDone (s.sh.byte.get k) = true ∧
        (P k).isDone (init0 f0 g0 k) = false) ∧
    (∀ w, s.sh.win k = some w → s.pc k w = .ret true) := by
  intro s
  have hr := reach_pair P k f0 g0 r0 run
  have hpc : ∀ x b, s.pc k x = .ret b → (proj pair k s).pc x = .ret b := by
    intro x b h
    show projPC pair k (s.pc k x) = .ret b
    rw [h]; rfl
  refine ⟨?_, ?_, ?_, ?_⟩
  · intro x y hx hy
    exact CasBit.at_most_one_true hP hr x y (hpc x true hx) (hpc y true hy)
  · intro hl x hx
    exact CasBit.false_means_done hP hl hr x (hpc x false hx)
  · intro x hx
    exact CasBit.true_means_transition hP hr x (hpc x true hx)
  · intro w hw
    have h := CasBit.winner_returns_true hP hr w hw
    have h' : projPC pair k (s.pc k w) = .ret true := h
    cases hp : s.pc k w with
    | l1 => rw [hp] at h'; cases h'
    | l2 o => rw [hp] at h'; cases h'
    | l3 o b => rw [hp] at h'; cases h'
    | ret b => rw [hp] at h'; cases b <;> first | rfl | cases h'

/-- **C18 tie, per field**: in every finished race on field `k` — its threads `0..n-1` (any `n ≥ 1`)
have all returned, its other threads never moved; the NEIGHBOUR's threads may be anywhere — the
outcome of field `k` is accepted by the per-object verdict `outcomeOk`, with "the environment
interfered" = the remaining bits were overwritten or the neighbour's field was changed by a CAS. -/
theorem outcome_sound_per_field (k : Fld) (hP : (P k).WF) (n : Nat) (hn : 0 < n)
    (hfin : ∀ x, x < n → ∃ b, (exec P (init P f0 g0 r0) run).pc k x = .ret b)
    (hidle : ∀ x, n ≤ x → (exec P (init P f0 g0 r0) run).pc k x = entry (P k)) :
    let s := exec P (init P f0 g0 r0) run
    CasBit.outcomeOk (P k) (init0 f0 g0 k) (s.sh.byte.get k) (CasBit.trues n (proj pair k s))
      (s.sh.envMoved || (s.sh.win k.other).isSome) = true := by
  intro s
  have hr := reach_pair P k f0 g0 r0 run
  refine CasBit.outcome_sound hP hr n hn ?_ ?_
  · intro x hx
    obtain ⟨b, hb⟩ := hfin x hx
    refine ⟨b, ?_⟩
    show projPC pair k (s.pc k x) = .ret b
    rw [hb]; rfl
  · intro x hx
    show projPC pair k (s.pc k x) = (P k).entry
    rw [hidle x hx]
    simp only [entry, Proto.entry]
    split_ifs <;> rfl

/-- the number of `true`s of the projection is the number of threads of field `k` at `ret true` -/
theorem trues_proj (k : Fld) (n : Nat) (s : State) :
    CasBit.trues n (proj pair k s) =
      ((List.range n).filter (fun x => decide (s.pc k x = .ret true))).length := by
  unfold CasBit.trues
  congr 1
  apply List.filter_congr
  intro x _
  have : ((proj pair k s).pc x = .ret true) ↔ (s.pc k x = .ret true) := by
    show projPC pair k (s.pc k x) = .ret true ↔ _
    cases hp : s.pc k x with
    | l1 => simp [projPC]
    | l2 o => simp [projPC]
    | l3 o b => simp [projPC]
    | ret b => simp [projPC]
  simp only [this]

/-- looping variants (mark, log): the verdict does not depend on the interference flag at all —
exactly one `true` per object and the object's field transitioned, whatever the neighbours did. -/
theorem outcome_sound_per_field_looping (k : Fld) (hP : (P k).WF) (hl : (P k).single = false)
    (n : Nat) (hn : 0 < n)
    (hfin : ∀ x, x < n → ∃ b, (exec P (init P f0 g0 r0) run).pc k x = .ret b)
    (hidle : ∀ x, n ≤ x → (exec P (init P f0 g0 r0) run).pc k x = entry (P k)) :
    let s := exec P (init P f0 g0 r0) run
    CasBit.outcomeOk (P k) (init0 f0 g0 k) (s.sh.byte.get k) (CasBit.trues n (proj pair k s))
      false = true := by
  intro s
  have h := outcome_sound_per_field (run := run) k hP n hn hfin hidle
  simp only [CasBit.outcomeOk, hl] at h ⊢
  exact h

end PerField

/-! ## non-vacuity and the spurious failure -/

/-- mark bit on both objects (mark state 1). -/
def markBoth : Fld → Proto := fun _ => CasBit.markProto 1
/-- pin bit on `F`, unlog bit on `G`. -/
def pinLog : Fld → Proto
  | .F => CasBit.pinProto
  | .G => CasBit.logProto

example : ∀ k, (markBoth k).WF := fun _ => CasBit.markProto_wf 1 (by decide)
example : ∀ k, (pinLog k).WF := fun k => by
  cases k
  · exact CasBit.pinProto_wf
  · exact CasBit.logProto_wf

/-- **a neighbour makes the byte CAS fail spuriously; the looping caller retries and wins**:
the `F`-thread loads the byte; a `G`-thread completes its transition; the `F`-thread's CAS fails
although its own field is unchanged; it goes round the loop and wins.  Both fields end
transitioned, exactly one `ret true` per field. -/
theorem spurious_failure_then_retry :
    let s1 := exec markBoth (init markBoth 0 0 0)
      [.thread .F 0, .thread .F 0, .thread .G 0, .thread .G 0, .thread .G 0, .thread .F 0]
    let s := exec markBoth s1 [.thread .F 0, .thread .F 0, .thread .F 0]
    -- after the failed CAS: own field still 0, neighbour's is 1, thread (F,0) is back at the loop head
    s1.sh.byte = ⟨0, 1, 0⟩ ∧ s1.pc .F 0 = .l1 ∧ s1.pc .G 0 = .ret true ∧
    -- after the retry
    s.sh.byte = ⟨1, 1, 0⟩ ∧ s.pc .F 0 = .ret true ∧ s.pc .G 0 = .ret true ∧
    s.sh.win .F = some 0 ∧ s.sh.win .G = some 0 := by
  decide

/-- hypotheses of `outcome_sound_per_field` are satisfiable: two threads per object, mark bit;
and with different protocols per field (pin on `F`, log on `G`; the pin is not disturbed here). -/
example :
    let s := exec markBoth (init markBoth 0 0 5)
      [.thread .F 0, .thread .G 1, .thread .F 1, .thread .G 0, .thread .F 0, .thread .G 1, .thread .G 0,
       .thread .F 1, .thread .F 0, .thread .G 1, .thread .F 1, .thread .G 0,
       .thread .F 1, .thread .G 0, .thread .F 1, .thread .G 0, .thread .G 0, .thread .G 1]
    s.pc .F 0 = .ret true ∧ s.pc .F 1 = .ret false ∧ s.pc .G 0 = .ret true ∧ s.pc .G 1 = .ret false ∧
    s.pc .F 2 = entry (markBoth .F) ∧ s.sh.byte = ⟨1, 1, 5⟩ := by
  decide

example :
    let s := exec pinLog (init pinLog 0 1 0)
      [.thread .F 0, .thread .F 0, .thread .G 0, .thread .G 0, .thread .G 0, .env 3, .thread .G 0,
       .thread .G 0, .thread .G 0, .thread .G 0]
    s.pc .F 0 = .ret true ∧ s.pc .G 0 = .ret true ∧ s.sh.byte = ⟨1, 0, 3⟩ ∧ s.sh.envMoved = true := by
  decide

/-- single-shot pin next to a racing neighbour: the neighbour's transition between the pin's load
and its CAS makes `pin_object` return `false` with nobody having pinned — accepted by the per-object
verdict only because the projection reports the neighbour's CAS as interference. -/
theorem pin_fails_spuriously_next_to_racing_neighbour :
    let s := exec pinLog (init pinLog 0 1 0)
      [.thread .F 0, .thread .G 0, .thread .G 0, .thread .G 0, .thread .F 0]
    s.pc .F 0 = .ret false ∧ s.pc .G 0 = .ret true ∧ s.sh.byte = ⟨0, 0, 0⟩ ∧
    (s.sh.envMoved || (s.sh.win Fld.F.other).isSome) = true ∧
    CasBit.outcomeOk (pinLog .F) 0 0 0 true = true ∧ CasBit.outcomeOk (pinLog .F) 0 0 0 false = false := by
  decide

/-! ## a mutant: compare only the own field, but write back the stale byte -/

/-- `localStep` whose CAS compares only the OWN field (`sh.byte.get k = old`) but still writes the
byte built from the STALE load — a field-wide compare with a byte-wide store.  Not the code. -/
def staleStep (P : Fld → Proto) (k : Fld) (x : Nat) (sh : Shared) (p : PC) : Shared × PC :=
  match p with
  | .l3 old b =>
    if sh.byte.get k = old
    then ({ sh with byte := b.set k ((P k).next old),
                    win := fun j => if j = k then some x else sh.win j }, .ret true)
    else (sh, if (P k).single then .ret false else .l1)
  | p => localStep P k x sh p

def staleExec (P : Fld → Proto) (s : State) : List (Fld × Nat) → State
  | [] => s
  | (k, x) :: rest =>
    let r := staleStep P k x s.sh (s.pc k x)
    staleExec P { sh := r.1, pc := fun j y => if j = k ∧ y = x then r.2 else s.pc j y } rest

/-- With the mutant, one thread per object: both load the byte `⟨0,0,0⟩`, `G` marks (`⟨0,1,0⟩`),
then `F`'s CAS "succeeds" and stores `⟨1,0,0⟩` — both threads returned `true` but object `G`'s mark
is gone.  (In the byte model the same schedule makes `F`'s CAS fail and retry — see
`spurious_failure_then_retry`.) -/
theorem stale_write_undoes_neighbour :
    let s := staleExec markBoth (init markBoth 0 0 0)
      [(.F, 0), (.F, 0), (.G, 0), (.G, 0), (.G, 0), (.F, 0)]
    s.pc .F 0 = .ret true ∧ s.pc .G 0 = .ret true ∧ s.sh.byte = ⟨1, 0, 0⟩ ∧ s.sh.byte.get .G = 0 := by
  decide

end Mmtk.CasByte
