import MmtkModel.Model.IntPtr
/-!
# C08 — interior-pointer and conservative lookups resolve to the right object

* `isMmtkObject_iff`: for an address of a space, `is_mmtk_object` answers `Some(addr)` iff the VO bit of `addr` is set;
  with the VO bits exactly the valid objects (C07) iff `addr` is the reference of a valid object.
* `findPrev_spec`: the downward search returns the nearest word-aligned address `a ≤ p` with its VO bit set and
  `p - a < limit`, for every bitmap (all words between the lower bound and `p` mapped).
* `findFromInternal_spec`: with non-overlapping objects the lookup returns `o` iff `o` is the valid object with
  `ref(o) ≤ p < start(o) + size(o)` and `p - ref(o) < n` (`n` capped by the policy's maximal object size), else `None`.
* `findLos_spec`: the page walk of the large-object space returns the first VO-set address of the nearest page
  `≥ align_down(p - n, 4096)` whose first VO word is non-zero, if `p` lies inside that object.
  Full statement for the LOS — "`None` unless `p - ref(o) < n`" — FAILS on the code: the limit is applied to pages, not
  to the reference (`los_limit_witness`); `findLos_limit_partial` is the true part.
-/
namespace Mmtk.IntPtr

/-! ## `is_mmtk_object` -/

theorem isMmtkObject_iff (sp : Space) (e : Env) (a : Nat) :
    isMmtkObject sp e a = some a ↔ (sp ≠ .empty ∧ e.voMapped a = true ∧ e.vo a = true) := by
  cases sp <;> simp [isMmtkObject, isVoBitSet] <;>
    (by_cases h1 : e.voMapped a = true <;> by_cases h2 : e.vo a = true <;> simp [h1, h2])

/-- it never answers anything but the address itself -/
theorem isMmtkObject_eq (sp : Space) (e : Env) (a b : Nat) (h : isMmtkObject sp e a = some b) : b = a := by
  cases sp <;> simp [isMmtkObject, isVoBitSet] at h <;>
    (by_cases h1 : e.voMapped a = true <;> by_cases h2 : e.vo a = true <;> simp_all)

/-- with the VO bits exactly the valid objects (C07's theorem) and VO metadata mapped for every space address:
`Some(o)` iff the address is the reference of a valid object -/
theorem isMmtkObject_valid (sp : Space) (e : Env) (valid : List Nat) (a : Nat) (hsp : sp ≠ .empty)
    (hvo : ∀ x, e.vo x = true ↔ x ∈ valid) (hm : e.voMapped a = true) :
    isMmtkObject sp e a = some a ↔ a ∈ valid := by
  rw [isMmtkObject_iff, hvo]
  exact ⟨fun h => h.2.2, fun h => ⟨hsp, hm, h⟩⟩

/-! ## the downward search -/

theorem findPrevLoop_spec (e : Env) (endAddr : Nat) :
    ∀ (fuel cursor grain a : Nat), cursor % 8 = 0 → cursor / 8 < fuel →
      (∀ c, c % 8 = 0 → endAddr ≤ c → c ≤ cursor → e.mapped c = true) →
      (findPrevLoop e endAddr fuel cursor grain = some a ↔
        (a % 8 = 0 ∧ endAddr ≤ a ∧ a ≤ cursor ∧ e.vo a = true ∧
          ∀ b, b % 8 = 0 → a < b → b ≤ cursor → e.vo b = false)) := by
  intro fuel
  induction fuel with
  | zero => intro cursor grain a _ h; omega
  | succ fuel ih =>
    intro cursor grain a hal hf hm
    unfold findPrevLoop
    by_cases h1 : cursor < endAddr
    · simp only [h1, if_true]
      constructor
      · intro h; cases h
      · rintro ⟨_, h2, h3, _⟩; omega
    · have hmc : e.mapped cursor = true := hm cursor hal (by omega) (Nat.le_refl _)
      simp only [h1, if_false, hmc, Bool.not_true, Bool.and_false, Bool.false_eq_true]
      by_cases hv : e.vo cursor = true
      · simp only [hv, if_true, Option.some.injEq]
        constructor
        · intro h; subst h
          exact ⟨hal, by omega, Nat.le_refl _, hv, fun b _ h1 h2 => by omega⟩
        · rintro ⟨h2, h3, h4, h5, h6⟩
          by_cases hne : a = cursor
          · exact hne.symm
          · have := h6 cursor hal (by omega) (Nat.le_refl _)
            rw [hv] at this; cases this
      · have hv' : e.vo cursor = false := by simpa using hv
        simp only [hv', Bool.false_eq_true, if_false]
        by_cases h8 : cursor < 8
        · simp only [h8, if_true]
          constructor
          · intro h; cases h
          · rintro ⟨_, _, h4, h5, _⟩
            have : a = cursor := by omega
            rw [this, hv'] at h5; cases h5
        · simp only [h8, if_false]
          rw [ih (cursor - 8) _ a (by omega) (by omega) (fun c hc1 hc2 hc3 => hm c hc1 hc2 (by omega))]
          constructor
          · rintro ⟨h2, h3, h4, h5, h6⟩
            refine ⟨h2, h3, by omega, h5, fun b hb1 hb2 hb3 => ?_⟩
            by_cases hbc : b = cursor
            · rw [hbc]; exact hv'
            · exact h6 b hb1 hb2 (by omega)
          · rintro ⟨h2, h3, h4, h5, h6⟩
            have hne : a ≠ cursor := fun h => by rw [h, hv'] at h5; cases h5
            exact ⟨h2, h3, by omega, h5, fun b hb1 hb2 hb3 => h6 b hb1 hb2 (by omega)⟩

/-- **`find_prev_non_zero_value` on the VO bits**: the nearest set bit at or below `p`, strictly less than `limit`
bytes below it — for every bitmap. -/
theorem findPrev_spec (e : Env) (p limit a : Nat)
    (hm : ∀ c, c % 8 = 0 → (p - limit) + 1 ≤ c → c ≤ p → e.mapped c = true) :
    findPrev e p limit = some a ↔
      (a % 8 = 0 ∧ (p - limit) + 1 ≤ a ∧ a ≤ p ∧ e.vo a = true ∧ ∀ b, b % 8 = 0 → a < b → b ≤ p → e.vo b = false) := by
  unfold findPrev alignDown
  rw [findPrevLoop_spec e _ _ _ _ a (by omega) (by omega) (fun c h1 h2 h3 => hm c h1 h2 (by omega))]
  constructor
  · rintro ⟨h1, h2, h3, h4, h5⟩
    exact ⟨h1, h2, by omega, h4, fun b hb1 hb2 hb3 => h5 b hb1 hb2 (by omega)⟩
  · rintro ⟨h1, h2, h3, h4, h5⟩
    exact ⟨h1, h2, by omega, h4, fun b hb1 hb2 hb3 => h5 b hb1 hb2 (by omega)⟩

/-- objects do not overlap: a valid object ends before the next one starts -/
def Disjoint (e : Env) : Prop :=
  ∀ a b, e.vo a = true → e.vo b = true → a < b → (a - e.refOff) + e.size a ≤ b - e.refOff ∧ e.refOff ≤ b

/-- **C08 (generic spaces)** `find_object_from_internal_pointer(p, n)` answers `o` iff `o` is a valid object with
`ref(o) ≤ p < start(o) + size(o)` whose reference is less than `n` bytes below `p`; otherwise `None`. -/
theorem findObject_spec (e : Env) (p n o : Nat) (hdis : Disjoint e) (hp : e.mapped p = true)
    (hm : ∀ c, c % 8 = 0 → (p - n) + 1 ≤ c → c ≤ p → e.mapped c = true) :
    findObject e p n = some o ↔
      (o % 8 = 0 ∧ e.vo o = true ∧ o ≤ p ∧ (p - n) + 1 ≤ o ∧ p < (o - e.refOff) + e.size o) := by
  unfold findObject
  simp only [hp, Bool.not_true, Bool.false_eq_true, if_false]
  constructor
  · intro h
    cases hf : findPrev e p n with
    | none => rw [hf] at h; cases h
    | some a =>
      rw [hf] at h
      simp only [internalOf] at h
      by_cases hin : p < (a - e.refOff) + e.size a
      · simp only [hin, if_true, Option.some.injEq] at h
        subst h
        obtain ⟨h1, h2, h3, h4, _⟩ := (findPrev_spec e p n a hm).1 hf
        exact ⟨h1, h4, h3, h2, hin⟩
      · simp [hin] at h
  · rintro ⟨h1, h2, h3, h4, h5⟩
    have hf : findPrev e p n = some o := by
      rw [findPrev_spec e p n o hm]
      refine ⟨h1, h4, h3, h2, fun b hb1 hb2 hb3 => ?_⟩
      cases hvb : e.vo b with
      | false => rfl
      | true =>
        have := hdis o b h2 hvb hb2
        omega
    rw [hf]
    simp [internalOf, h5]

/-- **C08** per space: the empty SFT answers `None`; Immix / mark-sweep cap the limit by their maximal object size. -/
theorem findFromInternal_spec (sp : Space) (e : Env) (p n o : Nat) (hdis : Disjoint e) (hp : e.mapped p = true)
    (hm : ∀ c, c % 8 = 0 → c ≤ p → e.mapped c = true) :
    (sp = .empty → findFromInternal sp e p n = none) ∧
    (sp = .generic none → (findFromInternal sp e p n = some o ↔
      (o % 8 = 0 ∧ e.vo o = true ∧ o ≤ p ∧ (p - n) + 1 ≤ o ∧ p < (o - e.refOff) + e.size o))) ∧
    (∀ cap, sp = .generic (some cap) → (findFromInternal sp e p n = some o ↔
      (o % 8 = 0 ∧ e.vo o = true ∧ o ≤ p ∧ (p - Nat.min cap n) + 1 ≤ o ∧ p < (o - e.refOff) + e.size o))) := by
  refine ⟨fun h => by subst h; rfl, fun h => ?_, fun cap h => ?_⟩
  · subst h
    exact findObject_spec e p n o hdis hp (fun c h1 _ h3 => hm c h1 h3)
  · subst h
    exact findObject_spec e p _ o hdis hp (fun c h1 _ h3 => hm c h1 h3)

/-! ## the large-object space -/

theorem firstVo_some (e : Env) (page a : Nat) (h : firstVo e page = some a) :
    e.vo a = true ∧ page ≤ a ∧ a < page + 512 ∧ a % 8 = page % 8 := by
  unfold firstVo at h
  cases hf : (List.range 64).find? (fun k => e.vo (page + 8 * k)) with
  | none => rw [hf] at h; cases h
  | some k =>
    rw [hf] at h
    simp only [Option.map_some, Option.some.injEq] at h
    subst h
    have h1 := List.find?_some hf
    have h2 := List.mem_of_find?_eq_some hf
    simp only [List.mem_range] at h2
    exact ⟨h1, by omega, by omega, by omega⟩

theorem firstVo_none (e : Env) (page : Nat) (h : firstVo e page = none) :
    ∀ k, k < 64 → e.vo (page + 8 * k) = false := by
  unfold firstVo at h
  simp only [Option.map_eq_none_iff] at h
  intro k hk
  have := List.find?_eq_none.1 h k (List.mem_range.2 hk)
  simpa using this

theorem findLosLoop_spec (e : Env) (p low : Nat) :
    ∀ (fuel cur grain o : Nat), cur % 4096 = 0 → cur / 4096 < fuel →
      (∀ c, c % 4096 = 0 → low ≤ c → c ≤ cur → e.mapped c = true) →
      (findLosLoop e p low fuel cur grain = some o ↔
        ∃ page, page % 4096 = 0 ∧ low ≤ page ∧ page ≤ cur ∧ firstVo e page = some o ∧
          (∀ q, q % 4096 = 0 → page < q → q ≤ cur → firstVo e q = none) ∧ p < (o - e.refOff) + e.size o) := by
  intro fuel
  induction fuel with
  | zero => intro cur grain o _ h; omega
  | succ fuel ih =>
    intro cur grain o hal hf hm
    unfold findLosLoop
    by_cases h1 : cur < low
    · simp only [h1, if_true]
      constructor
      · intro h; cases h
      · rintro ⟨page, _, h2, h3, _⟩; omega
    · have hmc : e.mapped cur = true := hm cur hal (by omega) (Nat.le_refl _)
      simp only [h1, if_false, hmc, Bool.not_true, Bool.and_false, Bool.false_eq_true]
      cases hv : firstVo e cur with
      | some a =>
        simp only
        constructor
        · intro h
          refine ⟨cur, hal, by omega, Nat.le_refl _, ?_, fun q _ h2 h3 => by omega, ?_⟩
          · simp only [internalOf] at h
            by_cases hin : p < (a - e.refOff) + e.size a
            · simp only [hin, if_true, Option.some.injEq] at h; rw [hv, h]
            · simp [hin] at h
          · simp only [internalOf] at h
            by_cases hin : p < (a - e.refOff) + e.size a
            · simp only [hin, if_true, Option.some.injEq] at h; rw [← h]; exact hin
            · simp [hin] at h
        · rintro ⟨page, hp1, hp2, hp3, hp4, hp5, hp6⟩
          by_cases hpc : page = cur
          · subst hpc
            rw [hv] at hp4
            simp only [Option.some.injEq] at hp4
            subst hp4
            simp [internalOf, hp6]
          · have := hp5 cur hal (by omega) (Nat.le_refl _)
            rw [hv] at this; cases this
      | none =>
        simp only
        by_cases h8 : cur < 4096
        · simp only [h8, if_true]
          constructor
          · intro h; cases h
          · rintro ⟨page, hp1, _, hp3, hp4, _⟩
            have : page = cur := by omega
            rw [this, hv] at hp4; cases hp4
        · simp only [h8, if_false]
          rw [ih (cur - 4096) _ o (by omega) (by omega) (fun c hc1 hc2 hc3 => hm c hc1 hc2 (by omega))]
          constructor
          · rintro ⟨page, hp1, hp2, hp3, hp4, hp5, hp6⟩
            refine ⟨page, hp1, hp2, by omega, hp4, fun q hq1 hq2 hq3 => ?_, hp6⟩
            by_cases hqc : q = cur
            · rw [hqc]; exact hv
            · exact hp5 q hq1 hq2 (by omega)
          · rintro ⟨page, hp1, hp2, hp3, hp4, hp5, hp6⟩
            have hne : page ≠ cur := fun h => by rw [h, hv] at hp4; cases hp4
            exact ⟨page, hp1, hp2, by omega, hp4, fun q hq1 hq2 hq3 => hp5 q hq1 hq2 (by omega), hp6⟩

/-- **C08 (large-object space)**: the page walk answers the first VO-set address of the nearest page at or below
`p`'s page — not lower than `align_down(p - n, 4096)` — whose first VO word is non-zero, iff `p` is inside that
object. Under the LOS layout (one object per page run, its reference in the first 512 bytes of its first page —
asserted by `initialize_object_metadata`) that is the object containing `p`. -/
theorem findLos_spec (e : Env) (p n o : Nat)
    (hm : ∀ c, c % 4096 = 0 → c ≤ p → e.mapped c = true) :
    findLos e p n = some o ↔
      ∃ page, page % 4096 = 0 ∧ alignDown (p - n) 4096 ≤ page ∧ page ≤ p ∧ firstVo e page = some o ∧
        (∀ q, q % 4096 = 0 → page < q → q ≤ p → firstVo e q = none) ∧ p < (o - e.refOff) + e.size o := by
  unfold findLos
  rw [findLosLoop_spec e p _ _ _ _ o (by unfold alignDown; omega) (by omega)
    (fun c h1 _ h3 => hm c h1 (by unfold alignDown at h3; omega))]
  constructor
  · rintro ⟨page, h1, h2, h3, h4, h5, h6⟩
    exact ⟨page, h1, h2, by unfold alignDown at h3; omega, h4,
      fun q hq1 hq2 hq3 => h5 q hq1 hq2 (by unfold alignDown; omega), h6⟩
  · rintro ⟨page, h1, h2, h3, h4, h5, h6⟩
    exact ⟨page, h1, h2, by unfold alignDown; omega, h4,
      fun q hq1 hq2 hq3 => h5 q hq1 hq2 (by unfold alignDown at hq3; omega), h6⟩

/-- **partial** (what the limit means for the LOS): an answer's reference is less than `n + 4096` bytes below `p`. -/
theorem findLos_limit_partial (e : Env) (p n o : Nat) (hm : ∀ c, c % 4096 = 0 → c ≤ p → e.mapped c = true)
    (h : findLos e p n = some o) : e.vo o = true ∧ o ≤ p + 511 ∧ p < o + (n + 4096) := by
  obtain ⟨page, h1, h2, h3, h4, _, _⟩ := (findLos_spec e p n o hm).1 h
  obtain ⟨hv, ha, hb, _⟩ := firstVo_some e page o h4
  refine ⟨hv, by omega, ?_⟩
  unfold alignDown at h2
  omega

/-! ### stale pointers: no valid object at or below `p`, any limit, any mapping -/

theorem findLosLoop_none_of_no_vo (e : Env) (p low : Nat) :
    ∀ (fuel cur grain : Nat), (∀ q, q ≤ cur → firstVo e q = none) → findLosLoop e p low fuel cur grain = none := by
  intro fuel
  induction fuel with
  | zero => intro cur grain _; rfl
  | succ fuel ih =>
    intro cur grain h
    unfold findLosLoop
    by_cases h1 : cur < low
    · simp [h1]
    · by_cases h2 : (cur < grain && !e.mapped cur) = true
      · simp [h1, h2]
      · simp only [h1, if_false, h2, h cur (Nat.le_refl _)]
        by_cases h8 : cur < 4096
        · simp [h8]
        · simp only [h8, if_false]
          exact ih _ _ (fun q hq => h q (by omega))

/-- **C08 (stale pointer into the LOS)**: when no VO bit is set at or below `p`'s page — the lowest large object of
the space after it was swept, or between `alloc` and `post_alloc` — the lookup answers `None` for EVERY search limit
(2^20 … `usize::MAX`) and whatever is mapped below: no hypothesis on `mapped`. -/
theorem findLos_none_of_no_vo (e : Env) (p n : Nat) (h : ∀ a, a < alignDown p 4096 + 512 → e.vo a = false) :
    findLos e p n = none := by
  unfold findLos
  apply findLosLoop_none_of_no_vo
  intro q hq
  unfold firstVo
  have : (List.range 64).find? (fun k => e.vo (q + 8 * k)) = none := by
    rw [List.find?_eq_none]
    intro k hk
    have hk' := List.mem_range.1 hk
    simp [h (q + 8 * k) (by omega)]
  rw [this]; rfl

/-! ### the walk never depends on VO metadata of unmapped memory

`Address::is_mapped` is tested whenever the walk enters a new mmap grain; a grain is mapped as a whole (`hu`). Two
memories that agree on everything except the VO words of UNMAPPED pages give the same answer: the walk reads a VO
word only after its page was found mapped. (The regression that tests `is_mapped` once, before the loop, breaks
exactly this: `hoisted_reads_unmapped`.) -/

theorem alignDown_eq_of_between (c q g : Nat) (hg : 0 < g) (h1 : alignDown c g ≤ q) (h2 : q ≤ c) :
    alignDown q g = alignDown c g := by
  unfold alignDown at *
  have hc := Nat.div_add_mod c g
  have hq := Nat.div_add_mod q g
  have hcl := Nat.mod_lt c hg
  have hb : q / g ≤ c / g := Nat.div_le_div_right h2
  have ha : c / g ≤ q / g := by
    rw [Nat.le_div_iff_mul_le hg, Nat.mul_comm]
    omega
  have hab : q / g = c / g := Nat.le_antisymm hb ha
  rw [hab] at hq
  omega

theorem find?_congr' {α : Type} (l : List α) (f g : α → Bool) (h : ∀ x, x ∈ l → f x = g x) : l.find? f = l.find? g := by
  induction l with
  | nil => rfl
  | cons a l ih =>
    simp only [List.find?_cons, h a List.mem_cons_self]
    rw [ih (fun x hx => h x (List.mem_cons_of_mem _ hx))]

/-- `e'` is `e` except for the VO words of pages that are not mapped -/
structure AgreeOnMapped (e e' : Env) : Prop where
  mapped : e'.mapped = e.mapped
  gran : e'.gran = e.gran
  refOff : e'.refOff = e.refOff
  size : e'.size = e.size
  vo : ∀ page k, k < 64 → e.mapped page = true → e'.vo (page + 8 * k) = e.vo (page + 8 * k)

theorem findLosLoop_reads_mapped_only (e e' : Env) (hag : AgreeOnMapped e e') (hg : 0 < e.gran)
    (hu : ∀ a, e.mapped a = e.mapped (alignDown a e.gran)) (p low : Nat) :
    ∀ (fuel cur grain : Nat), (∀ q, grain ≤ q → q ≤ cur → e.mapped q = true) →
      findLosLoop e' p low fuel cur grain = findLosLoop e p low fuel cur grain := by
  intro fuel
  induction fuel with
  | zero => intro cur grain _; rfl
  | succ fuel ih =>
    intro cur grain hinv
    unfold findLosLoop
    rw [hag.mapped, hag.gran]
    by_cases h1 : cur < low
    · simp [h1]
    · by_cases h2 : (cur < grain && !e.mapped cur) = true
      · simp [h1, h2]
      · have hmc : e.mapped cur = true := by
          by_cases hlt : cur < grain
          · simpa [hlt] using h2
          · exact hinv cur (by omega) (Nat.le_refl _)
        have hfv : firstVo e' cur = firstVo e cur := by
          unfold firstVo
          rw [find?_congr' (List.range 64) (fun k => e'.vo (cur + 8 * k)) (fun k => e.vo (cur + 8 * k))
            (fun k hk => hag.vo cur k (List.mem_range.1 hk) hmc)]
        simp only [h1, if_false, h2, hfv]
        cases hv : firstVo e cur with
        | some a => simp only [internalOf, hag.refOff, hag.size]
        | none =>
          simp only
          by_cases h8 : cur < 4096
          · simp [h8]
          · simp only [h8, if_false]
            apply ih
            intro q hq1 hq2
            by_cases hlt : cur < grain
            · simp only [hlt, if_true] at hq1
              rw [hu q, alignDown_eq_of_between cur q e.gran hg hq1 (by omega), ← hu cur]
              exact hmc
            · simp only [hlt, if_false] at hq1
              exact hinv q hq1 (by omega)

/-- **C08 (memory safety of the LOS walk, as non-interference)**: the answer does not depend on the VO words of
unmapped pages, for every pointer below 2^64 and every limit. -/
theorem findLos_reads_mapped_only (e e' : Env) (hag : AgreeOnMapped e e') (hg : 0 < e.gran)
    (hu : ∀ a, e.mapped a = e.mapped (alignDown a e.gran)) (p n : Nat) (hp : p < 2 ^ 64) :
    findLos e' p n = findLos e p n := by
  unfold findLos
  apply findLosLoop_reads_mapped_only e e' hag hg hu
  intro q h1 h2
  unfold alignDown at h2
  omega

/-- the seeded regression: `is_mapped` tested once for `p`'s page, then the walk without any further test -/
def findLosHoisted (e : Env) (p n : Nat) : Option Nat :=
  let cur := alignDown p 4096
  if !e.mapped cur then none
  else findLosLoop { e with mapped := fun _ => true } p (alignDown (p - n) 4096) (cur / 4096 + 1) cur (2 ^ 64 - 1)

/-- one mapped 8 KB grain at 0x2000 (no object), below it unmapped memory whose "VO word" holds garbage -/
def staleDemo (garbage : Bool) : Env :=
  { vo := fun a => garbage && a == 0x1008, mapped := fun a => decide (0x2000 ≤ a ∧ a < 0x4000), voMapped := fun _ => true,
    gran := 0x2000, refOff := 8, size := fun _ => 0x4000 }

/-- **witness** (decide): the real walk answers `None` whatever the unmapped VO word holds; the hoisted variant's
answer depends on it (it reads the unmapped word — a SIGSEGV in the real process). -/
theorem hoisted_reads_unmapped :
    findLos (staleDemo false) 0x2010 (2 ^ 64 - 1) = none ∧ findLos (staleDemo true) 0x2010 (2 ^ 64 - 1) = none ∧
    findLosHoisted (staleDemo false) 0x2010 (2 ^ 64 - 1) = none ∧
    findLosHoisted (staleDemo true) 0x2010 (2 ^ 64 - 1) = some 0x1008 := by decide

/-- the hypotheses of `findLos_reads_mapped_only` / `findLos_none_of_no_vo` are satisfiable (and the conclusion is
not vacuous: the two memories differ) -/
example : findLos (staleDemo true) 0x2010 (2 ^ 64 - 1) = findLos (staleDemo false) 0x2010 (2 ^ 64 - 1) :=
  findLos_reads_mapped_only (staleDemo false) (staleDemo true)
    ⟨rfl, rfl, rfl, rfl, fun page k _ hm => by
      have : 0x2000 ≤ page := by simp [staleDemo] at hm; omega
      simp [staleDemo]; omega⟩
    (by decide)
    (fun a => by
      simp only [staleDemo, alignDown]
      have := Nat.div_add_mod a 0x2000
      have := Nat.mod_lt a (show 0 < 0x2000 by decide)
      by_cases h : 0x2000 ≤ a ∧ a < 0x4000
      · have : 0x2000 ≤ a - a % 0x2000 ∧ a - a % 0x2000 < 0x4000 := by omega
        simp [h, this]
      · have : ¬ (0x2000 ≤ a - a % 0x2000 ∧ a - a % 0x2000 < 0x4000) := by omega
        simp [h, this])
    0x2010 (2 ^ 64 - 1) (by decide)
example : findLos (staleDemo false) 0x2010 (2 ^ 64 - 1) = none :=
  findLos_none_of_no_vo _ _ _ (fun a _ => by simp [staleDemo])

/-- a three-page large object at 0x10000 (reference 0x10008), everything mapped -/
def losDemo : Env :=
  { vo := fun a => a == 0x10008, mapped := fun _ => true, voMapped := fun _ => true, gran := 4194304, refOff := 8,
    size := fun _ => 0x3000 }

/-- **witness** (decide): `p` = 0x11000 lies 0xff8 bytes above the reference, the search limit is 8 bytes, and the
lookup still answers the object: the LOS applies `max_search_bytes` to pages only. -/
theorem los_limit_witness : findLos losDemo 0x11000 8 = some 0x10008 ∧ ¬ (0x11000 - 0x10008 < 8) := by decide

/-! ## the hypotheses are satisfiable -/

/-- two objects of 32 and 48 bytes at 0x1000 / 0x1020 (references 8 bytes above their starts) -/
def demo : Env :=
  { vo := fun a => a == 0x1008 || a == 0x1028, mapped := fun _ => true, voMapped := fun _ => true, gran := 4194304,
    refOff := 8, size := fun a => if a == 0x1008 then 32 else 48 }

example : findFromInternal (.generic none) demo 0x1018 64 = some 0x1008 ∧ findFromInternal (.generic none) demo 0x1020 64 = none ∧ findFromInternal (.generic none) demo 0x1028 64 = some 0x1028
    ∧ findFromInternal (.generic none) demo 0x1050 64 = none ∧ findFromInternal (.generic none) demo 0x1048 16 = none
    ∧ findFromInternal (.generic (some 16)) demo 0x1048 4096 = none ∧ findFromInternal .empty demo 0x1018 64 = none := by decide

end Mmtk.IntPtr
