import MmtkModel.Model.WeakRounds
/-!
# C13 (part `weak rounds`) — the sentinel protocol of the `VMRefClosure` bucket

(module `MmtkModel.Props.C13Weak`; the scheduler-ordering theorems of C13 are package `sched`'s `Props/C13.lean`)

For every interleaving of any number of workers (`exec (init n) acts`, `acts` arbitrary):
* `round_starts_drained`: every call of `process_weak_refs` begins with the bucket drained — nothing queued,
  nothing running: the closure of everything traced so far is complete;
* `sentinel_reinstalled_iff`: the packet is re-installed as the sentinel iff the call returned `true`;
* `rounds_until_false`: all calls but the last returned `true`; the next bucket opens only after a call returned
  `false`; after a `false` no sentinel is left anywhere, so no further call happens;
* `rounds_bound`: #calls ≤ #`true` answers + 1.
The scheduler-wide facts (the guard of `lastParked` is what `on_last_parked` sees, buckets open in order) are
package `sched`'s theorems.
-/
namespace Mmtk.WeakRounds

/-- the invariant of the protocol -/
structure Inv (s : St) : Prop where
  /-- a scheduled sentinel packet is alone in the bucket -/
  sq_alone : s.sq = true → s.queue = 0 ∧ s.running = 0
  /-- at most one incarnation of the packet exists -/
  one : (s.sq = true → s.sr = false ∧ s.sentinel = false) ∧ (s.sr = true → s.sentinel = false)
  /-- every call began on a drained bucket -/
  drained : ∀ b ∈ s.drained, b = true
  /-- all answers but the last are `true` -/
  prefix_true : ∀ b ∈ s.rets.dropLast, b = true
  /-- a sentinel exists somewhere iff no call has answered `false` yet -/
  alive : (s.sentinel = true ∨ s.sq = true ∨ s.sr = true) ↔ (s.rets.getLast? ≠ some false)
  /-- the next bucket opens only after the last answer was `false` -/
  done_after_false : s.done = true → s.rets.getLast? = some false

theorem init_inv (n : Nat) : Inv (init n) where
  sq_alone := by intro h; cases h
  one := ⟨(by intro h; cases h), (by intro h; cases h)⟩
  drained := by intro b h; cases h
  prefix_true := by intro b h; cases h
  alive := by simp [init]
  done_after_false := by intro h; cases h

theorem getLast?_append_singleton (l : List Bool) (b : Bool) : (l ++ [b]).getLast? = some b := by
  simp

theorem dropLast_append_singleton (l : List Bool) (b : Bool) : (l ++ [b]).dropLast = l := by
  simp

theorem mem_of_mem_dropLast {l : List Bool} {b : Bool} (h : b ∈ l.dropLast) : b ∈ l :=
  List.dropLast_subset l h

theorem step_inv (s : St) (a : Act) (h : Inv s) : Inv (step s a) := by
  obtain ⟨h1, ⟨h2a, h2b⟩, h3, h4, h5, h6⟩ := h
  cases a with
  | start =>
    simp only [step]
    split
    · rename_i hq
      refine ⟨?_, ⟨h2a, h2b⟩, h3, h4, h5, h6⟩
      intro hs
      have := h1 hs
      omega
    · exact ⟨h1, ⟨h2a, h2b⟩, h3, h4, h5, h6⟩
  | spawn =>
    simp only [step]
    split
    · rename_i hq
      refine ⟨?_, ⟨h2a, h2b⟩, h3, h4, h5, h6⟩
      intro hs
      have h7 := h1 hs
      have h8 := (h2a hs).1
      rcases hq with hq | hq
      · omega
      · rw [h8] at hq; cases hq
    · exact ⟨h1, ⟨h2a, h2b⟩, h3, h4, h5, h6⟩
  | finish =>
    simp only [step]
    split
    · rename_i hq
      refine ⟨?_, ⟨h2a, h2b⟩, h3, h4, h5, h6⟩
      intro hs
      have := h1 hs
      omega
    · exact ⟨h1, ⟨h2a, h2b⟩, h3, h4, h5, h6⟩
  | lastParked =>
    simp only [step]
    split
    · rename_i hg
      obtain ⟨g1, g2, g3, g4, g5⟩ := hg
      split
      · rename_i hs
        refine ⟨fun _ => ⟨g1, g2⟩, ⟨fun _ => ⟨g4, rfl⟩, fun hsr => by simp [g4] at hsr⟩, h3, h4, ?_, h6⟩
        simp only [true_or, or_true, true_iff]
        exact h5.1 (Or.inl hs)
      · rename_i hs
        have hs' : s.sentinel = false := by simpa using hs
        refine ⟨h1, ⟨h2a, h2b⟩, h3, h4, h5, ?_⟩
        intro _
        have : ¬ (s.sentinel = true ∨ s.sq = true ∨ s.sr = true) := by simp [hs', g3, g4]
        have h7 := (not_congr h5).1 this
        simpa using h7
    · exact ⟨h1, ⟨h2a, h2b⟩, h3, h4, h5, h6⟩
  | callBegin =>
    simp only [step]
    split
    · rename_i hs
      have ⟨hq, hr⟩ := h1 hs
      have ⟨hsr, hsen⟩ := h2a hs
      refine ⟨(by intro h; cases h), ⟨(by intro h; cases h), fun _ => hsen⟩, ?_, h4, ?_, h6⟩
      · intro b hb
        rcases List.mem_append.1 hb with hb | hb
        · exact h3 b hb
        · simp only [List.mem_singleton] at hb
          rw [hb]; simp [hq, hr]
      · simp only [or_true, true_iff]
        exact h5.1 (Or.inr (Or.inl hs))
    · exact ⟨h1, ⟨h2a, h2b⟩, h3, h4, h5, h6⟩
  | callEnd ret =>
    simp only [step]
    split
    · rename_i hs
      have hsen := h2b hs
      have hsq : s.sq = false := by
        cases hq : s.sq with
        | false => rfl
        | true => have := (h2a hq).1; rw [hs] at this; cases this
      have hlast : s.rets.getLast? ≠ some false := h5.1 (Or.inr (Or.inr hs))
      refine ⟨(fun hq => by rw [hsq] at hq; cases hq), ⟨(fun hq => by rw [hsq] at hq; cases hq), (fun h => by cases h)⟩, h3, ?_, ?_, ?_⟩
      · rw [dropLast_append_singleton]
        intro b hb
        -- every earlier answer is `true`: the prefix by `h4`, the last one because a sentinel was alive
        rcases List.eq_nil_or_concat s.rets with hnil | ⟨l, x, hl⟩
        · rw [hnil] at hb; cases hb
        · rw [hl] at hb h4 hlast
          simp only [List.concat_eq_append] at hb h4 hlast
          rw [dropLast_append_singleton] at h4
          rw [getLast?_append_singleton] at hlast
          rcases List.mem_append.1 hb with hb | hb
          · exact h4 b hb
          · simp only [List.mem_singleton] at hb
            subst hb
            cases b with
            | true => rfl
            | false => exact absurd rfl hlast
      · rw [getLast?_append_singleton]
        cases ret with
        | true => simp
        | false => simp [hsen, hsq]
      · intro hd
        have := h6 hd
        exact absurd this hlast
    · exact ⟨h1, ⟨h2a, h2b⟩, h3, h4, h5, h6⟩

theorem exec_inv (s : St) (acts : List Act) (h : Inv s) : Inv (exec s acts) := by
  induction acts generalizing s with
  | nil => exact h
  | cons a rest ih => exact ih _ (step_inv s a h)

/-- reachable from the moment the bucket opens with `n` packets in it -/
def Reachable (s : St) : Prop := ∃ n acts, s = exec (init n) acts

theorem reachable_inv {s : St} (h : Reachable s) : Inv s := by
  obtain ⟨n, acts, rfl⟩ := h
  exact exec_inv _ _ (init_inv n)

/-- **C13 (1)** every `process_weak_refs` call starts from a drained bucket: no packet of the stage is queued or
running, i.e. the closure of everything traced so far is complete. -/
theorem round_starts_drained {s : St} (h : Reachable s) : ∀ b ∈ s.drained, b = true :=
  (reachable_inv h).drained

/-- the same at the moment of the call: when a worker can take the sentinel packet, it is alone -/
theorem call_enabled_drained {s : St} (h : Reachable s) (hq : s.sq = true) : s.queue = 0 ∧ s.running = 0 :=
  (reachable_inv h).sq_alone hq

/-- **C13 (2)** the packet is re-installed as the sentinel iff `process_weak_refs` returned `true`. -/
theorem sentinel_reinstalled_iff {s : St} (h : Reachable s) (hs : s.sr = true) (ret : Bool) :
    (step s (.callEnd ret)).sentinel = ret ∧ (step s (.callEnd ret)).sq = false ∧ (step s (.callEnd ret)).sr = false := by
  have hi := reachable_inv h
  have hsen := hi.one.2 hs
  have hsq : s.sq = false := by
    cases hq : s.sq with
    | false => rfl
    | true => have := (hi.one.1 hq).1; rw [hs] at this; cases this
  simp only [step, hs, if_true]
  cases ret <;> simp [hsen, hsq]

/-- **C13 (3)** it is repeated exactly while it returned `true`: every answer but the last is `true`; once the answer is
`false` no sentinel is left (no further call); the next bucket opens only after a `false`. -/
theorem rounds_until_false {s : St} (h : Reachable s) :
    (∀ b ∈ s.rets.dropLast, b = true) ∧
    (s.rets.getLast? = some false → s.sentinel = false ∧ s.sq = false ∧ s.sr = false) ∧
    (s.done = true → s.rets.getLast? = some false) := by
  have hi := reachable_inv h
  refine ⟨hi.prefix_true, ?_, hi.done_after_false⟩
  intro hl
  have : ¬ (s.sentinel = true ∨ s.sq = true ∨ s.sr = true) := fun hx => hi.alive.1 hx hl
  simp only [not_or, Bool.not_eq_true] at this
  exact this

/-- after a `false` answer no action can start another call -/
theorem no_call_after_false {s : St} (h : Reachable s) (hl : s.rets.getLast? = some false) (a : Act) :
    (step s a).rets = s.rets := by
  obtain ⟨h1, h2, h3⟩ := (rounds_until_false h).2.1 hl
  cases a <;> simp [step, h1, h2, h3] <;> split <;> rfl

/-- **C13 (4)** the number of calls is at most the number of `true` answers plus one. -/
theorem rounds_bound {s : St} (h : Reachable s) : s.rets.length ≤ (s.rets.filter id).length + 1 := by
  have hp := (rounds_until_false h).1
  rcases List.eq_nil_or_concat s.rets with hnil | ⟨l, x, hl⟩
  · rw [hnil]; simp
  · rw [hl] at hp ⊢
    simp only [List.concat_eq_append] at hp ⊢
    rw [dropLast_append_singleton] at hp
    have hall : l.filter id = l := List.filter_eq_self.2 (fun b hb => by simp [hp b hb])
    simp only [List.filter_append, List.length_append, hall, List.length_cons, List.length_nil]
    omega

/-! ## a concrete run: two extra rounds (answers true, true, false), closure packets in between -/

def demoRun : List Act :=
  [.lastParked, .callBegin, .spawn, .spawn, .start, .callEnd true, .start, .spawn, .finish, .finish, .start, .finish,
   .lastParked, .callBegin, .spawn, .callEnd true, .start, .finish,
   .lastParked, .callBegin, .callEnd false, .lastParked]

example : (exec (init 0) demoRun).rets = [true, true, false] ∧ (exec (init 0) demoRun).done = true ∧
    (exec (init 0) demoRun).drained = [true, true, true] := by decide

/-- `lastParked` does nothing while a closure packet is still queued or running -/
example : step { (init 0) with queue := 1, sentinel := true } .lastParked = { (init 0) with queue := 1, sentinel := true } := by decide

/-- a step that is not enabled changes nothing (so a replay may insist on `enabled`) -/
theorem step_of_not_enabled (s : St) (a : Act) (h : enabled s a = false) : step s a = s := by
  cases a <;> simp [enabled] at h <;> simp [step]
  all_goals (try omega)
  all_goals (first | (intro; simp_all) | simp_all)

end Mmtk.WeakRounds
