import MmtkModel.Model.AllocModel
import MmtkModel.Props.C01Algo
/-!
# C02 (algorithm) — new allocations never overlap live objects

Model: `Model/AllocModel.lean`.  A state is a list of tagged regions (`free`, `buf t`, `obj id`) plus
the shadow heap.  The inductive invariant `Inv`:

* `Sep`    — all entries are pairwise disjoint: in particular **free / thread-local memory ∩ the
             extent of any object = ∅**, and any two objects are disjoint;
* `LiveIn` — every object reachable in the shadow heap has an `obj` entry (a reachable object is
             never released).

It is preserved (`inv_step`, `inv_run`) by every guarded transition: `carve` (grants, thread-local
allocation by any thread from its own buffers, direct allocation), `mutate` (reachability can only
shrink to already-allocated objects), `gc` (survivors ⊇ reachable; the memory handed back is
disjoint from the survivors).

* `alloc_disjoint_since_gc` — an object allocated at some point and an object allocated later, by
  any threads, with any grants / other allocations / mutator activity in between but no collection,
  never overlap.
* `alloc_avoids_live` — after ANY history (any number of collections), the result of a successful
  allocation is disjoint from the extent of every object reachable in the current shadow heap.
* `free_avoids_live` — the invariant in the form of the property text.
* guards discharged for the concrete steps: `bump_guard`, `refill_guard`, `cell_guard`, `los_guard`
  (allocators), `nextHole_spec` + `immix_hole_avoids_live` (Immix holes), `write_guard`,
  `setRoot_guard`, `publish_guard` (mutator), `sweep_guard` (a release that frees exactly the
  unmarked objects' memory, given `trace_reach_exact`), `fromspace_release_guard` (CopySpace),
  `immix_release_guard` (holes of free lines of a recycled block).
-/
namespace Mmtk.AllocModel
open Mmtk.Trace (Snap Obj Reach WF)

/-! ## regions -/

theorem Region.disjoint_symm {a b : Region} (h : a.disjoint b) : b.disjoint a := by
  unfold Region.disjoint at *; omega

theorem Region.disjoint_of_sub {a e x : Region} (hs : a.sub e) (hd : e.disjoint x) : a.disjoint x := by
  unfold Region.disjoint Region.sub Region.stop at *; omega

theorem Region.disjoint_of_sub_right {a e x : Region} (hs : a.sub e) (hd : x.disjoint e) : x.disjoint a :=
  Region.disjoint_symm (Region.disjoint_of_sub hs (Region.disjoint_symm hd))

theorem Region.sub_refl (a : Region) : a.sub a := ⟨Nat.le_refl _, Nat.le_refl _⟩

theorem Region.sub_trans {a b c : Region} (h1 : a.sub b) (h2 : b.sub c) : a.sub c := by
  unfold Region.sub Region.stop at *; omega

/-! ## the invariant -/

def Sep (mem : List Entry) : Prop := mem.Pairwise (fun a b => a.reg.disjoint b.reg)

def LiveIn (st : MState) : Prop := ∀ y, Reach st.S y → ∃ r, (⟨.obj y, r⟩ : Entry) ∈ st.mem

structure Inv (st : MState) : Prop where
  sep : Sep st.mem
  live : LiveIn st

/-- who may do what -/
def Guard (st : MState) : Op → Prop
  | .carve t i pieces =>
    ∃ e, st.mem[i]? = some e ∧ (e.tag = .free ∨ e.tag = .buf t) ∧
      (∀ p, p ∈ pieces → p.reg.sub e.reg) ∧ Sep pieces
  | .mutate S' => ∀ y, Reach S' y → Reach st.S y ∨ ∃ r, (⟨.obj y, r⟩ : Entry) ∈ st.mem
  | .gc S' keep newFree =>
    (∀ y, Reach S' y → keep y = true ∧ ∃ r, (⟨.obj y, r⟩ : Entry) ∈ st.mem) ∧
    newFree.Pairwise Region.disjoint ∧
    ∀ f, f ∈ newFree → ∀ e, e ∈ survivors st.mem keep → f.disjoint e.reg

/-- every step of the run satisfies its guard -/
def ValidRun : MState → List Op → Prop
  | _, [] => True
  | st, op :: rest => Guard st op ∧ ValidRun (apply st op) rest

theorem split_at {α : Type} {l : List α} {i : Nat} {e : α} (h : l[i]? = some e) :
    l = l.take i ++ e :: l.drop (i + 1) := by
  obtain ⟨hi, rfl⟩ := List.getElem?_eq_some_iff.mp h
  rw [← List.drop_eq_getElem_cons hi, List.take_append_drop]

/-- entries other than the `i`-th -/
theorem mem_others {α : Type} {l : List α} {i : Nat} {e x : α} (h : l[i]? = some e) (hx : x ∈ l)
    (hne : x ≠ e) : x ∈ l.take i ∨ x ∈ l.drop (i + 1) := by
  rw [split_at h] at hx
  simp only [List.mem_append, List.mem_cons] at hx
  rcases hx with h1 | h1 | h1
  · exact Or.inl h1
  · exact absurd h1 hne
  · exact Or.inr h1

theorem sep_others {l : List Entry} {i : Nat} {e x : Entry} (hs : Sep l) (h : l[i]? = some e)
    (hx : x ∈ l.take i ∨ x ∈ l.drop (i + 1)) : e.reg.disjoint x.reg := by
  have hs' : Sep (l.take i ++ e :: l.drop (i + 1)) := by rw [← split_at h]; exact hs
  simp only [Sep, List.pairwise_append, List.pairwise_cons, List.mem_cons] at hs'
  obtain ⟨_, ⟨h2, _⟩, h3⟩ := hs'
  rcases hx with hx | hx
  · exact Region.disjoint_symm (h3 x hx e (Or.inl rfl))
  · exact h2 x hx

theorem sep_replaceAt {l : List Entry} {i : Nat} {e : Entry} {ps : List Entry} (hs : Sep l)
    (he : l[i]? = some e) (hsub : ∀ p, p ∈ ps → p.reg.sub e.reg) (hps : Sep ps) :
    Sep (replaceAt l i ps) := by
  have hs' : Sep (l.take i ++ e :: l.drop (i + 1)) := by rw [← split_at he]; exact hs
  simp only [Sep, List.pairwise_append, List.pairwise_cons, List.mem_cons] at hs'
  obtain ⟨h1, ⟨h2, h2'⟩, h3⟩ := hs'
  simp only [Sep, replaceAt, List.pairwise_append, List.mem_append]
  refine ⟨h1, ⟨hps, h2', ?_⟩, ?_⟩
  · intro a ha b hb
    exact Region.disjoint_of_sub (hsub a ha) (h2 b hb)
  · intro a ha b hb
    rcases hb with hb | hb
    · exact Region.disjoint_of_sub_right (hsub b hb) (h3 a ha e (Or.inl rfl))
    · exact h3 a ha b (Or.inr hb)

theorem mem_replaceAt_of_others {α : Type} {l : List α} {i : Nat} {ps : List α} {x : α}
    (hx : x ∈ l.take i ∨ x ∈ l.drop (i + 1)) : x ∈ replaceAt l i ps := by
  simp only [replaceAt, List.mem_append]
  rcases hx with h | h
  · exact Or.inl h
  · exact Or.inr (Or.inr h)

theorem mem_replaceAt_piece {α : Type} {l : List α} {i : Nat} {ps : List α} {p : α} (hp : p ∈ ps) :
    p ∈ replaceAt l i ps := by
  simp only [replaceAt, List.mem_append]
  exact Or.inr (Or.inl hp)

/-- an object entry is never the source of a carve, so it persists -/
theorem obj_persists_carve {st : MState} {t i : Nat} {pieces : List Entry}
    (hg : Guard st (.carve t i pieces)) {x : Entry} {id : Nat} (hx : x ∈ st.mem) (ht : x.tag = .obj id) :
    x ∈ (apply st (.carve t i pieces)).mem := by
  obtain ⟨e, he, hte, _, _⟩ := hg
  have hne : x ≠ e := by
    intro h; subst h; rcases hte with h | h <;> rw [ht] at h <;> cases h
  exact mem_replaceAt_of_others (mem_others he hx hne)

theorem mem_survivors {mem : List Entry} {keep : Nat → Bool} {y : Nat} {r : Region}
    (h : (⟨.obj y, r⟩ : Entry) ∈ mem) (hk : keep y = true) : (⟨.obj y, r⟩ : Entry) ∈ survivors mem keep := by
  simp [survivors, keeps, h, hk]

theorem survivors_sub {mem : List Entry} {keep : Nat → Bool} {e : Entry} (h : e ∈ survivors mem keep) :
    e ∈ mem ∧ ∃ id, e.tag = .obj id ∧ keep id = true := by
  simp only [survivors, List.mem_filter, keeps] at h
  refine ⟨h.1, ?_⟩
  cases ht : e.tag with
  | free => simp [ht] at h
  | buf t => simp [ht] at h
  | obj id => exact ⟨id, rfl, by simpa [ht] using h.2⟩

/-- **Every guarded step preserves the invariant.** -/
theorem inv_step {st : MState} (inv : Inv st) (op : Op) (hg : Guard st op) : Inv (apply st op) := by
  cases op with
  | carve t i pieces =>
    have hg' := hg
    obtain ⟨e, he, hte, hsub, hps⟩ := hg'
    refine ⟨sep_replaceAt inv.sep he hsub hps, ?_⟩
    intro y hy
    obtain ⟨r, hr⟩ := inv.live y hy
    exact ⟨r, obj_persists_carve hg hr rfl⟩
  | mutate S' =>
    refine ⟨inv.sep, ?_⟩
    intro y hy
    rcases hg y hy with h | h
    · exact inv.live y h
    · exact h
  | gc S' keep newFree =>
    obtain ⟨h1, h2, h3⟩ := hg
    refine ⟨?_, ?_⟩
    · simp only [apply, Sep, List.pairwise_append, List.pairwise_map, List.mem_map]
      refine ⟨List.Pairwise.filter _ inv.sep, h2, ?_⟩
      intro a ha b hb
      obtain ⟨f, hf, rfl⟩ := hb
      exact Region.disjoint_symm (h3 f hf a ha)
    · intro y hy
      obtain ⟨hk, r, hr⟩ := h1 y hy
      exact ⟨r, by simp only [apply, List.mem_append]; exact Or.inl (mem_survivors hr hk)⟩

theorem inv_run {st : MState} (inv : Inv st) (ops : List Op) (hv : ValidRun st ops) : Inv (run st ops) := by
  induction ops generalizing st with
  | nil => exact inv
  | cons op rest ih => exact ih (inv_step inv op hv.1) hv.2

/-- between collections, object entries persist -/
theorem obj_persists_run {st : MState} (ops : List Op) (hv : ValidRun st ops)
    (hng : ∀ op, op ∈ ops → op.isGc = false) {x : Entry} {id : Nat} (hx : x ∈ st.mem)
    (ht : x.tag = .obj id) : x ∈ (run st ops).mem := by
  induction ops generalizing st with
  | nil => exact hx
  | cons op rest ih =>
    apply ih hv.2 (fun o ho => hng o (List.mem_cons_of_mem _ ho))
    cases op with
    | carve t i pieces => exact obj_persists_carve hv.1 hx ht
    | mutate S' => exact hx
    | gc S' keep newFree => have := hng _ List.mem_cons_self; simp [Op.isGc] at this

theorem sep_mem_ne {l : List Entry} (hl : Sep l) {a b : Entry} (ha : a ∈ l) (hb : b ∈ l) (hne : a ≠ b) :
    a.reg.disjoint b.reg := by
  induction l with
  | nil => cases ha
  | cons c l ih =>
    simp only [Sep, List.pairwise_cons] at hl
    rcases List.mem_cons.mp ha with h1 | h1 <;> rcases List.mem_cons.mp hb with h2 | h2
    · exact absurd (h1.trans h2.symm) hne
    · rw [h1]; exact hl.1 b h2
    · rw [h2]; exact Region.disjoint_symm (hl.1 a h1)
    · exact ih hl.2 h1 h2

theorem sep3 {a b c : Entry} (h1 : a.reg.disjoint b.reg) (h2 : a.reg.disjoint c.reg)
    (h3 : b.reg.disjoint c.reg) : Sep [a, b, c] := by
  simp [Sep, h1, h2, h3]

/-! ## The property theorems -/

/-- the result of a guarded carve is disjoint from every object entry that already exists -/
theorem carve_avoids_objs {st : MState} (inv : Inv st) {t i : Nat} {pieces : List Entry}
    (hg : Guard st (.carve t i pieces)) {p : Entry} (hp : p ∈ pieces) {x : Entry} {id : Nat}
    (hx : x ∈ st.mem) (ht : x.tag = .obj id) : p.reg.disjoint x.reg := by
  obtain ⟨e, he, hte, hsub, _⟩ := hg
  have hne : x ≠ e := by
    intro h; subst h; rcases hte with h | h <;> rw [ht] at h <;> cases h
  exact Region.disjoint_of_sub (hsub p hp) (sep_others inv.sep he (mem_others he hx hne))

/-- **alloc_disjoint_since_gc**.  Start in any state satisfying the invariant in which an object
`x` has been allocated (by whichever thread).  Let the mutators do anything (`ops`: grants,
allocations by any threads from their own buffers, graph mutation) — but no collection.  Then any
successful allocation step by any thread `t` (`carve`: its guard says the source is free memory or
`t`'s own buffer) yields pieces disjoint from `x`; the pieces of one step are pairwise disjoint; and
each piece is itself in the next state, so the statement applies to it in turn. -/
theorem alloc_disjoint_since_gc {st : MState} (inv : Inv st) {x : Entry} {id₁ : Nat}
    (hx : x ∈ st.mem) (ht : x.tag = .obj id₁)
    (ops : List Op) (hv : ValidRun st ops) (hng : ∀ op, op ∈ ops → op.isGc = false)
    (t i : Nat) (pieces : List Entry) (hg : Guard (run st ops) (.carve t i pieces)) :
    (∀ p, p ∈ pieces → p.reg.disjoint x.reg) ∧ Sep pieces ∧
    (∀ p, p ∈ pieces → p ∈ (apply (run st ops) (.carve t i pieces)).mem) ∧
    x ∈ (apply (run st ops) (.carve t i pieces)).mem := by
  have inv' := inv_run inv ops hv
  have hx' := obj_persists_run ops hv hng hx ht
  refine ⟨fun p hp => carve_avoids_objs inv' hg hp hx' ht, ?_, fun p hp => mem_replaceAt_piece hp,
    obj_persists_carve hg hx' ht⟩
  obtain ⟨_, _, _, _, hps⟩ := hg
  exact hps

/-- all objects of a state are pairwise disjoint (so: any two allocations since the last GC, and any
allocation and any survivor of earlier GCs) -/
theorem objs_pairwise_disjoint {st : MState} (inv : Inv st) : Sep st.mem := inv.sep

/-- **free_avoids_live** — the invariant in the words of the property: in every state reachable by
guarded steps, free memory and thread-local buffers share no byte with the extent of any reachable
object. -/
theorem free_avoids_live {st₀ : MState} (inv₀ : Inv st₀) (ops : List Op) (hv : ValidRun st₀ ops)
    (f : Entry) (hf : f ∈ (run st₀ ops).mem) (hft : ∀ id, f.tag ≠ .obj id)
    (y : Nat) (hy : Reach (run st₀ ops).S y) :
    ∃ r, (⟨.obj y, r⟩ : Entry) ∈ (run st₀ ops).mem ∧
      ∀ x, x ∈ (run st₀ ops).mem → x.tag = .obj y → f.reg.disjoint x.reg := by
  have inv := inv_run inv₀ ops hv
  obtain ⟨r, hr⟩ := inv.live y hy
  refine ⟨r, hr, ?_⟩
  intro x hx hxt
  have hne : f ≠ x := by intro h; subst h; exact hft y hxt
  exact sep_mem_ne inv.sep hf hx hne

/-- **alloc_avoids_live**.  After ANY guarded history from a good state — any number of collections,
grants, allocations, mutations — a successful allocation is disjoint from the extent of every object
reachable in the current shadow heap (and every such object does have an extent). -/
theorem alloc_avoids_live {st₀ : MState} (inv₀ : Inv st₀) (ops : List Op) (hv : ValidRun st₀ ops)
    (t i : Nat) (pieces : List Entry) (hg : Guard (run st₀ ops) (.carve t i pieces))
    (p : Entry) (hp : p ∈ pieces) (y : Nat) (hy : Reach (run st₀ ops).S y) :
    ∃ r, (⟨.obj y, r⟩ : Entry) ∈ (run st₀ ops).mem ∧
      ∀ x, x ∈ (run st₀ ops).mem → x.tag = .obj y → p.reg.disjoint x.reg := by
  have inv := inv_run inv₀ ops hv
  obtain ⟨r, hr⟩ := inv.live y hy
  exact ⟨r, hr, fun x hx hxt => carve_avoids_objs inv hg hp hx hxt⟩

/-- the empty heap satisfies the invariant: the theorems cover every history from boot -/
theorem inv_boot (free : List Region) (hf : free.Pairwise Region.disjoint) :
    Inv ⟨free.map (fun r => ⟨.free, r⟩), ⟨fun _ => none, []⟩⟩ := by
  refine ⟨by simpa [Sep, List.pairwise_map] using hf, ?_⟩
  intro y hy
  cases hy with
  | root h => cases h
  | field _ ho _ => cases ho

/-! ## Guards of the concrete allocator steps -/

/-- generic allocation step: object `r` and remainder `rest` out of entry `i` -/
theorem alloc_guard {st : MState} {t i id : Nat} {src : Entry} {r rest : Region} {restTag : Tag}
    (he : st.mem[i]? = some src) (hown : src.tag = .free ∨ src.tag = .buf t)
    (h1 : r.sub src.reg) (h2 : rest.sub src.reg) (h3 : r.disjoint rest) :
    Guard st (.carve t i [⟨.obj id, r⟩, ⟨restTag, rest⟩]) := by
  refine ⟨src, he, hown, ?_, ?_⟩
  · intro p hp
    simp only [List.mem_cons, List.mem_nil_iff, or_false] at hp
    rcases hp with rfl | rfl
    · exact h1
    · exact h2
  · simp [Sep, h3]

theorem bumpAlloc_spec {b b' : Bump} {pad size res : Nat} (h : bumpAlloc b pad size = some (res, b')) :
    res = b.cursor + pad ∧ b'.cursor = res + size ∧ b'.limit = b.limit ∧ b'.cursor ≤ b.limit := by
  simp only [bumpAlloc] at h
  split at h
  · cases h
  · simp only [Option.some.injEq, Prod.mk.injEq] at h
    obtain ⟨h1, h2⟩ := h
    subst h2
    refine ⟨h1.symm, ?_, rfl, ?_⟩ <;> simp only <;> omega

/-- **bump_guard**: a successful `BumpAllocator::alloc` / `ImmixAllocator::alloc` fast path is a
guarded carve of the thread's own buffer `[cursor, limit)` into the object and the new buffer. -/
theorem bump_guard {st : MState} {t i id : Nat} {b b' : Bump} {pad size res : Nat}
    (he : st.mem[i]? = some ⟨.buf t, b.region⟩) (h : bumpAlloc b pad size = some (res, b')) :
    Guard st (.carve t i [⟨.obj id, ⟨res, size⟩⟩, ⟨.buf t, b'.region⟩]) := by
  obtain ⟨h1, h2, h3, h4⟩ := bumpAlloc_spec h
  apply alloc_guard he (Or.inr rfl) <;>
    simp only [Region.sub, Region.disjoint, Region.stop, Bump.region] <;> omega

/-- two successive bump allocations from one allocator: the second starts after the first ends -/
theorem bump_seq {b b₁ b₂ : Bump} {pad₁ size₁ res₁ pad₂ size₂ res₂ : Nat}
    (h₁ : bumpAlloc b pad₁ size₁ = some (res₁, b₁)) (h₂ : bumpAlloc b₁ pad₂ size₂ = some (res₂, b₂)) :
    (⟨res₁, size₁⟩ : Region).disjoint ⟨res₂, size₂⟩ := by
  obtain ⟨_, a2, _, _⟩ := bumpAlloc_spec h₁
  obtain ⟨c1, _, _, _⟩ := bumpAlloc_spec h₂
  simp only [Region.disjoint, Region.stop]; omega

/-- **refill_guard**: `acquire_block` / `acquire_clean_block` / `acquire_recyclable_lines`: the new
buffer `[start, start+blockSize)` is carved out of a free entry; the two remainders stay free. -/
theorem refill_guard {st : MState} {t i : Nat} {f : Region} {start blockSize : Nat}
    (he : st.mem[i]? = some ⟨.free, f⟩) (hin : (⟨start, blockSize⟩ : Region).sub f) :
    Guard st (.carve t i
      [⟨.buf t, (bumpRefill start blockSize).region⟩,
       ⟨.free, ⟨f.start, start - f.start⟩⟩,
       ⟨.free, ⟨start + blockSize, f.stop - (start + blockSize)⟩⟩]) := by
  simp only [Region.sub, Region.stop] at hin
  refine ⟨_, he, Or.inl rfl, ?_, ?_⟩
  · intro p hp
    simp only [List.mem_cons, List.mem_nil_iff, or_false] at hp
    rcases hp with rfl | rfl | rfl <;>
      simp only [Region.sub, Region.stop, Bump.region, bumpRefill] <;> omega
  · apply sep3 <;> simp only [Region.disjoint, Region.stop, Bump.region, bumpRefill] <;> omega

/-! ### Immix: holes of free lines -/

theorem skipUsed_spec (lineFree : Nat → Bool) (n : Nat) (fuel line : Nat) (hf : n - line ≤ fuel) :
    line ≤ skipUsed lineFree n fuel line ∧
    (skipUsed lineFree n fuel line < n → lineFree (skipUsed lineFree n fuel line) = true) := by
  induction fuel generalizing line with
  | zero =>
    simp only [skipUsed]
    exact ⟨Nat.le_refl _, fun h => by omega⟩
  | succ fuel ih =>
    simp only [skipUsed]
    by_cases hc : (line < n && !lineFree line) = true
    · rw [if_pos hc]
      have := ih (line + 1) (by omega)
      exact ⟨by omega, this.2⟩
    · rw [if_neg hc]
      refine ⟨Nat.le_refl _, fun h => ?_⟩
      simp only [Bool.and_eq_true, decide_eq_true_eq, Bool.not_eq_true', not_and, Bool.not_eq_false] at hc
      exact hc h

theorem skipFree_spec (lineFree : Nat → Bool) (n : Nat) (fuel line : Nat) :
    line ≤ skipFree lineFree n fuel line ∧ skipFree lineFree n fuel line ≤ max line n ∧
    (∀ k, line ≤ k → k < skipFree lineFree n fuel line → lineFree k = true) ∧
    (0 < fuel → line < n → lineFree line = true → line < skipFree lineFree n fuel line) := by
  induction fuel generalizing line with
  | zero =>
    simp only [skipFree]
    exact ⟨Nat.le_refl _, by omega, fun k h1 h2 => by omega, fun h => by omega⟩
  | succ fuel ih =>
    simp only [skipFree]
    by_cases hc : (line < n && lineFree line) = true
    · rw [if_pos hc]
      obtain ⟨a1, a2, a3, _⟩ := ih (line + 1)
      simp only [Bool.and_eq_true, decide_eq_true_eq] at hc
      refine ⟨by omega, by omega, ?_, fun _ _ _ => by omega⟩
      intro k h1 h2
      by_cases hk : k = line
      · rw [hk]; exact hc.2
      · exact a3 k (by omega) h2
    · rw [if_neg hc]
      refine ⟨Nat.le_refl _, by omega, fun k h1 h2 => by omega, ?_⟩
      intro _ h1 h2
      simp [h1, h2] at hc

/-- **nextHole_spec** (`get_next_available_lines`): a returned hole `[s, e)` lies at or after the
search cursor, inside the block, is non-empty, and consists of free lines only. -/
theorem nextHole_spec (lineFree : Nat → Bool) (n search s e : Nat)
    (h : nextHole lineFree n search = some (s, e)) :
    search ≤ s ∧ s < e ∧ e ≤ n ∧ ∀ k, s ≤ k → k < e → lineFree k = true := by
  simp only [nextHole] at h
  split at h
  · rename_i hlt
    simp only [Option.some.injEq, Prod.mk.injEq] at h
    obtain ⟨hs, he⟩ := h
    have h1 := skipUsed_spec lineFree n (n - search) search (Nat.le_refl _)
    rw [hs] at h1 hlt he
    obtain ⟨b1, b2, b3, b4⟩ := skipFree_spec lineFree n (n - s) s
    rw [he] at b1 b2 b3 b4
    refine ⟨h1.1, b4 (by omega) hlt (h1.2 hlt), by omega, b3⟩
  · cases h

/-- **immix_hole_avoids_live**: a (non-empty) live object that touches no free line of the block
shares no byte with a hole of free lines — so nothing bump-allocated inside the hole overlaps it. -/
theorem immix_hole_avoids_live (base L s e : Nat) (hse : s < e) (ro : Region) (hpos : 0 < ro.size)
    (hfree : ∀ k, s ≤ k → k < e → (lineRegion base L k).disjoint ro) :
    ro.stop ≤ (holeBump base L s e).cursor ∨ (holeBump base L s e).limit ≤ ro.start := by
  simp only [holeBump]
  obtain ⟨d, rfl⟩ : ∃ d, e = s + 1 + d := ⟨e - s - 1, by omega⟩
  clear hse
  induction d with
  | zero =>
    have := hfree s (Nat.le_refl _) (by omega)
    simp only [lineRegion, Region.disjoint, Region.stop] at this
    rw [Nat.add_zero, Nat.succ_mul]; simp only [Region.stop]; omega
  | succ d ih =>
    have ih' := ih (fun k h1 h2 => hfree k h1 (by omega))
    have := hfree (s + 1 + d) (by omega) (by omega)
    simp only [lineRegion, Region.disjoint, Region.stop] at this
    have e1 : (s + 1 + (d + 1)) * L = (s + 1 + d) * L + L := by
      rw [← Nat.add_assoc, Nat.succ_mul]
    rw [e1]
    simp only [Region.stop] at ih' ⊢
    omega

/-- bump allocation inside a hole returned by the hole search avoids every such object -/
theorem immix_alloc_avoids_live (lineFree : Nat → Bool) (n search s e base L : Nat)
    (h : nextHole lineFree n search = some (s, e)) (ro : Region) (hpos : 0 < ro.size)
    (hlive : ∀ k, k < n → lineFree k = true → (lineRegion base L k).disjoint ro)
    (pad size res : Nat) (b' : Bump) (ha : bumpAlloc (holeBump base L s e) pad size = some (res, b')) :
    (⟨res, size⟩ : Region).disjoint ro := by
  obtain ⟨_, h2, h3, h4⟩ := nextHole_spec lineFree n search s e h
  have := immix_hole_avoids_live base L s e h2 ro hpos
    (fun k h1 hk => hlive k (by omega) (h4 k h1 hk))
  obtain ⟨c1, c2, c3, c4⟩ := bumpAlloc_spec ha
  simp only [Region.disjoint, Region.stop] at this ⊢
  omega

/-! ### what a collection hands back: whole from-spaces, and the holes of recycled Immix blocks -/

/-- **fromspace_release_guard** (`CopySpace::release` + `MonotonePageResource::reset`; nursery of the
generational plans): all survivors are copies that the copy allocators placed in a to-space `Y`
disjoint from the from-space `X`; then handing back all of `X` is a guarded `gc` step. -/
theorem fromspace_release_guard {st : MState} (S' : Snap) (keep : Nat → Bool) (X Y : Region)
    (hlive : ∀ y, Reach S' y → keep y = true ∧ ∃ r, (⟨.obj y, r⟩ : Entry) ∈ st.mem)
    (hXY : X.disjoint Y) (hsurv : ∀ e, e ∈ survivors st.mem keep → e.reg.sub Y) :
    Guard st (.gc S' keep [X]) := by
  refine ⟨hlive, by simp, ?_⟩
  intro f hf e he
  simp only [List.mem_cons, List.mem_nil_iff, or_false] at hf
  subst hf
  exact Region.disjoint_of_sub_right (hsurv e he) hXY

theorem allHoles_spec (lineFree : Nat → Bool) (n fuel search : Nat) (h : Nat × Nat)
    (hh : h ∈ allHoles lineFree n fuel search) :
    search ≤ h.1 ∧ h.1 < h.2 ∧ h.2 ≤ n ∧ ∀ k, h.1 ≤ k → k < h.2 → lineFree k = true := by
  induction fuel generalizing search with
  | zero => cases hh
  | succ fuel ih =>
    simp only [allHoles] at hh
    cases hn : nextHole lineFree n search with
    | none => simp [hn] at hh
    | some se =>
      obtain ⟨s, e⟩ := se
      simp only [hn, List.mem_cons] at hh
      obtain ⟨a1, a2, a3, a4⟩ := nextHole_spec lineFree n search s e hn
      rcases hh with rfl | hh
      · exact ⟨a1, a2, a3, a4⟩
      · obtain ⟨b1, b2, b3, b4⟩ := ih e hh
        exact ⟨by omega, b2, b3, b4⟩

theorem allHoles_sorted (lineFree : Nat → Bool) (n fuel search : Nat) :
    (allHoles lineFree n fuel search).Pairwise (fun a b => a.2 ≤ b.1) := by
  induction fuel generalizing search with
  | zero => exact List.Pairwise.nil
  | succ fuel ih =>
    simp only [allHoles]
    cases hn : nextHole lineFree n search with
    | none => exact List.Pairwise.nil
    | some se =>
      obtain ⟨s, e⟩ := se
      simp only [List.pairwise_cons]
      exact ⟨fun b hb => (allHoles_spec lineFree n fuel e b hb).1, ih e⟩

theorem holeRegion_stop (base L : Nat) (h : Nat × Nat) (hle : h.1 ≤ h.2) :
    (holeRegion base L h).stop = base + h.2 * L := by
  simp only [holeRegion, Region.stop]
  have : h.1 * L + (h.2 - h.1) * L = h.2 * L := by
    rw [← Nat.add_mul, Nat.add_sub_cancel' hle]
  omega

/-- **immix_release_guard**: after a collection a recycled block (at `base`, `n` lines of `L` bytes)
contributes exactly its holes of free lines to the free memory.  If the line marks are conservative
— every survivor (non-empty) touches no free line — this is a guarded `gc` step: the holes are
pairwise disjoint and share no byte with any survivor. -/
theorem immix_release_guard {st : MState} (S' : Snap) (keep : Nat → Bool)
    (lineFree : Nat → Bool) (n base L : Nat)
    (hlive : ∀ y, Reach S' y → keep y = true ∧ ∃ r, (⟨.obj y, r⟩ : Entry) ∈ st.mem)
    (hmarks : ∀ e, e ∈ survivors st.mem keep →
      0 < e.reg.size ∧ ∀ k, k < n → lineFree k = true → (lineRegion base L k).disjoint e.reg) :
    Guard st (.gc S' keep ((allHoles lineFree n n 0).map (holeRegion base L))) := by
  refine ⟨hlive, ?_, ?_⟩
  · rw [List.pairwise_map]
    have hs := allHoles_sorted lineFree n n 0
    have hall : ∀ h, h ∈ allHoles lineFree n n 0 → h.1 < h.2 :=
      fun h hh => (allHoles_spec lineFree n n 0 h hh).2.1
    -- sorted holes with `a.2 ≤ b.1` are disjoint regions
    revert hs hall
    generalize allHoles lineFree n n 0 = l
    intro hs hall
    induction l with
    | nil => exact List.Pairwise.nil
    | cons a l ih =>
      simp only [List.pairwise_cons] at hs ⊢
      refine ⟨?_, ih hs.2 (fun h hh => hall h (List.mem_cons_of_mem _ hh))⟩
      intro b hb
      left
      rw [holeRegion_stop base L a (Nat.le_of_lt (hall a List.mem_cons_self))]
      have : a.2 * L ≤ b.1 * L := Nat.mul_le_mul_right L (hs.1 b hb)
      simp only [holeRegion]; omega
  · intro f hf e he
    obtain ⟨h, hh, rfl⟩ := List.mem_map.mp hf
    obtain ⟨_, a2, a3, a4⟩ := allHoles_spec lineFree n n 0 h hh
    obtain ⟨hpos, hfree⟩ := hmarks e he
    have := immix_hole_avoids_live base L h.1 h.2 a2 e.reg hpos
      (fun k h1 hk => hfree k (by omega) (a4 k h1 hk))
    simp only [holeBump] at this
    simp only [Region.disjoint]
    rw [holeRegion_stop base L h (Nat.le_of_lt a2)]
    simp only [holeRegion]
    omega

/-! ### free-list cells -/

theorem cell_disjoint (base c k k' : Nat) (h : k ≠ k') :
    (cellRegion base c k).disjoint (cellRegion base c k') := by
  simp only [cellRegion, Region.disjoint, Region.stop]
  rcases Nat.lt_or_gt_of_ne h with hlt | hlt
  · left
    have : (k + 1) * c ≤ k' * c := Nat.mul_le_mul_right c hlt
    rw [Nat.succ_mul] at this; omega
  · right
    have : (k' + 1) * c ≤ k * c := Nat.mul_le_mul_right c hlt
    rw [Nat.succ_mul] at this; omega

theorem cellAlloc_spec {b b' : CellBlock} {a : Nat} (h : cellAlloc b = some (a, b')) :
    ∃ k, b.freeList = k :: b'.freeList ∧ a = b.base + k * b.cell ∧ b'.base = b.base ∧ b'.cell = b.cell := by
  simp only [cellAlloc] at h
  split at h
  · cases h
  · rename_i k rest hk
    simp only [Option.some.injEq, Prod.mk.injEq] at h
    obtain ⟨h1, h2⟩ := h
    subst h2
    exact ⟨k, hk, h1.symm, rfl, rfl⟩

/-- two pops from a duplicate-free free list return different, hence disjoint, cells -/
theorem cell_seq {b b₁ b₂ : CellBlock} {a₁ a₂ : Nat} (hnd : b.freeList.Nodup)
    (h₁ : cellAlloc b = some (a₁, b₁)) (h₂ : cellAlloc b₁ = some (a₂, b₂)) :
    (⟨a₁, b.cell⟩ : Region).disjoint ⟨a₂, b.cell⟩ := by
  obtain ⟨k, hk, ha, hb, hc⟩ := cellAlloc_spec h₁
  obtain ⟨k', hk', ha', _, _⟩ := cellAlloc_spec h₂
  rw [hk, hk'] at hnd
  have hne : k ≠ k' := by
    intro e; subst e; simp at hnd
  rw [ha, ha', hb, hc]
  exact cell_disjoint b.base b.cell k k' hne

/-- **cell_guard**: `FreeListAllocator::alloc`: the popped cell is the thread's own memory; the
object (aligned inside the cell, `res + size ≤ cell + cell_size` as the code asserts) is carved out
of it. -/
theorem cell_guard {st : MState} {t i id : Nat} {b b' : CellBlock} {a pad size : Nat}
    (_h : cellAlloc b = some (a, b')) (he : st.mem[i]? = some ⟨.buf t, ⟨a, b.cell⟩⟩)
    (hfit : pad + size ≤ b.cell) :
    Guard st (.carve t i [⟨.obj id, ⟨a + pad, size⟩⟩]) := by
  refine ⟨_, he, Or.inr rfl, ?_, by simp [Sep]⟩
  intro p hp
  simp only [List.mem_cons, List.mem_nil_iff, or_false] at hp
  subst hp
  simp only [Region.sub, Region.stop]; omega

/-- **los_guard**: `LargeObjectAllocator::alloc`: a page run carved directly out of free memory. -/
theorem los_guard {st : MState} {t i id : Nat} {f : Region} {start pages pageBytes : Nat}
    (he : st.mem[i]? = some ⟨.free, f⟩) (hin : (losAlloc start pages pageBytes).sub f) :
    Guard st (.carve t i
      [⟨.obj id, losAlloc start pages pageBytes⟩,
       ⟨.free, ⟨f.start, start - f.start⟩⟩,
       ⟨.free, ⟨start + pages * pageBytes, f.stop - (start + pages * pageBytes)⟩⟩]) := by
  simp only [Region.sub, Region.stop, losAlloc] at hin
  refine ⟨_, he, Or.inl rfl, ?_, ?_⟩
  · intro p hp
    simp only [List.mem_cons, List.mem_nil_iff, or_false] at hp
    rcases hp with rfl | rfl | rfl <;>
      simp only [Region.sub, Region.stop, losAlloc] <;> omega
  · apply sep3 <;> simp only [Region.disjoint, Region.stop, losAlloc] <;> omega

/-! ## Guards of mutator steps: reachability only shrinks to already-allocated objects -/

/-- **write_guard**: storing a reachable reference (or null) into a field of an object. -/
theorem write_guard (st : MState) (o j : Nat) (v : Option Nat)
    (hv : ∀ x, v = some x → Reach st.S x) : Guard st (.mutate (writeField st.S o j v)) := by
  intro y hy
  left
  induction hy with
  | root h => exact Reach.root h
  | @field i ob r _ ho hr ih =>
    simp only [writeField] at ho
    by_cases hi : i = o
    · subst hi
      simp only [if_true] at ho
      cases hob : st.S.heap i with
      | none => simp [hob] at ho
      | some ob0 =>
        simp only [hob, Option.map_some, Option.some.injEq] at ho
        subst ho
        rcases List.mem_or_eq_of_mem_set hr with h | h
        · exact Reach.field ih hob h
        · exact hv r h.symm
    · simp only [hi, if_false] at ho
      exact Reach.field ih ho hr

/-- **setRoot_guard**: overwriting a root slot with null or a reachable reference. -/
theorem setRoot_guard (st : MState) (k : Nat) (v : Option Nat)
    (hv : ∀ x, v = some x → Reach st.S x) : Guard st (.mutate (setRoot st.S k v)) := by
  intro y hy
  left
  induction hy with
  | root h =>
    simp only [setRoot] at h
    rcases List.mem_or_eq_of_mem_set h with h | h
    · exact Reach.root h
    · exact hv _ h.symm
  | field _ ho hr ih => exact Reach.field ih ho hr

/-- **publish_guard**: a freshly allocated object (it has an `obj` entry; its id is not yet part of
the graph) is initialised with reachable references and put into a new root slot. -/
theorem publish_guard (st : MState) (id : Nat) (ob : Obj) (r : Region)
    (hentry : (⟨.obj id, r⟩ : Entry) ∈ st.mem)
    (hv : ∀ x, some x ∈ ob.fields → Reach st.S x ∨ x = id) :
    Guard st (.mutate (publish st.S id ob)) := by
  have key : ∀ y, Reach (publish st.S id ob) y → Reach st.S y ∨ y = id := by
    intro y hy
    induction hy with
    | root h =>
      simp only [publish, List.mem_append, List.mem_cons, Option.some.injEq, List.mem_nil_iff, or_false] at h
      rcases h with h | h
      · exact Or.inl (Reach.root h)
      · exact Or.inr h
    | @field i ob' x _ ho hr ih =>
      simp only [publish] at ho
      by_cases hi : i = id
      · simp only [hi, if_true, Option.some.injEq] at ho
        subst ho
        exact hv x hr
      · simp only [hi, if_false] at ho
        rcases ih with h | h
        · exact Or.inl (Reach.field h ho hr)
        · exact absurd h hi
  intro y hy
  rcases key y hy with h | h
  · exact Or.inl h
  · subst h; exact Or.inr ⟨r, hentry⟩

/-! ## Guard of a collection that frees exactly the unmarked objects' memory -/

/-- the memory of everything that does not survive -/
def sweptFree (mem : List Entry) (keep : Nat → Bool) : List Region :=
  (mem.filter (fun e => !keeps keep e)).map Entry.reg

/-- **sweep_guard** (native mark-sweep cells, large-object page runs, and — with `keep` = "has a
to-space copy" — the wholesale release of a from-space): the collector ran the closure of C01 on the
current shadow heap to completion; `keep` = its mark table; everything else (dead objects' extents,
retired buffers, old free memory) is handed back.  By `trace_reach_exact` this is a guarded `gc`
step: it frees only unreachable objects' memory. -/
theorem sweep_guard {st : MState} (inv : Inv st) (wf : WF st.S) (moves : Nat → Bool) (run : List Nat)
    (hfin : (Trace.exec st.S moves (Trace.init st.S) run).pending = []) :
    Guard st (.gc st.S (Trace.markedBy (Trace.exec st.S moves (Trace.init st.S) run))
      (sweptFree st.mem (Trace.markedBy (Trace.exec st.S moves (Trace.init st.S) run)))) := by
  refine ⟨?_, ?_, ?_⟩
  · intro y hy
    exact ⟨(Trace.trace_reach_exact wf run hfin y).mpr hy, inv.live y hy⟩
  · simp only [sweptFree, List.pairwise_map]
    exact List.Pairwise.filter _ inv.sep
  · intro f hf e he
    simp only [sweptFree, List.mem_map, List.mem_filter] at hf
    obtain ⟨x, ⟨hx, hxk⟩, rfl⟩ := hf
    simp only [survivors, List.mem_filter] at he
    have hne : x ≠ e := by
      intro h; subst h; simp [he.2] at hxk
    exact sep_mem_ne inv.sep hx he.1 hne

/-! ## Non-vacuity: a concrete history with two mutators, their buffers, a graph and a collection -/

def exBoot : MState := ⟨[⟨.free, ⟨0, 256⟩⟩], ⟨fun _ => none, []⟩⟩

/-- thread 1 is granted `[0,128)`, allocates object 10 = `[0,24)`; thread 2 is granted `[128,256)`,
allocates object 11 = `[136,152)` (8 bytes of alignment padding); both are published, 11 → 10 -/
def exOps : List Op :=
  [ .carve 1 0 [⟨.buf 1, ⟨0, 128⟩⟩, ⟨.free, ⟨0, 0⟩⟩, ⟨.free, ⟨128, 128⟩⟩],
    .carve 1 0 [⟨.obj 10, ⟨0, 24⟩⟩, ⟨.buf 1, ⟨24, 104⟩⟩],
    .carve 2 3 [⟨.buf 2, ⟨128, 128⟩⟩, ⟨.free, ⟨128, 0⟩⟩, ⟨.free, ⟨256, 0⟩⟩],
    .carve 2 3 [⟨.obj 11, ⟨136, 16⟩⟩, ⟨.buf 2, ⟨152, 104⟩⟩],
    .mutate (publish (⟨fun _ => none, []⟩ : Snap) 10 ⟨24, 1, [none]⟩),
    .mutate (publish (publish (⟨fun _ => none, []⟩ : Snap) 10 ⟨24, 1, [none]⟩) 11 ⟨16, 2, [some 10]⟩) ]

example : (run exBoot exOps).mem =
    [⟨.obj 10, ⟨0, 24⟩⟩, ⟨.buf 1, ⟨24, 104⟩⟩, ⟨.free, ⟨0, 0⟩⟩, ⟨.obj 11, ⟨136, 16⟩⟩, ⟨.buf 2, ⟨152, 104⟩⟩,
     ⟨.free, ⟨128, 0⟩⟩, ⟨.free, ⟨256, 0⟩⟩] := by decide

theorem exOps_valid : ValidRun exBoot exOps := by
  refine ⟨?_, ?_, ?_, ?_, ?_, ?_, trivial⟩
  · exact refill_guard (f := ⟨0, 256⟩) (start := 0) (blockSize := 128) rfl (by decide)
  · exact bump_guard (b := ⟨0, 128⟩) (b' := ⟨24, 128⟩) (pad := 0) (size := 24) (res := 0) rfl rfl
  · exact refill_guard (f := ⟨128, 128⟩) (start := 128) (blockSize := 128) rfl (by decide)
  · exact bump_guard (b := ⟨128, 256⟩) (b' := ⟨152, 256⟩) (pad := 8) (size := 16) (res := 136) rfl rfl
  · exact publish_guard _ 10 _ ⟨0, 24⟩ (by decide) (by intro x hx; simp at hx)
  · refine publish_guard _ 11 _ ⟨136, 16⟩ (by decide) ?_
    intro x hx
    simp only [List.mem_cons, Option.some.injEq, List.mem_nil_iff, or_false] at hx
    subst hx
    exact Or.inl (Reach.root (by simp [apply, publish, exBoot]))

example : Inv (run exBoot exOps) :=
  inv_run (inv_boot [⟨0, 256⟩] (by simp)) exOps exOps_valid

/-- the two allocations of the two threads are disjoint — by the general theorem -/
example : (⟨136, 16⟩ : Region).disjoint ⟨0, 24⟩ := by
  have inv : Inv (run exBoot (exOps.take 2)) :=
    inv_run (inv_boot [⟨0, 256⟩] (by simp)) _ ⟨exOps_valid.1, exOps_valid.2.1, trivial⟩
  have h := alloc_disjoint_since_gc inv (x := ⟨.obj 10, ⟨0, 24⟩⟩) (id₁ := 10) (by decide) rfl
    [exOps[2]] ⟨exOps_valid.2.2.1, trivial⟩ (by intro op hop; simp at hop; subst hop; rfl)
    2 3 [⟨.obj 11, ⟨136, 16⟩⟩, ⟨.buf 2, ⟨152, 104⟩⟩] exOps_valid.2.2.2.1
  exact h.1 ⟨.obj 11, ⟨136, 16⟩⟩ (by simp)

/-- the guard is not decoration: a thread that carves an object out of ANOTHER thread's buffer
(forbidden by `Guard`: source must be `free` or `buf t` of the same `t`) can produce overlapping
objects — thread 2 allocates `[24,40)` in thread 1's buffer, then thread 1 bump-allocates the same
bytes. -/
example :
    let st := run exBoot (exOps.take 2)
    let bad := apply (apply st (.carve 2 1 [⟨.obj 66, ⟨24, 16⟩⟩])) (.carve 1 1 [⟨.obj 67, ⟨24, 16⟩⟩])
    ¬ (⟨24, 16⟩ : Region).disjoint ⟨24, 16⟩ ∧ (⟨.obj 66, ⟨24, 16⟩⟩ : Entry) ∈ (apply st (.carve 2 1 [⟨.obj 66, ⟨24, 16⟩⟩])).mem ∧
    bad.mem.length = 4 := by decide

/-- Immix hole search on a block of 8 lines, lines 0,1,4 in use: holes `[2,4)` then `[5,8)` -/
example :
    let lf : Nat → Bool := fun k => k != 0 && k != 1 && k != 4
    nextHole lf 8 0 = some (2, 4) ∧ nextHole lf 8 4 = some (5, 8) ∧ nextHole (fun _ => false) 8 0 = none ∧
    holeBump 1024 256 2 4 = ⟨1536, 2048⟩ ∧ allHoles lf 8 8 0 = [(2, 4), (5, 8)] := by decide

/-- free-list block: cells popped in free-list order -/
example :
    (cellAlloc ⟨4096, 32, [3, 0, 5]⟩).map (·.1) = some 4192 ∧
    ((cellAlloc ⟨4096, 32, [3, 0, 5]⟩).bind (fun r => cellAlloc r.2)).map (·.1) = some 4096 := by decide


end Mmtk.AllocModel
