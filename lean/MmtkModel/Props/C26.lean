import MmtkModel.Model.FreeList
namespace Mmtk.FreeList
end Mmtk.FreeList
