import MmtkModel.Model.FreeList
import MmtkModel.Spec.Runs
import MmtkModel.Lemmas.FreeListFree
import MmtkModel.Lemmas.FreeListNew
/-!
# C26 — Free lists allocate disjoint runs and coalesce back completely

Two layers (DESIGN §4.4).

**Abstract** (`Mmtk.Runs`, complete): over every history of `alloc / alloc_from_unit / free /
set_uncoalescable / clear_uncoalescable` that respects the callers' protocol (`Runs.Pre`), on any
number of heads: runs are pairwise disjoint and inside the list (`runs_disjoint`), a unit's owner is
constant over its run (`wf_reach`), `alloc` may fail only when the head owns no fitting run
(`alloc_fails_only_if_no_run`), and `free_all_coalesces`: whenever every unit is free again, every
remaining boundary carries an uncoalescable mark or is a pristine initial grain boundary — with no
marks and `grain = units` the single initial run is restored exactly (`free_all_restores_single_run`).

**Concrete** (`Mmtk.FreeList`, the table with its masks; exact differential against both
implementations): the refinement to `Mmtk.Runs` is **proved** (second half of this file; lemmas in
`Lemmas/FreeList{Bits,Tab,Links,Rel,Split,Alloc,Free}.lean` and `Lemmas/RunsChar.lean`).  `Rel t a L`
is the table invariant + abstraction relation (sentinels, MULTI/size entries at both ends of every
run, FREE flag, uncoalescable bits, one well-formed circular doubly-linked list per head holding
exactly the free runs of that head — ghost lists `L`); `Abs H t a := t.heads = H ∧ ∃ L, Rel t a L`,
`WF H t := ∃ a, Abs H t a`.  For every operation the protocol `Runs.Pre` allows, in both `debug`
settings: the method returns `.ok`, the answer is allowed by the abstract spec, the new table
represents `Runs.apply a op` — `alloc_refines` (first fit; `FAILURE` only if no run of the head fits,
table unchanged), `allocFromUnit_refines`, `free_refines` (coalesces exactly with the neighbours
`mergeL` / `mergeR` name; returned size), `setUnc_refines`, `clrUnc_refines`.  `step_refines`,
`history_refines`: every protocol-respecting concrete history (`CReach`) is an abstract history
(`Runs.Reach`) and keeps `Abs`; corollaries `concrete_history_no_overlap`,
`concrete_history_conservation`; `abs_reads`: `get_size` / `get_free` of the table are the abstract
run length / ownership.  A concrete instance (`IntArrayFreeList::new(6, 3, 2)`, `exRel`) shows the
hypotheses satisfiable.

`new_refines_single`: `IntArrayFreeList::new(N, N, heads)` (a single initial run) establishes `Abs` with a
`Fresh` abstract state, for all `1 ≤ N ≤ MAX_UNITS`, `1 ≤ heads ≤ 128`.

Not proved (what is left): (i) that `IntArrayFreeList::new(units, grain, heads)` with `grain < units`
(several initial runs: the fill loop) and `RawMemoryFreeList` growth establish `Abs` with a `Fresh`
abstract state for all parameters (for `grain < units` only the instance `new(6, 3, 2)` is checked;
the constructors are covered by the differential); (ii) `abs` is a
relation, not a function — the ghost `touched` and the owner of a free run (= the head whose list
reaches it) are not fields of the table; (iii) unit numbers are unbounded `Int` in the model: the
`i32` wrap is excluded by `units ≤ MAX_UNITS` in `Rel`, not modelled; (iv) `alloc_from_unit` on a
run that is free on *another* head's list and on a non-run-start unit is outside the protocol
(`cross_head_coalesce_double_allocates` shows what happens when heads are mixed).
-/
namespace Mmtk.Runs

/-! ## runs are disjoint and inside the list -/

/-- **runs_disjoint.** Two different runs of the partition do not overlap, and every run lies in
`[0, units)`. -/
theorem runs_disjoint (a : AS) {s e s' e' : Nat} (h : IsRun a s e) (h' : IsRun a s' e') (hlt : s < s') :
    e ≤ s' ∧ e ≤ a.units ∧ e' ≤ a.units := by
  refine ⟨?_, h.2.1, h'.2.1⟩
  rcases Nat.lt_or_ge s' e with hin | hge
  · have hc := h.2.2.2.2 s' hlt hin
    rcases h'.2.2.1 with h0 | hcut
    · omega
    · rw [hc] at hcut; cases hcut
  · exact hge

/-- A run is determined by its start. -/
theorem run_end_unique (a : AS) {s e e' : Nat} (h : IsRun a s e) (h' : IsRun a s e') : e = e' := by
  rcases Nat.lt_trichotomy e e' with hlt | heq | hgt
  · have := h'.2.2.2.2 e h.1 hlt
    rcases h.2.2.2.1 with hu | hc
    · have := h'.2.1; omega
    · rw [this] at hc; cases hc
  · exact heq
  · have := h.2.2.2.2 e' h'.1 hgt
    rcases h'.2.2.2.1 with hu | hc
    · have := h.2.1; omega
    · rw [this] at hc; cases hc

/-! ## invariants of protocol-respecting histories -/

/-- A unit's owner is constant inside a run. -/
def WF (a : AS) : Prop := ∀ b, 0 < b → b < a.units → a.cut b = false → a.own b = a.own (b - 1)

/-- Boundaries of allocated runs are touched. -/
def AllocTouched (a : AS) : Prop :=
  ∀ b, 0 < b → b < a.units → a.cut b = true → (a.own b = none ∨ a.own (b - 1) = none) → a.touched b = true

/-- Pristine boundaries are exactly the initial ones. -/
def Prist (a0 a : AS) : Prop := ∀ b, a.touched b = false → a.cut b = a0.cut b

/-- No two adjacent free runs could still be merged. -/
def Coalesced (a : AS) : Prop :=
  ∀ b, 0 < b → b < a.units → a.cut b = true → a.own (b - 1) ≠ none → a.own b ≠ none →
    a.unc b = true ∨ a.touched b = false

structure Inv (a0 a : AS) : Prop where
  units : a.units = a0.units
  wf : WF a
  at_ : AllocTouched a
  pr : Prist a0 a
  co : Coalesced a

theorem inv_step {a0 a : AS} (op : Op) (hi : Inv a0 a) (hp : Pre a op) : Inv a0 (apply a op) := by
  obtain ⟨hu, hwf, hat, hpr, hco⟩ := hi
  cases op with
  | alloc k s n e =>
    obtain ⟨⟨hse, heu, hs, he, hin⟩, hown, hn, hfit⟩ := hp
    refine ⟨hu, ?_, ?_, ?_, ?_⟩
    · intro b hb0 hbu hcut
      simp only [apply] at hcut ⊢
      by_cases h1 : b = s + n
      · simp [h1] at hcut
      · simp only [h1, if_false] at hcut
        have := hwf b hb0 hbu hcut
        by_cases h2 : s ≤ b ∧ b < s + n
        · have h3 : s ≤ b - 1 ∧ b - 1 < s + n := by
            refine ⟨?_, by omega⟩
            rcases Nat.lt_or_ge s b with h | h
            · omega
            · have : b = s := by omega
              subst this
              rcases hs with h0 | hc
              · omega
              · rw [hcut] at hc; cases hc
          simp [h2, h3]
        · have h3 : ¬ (s ≤ b - 1 ∧ b - 1 < s + n) := by omega
          simp [h2, h3, this]
    · intro b hb0 hbu hcut hnone
      simp only [apply] at hcut hnone ⊢
      by_cases h1 : b = s ∨ b = s + n
      · simp [h1]
      · simp only [h1, if_false]
        have hb1 : b ≠ s + n := fun h => h1 (Or.inr h)
        simp only [hb1, if_false] at hcut
        have hout : ¬ (s < b ∧ b < e) := fun ⟨x, y⟩ => by
          have := hin b x y; rw [this] at hcut; cases hcut
        have h2 : ¬ (s ≤ b ∧ b < s + n) := by omega
        have h3 : ¬ (s ≤ b - 1 ∧ b - 1 < s + n) := by omega
        simp only [h2, h3, if_false] at hnone
        exact hat b hb0 hbu hcut hnone
    · intro b hb
      simp only [apply] at hb ⊢
      by_cases h1 : b = s ∨ b = s + n
      · simp [h1] at hb
      · simp only [h1, if_false] at hb
        have hb1 : b ≠ s + n := fun h => h1 (Or.inr h)
        simp only [hb1, if_false]
        exact hpr b hb
    · intro b hb0 hbu hcut hl hr
      simp only [apply] at hcut hl hr ⊢
      by_cases h2 : s ≤ b ∧ b < s + n
      · simp [h2] at hr
      · by_cases h3 : s ≤ b - 1 ∧ b - 1 < s + n
        · simp [h3] at hl
        · simp only [h2, h3, if_false] at hl hr
          have hb1 : b ≠ s + n := by omega
          have hb2 : b ≠ s := by omega
          simp only [hb1, hb2, if_false, or_self] at hcut ⊢
          exact hco b hb0 hbu hcut hl hr
  | free k s e =>
    obtain ⟨⟨hse, heu, hs, he, hin⟩, hown, hL, hR⟩ := hp
    -- the whole run is allocated
    have hrun : ∀ u, s ≤ u → u < e → a.own u = none := by
      intro u hsu hue
      induction u with
      | zero => have : s = 0 := by omega
                subst this; exact hown
      | succ m ih =>
        rcases Nat.lt_or_ge s (m + 1) with h | h
        · have hc := hin (m + 1) h hue
          have := hwf (m + 1) (by omega) (by omega) hc
          rw [this]; simpa using ih (by omega) (by omega)
        · have : s = m + 1 := by omega
          subst this; exact hown
    refine ⟨hu, ?_, ?_, ?_, ?_⟩
    · intro b hb0 hbu hcut
      change b < a.units at hbu
      simp only [apply] at hcut ⊢
      by_cases hbs : b = s ∧ mergeL a s
      · obtain ⟨rfl, hm⟩ := hbs
        have h2 : b ≤ b ∧ b < e := ⟨Nat.le_refl _, hse⟩
        have h3 : ¬ (b ≤ b - 1 ∧ b - 1 < e) := by omega
        simp [h2, h3, hL hm]
      · by_cases hbe : b = e ∧ mergeR a e
        · obtain ⟨rfl, hm⟩ := hbe
          have h2 : ¬ (s ≤ b ∧ b < b) := by omega
          have h3 : s ≤ b - 1 ∧ b - 1 < b := by omega
          simp [h2, h3, hR hm]
        · simp only [hbs, hbe, or_self, if_false] at hcut
          have := hwf b hb0 hbu hcut
          by_cases h2 : s ≤ b ∧ b < e
          · have h3 : s ≤ b - 1 ∧ b - 1 < e := by
              refine ⟨?_, by omega⟩
              rcases Nat.lt_or_ge s b with h | h
              · omega
              · have hbs' : b = s := by omega
                subst hbs'
                rcases hs with h0 | hc
                · omega
                · rw [hcut] at hc; cases hc
            simp [h2, h3]
          · have h3 : ¬ (s ≤ b - 1 ∧ b - 1 < e) := by
              intro ⟨x, y⟩
              have hbe' : b = e := by omega
              subst hbe'
              rcases he with h0 | hc
              · omega
              · rw [hcut] at hc; cases hc
            simp [h2, h3, this]
    · intro b hb0 hbu hcut hnone
      change b < a.units at hbu
      simp only [apply] at hcut hnone ⊢
      have hc' : a.cut b = true := by
        by_cases hx : (b = s ∧ mergeL a s) ∨ (b = e ∧ mergeR a e)
        · simp [hx] at hcut
        · simpa [hx] using hcut
      apply hat b hb0 hbu hc'
      by_cases h2 : s ≤ b ∧ b < e
      · exact Or.inl (hrun b h2.1 h2.2)
      · by_cases h3 : s ≤ b - 1 ∧ b - 1 < e
        · exact Or.inr (hrun (b - 1) h3.1 h3.2)
        · simpa [h2, h3] using hnone
    · intro b hb
      simp only [apply] at hb ⊢
      have := hpr b hb
      by_cases hx : (b = s ∧ mergeL a s) ∨ (b = e ∧ mergeR a e)
      · -- a boundary that disappears was the edge of an allocated run, hence touched
        exfalso
        rcases hx with ⟨rfl, hm⟩ | ⟨rfl, hm⟩
        · have hcs : a.cut b = true := by
            rcases hs with h0 | hc
            · have := hm.1; omega
            · exact hc
          have := hat b hm.1 (by omega) hcs (Or.inl hown)
          rw [this] at hb; cases hb
        · have hce : a.cut b = true := by
            rcases he with h0 | hc
            · have := hm.1; omega
            · exact hc
          have := hat b (by omega) hm.1 hce (Or.inr (hrun (b - 1) (by omega) (by omega)))
          rw [this] at hb; cases hb
      · simp [hx, this]
    · intro b hb0 hbu hcut hl hr
      change b < a.units at hbu
      simp only [apply] at hcut hl hr ⊢
      have hx : ¬ ((b = s ∧ mergeL a s) ∨ (b = e ∧ mergeR a e)) := by
        intro hx; simp [hx] at hcut
      have hc' : a.cut b = true := by simpa [hx] using hcut
      by_cases hbs : b = s
      · subst hbs
        have hnm : ¬ mergeL a b := fun h => hx (Or.inl ⟨rfl, h⟩)
        have h3 : ¬ (b ≤ b - 1 ∧ b - 1 < e) := by omega
        simp only [h3, if_false] at hl
        simp only [mergeL, not_and] at hnm
        by_cases hu' : a.unc b = true
        · exact Or.inl hu'
        · exact absurd hl (hnm hb0 (by simpa using hu'))
      · by_cases hbe : b = e
        · subst hbe
          have hnm : ¬ mergeR a b := fun h => hx (Or.inr ⟨rfl, h⟩)
          have h2 : ¬ (s ≤ b ∧ b < b) := by omega
          simp only [h2, if_false] at hr
          simp only [mergeR, not_and] at hnm
          by_cases hu' : a.unc b = true
          · exact Or.inl hu'
          · exact absurd hr (hnm hbu (by simpa using hu'))
        · have h2 : ¬ (s ≤ b ∧ b < e) := fun ⟨x, y⟩ => by
            have := hin b (by omega) y; rw [this] at hc'; cases hc'
          have h3 : ¬ (s ≤ b - 1 ∧ b - 1 < e) := by omega
          simp only [h2, h3, if_false] at hl hr
          exact hco b hb0 hbu hc' hl hr
  | setUnc u =>
    refine ⟨hu, hwf, hat, hpr, ?_⟩
    intro b hb0 hbu hcut hl hr
    simp only [apply] at hcut hl hr ⊢
    by_cases h : b = u
    · simp [h]
    · simp only [h, if_false]; exact hco b hb0 hbu hcut hl hr
  | clrUnc u =>
    refine ⟨hu, hwf, hat, hpr, ?_⟩
    intro b hb0 hbu hcut hl hr
    simp only [apply] at hcut hl hr ⊢
    by_cases h : b = u
    · subst h
      exact absurd ⟨hb0, hbu, hcut, hl, hr⟩ hp
    · simp only [h, if_false]; exact hco b hb0 hbu hcut hl hr

/-- A fresh list: every unit free on head 0's list, nothing touched. -/
structure Fresh (a0 : AS) : Prop where
  own : ∀ u, a0.own u = some 0
  touched : ∀ b, a0.touched b = false

theorem inv_init (a0 : AS) (h : Fresh a0) : Inv a0 a0 :=
  ⟨rfl, fun b _ _ _ => by rw [h.own, h.own], fun b _ _ _ hn => by simp [h.own] at hn,
   fun _ _ => rfl, fun b _ _ _ _ _ => Or.inr (h.touched b)⟩

theorem inv_reach {a0 a : AS} (h0 : Fresh a0) (hr : Reach a0 a) : Inv a0 a := by
  induction hr with
  | init => exact inv_init a0 h0
  | step op _ hp ih => exact inv_step op ih hp

/-- The owner of a unit is constant over its run, in every reachable state. -/
theorem wf_reach {a0 a : AS} (h0 : Fresh a0) (hr : Reach a0 a) : WF a := (inv_reach h0 hr).wf

/-- **free_all_coalesces.** After any protocol-respecting history (any number of heads, any
marks), once every unit is free again, each boundary that is still there either carries an
uncoalescable mark or is a pristine initial boundary (an initial grain boundary at which no
allocation ever started or ended); and no pristine initial boundary has been lost. -/
theorem free_all_coalesces {a0 a : AS} (h0 : Fresh a0) (hr : Reach a0 a)
    (hall : ∀ u, u < a.units → a.own u ≠ none) :
    (∀ b, 0 < b → b < a.units → a.cut b = true →
        a.unc b = true ∨ (a.touched b = false ∧ a0.cut b = true)) ∧
    (∀ b, a.touched b = false → a0.cut b = true → a.cut b = true) := by
  have hi := inv_reach h0 hr
  refine ⟨fun b hb0 hbu hcut => ?_, fun b ht hc => by rw [hi.pr b ht]; exact hc⟩
  rcases hi.co b hb0 hbu hcut (hall (b - 1) (by omega)) (hall b hbu) with h | h
  · exact Or.inl h
  · exact Or.inr ⟨h, by rw [← hi.pr b h]; exact hcut⟩

/-- **Restoring the initial runs.** With a single initial run (`grain = units`) and no mark left,
freeing everything restores exactly the initial run `[0, units)`. -/
theorem free_all_restores_single_run {a0 a : AS} (h0 : Fresh a0) (hr : Reach a0 a)
    (hsingle : ∀ b, 0 < b → b < a0.units → a0.cut b = false) (hpos : 0 < a0.units)
    (hall : ∀ u, u < a.units → a.own u ≠ none) (hnomark : ∀ b, a.unc b = false) :
    IsRun a 0 a.units := by
  have hu := (inv_reach h0 hr).units
  refine ⟨by omega, Nat.le_refl _, Or.inl rfl, Or.inl rfl, fun b hb0 hbu => ?_⟩
  rcases hcb : a.cut b with _ | _
  · rfl
  · rcases (free_all_coalesces h0 hr hall).1 b hb0 hbu hcb with h | ⟨_, h⟩
    · rw [hnomark b] at h; cases h
    · rw [hsingle b hb0 (by omega)] at h; cases h

/-- **alloc_fails_only_if_no_run** (specification of the allowed answers): `alloc(k, n)` may
answer `FAILURE` only when `¬ CanAlloc a k n`; when some run fits, every fitting run is an allowed
answer, and taking it satisfies `Pre`. -/
theorem alloc_fails_only_if_no_run (a : AS) (k n : Nat) (hn : 1 ≤ n) :
    CanAlloc a k n ↔ ∃ s e, Pre a (.alloc k s n e) := by
  constructor
  · rintro ⟨s, e, hr, ho, hf⟩; exact ⟨s, e, hr, ho, hn, hf⟩
  · rintro ⟨s, e, hr, ho, _, hf⟩; exact ⟨s, e, hr, ho, hf⟩

/-- After `alloc` the taken units form an allocated run of exactly `n` units (`size` reports it). -/
theorem alloc_makes_run (a : AS) (k s n e : Nat) (hp : Pre a (.alloc k s n e)) :
    IsRun (apply a (.alloc k s n e)) s (s + n) ∧
    ∀ u, s ≤ u → u < s + n → (apply a (.alloc k s n e)).own u = none := by
  obtain ⟨⟨hse, heu, hs, he, hin⟩, _, hn, hfit⟩ := hp
  refine ⟨⟨by omega, by simp only [apply]; omega, ?_, Or.inr (by simp [apply]), ?_⟩, ?_⟩
  · rcases hs with h | h
    · exact Or.inl h
    · refine Or.inr ?_
      simp only [apply]
      have : s ≠ s + n := by omega
      simp [this, h]
  · intro b h1 h2
    simp only [apply]
    have : b ≠ s + n := by omega
    simp only [this, if_false]
    exact hin b h1 (by omega)
  · intro u h1 h2
    simp [apply, h1, h2]

/-- The hypotheses are satisfiable: a 10-unit list with grains of 5, two heads; allocate 2 units,
mark, free them again. -/
example : ∃ a0 : AS, Fresh a0 ∧ a0.units = 10 ∧
    Pre a0 (.alloc 0 0 2 5) ∧ Pre (apply a0 (.alloc 0 0 2 5)) (.free 0 0 2) := by
  refine ⟨⟨10, fun b => b == 0 || b == 5 || b == 10, fun _ => some 0, fun _ => false, fun _ => false⟩,
    ⟨fun _ => rfl, fun _ => rfl⟩, rfl, ?_, ?_⟩
  · refine ⟨⟨by omega, by simp, Or.inl rfl, Or.inr (by simp), ?_⟩, rfl, by omega, by omega⟩
    intro b h1 h2
    have : b ≠ 0 ∧ b ≠ 5 ∧ b ≠ 10 := by omega
    simp [this]
  · refine ⟨⟨by omega, by simp [apply], Or.inl rfl, Or.inr (by simp [apply]), ?_⟩, by simp [apply], ?_, ?_⟩
    · intro b h1 h2
      have : b = 1 := by omega
      subst this; simp [apply]
    · intro h; exact absurd h.1 (by omega)
    · intro _; simp [apply]

end Mmtk.Runs

namespace Mmtk.FreeList

/-! ## concrete layer: entry-level lemmas -/

/-- Patterns decode to the `i32` they encode (checked on the boundary values the table uses). -/
example : dec (enc (-1)) = -1 ∧ dec (enc (-128)) = -128 ∧ dec (enc 1073741694) = 1073741694 ∧
    enc (-1) &&& M30 = 1073741823 ∧ dec (B31 ||| enc 5) = -2147483643 := by decide

/-- `get_next` after `set_next` (release build) returns the link, for every stored entry and every
in-range unit link: the MULTI flag in the same entry is untouched. -/
theorem getNext_setNext (t : Tab) (head u : Int) (next : Nat) (old : Nat)
    (hn : (next : Int) ≤ MAX_UNITS) (hold : getHi t u = .ok old) :
    ∃ t', setNext false t u next = .ok t' ∧ getNext t' head u = .ok (next : Int) ∧
      (∀ h, getHi t' u = .ok h → h &&& B31 = old &&& NOT_M30 &&& B31) := by
  unfold getHi getEntry at hold
  split at hold
  · rename_i hin
    simp only [setNext, Bool.false_and, Bool.false_eq_true, if_false, bind, Except.bind, getHi, getEntry,
      hin, and_self, if_true, setHi, setEntry, pure, Except.pure, getNext]
    refine ⟨_, rfl, ?_, ?_⟩
    · have hsz : (2 * (u + t.heads) + 1).toNat < t.cells.size := by omega
      simp only [Array.size_setIfInBounds, hin, and_self, if_true, Array.getD_eq_getD_getElem?,
        Array.getElem?_setIfInBounds_self_of_lt hsz, Option.getD_some]
      have hm : next < 1073741824 := by simp only [MAX_UNITS] at hn; omega
      have e1 : enc (next : Int) = next := by
        simp only [enc]; omega
      have e2 : ∀ x : Nat, (x &&& NOT_M30 ||| enc ↑next &&& M30) &&& M30 = next := by
        intro x
        rw [e1]
        apply Nat.eq_of_testBit_eq
        intro i
        simp only [Nat.testBit_and, Nat.testBit_or, M30, NOT_M30]
        by_cases hi : i < 30
        · have h1 : Nat.testBit 1073741823 i = true := by
            have : 1073741823 = 2 ^ 30 - 1 := by decide
            rw [this, Nat.testBit_two_pow_sub_one]; simpa using hi
          have h2 : Nat.testBit 3221225472 i = false := by
            have : 3221225472 = 2 ^ 30 * 3 := by decide
            rw [this, Nat.testBit_two_pow_mul]; simp; omega
          simp [h1, h2]
        · have h1 : Nat.testBit 1073741823 i = false := by
            have : 1073741823 = 2 ^ 30 - 1 := by decide
            rw [this, Nat.testBit_two_pow_sub_one]; simpa using hi
          have h3 : next.testBit i = false := Nat.testBit_lt_two_pow (by
            calc next < 2 ^ 30 := by omega
              _ ≤ 2 ^ i := Nat.pow_le_pow_right (by omega) (by omega))
          simp [h1, h3]
      rw [e2]
      simp [hn]
    · intro h hh
      have hsz : (2 * (u + t.heads) + 1).toNat < t.cells.size := by omega
      simp only [Array.size_setIfInBounds, hin, and_self, if_true, Array.getD_eq_getD_getElem?,
        Array.getElem?_setIfInBounds_self_of_lt hsz, Option.getD_some, Except.ok.injEq] at hh
      subst hh
      simp only [Except.ok.injEq] at hold
      subst hold
      apply Nat.eq_of_testBit_eq
      intro i
      simp only [Nat.testBit_and, Nat.testBit_or, M30, NOT_M30, B31, Array.getD_eq_getD_getElem?]
      by_cases hi : i = 31
      · subst hi
        have : Nat.testBit 1073741823 31 = false := by decide
        simp [this]
      · have : Nat.testBit 2147483648 i = false := by
          have : 2147483648 = 2 ^ 31 := by decide
          rw [this, Nat.testBit_two_pow]; simp; omega
        simp [this]
  · cases hold

/-!
## The concrete layer: the table refines `Mmtk.Runs`

`Rel t a L` (`Lemmas/FreeListRel.lean`) is the table invariant together with the abstraction: the
table `t` represents the abstract state `a`, with ghost lists `L k` (the run starts on the list of
head `k`, in list order).  It says: `1 ≤ heads ≤ 128`, the array has `2 * (units + 1 + heads)` entries,
`units ≤ MAX_UNITS`; the top sentinel and the heads are not free, the heads are not multi; the
uncoalescable bit of every unit is `a.unc`; every run `[s, e)` of `a` has its MULTI flag and both
size entries right (`get_size`, `get_left` read them), its FREE flag is `a.own s ≠ none`, its owner is
constant, and a run owned by head `k` is a member of `L k`; and for every head `k` the next / prev
links from the head through `L k` and back form a circular doubly-linked list (`Links`), without
repetition, of runs owned by `k`.

`abs` is a *relation* (`Abs H t a`), not a function: the abstract state has a ghost field
(`touched`) that the table does not store, and the owner of a free run is the head whose list
reaches it (not a field of the run).  `WF H t := ∃ a, Abs H t a`.

For every operation the protocol (`Runs.Pre`) allows, the concrete method returns `.ok`, its answer
is one the abstract specification allows, and the new table represents `Runs.apply a op`
(`alloc_refines`, `allocFromUnit_refines`, `free_refines`, `setUnc_refines`, `clrUnc_refines`; both
`debug` settings, i.e. no `debug_assert!` fires).  `history_refines`: every concrete history whose
steps respect the protocol is an abstract history (`Runs.Reach`) and keeps `Abs`; hence the abstract
theorems transfer: `concrete_history_no_overlap`, `concrete_history_conservation`.
-/

/-- The table (with `H` heads) represents the abstract state. -/
def Abs (H : Int) (t : Tab) (a : Runs.AS) : Prop := t.heads = H ∧ ∃ L, Rel t a L

/-- The table invariant. -/
def WF (H : Int) (t : Tab) : Prop := ∃ a, Abs H t a

open Mmtk.Runs in
/-- **alloc_refines.** `alloc(n)` through head `k` on a well-formed table returns `.ok`; either it
returns the start `s` of a free run `[s, e)` of head `k` that fits (an answer `Runs.Pre` allows) and the
new table represents `apply a (alloc k s n e)`, or it returns `FAILURE`, the table is unchanged, and no
run of head `k` fits. -/
theorem alloc_refines {H : Int} {t : Tab} {a : AS} {k n : Nat} (debug : Bool)
    (h : Abs H t a) (hk : (k : Int) < H) (hn : 1 ≤ n) :
    (∃ (s e : Nat) (t' : Tab), alloc debug t (hd k) (n : Int) = .ok (t', (s : Int)) ∧ Pre a (.alloc k s n e) ∧
      Abs H t' (Runs.apply a (.alloc k s n e))) ∨
    (alloc debug t (hd k) (n : Int) = .ok (t, FAILURE) ∧ ¬ CanAlloc a k n) := by
  obtain ⟨hH, L, hR⟩ := h
  rcases alloc_refines_rel debug hR (by rw [hH]; exact hk) hn with ⟨s, e, t', L', h1, h2, h3, h4⟩ | h1
  · exact Or.inl ⟨s, e, t', h1, h2, by rw [← hH, ← h4], L', h3⟩
  · exact Or.inr h1

open Mmtk.Runs in
/-- **allocFromUnit_refines.** `alloc_from_unit(n, s)` on the start of a run `[s, e)`: if the run is
free on the caller's head and fits it is taken (`Pre a (alloc k s n e)`), if it is allocated or too
small the answer is `FAILURE` and the table is unchanged. -/
theorem allocFromUnit_refines {H : Int} {t : Tab} {a : AS} {k s e n : Nat} (debug : Bool)
    (h : Abs H t a) (hr : IsRun a s e) (hn : 1 ≤ n) :
    (Pre a (.alloc k s n e) → ∃ t', allocFromUnit debug t (hd k) (n : Int) (s : Int) = .ok (t', (s : Int)) ∧
      Abs H t' (Runs.apply a (.alloc k s n e))) ∧
    ((a.own s = none ∨ e < s + n) → allocFromUnit debug t (hd k) (n : Int) (s : Int) = .ok (t, FAILURE)) := by
  obtain ⟨hH, L, hR⟩ := h
  obtain ⟨h1, h2⟩ := allocFromUnit_refines_rel (k := k) debug hR hr hn
  refine ⟨fun hp => ?_, h2⟩
  obtain ⟨t', L', g1, g2, g3⟩ := h1 hp.2.1 hp.2.2.2
  exact ⟨t', g1, by rw [← hH, ← g3], L', g2⟩

open Mmtk.Runs in
/-- **free_refines.** `free(s, rcs)` through head `k` of an allocated run `[s, e)` (protocol
`Runs.Pre`) returns `.ok`; the answer is the size of the freed run, or with `rcs` the size of the
coalesced run `[l, r)` — where `l` is the start of the left neighbour iff `mergeL` (it is free and
`s` carries no uncoalescable mark) and `r` the end of the right neighbour iff `mergeR`: the run
coalesces exactly with those neighbours — and the new table represents `apply a (free k s e)`. -/
theorem free_refines {H : Int} {t : Tab} {a : AS} {k s e : Nat} (debug rcs : Bool)
    (h : Abs H t a) (hk : (k : Int) < H) (hp : Pre a (.free k s e)) :
    ∃ (t' : Tab) (l r : Nat), free debug t (hd k) (s : Int) rcs = .ok (t', if rcs then (r : Int) - l else (e : Int) - s) ∧
      Abs H t' (Runs.apply a (.free k s e)) ∧
      (if mergeL a s then IsRun a l s else l = s) ∧ (if mergeR a e then IsRun a e r else r = e) ∧
      IsRun (Runs.apply a (.free k s e)) l r := by
  obtain ⟨hH, L, hR⟩ := h
  obtain ⟨t', L', l, r, h1, h2, h3, h4, h5⟩ := free_refines_rel debug rcs hR (by rw [hH]; exact hk) hp
  exact ⟨t', l, r, h1, ⟨by rw [← hH, ← h3], L', h2⟩, h4, h5, free_run_merged a hp.1 h4 h5⟩

open Mmtk.Runs in
/-- **setUnc_refines.** -/
theorem setUnc_refines {H : Int} {t : Tab} {a : AS} {u : Nat} (h : Abs H t a) (hu : u ≤ a.units) :
    ∃ t', setUncoalescable t (u : Int) = .ok t' ∧ Abs H t' (Runs.apply a (.setUnc u)) := by
  obtain ⟨hH, L, hR⟩ := h
  obtain ⟨h1, h2⟩ := setUnc_refines_rel hR hu
  exact ⟨_, h1, by simpa using hH, L, h2⟩

open Mmtk.Runs in
/-- **clrUnc_refines.** -/
theorem clrUnc_refines {H : Int} {t : Tab} {a : AS} {u : Nat} (h : Abs H t a) (hu : u ≤ a.units) :
    ∃ t', clearUncoalescable t (u : Int) = .ok t' ∧ Abs H t' (Runs.apply a (.clrUnc u)) := by
  obtain ⟨hH, L, hR⟩ := h
  obtain ⟨h1, h2⟩ := clrUnc_refines_rel hR hu
  exact ⟨_, h1, by simpa using hH, L, h2⟩

/-- What the table says about a run of the abstract state it represents: `get_size` is its length,
`get_free` is "owned by some head", and the run lies inside the list. -/
theorem abs_reads {H : Int} {t : Tab} {a : Runs.AS} {s e : Nat} (h : Abs H t a) (hr : Runs.IsRun a s e) :
    getSize t (s : Int) = .ok ((e : Int) - s) ∧ getFree t (s : Int) = .ok (a.own s).isSome ∧ e ≤ a.units := by
  obtain ⟨hH, L, hR⟩ := h
  have hlt := hR.run_lt hr
  have ok := hR.run s e hr
  have hpos := hR.hpos
  have hsR : InR t (s : Int) := hR.inR_nat (by omega)
  have hs1 : fMulti t (s : Int) = true → InR t ((s : Int) + 1) := by
    intro hm; rw [ok.multi] at hm
    have : s + 1 < e := by simpa using hm
    exact hR.inR (by omega) (by omega)
  refine ⟨?_, ?_, hlt.2⟩
  · rw [getSize_ok hsR hs1, hR.sizeOf_run hr]
  · rw [getFree_ok hsR, ok.free]

/-! ### histories -/

/-- One step of a concrete history that respects the callers' protocol: the concrete method returned
`.ok`, and the abstract state moves by the abstract operation that the answer selects. `H` = number
of heads. -/
inductive CStep (debug : Bool) (H : Int) : Tab → Runs.AS → Tab → Runs.AS → Prop
  | alloc {t a t'} (k n s e : Nat) : (k : Int) < H → alloc debug t (hd k) (n : Int) = .ok (t', (s : Int)) →
      Runs.Pre a (.alloc k s n e) → CStep debug H t a t' (Runs.apply a (.alloc k s n e))
  | allocFail {t a t'} (k n : Nat) : (k : Int) < H → 1 ≤ n → alloc debug t (hd k) (n : Int) = .ok (t', FAILURE) →
      CStep debug H t a t' a
  | allocFromUnit {t a t'} (k n s e : Nat) : allocFromUnit debug t (hd k) (n : Int) (s : Int) = .ok (t', (s : Int)) →
      Runs.Pre a (.alloc k s n e) → CStep debug H t a t' (Runs.apply a (.alloc k s n e))
  | allocFromUnitFail {t a t'} (k n s e : Nat) : Runs.IsRun a s e → (a.own s = none ∨ e < s + n) → 1 ≤ n →
      allocFromUnit debug t (hd k) (n : Int) (s : Int) = .ok (t', FAILURE) → CStep debug H t a t' a
  | free {t a t'} (k s e : Nat) (rcs : Bool) (r : Int) : (k : Int) < H → free debug t (hd k) (s : Int) rcs = .ok (t', r) →
      Runs.Pre a (.free k s e) → CStep debug H t a t' (Runs.apply a (.free k s e))
  | setUnc {t a t'} (u : Nat) : u ≤ a.units → setUncoalescable t (u : Int) = .ok t' →
      CStep debug H t a t' (Runs.apply a (.setUnc u))
  | clrUnc {t a t'} (u : Nat) : u ≤ a.units → Runs.Pre a (.clrUnc u) → clearUncoalescable t (u : Int) = .ok t' →
      CStep debug H t a t' (Runs.apply a (.clrUnc u))

/-- Concrete histories from `(t0, a0)`. -/
inductive CReach (debug : Bool) (H : Int) (t0 : Tab) (a0 : Runs.AS) : Tab → Runs.AS → Prop
  | init : CReach debug H t0 a0 t0 a0
  | step {t a t' a'} : CReach debug H t0 a0 t a → CStep debug H t a t' a' → CReach debug H t0 a0 t' a'

theorem ok_inj {α : Type} {x y : α} (h : (Except.ok x : M α) = .ok y) : x = y := by cases h; rfl

open Mmtk.Runs in
/-- **step_refines.** A protocol-respecting concrete step is an abstract step (or leaves the
abstract state alone: a failed allocation), and the new table represents the new abstract state. -/
theorem step_refines {debug : Bool} {H : Int} {t t' : Tab} {a a' : AS} (h : Abs H t a)
    (hs : CStep debug H t a t' a') :
    Abs H t' a' ∧ (a' = a ∨ ∃ op, Pre a op ∧ a' = Runs.apply a op) := by
  cases hs with
  | alloc k n s e hk hc hp =>
    refine ⟨?_, Or.inr ⟨_, hp, rfl⟩⟩
    rcases alloc_refines debug h hk hp.2.2.1 with ⟨s0, e0, t0, g1, g2, g3⟩ | ⟨g1, _⟩
    · rw [g1] at hc
      have e1 := ok_inj hc
      have ht : t0 = t' := congrArg Prod.fst e1
      have hs : s0 = s := by have := congrArg Prod.snd e1; simp at this; omega
      subst ht hs
      have : e0 = e := run_end_unique' a g2.1 hp.1
      subst this
      exact g3
    · rw [g1] at hc
      have := congrArg Prod.snd (ok_inj hc)
      simp [FAILURE] at this
  | allocFail k n hk hn hc =>
    refine ⟨?_, Or.inl rfl⟩
    rcases alloc_refines debug h hk hn with ⟨s0, e0, t0, g1, g2, g3⟩ | ⟨g1, _⟩
    · rw [g1] at hc
      have := congrArg Prod.snd (ok_inj hc)
      simp [FAILURE] at this
    · rw [g1] at hc
      have ht : t = t' := congrArg Prod.fst (ok_inj hc)
      subst ht
      exact h
  | allocFromUnit k n s e hc hp =>
    refine ⟨?_, Or.inr ⟨_, hp, rfl⟩⟩
    obtain ⟨t0, g1, g2⟩ := (allocFromUnit_refines debug h hp.1 hp.2.2.1).1 hp
    rw [g1] at hc
    have ht : t0 = t' := congrArg Prod.fst (ok_inj hc)
    subst ht
    exact g2
  | allocFromUnitFail k n s e hr hf hn hc =>
    refine ⟨?_, Or.inl rfl⟩
    have g1 := (allocFromUnit_refines (k := k) debug h hr hn).2 hf
    rw [g1] at hc
    have ht : t = t' := congrArg Prod.fst (ok_inj hc)
    subst ht
    exact h
  | free k s e rcs r hk hc hp =>
    refine ⟨?_, Or.inr ⟨_, hp, rfl⟩⟩
    obtain ⟨t0, l, r0, g1, g2, _⟩ := free_refines debug rcs h hk hp
    rw [g1] at hc
    have ht : t0 = t' := congrArg Prod.fst (ok_inj hc)
    subst ht
    exact g2
  | setUnc u hu hc =>
    refine ⟨?_, Or.inr ⟨.setUnc u, trivial, rfl⟩⟩
    obtain ⟨t0, g1, g2⟩ := setUnc_refines h hu
    rw [g1] at hc
    have ht : t0 = t' := ok_inj hc
    subst ht
    exact g2
  | clrUnc u hu hp hc =>
    refine ⟨?_, Or.inr ⟨.clrUnc u, hp, rfl⟩⟩
    obtain ⟨t0, g1, g2⟩ := clrUnc_refines h hu
    rw [g1] at hc
    have ht : t0 = t' := ok_inj hc
    subst ht
    exact g2

open Mmtk.Runs in
/-- **history_refines.** Every concrete history (any interleaving of `alloc`, `alloc_from_unit`,
`free`, `set_uncoalescable`, `clear_uncoalescable` on any heads, each respecting `Runs.Pre`) is a
history of the abstract specification, and the final table represents the final abstract state. -/
theorem history_refines {debug : Bool} {H : Int} {t0 t : Tab} {a0 a : AS} (h0 : Abs H t0 a0)
    (hr : CReach debug H t0 a0 t a) : Reach a0 a ∧ Abs H t a := by
  induction hr with
  | init => exact ⟨.init, h0⟩
  | step _ hs ih =>
    obtain ⟨g1, g2⟩ := step_refines ih.2 hs
    refine ⟨?_, g1⟩
    rcases g2 with rfl | ⟨op, hp, rfl⟩
    · exact ih.1
    · exact .step op ih.1 hp

open Mmtk.Runs in
/-- **concrete_history_no_overlap.** After any protocol-respecting concrete history from a fresh
list, the runs recorded in the table — `get_size(s) = e - s`, `get_free(s) = (own s ≠ none)` for every
run `[s, e)` — are pairwise disjoint and inside the list, and the owner (allocated / free on head `k`)
is the same for all units of a run; in particular allocated runs never overlap and never exceed
the list. -/
theorem concrete_history_no_overlap {debug : Bool} {H : Int} {t0 t : Tab} {a0 a : AS} (h0 : Abs H t0 a0)
    (hf : Fresh a0) (hr : CReach debug H t0 a0 t a) {s e s' e' : Nat} (h : IsRun a s e) (h' : IsRun a s' e')
    (hlt : s < s') :
    e ≤ s' ∧ e' ≤ a.units ∧ a.units = a0.units ∧
    getSize t (s : Int) = .ok ((e : Int) - s) ∧ getSize t (s' : Int) = .ok ((e' : Int) - s') ∧
    getFree t (s : Int) = .ok (a.own s).isSome ∧ getFree t (s' : Int) = .ok (a.own s').isSome ∧
    (∀ u, s ≤ u → u < e → a.own u = a.own s) := by
  obtain ⟨hreach, habs⟩ := history_refines h0 hr
  obtain ⟨d1, _, d3⟩ := runs_disjoint a h h' hlt
  have r1 := abs_reads habs h
  have r2 := abs_reads habs h'
  have inv := inv_reach hf hreach
  refine ⟨d1, d3, inv.units, r1.1, r2.1, r1.2.1, r2.2.1, ?_⟩
  obtain ⟨_, L, hR⟩ := habs
  exact (hR.run s e h).own

open Mmtk.Runs in
/-- **concrete_history_conservation.** After any protocol-respecting concrete history from a fresh
list, once every unit is free again every boundary still in the table carries an uncoalescable
mark or is a pristine initial grain boundary, and no pristine boundary was lost; with a single
initial run and no marks the table again holds the one free run of all units
(`get_size(0) = units`, `get_free(0)`): nothing handed out is lost. -/
theorem concrete_history_conservation {debug : Bool} {H : Int} {t0 t : Tab} {a0 a : AS} (h0 : Abs H t0 a0)
    (hf : Fresh a0) (hr : CReach debug H t0 a0 t a) (hall : ∀ u, u < a.units → a.own u ≠ none) :
    ((∀ b, 0 < b → b < a.units → a.cut b = true → a.unc b = true ∨ (a.touched b = false ∧ a0.cut b = true)) ∧
     (∀ b, a.touched b = false → a0.cut b = true → a.cut b = true)) ∧
    ((∀ b, 0 < b → b < a0.units → a0.cut b = false) → 0 < a0.units → (∀ b, a.unc b = false) →
      getSize t 0 = .ok (a0.units : Int) ∧ getFree t 0 = .ok true) := by
  obtain ⟨hreach, habs⟩ := history_refines h0 hr
  refine ⟨free_all_coalesces hf hreach hall, fun hsingle hpos hnomark => ?_⟩
  have hrun := free_all_restores_single_run hf hreach hsingle hpos hall hnomark
  have hu := (inv_reach hf hreach).units
  obtain ⟨r1, r2, _⟩ := abs_reads habs hrun
  have hown : (a.own 0).isSome = true := by
    have := hall 0 (by omega)
    cases ho : a.own 0 with
    | none => exact absurd ho this
    | some j => rfl
  rw [hown] at r2
  refine ⟨?_, r2⟩
  have : ((a.units : Nat) : Int) - ((0 : Nat) : Int) = (a0.units : Int) := by rw [hu]; omega
  rw [← this]; exact r1

/-- Witness that the protocol hypothesis of `Runs.Pre (.free …)` is needed: coalescing into a run
that sits on another head's list (no uncoalescable mark in between) puts one run on two lists,
and both heads are then handed the same units. 10 units, grain 5, heads 2: head 0 allocates both
runs, head 1 frees `[0,5)`, head 0 frees `[5,10)` (coalesces with head 1's run), then both heads
successfully allocate 10 units at unit 0. -/
def okOf {α : Type} (r : M α) : Option α :=
  match r with
  | .ok v => some v
  | .error _ => none

theorem cross_head_coalesce_double_allocates :
    okOf (do
        let t ← IntArray.new false 10 5 2
        let (t, a) ← alloc false t (-1) 5
        let (t, b) ← alloc false t (-1) 5
        let (t, _) ← free false t (-2) 0 true
        let (t, m) ← free false t (-1) 5 true
        let (t, x) ← alloc false t (-1) 10
        let (_, y) ← alloc false t (-2) 10
        pure (a, b, m, x, y) : M _) = some (0, 5, 10, 0, 0) := by
  decide +kernel

open Mmtk.Runs in
/-- **new_refines_single.** `IntArrayFreeList::new(N, N, heads)` (one initial run: `grain = units`),
for every `1 ≤ N ≤ MAX_UNITS` and `1 ≤ heads ≤ 128`, in both `debug` settings, returns `.ok` of a
well-formed table that represents the fresh abstract state: all `N` units free on head 0's list in
one run, nothing touched. -/
theorem new_refines_single (debug : Bool) (N Hn : Nat) (hN : 1 ≤ N) (hNm : (N : Int) ≤ MAX_UNITS) (hH : 1 ≤ Hn)
    (hH' : Hn ≤ 128) :
    ∃ t0 a0, IntArray.new debug (N : Int) (N : Int) (Hn : Int) = .ok t0 ∧ Fresh a0 ∧ a0.units = N ∧
      (∀ b, a0.cut b = false) ∧ Abs (Hn : Int) t0 a0 := by
  obtain ⟨t0, a0, L, h1, h2, h3, h4, h5, h6⟩ := new_single debug N Hn hN hNm hH hH'
  exact ⟨t0, a0, h1, ⟨h2.1, h2.2⟩, h3, h4, h6, L, h5⟩

example : (1 : Nat) ≤ 4096 ∧ ((4096 : Nat) : Int) ≤ MAX_UNITS ∧ 1 ≤ 16 ∧ 16 ≤ 128 := by decide

/-! ### the hypotheses are satisfiable: a concrete list and a two-step history -/

section example_
open Mmtk.Runs

/-- the table `IntArrayFreeList::new(6, 3, 2)` builds -/
def exT0 : Tab := { heads := 2, cells := #[1073741822, 1073741822, 3, 0, 3221225471, 2147483651, 0, 2147483651,
  2147483648, 2147483651, 2147483648, 3221225471, 0, 2147483651, 2147483648, 2147483651, 6, 6] }
/-- the fresh abstract state: 6 units, grain 3 -/
def exA0 : AS := ⟨6, fun b => b == 3, fun _ => some 0, fun _ => false, fun _ => false⟩
def exL0 : Nat → List Nat := fun k => if k = 0 then [0, 3] else []

theorem exT0_new : okOf (IntArray.new true 6 3 2) = some exT0 := by decide +kernel

theorem exA0_runs {s e : Nat} (h : IsRun exA0 s e) : (s = 0 ∧ e = 3) ∨ (s = 3 ∧ e = 6) := by
  obtain ⟨h1, h2, h3, h4, h5⟩ := h
  simp only [exA0, beq_iff_eq] at h2 h3 h4 h5
  have := h5 3
  simp at this
  omega

theorem exRun03 : IsRun exA0 0 3 :=
  ⟨by decide, by decide, Or.inl rfl, Or.inr rfl, fun b h1 h2 => by simp [exA0]; omega⟩
theorem exRun36 : IsRun exA0 3 6 :=
  ⟨by decide, by decide, Or.inr rfl, Or.inl rfl, fun b h1 h2 => by simp [exA0]; omega⟩

theorem exRel : Rel exT0 exA0 exL0 := by
  constructor
  · decide
  · decide
  · decide
  · decide
  · decide
  · intro k hk
    have : k = 0 ∨ k = 1 := by simp [exT0] at hk; omega
    rcases this with rfl | rfl <;> decide
  · intro k hk
    have : k = 0 ∨ k = 1 := by simp [exT0] at hk; omega
    rcases this with rfl | rfl <;> decide
  · intro u hu
    have : u = 0 ∨ u = 1 ∨ u = 2 ∨ u = 3 ∨ u = 4 ∨ u = 5 ∨ u = 6 := by simp [exA0] at hu; omega
    rcases this with rfl | rfl | rfl | rfl | rfl | rfl | rfl <;> decide
  · intro s e h
    rcases exA0_runs h with ⟨rfl, rfl⟩ | ⟨rfl, rfl⟩
    · refine ⟨by decide, fun _ => by decide, by decide, fun _ _ _ => rfl, fun k hk => ?_⟩
      have : k = 0 := by simp [exA0] at hk; omega
      subst this; exact ⟨by decide, Or.inl (by decide)⟩
    · refine ⟨by decide, fun _ => by decide, by decide, fun _ _ _ => rfl, fun k hk => ?_⟩
      have : k = 0 := by simp [exA0] at hk; omega
      subst this; exact ⟨by decide, Or.inl (by decide)⟩
  · intro k hk
    have : k = 0 ∨ k = 1 := by simp [exT0] at hk; omega
    rcases this with rfl | rfl
    · refine ⟨?_, by decide, ?_⟩
      · show Links exT0 (hd 0) (hd 0) [0, 3]
        simp only [Links]; decide
      · intro x hx
        have : x = 0 ∨ x = 3 := by simpa [exL0] using hx
        rcases this with rfl | rfl
        · exact ⟨rfl, fun f => f, 3, exRun03⟩
        · exact ⟨rfl, fun f => f, 6, exRun36⟩
    · refine ⟨?_, by decide, ?_⟩
      · show Links exT0 (hd 1) (hd 1) []
        simp only [Links]; decide
      · intro x hx
        simp [exL0] at hx


theorem exFresh : Fresh exA0 := ⟨fun _ => rfl, fun _ => rfl⟩
theorem exAbs : Abs 2 exT0 exA0 := ⟨rfl, exL0, exRel⟩

/-- `IntArrayFreeList::new(6, 3, 2)` (debug build) is well formed and represents the fresh abstract
state (6 units, grain 3, everything on head 0's list); from it there is a two-step concrete history
(allocate 2 units through head 0, free them again) that respects the protocol — the hypotheses of
`alloc_refines`, `free_refines`, `step_refines`, `history_refines`, `concrete_history_no_overlap` and
`concrete_history_conservation` hold for it. -/
example : ∃ t0 a0, okOf (IntArray.new true 6 3 2) = some t0 ∧ Fresh a0 ∧ Abs 2 t0 a0 ∧ a0.units = 6 ∧
    ∃ (s e : Nat) (t1 t2 : Tab), Pre a0 (.alloc 0 s 2 e) ∧ Pre (Runs.apply a0 (.alloc 0 s 2 e)) (.free 0 s (s + 2)) ∧
      CReach true 2 t0 a0 t1 (Runs.apply a0 (.alloc 0 s 2 e)) ∧
      CReach true 2 t0 a0 t2 (Runs.apply (Runs.apply a0 (.alloc 0 s 2 e)) (.free 0 s (s + 2))) := by
  refine ⟨exT0, exA0, exT0_new, exFresh, exAbs, rfl, ?_⟩
  rcases alloc_refines (k := 0) (n := 2) true exAbs (by decide) (by decide) with ⟨s, e, t1, h1, h2, h3⟩ | ⟨_, h2⟩
  · have hpre : Pre (Runs.apply exA0 (.alloc 0 s 2 e)) (.free 0 s (s + 2)) := by
      obtain ⟨m1, m2⟩ := alloc_makes_run exA0 0 s 2 e h2
      refine ⟨m1, m2 s (Nat.le_refl _) (by omega), ?_, ?_⟩
      · intro hm
        have := hm.1
        have c : ¬ (s ≤ s - 1 ∧ s - 1 < s + 2) := by omega
        simp only [Runs.apply, c, if_false]; rfl
      · intro _
        have c : ¬ (s ≤ s + 2 ∧ s + 2 < s + 2) := by omega
        simp only [Runs.apply, c, if_false]; rfl
    obtain ⟨t2, l, r, g1, _⟩ := free_refines true true h3 (by decide) hpre
    have s1 : CReach true 2 exT0 exA0 t1 (Runs.apply exA0 (.alloc 0 s 2 e)) :=
      .step .init (.alloc 0 2 s e (by decide) h1 h2)
    exact ⟨s, e, t1, t2, h2, hpre, s1, .step s1 (.free 0 s (s + 2) true _ (by decide) g1 hpre)⟩
  · exact absurd ⟨0, 3, exRun03, rfl, by decide⟩ h2

end example_

end Mmtk.FreeList
