import MmtkModel.Model.FreeList
import MmtkModel.Spec.Runs
/-!
# C26 — Free lists allocate disjoint runs and coalesce back completely

Two layers (DESIGN §4.4).

**Abstract** (`Mmtk.Runs`, complete): over every history of `alloc / alloc_from_unit / free /
set_uncoalescable / clear_uncoalescable` that respects the callers' protocol (`Runs.Pre`), on any
number of heads: runs are pairwise disjoint and inside the list (`runs_disjoint`), a unit's owner is
constant over its run (`wf_reach`), `alloc` may fail only when the head owns no fitting run
(`alloc_fails_only_if_no_run`), and `free_all_coalesces`: whenever every unit is free again, every
remaining boundary carries an uncoalescable mark or is a pristine initial grain boundary — with no
marks and `grain = units` the single initial run is restored exactly (`free_all_restores_single_run`).

**Concrete** (`Mmtk.FreeList`, the table with its masks; exact differential against both
implementations): entry-level lemmas are proved here (`enc`/`dec`, link and size fields survive the
flag updates).  The whole-history refinement `history_refines` (under the table invariant `WF`, each
concrete op returns what `Runs.Pre` allows and commutes with the abstraction) is **not** proved;
target statement at the end of the file.
-/
namespace Mmtk.Runs

/-! ## runs are disjoint and inside the list -/

/-- **runs_disjoint.** Two different runs of the partition do not overlap, and every run lies in
`[0, units)`. -/
theorem runs_disjoint (a : AS) {s e s' e' : Nat} (h : IsRun a s e) (h' : IsRun a s' e') (hlt : s < s') :
    e ≤ s' ∧ e ≤ a.units ∧ e' ≤ a.units := by
  refine ⟨?_, h.2.1, h'.2.1⟩
  rcases Nat.lt_or_ge s' e with hin | hge
  · have hc := h.2.2.2.2 s' hlt hin
    rcases h'.2.2.1 with h0 | hcut
    · omega
    · rw [hc] at hcut; cases hcut
  · exact hge

/-- A run is determined by its start. -/
theorem run_end_unique (a : AS) {s e e' : Nat} (h : IsRun a s e) (h' : IsRun a s e') : e = e' := by
  rcases Nat.lt_trichotomy e e' with hlt | heq | hgt
  · have := h'.2.2.2.2 e h.1 hlt
    rcases h.2.2.2.1 with hu | hc
    · have := h'.2.1; omega
    · rw [this] at hc; cases hc
  · exact heq
  · have := h.2.2.2.2 e' h'.1 hgt
    rcases h'.2.2.2.1 with hu | hc
    · have := h.2.1; omega
    · rw [this] at hc; cases hc

/-! ## invariants of protocol-respecting histories -/

/-- A unit's owner is constant inside a run. -/
def WF (a : AS) : Prop := ∀ b, 0 < b → b < a.units → a.cut b = false → a.own b = a.own (b - 1)

/-- Boundaries of allocated runs are touched. -/
def AllocTouched (a : AS) : Prop :=
  ∀ b, 0 < b → b < a.units → a.cut b = true → (a.own b = none ∨ a.own (b - 1) = none) → a.touched b = true

/-- Pristine boundaries are exactly the initial ones. -/
def Prist (a0 a : AS) : Prop := ∀ b, a.touched b = false → a.cut b = a0.cut b

/-- No two adjacent free runs could still be merged. -/
def Coalesced (a : AS) : Prop :=
  ∀ b, 0 < b → b < a.units → a.cut b = true → a.own (b - 1) ≠ none → a.own b ≠ none →
    a.unc b = true ∨ a.touched b = false

structure Inv (a0 a : AS) : Prop where
  units : a.units = a0.units
  wf : WF a
  at_ : AllocTouched a
  pr : Prist a0 a
  co : Coalesced a

theorem inv_step {a0 a : AS} (op : Op) (hi : Inv a0 a) (hp : Pre a op) : Inv a0 (apply a op) := by
  obtain ⟨hu, hwf, hat, hpr, hco⟩ := hi
  cases op with
  | alloc k s n e =>
    obtain ⟨⟨hse, heu, hs, he, hin⟩, hown, hn, hfit⟩ := hp
    refine ⟨hu, ?_, ?_, ?_, ?_⟩
    · intro b hb0 hbu hcut
      simp only [apply] at hcut ⊢
      by_cases h1 : b = s + n
      · simp [h1] at hcut
      · simp only [h1, if_false] at hcut
        have := hwf b hb0 hbu hcut
        by_cases h2 : s ≤ b ∧ b < s + n
        · have h3 : s ≤ b - 1 ∧ b - 1 < s + n := by
            refine ⟨?_, by omega⟩
            rcases Nat.lt_or_ge s b with h | h
            · omega
            · have : b = s := by omega
              subst this
              rcases hs with h0 | hc
              · omega
              · rw [hcut] at hc; cases hc
          simp [h2, h3]
        · have h3 : ¬ (s ≤ b - 1 ∧ b - 1 < s + n) := by omega
          simp [h2, h3, this]
    · intro b hb0 hbu hcut hnone
      simp only [apply] at hcut hnone ⊢
      by_cases h1 : b = s ∨ b = s + n
      · simp [h1]
      · simp only [h1, if_false]
        have hb1 : b ≠ s + n := fun h => h1 (Or.inr h)
        simp only [hb1, if_false] at hcut
        have hout : ¬ (s < b ∧ b < e) := fun ⟨x, y⟩ => by
          have := hin b x y; rw [this] at hcut; cases hcut
        have h2 : ¬ (s ≤ b ∧ b < s + n) := by omega
        have h3 : ¬ (s ≤ b - 1 ∧ b - 1 < s + n) := by omega
        simp only [h2, h3, if_false] at hnone
        exact hat b hb0 hbu hcut hnone
    · intro b hb
      simp only [apply] at hb ⊢
      by_cases h1 : b = s ∨ b = s + n
      · simp [h1] at hb
      · simp only [h1, if_false] at hb
        have hb1 : b ≠ s + n := fun h => h1 (Or.inr h)
        simp only [hb1, if_false]
        exact hpr b hb
    · intro b hb0 hbu hcut hl hr
      simp only [apply] at hcut hl hr ⊢
      by_cases h2 : s ≤ b ∧ b < s + n
      · simp [h2] at hr
      · by_cases h3 : s ≤ b - 1 ∧ b - 1 < s + n
        · simp [h3] at hl
        · simp only [h2, h3, if_false] at hl hr
          have hb1 : b ≠ s + n := by omega
          have hb2 : b ≠ s := by omega
          simp only [hb1, hb2, if_false, or_self] at hcut ⊢
          exact hco b hb0 hbu hcut hl hr
  | free k s e =>
    obtain ⟨⟨hse, heu, hs, he, hin⟩, hown, hL, hR⟩ := hp
    -- the whole run is allocated
    have hrun : ∀ u, s ≤ u → u < e → a.own u = none := by
      intro u hsu hue
      induction u with
      | zero => have : s = 0 := by omega
                subst this; exact hown
      | succ m ih =>
        rcases Nat.lt_or_ge s (m + 1) with h | h
        · have hc := hin (m + 1) h hue
          have := hwf (m + 1) (by omega) (by omega) hc
          rw [this]; simpa using ih (by omega) (by omega)
        · have : s = m + 1 := by omega
          subst this; exact hown
    refine ⟨hu, ?_, ?_, ?_, ?_⟩
    · intro b hb0 hbu hcut
      change b < a.units at hbu
      simp only [apply] at hcut ⊢
      by_cases hbs : b = s ∧ mergeL a s
      · obtain ⟨rfl, hm⟩ := hbs
        have h2 : b ≤ b ∧ b < e := ⟨Nat.le_refl _, hse⟩
        have h3 : ¬ (b ≤ b - 1 ∧ b - 1 < e) := by omega
        simp [h2, h3, hL hm]
      · by_cases hbe : b = e ∧ mergeR a e
        · obtain ⟨rfl, hm⟩ := hbe
          have h2 : ¬ (s ≤ b ∧ b < b) := by omega
          have h3 : s ≤ b - 1 ∧ b - 1 < b := by omega
          simp [h2, h3, hR hm]
        · simp only [hbs, hbe, or_self, if_false] at hcut
          have := hwf b hb0 hbu hcut
          by_cases h2 : s ≤ b ∧ b < e
          · have h3 : s ≤ b - 1 ∧ b - 1 < e := by
              refine ⟨?_, by omega⟩
              rcases Nat.lt_or_ge s b with h | h
              · omega
              · have hbs' : b = s := by omega
                subst hbs'
                rcases hs with h0 | hc
                · omega
                · rw [hcut] at hc; cases hc
            simp [h2, h3]
          · have h3 : ¬ (s ≤ b - 1 ∧ b - 1 < e) := by
              intro ⟨x, y⟩
              have hbe' : b = e := by omega
              subst hbe'
              rcases he with h0 | hc
              · omega
              · rw [hcut] at hc; cases hc
            simp [h2, h3, this]
    · intro b hb0 hbu hcut hnone
      change b < a.units at hbu
      simp only [apply] at hcut hnone ⊢
      have hc' : a.cut b = true := by
        by_cases hx : (b = s ∧ mergeL a s) ∨ (b = e ∧ mergeR a e)
        · simp [hx] at hcut
        · simpa [hx] using hcut
      apply hat b hb0 hbu hc'
      by_cases h2 : s ≤ b ∧ b < e
      · exact Or.inl (hrun b h2.1 h2.2)
      · by_cases h3 : s ≤ b - 1 ∧ b - 1 < e
        · exact Or.inr (hrun (b - 1) h3.1 h3.2)
        · simpa [h2, h3] using hnone
    · intro b hb
      simp only [apply] at hb ⊢
      have := hpr b hb
      by_cases hx : (b = s ∧ mergeL a s) ∨ (b = e ∧ mergeR a e)
      · -- a boundary that disappears was the edge of an allocated run, hence touched
        exfalso
        rcases hx with ⟨rfl, hm⟩ | ⟨rfl, hm⟩
        · have hcs : a.cut b = true := by
            rcases hs with h0 | hc
            · have := hm.1; omega
            · exact hc
          have := hat b hm.1 (by omega) hcs (Or.inl hown)
          rw [this] at hb; cases hb
        · have hce : a.cut b = true := by
            rcases he with h0 | hc
            · have := hm.1; omega
            · exact hc
          have := hat b (by omega) hm.1 hce (Or.inr (hrun (b - 1) (by omega) (by omega)))
          rw [this] at hb; cases hb
      · simp [hx, this]
    · intro b hb0 hbu hcut hl hr
      change b < a.units at hbu
      simp only [apply] at hcut hl hr ⊢
      have hx : ¬ ((b = s ∧ mergeL a s) ∨ (b = e ∧ mergeR a e)) := by
        intro hx; simp [hx] at hcut
      have hc' : a.cut b = true := by simpa [hx] using hcut
      by_cases hbs : b = s
      · subst hbs
        have hnm : ¬ mergeL a b := fun h => hx (Or.inl ⟨rfl, h⟩)
        have h3 : ¬ (b ≤ b - 1 ∧ b - 1 < e) := by omega
        simp only [h3, if_false] at hl
        simp only [mergeL, not_and] at hnm
        by_cases hu' : a.unc b = true
        · exact Or.inl hu'
        · exact absurd hl (hnm hb0 (by simpa using hu'))
      · by_cases hbe : b = e
        · subst hbe
          have hnm : ¬ mergeR a b := fun h => hx (Or.inr ⟨rfl, h⟩)
          have h2 : ¬ (s ≤ b ∧ b < b) := by omega
          simp only [h2, if_false] at hr
          simp only [mergeR, not_and] at hnm
          by_cases hu' : a.unc b = true
          · exact Or.inl hu'
          · exact absurd hr (hnm hbu (by simpa using hu'))
        · have h2 : ¬ (s ≤ b ∧ b < e) := fun ⟨x, y⟩ => by
            have := hin b (by omega) y; rw [this] at hc'; cases hc'
          have h3 : ¬ (s ≤ b - 1 ∧ b - 1 < e) := by omega
          simp only [h2, h3, if_false] at hl hr
          exact hco b hb0 hbu hc' hl hr
  | setUnc u =>
    refine ⟨hu, hwf, hat, hpr, ?_⟩
    intro b hb0 hbu hcut hl hr
    simp only [apply] at hcut hl hr ⊢
    by_cases h : b = u
    · simp [h]
    · simp only [h, if_false]; exact hco b hb0 hbu hcut hl hr
  | clrUnc u =>
    refine ⟨hu, hwf, hat, hpr, ?_⟩
    intro b hb0 hbu hcut hl hr
    simp only [apply] at hcut hl hr ⊢
    by_cases h : b = u
    · subst h
      exact absurd ⟨hb0, hbu, hcut, hl, hr⟩ hp
    · simp only [h, if_false]; exact hco b hb0 hbu hcut hl hr

/-- A fresh list: every unit free on head 0's list, nothing touched. -/
structure Fresh (a0 : AS) : Prop where
  own : ∀ u, a0.own u = some 0
  touched : ∀ b, a0.touched b = false

theorem inv_init (a0 : AS) (h : Fresh a0) : Inv a0 a0 :=
  ⟨rfl, fun b _ _ _ => by rw [h.own, h.own], fun b _ _ _ hn => by simp [h.own] at hn,
   fun _ _ => rfl, fun b _ _ _ _ _ => Or.inr (h.touched b)⟩

theorem inv_reach {a0 a : AS} (h0 : Fresh a0) (hr : Reach a0 a) : Inv a0 a := by
  induction hr with
  | init => exact inv_init a0 h0
  | step op _ hp ih => exact inv_step op ih hp

/-- The owner of a unit is constant over its run, in every reachable state. -/
theorem wf_reach {a0 a : AS} (h0 : Fresh a0) (hr : Reach a0 a) : WF a := (inv_reach h0 hr).wf

/-- **free_all_coalesces.** After any protocol-respecting history (any number of heads, any
marks), once every unit is free again, each boundary that is still there either carries an
uncoalescable mark or is a pristine initial boundary (an initial grain boundary at which no
allocation ever started or ended); and no pristine initial boundary has been lost. -/
theorem free_all_coalesces {a0 a : AS} (h0 : Fresh a0) (hr : Reach a0 a)
    (hall : ∀ u, u < a.units → a.own u ≠ none) :
    (∀ b, 0 < b → b < a.units → a.cut b = true →
        a.unc b = true ∨ (a.touched b = false ∧ a0.cut b = true)) ∧
    (∀ b, a.touched b = false → a0.cut b = true → a.cut b = true) := by
  have hi := inv_reach h0 hr
  refine ⟨fun b hb0 hbu hcut => ?_, fun b ht hc => by rw [hi.pr b ht]; exact hc⟩
  rcases hi.co b hb0 hbu hcut (hall (b - 1) (by omega)) (hall b hbu) with h | h
  · exact Or.inl h
  · exact Or.inr ⟨h, by rw [← hi.pr b h]; exact hcut⟩

/-- **Restoring the initial runs.** With a single initial run (`grain = units`) and no mark left,
freeing everything restores exactly the initial run `[0, units)`. -/
theorem free_all_restores_single_run {a0 a : AS} (h0 : Fresh a0) (hr : Reach a0 a)
    (hsingle : ∀ b, 0 < b → b < a0.units → a0.cut b = false) (hpos : 0 < a0.units)
    (hall : ∀ u, u < a.units → a.own u ≠ none) (hnomark : ∀ b, a.unc b = false) :
    IsRun a 0 a.units := by
  have hu := (inv_reach h0 hr).units
  refine ⟨by omega, Nat.le_refl _, Or.inl rfl, Or.inl rfl, fun b hb0 hbu => ?_⟩
  rcases hcb : a.cut b with _ | _
  · rfl
  · rcases (free_all_coalesces h0 hr hall).1 b hb0 hbu hcb with h | ⟨_, h⟩
    · rw [hnomark b] at h; cases h
    · rw [hsingle b hb0 (by omega)] at h; cases h

/-- **alloc_fails_only_if_no_run** (specification of the allowed answers): `alloc(k, n)` may
answer `FAILURE` only when `¬ CanAlloc a k n`; when some run fits, every fitting run is an allowed
answer, and taking it satisfies `Pre`. -/
theorem alloc_fails_only_if_no_run (a : AS) (k n : Nat) (hn : 1 ≤ n) :
    CanAlloc a k n ↔ ∃ s e, Pre a (.alloc k s n e) := by
  constructor
  · rintro ⟨s, e, hr, ho, hf⟩; exact ⟨s, e, hr, ho, hn, hf⟩
  · rintro ⟨s, e, hr, ho, _, hf⟩; exact ⟨s, e, hr, ho, hf⟩

/-- After `alloc` the taken units form an allocated run of exactly `n` units (`size` reports it). -/
theorem alloc_makes_run (a : AS) (k s n e : Nat) (hp : Pre a (.alloc k s n e)) :
    IsRun (apply a (.alloc k s n e)) s (s + n) ∧
    ∀ u, s ≤ u → u < s + n → (apply a (.alloc k s n e)).own u = none := by
  obtain ⟨⟨hse, heu, hs, he, hin⟩, _, hn, hfit⟩ := hp
  refine ⟨⟨by omega, by simp only [apply]; omega, ?_, Or.inr (by simp [apply]), ?_⟩, ?_⟩
  · rcases hs with h | h
    · exact Or.inl h
    · refine Or.inr ?_
      simp only [apply]
      have : s ≠ s + n := by omega
      simp [this, h]
  · intro b h1 h2
    simp only [apply]
    have : b ≠ s + n := by omega
    simp only [this, if_false]
    exact hin b h1 (by omega)
  · intro u h1 h2
    simp [apply, h1, h2]

/-- The hypotheses are satisfiable: a 10-unit list with grains of 5, two heads; allocate 2 units,
mark, free them again. -/
example : ∃ a0 : AS, Fresh a0 ∧ a0.units = 10 ∧
    Pre a0 (.alloc 0 0 2 5) ∧ Pre (apply a0 (.alloc 0 0 2 5)) (.free 0 0 2) := by
  refine ⟨⟨10, fun b => b == 0 || b == 5 || b == 10, fun _ => some 0, fun _ => false, fun _ => false⟩,
    ⟨fun _ => rfl, fun _ => rfl⟩, rfl, ?_, ?_⟩
  · refine ⟨⟨by omega, by simp, Or.inl rfl, Or.inr (by simp), ?_⟩, rfl, by omega, by omega⟩
    intro b h1 h2
    have : b ≠ 0 ∧ b ≠ 5 ∧ b ≠ 10 := by omega
    simp [this]
  · refine ⟨⟨by omega, by simp [apply], Or.inl rfl, Or.inr (by simp [apply]), ?_⟩, by simp [apply], ?_, ?_⟩
    · intro b h1 h2
      have : b = 1 := by omega
      subst this; simp [apply]
    · intro h; exact absurd h.1 (by omega)
    · intro _; simp [apply]

end Mmtk.Runs

namespace Mmtk.FreeList

/-! ## concrete layer: entry-level lemmas -/

/-- Patterns decode to the `i32` they encode (checked on the boundary values the table uses). -/
example : dec (enc (-1)) = -1 ∧ dec (enc (-128)) = -128 ∧ dec (enc 1073741694) = 1073741694 ∧
    enc (-1) &&& M30 = 1073741823 ∧ dec (B31 ||| enc 5) = -2147483643 := by decide

/-- `get_next` after `set_next` (release build) returns the link, for every stored entry and every
in-range unit link: the MULTI flag in the same entry is untouched. -/
theorem getNext_setNext (t : Tab) (head u : Int) (next : Nat) (old : Nat)
    (hn : (next : Int) ≤ MAX_UNITS) (hold : getHi t u = .ok old) :
    ∃ t', setNext false t u next = .ok t' ∧ getNext t' head u = .ok (next : Int) ∧
      (∀ h, getHi t' u = .ok h → h &&& B31 = old &&& NOT_M30 &&& B31) := by
  unfold getHi getEntry at hold
  split at hold
  · rename_i hin
    simp only [setNext, Bool.false_and, Bool.false_eq_true, if_false, bind, Except.bind, getHi, getEntry,
      hin, and_self, if_true, setHi, setEntry, pure, Except.pure, getNext]
    refine ⟨_, rfl, ?_, ?_⟩
    · have hsz : (2 * (u + t.heads) + 1).toNat < t.cells.size := by omega
      simp only [Array.size_setIfInBounds, hin, and_self, if_true, Array.getD_eq_getD_getElem?,
        Array.getElem?_setIfInBounds_self_of_lt hsz, Option.getD_some]
      have hm : next < 1073741824 := by simp only [MAX_UNITS] at hn; omega
      have e1 : enc (next : Int) = next := by
        simp only [enc]; omega
      have e2 : ∀ x : Nat, (x &&& NOT_M30 ||| enc ↑next &&& M30) &&& M30 = next := by
        intro x
        rw [e1]
        apply Nat.eq_of_testBit_eq
        intro i
        simp only [Nat.testBit_and, Nat.testBit_or, M30, NOT_M30]
        by_cases hi : i < 30
        · have h1 : Nat.testBit 1073741823 i = true := by
            have : 1073741823 = 2 ^ 30 - 1 := by decide
            rw [this, Nat.testBit_two_pow_sub_one]; simpa using hi
          have h2 : Nat.testBit 3221225472 i = false := by
            have : 3221225472 = 2 ^ 30 * 3 := by decide
            rw [this, Nat.testBit_two_pow_mul]; simp; omega
          simp [h1, h2]
        · have h1 : Nat.testBit 1073741823 i = false := by
            have : 1073741823 = 2 ^ 30 - 1 := by decide
            rw [this, Nat.testBit_two_pow_sub_one]; simpa using hi
          have h3 : next.testBit i = false := Nat.testBit_lt_two_pow (by
            calc next < 2 ^ 30 := by omega
              _ ≤ 2 ^ i := Nat.pow_le_pow_right (by omega) (by omega))
          simp [h1, h3]
      rw [e2]
      simp [hn]
    · intro h hh
      have hsz : (2 * (u + t.heads) + 1).toNat < t.cells.size := by omega
      simp only [Array.size_setIfInBounds, hin, and_self, if_true, Array.getD_eq_getD_getElem?,
        Array.getElem?_setIfInBounds_self_of_lt hsz, Option.getD_some, Except.ok.injEq] at hh
      subst hh
      simp only [Except.ok.injEq] at hold
      subst hold
      apply Nat.eq_of_testBit_eq
      intro i
      simp only [Nat.testBit_and, Nat.testBit_or, M30, NOT_M30, B31, Array.getD_eq_getD_getElem?]
      by_cases hi : i = 31
      · subst hi
        have : Nat.testBit 1073741823 31 = false := by decide
        simp [this]
      · have : Nat.testBit 2147483648 i = false := by
          have : 2147483648 = 2 ^ 31 := by decide
          rw [this, Nat.testBit_two_pow]; simp; omega
        simp [this]
  · cases hold

/-!
## Target of the concrete layer (not proved — named here so that the gap is explicit)

`theorem history_refines_partial` would be: for `WF t` (sentinels intact; every run's size / multi /
free flags consistent at both ends; each head's list a well-formed circular doubly-linked list of
exactly the runs `own = some k`), every concrete `alloc / allocFromUnit / free / setUncoalescable /
clearUncoalescable` that the protocol allows returns `.ok`, its result is one of the answers
`Runs.Pre` allows for `abs t`, `abs (t') = Runs.apply (abs t) op`, and `WF t'`; hence by induction
every history of the concrete model is a history of `Mmtk.Runs` and inherits the theorems above.
What ties the concrete model to the abstract one today is (i) the exact differential of the
concrete model against both implementations (returned units, raw table dumps, sizes) and (ii) the
abstract specification replayed as the oracle on the implementation's own answers.
-/

/-- Witness that the protocol hypothesis of `Runs.Pre (.free …)` is needed: coalescing into a run
that sits on another head's list (no uncoalescable mark in between) puts one run on two lists,
and both heads are then handed the same units. 10 units, grain 5, heads 2: head 0 allocates both
runs, head 1 frees `[0,5)`, head 0 frees `[5,10)` (coalesces with head 1's run), then both heads
successfully allocate 10 units at unit 0. -/
def okOf {α : Type} (r : M α) : Option α :=
  match r with
  | .ok v => some v
  | .error _ => none

theorem cross_head_coalesce_double_allocates :
    okOf (do
        let t ← IntArray.new false 10 5 2
        let (t, a) ← alloc false t (-1) 5
        let (t, b) ← alloc false t (-1) 5
        let (t, _) ← free false t (-2) 0 true
        let (t, m) ← free false t (-1) 5 true
        let (t, x) ← alloc false t (-1) 10
        let (_, y) ← alloc false t (-2) 10
        pure (a, b, m, x, y) : M _) = some (0, 5, 10, 0, 0) := by
  decide +kernel

end Mmtk.FreeList
