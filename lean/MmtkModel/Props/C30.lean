import MmtkModel.Model.CSM
import MmtkModel.Props.C40
/-!
# C30 — Mmap chunk states only move Unmapped → Quarantined → Mapped

All theorems hold for every range, every storage, and an **arbitrary** OS (`os : OS σ`, any state
type, may fail at any call). Histories are unbounded lists of operations.
-/
namespace Mmtk.CSM
open Mmtk.RevGroup

/-! ## addresses vs chunk indices (justifies the model's representation) -/

/-- `slab_index(addr) = addr >> 35` is the slab of the address' chunk. -/
theorem addr_slab_index (a : Nat) : a >>> 35 = slabIndex (a / 2 ^ 22) := by
  unfold slabIndex chunksPerSlab
  rw [Nat.shiftRight_eq_div_pow, Nat.div_div_eq_div_mul]

/-- `in_slab_index(addr) = (addr & MMAP_SLAB_MASK) >> 22` is the chunk's index in its slab. -/
theorem addr_in_slab_index (a : Nat) : (a &&& (2 ^ 35 - 1)) >>> 22 = inSlabIndex (a / 2 ^ 22) := by
  unfold inSlabIndex chunksPerSlab
  have : (2:Nat) ^ 35 = 2 ^ 22 * 8192 := by decide
  rw [Nat.and_two_pow_sub_one_eq_mod, Nat.shiftRight_eq_div_pow, this, Nat.mod_mul_right_div_self]

/-! ## the slab loop -/

private theorem slice_chunks_eq (low limit : Nat) (h : low < limit) :
    let high := min ((low + chunksPerSlab) / chunksPerSlab * chunksPerSlab) limit
    (Slice.mk (slabIndex low) (inSlabIndex low)
      (if inSlabIndex high = 0 then chunksPerSlab else inSlabIndex high)).chunks
      = List.range' low (high - low) ∧ low < high ∧ high ≤ limit := by
  intro high
  unfold Slice.chunks
  simp only
  have hhigh : high = min ((low + 8192) / 8192 * 8192) limit := rfl
  have h1 : slabIndex low * chunksPerSlab + inSlabIndex low = low := by
    unfold slabIndex inSlabIndex chunksPerSlab; omega
  have h2 : (if inSlabIndex high = 0 then chunksPerSlab else inSlabIndex high) - inSlabIndex low
      = high - low := by
    unfold inSlabIndex chunksPerSlab
    split <;> omega
  refine ⟨?_, by omega, by omega⟩
  rw [h2, List.map_add_range', h1]

theorem slabSlices_cover : ∀ (fuel low limit : Nat), limit - low < fuel →
    (slabSlices fuel low limit).flatMap Slice.chunks = List.range' low (limit - low) := by
  intro fuel
  induction fuel with
  | zero => intro low limit h; omega
  | succ n ih =>
    intro low limit hf
    unfold slabSlices
    by_cases h : low < limit
    · simp only [h, if_true, List.flatMap_cons]
      obtain ⟨e1, e2, e3⟩ := slice_chunks_eq low limit h
      rw [e1, ih _ limit (by omega)]
      generalize min ((low + chunksPerSlab) / chunksPerSlab * chunksPerSlab) limit = high at e2 e3
      have : limit - low = (high - low) + (limit - high) := by omega
      rw [this, ← List.range'_append_1]
      congr 2; omega
    · simp only [h, if_false, List.flatMap_nil]
      have : limit - low = 0 := by omega
      rw [this]; rfl

/-- **C30 (slab slices cover).** The slices `foreach_slab_slice_for_write` visits for the chunk range
`[c0, c0 + n)` are exactly its chunks, ascending, each once — for every range, including those
that cross any number of slab boundaries. -/
theorem slab_slices_cover (c0 n : Nat) : visited c0 n = List.range' c0 n := by
  unfold visited
  rw [slabSlices_cover (n + 1) c0 (c0 + n) (by omega)]
  congr 1; omega

/-! ## the two-level storage refines the flat map `chunk ↦ state` -/

theorem getState_setChunk (S : Storage) (c c' : Nat) (v : MapState) (hc : c < limitChunks) :
    getState (setChunk S c v) c' = if c' = c then v else getState S c' := by
  have hs : slabIndex c < maxSlabs := by unfold slabIndex chunksPerSlab maxSlabs; unfold limitChunks at hc; omega
  unfold getState setChunk
  by_cases h : c' = c
  · subst h; simp [hs]
  · simp only [h, if_false]
    by_cases hsl : slabIndex c' = slabIndex c
    · have hin : inSlabIndex c' ≠ inSlabIndex c := by
        unfold slabIndex chunksPerSlab at hsl; unfold inSlabIndex chunksPerSlab; omega
      simp only [hsl, hs, if_true, hin, if_false]
      cases S.slabs (slabIndex c) <;> rfl
    · simp only [hsl, if_false]

theorem getState_foldl_setChunk (v : MapState) : ∀ (l : List Nat) (S : Storage) (c : Nat),
    (∀ x ∈ l, x < limitChunks) →
    getState (l.foldl (fun S c => setChunk S c v) S) c = if c ∈ l then v else getState S c := by
  intro l
  induction l with
  | nil => intro S c _; simp
  | cons x xs ih =>
    intro S c h
    simp only [List.foldl_cons]
    rw [ih _ c (fun y hy => h y (List.mem_cons_of_mem _ hy)), getState_setChunk _ _ _ _ (h x List.mem_cons_self)]
    by_cases h1 : c ∈ xs
    · simp [h1]
    · by_cases h2 : c = x <;> simp [h1, h2]

/-- **C30 (refinement).** `bulk_set_state` on the two-level storage is the flat update: every chunk
of the range gets the state, every other chunk — in whatever slab, present or absent — keeps its
state; ranges beyond the mappable limit panic. -/
theorem two_level_refines_flat (S : Storage) (c0 n : Nat) (v : MapState) :
    (c0 + n ≤ limitChunks ∨ n = 0 →
      (bulkSetState S c0 n v).2 = .ok ∧
      ∀ c, getState (bulkSetState S c0 n v).1 c = if c0 ≤ c ∧ c < c0 + n then v else getState S c) ∧
    (¬ (c0 + n ≤ limitChunks ∨ n = 0) → bulkSetState S c0 n v = (S, .panic)) := by
  unfold bulkSetState
  constructor
  · intro h
    by_cases h0 : n = 0
    · simp only [h0, if_true]; refine ⟨trivial, fun c => ?_⟩
      have : ¬ (c0 ≤ c ∧ c < c0 + 0) := by omega
      rw [if_neg this]
    · have hl : ¬ c0 + n > limitChunks := by omega
      simp only [h0, if_false, hl]
      by_cases h1 : n = 1
      · simp only [h1, if_true]; refine ⟨trivial, fun c => ?_⟩
        rw [getState_setChunk _ _ _ _ (by omega)]
        by_cases hc : c = c0
        · subst hc; simp
        · have : ¬ (c0 ≤ c ∧ c < c0 + 1) := by omega
          simp [hc, this]
      · simp only [h1, if_false]; refine ⟨trivial, fun c => ?_⟩
        rw [slab_slices_cover, getState_foldl_setChunk v _ _ _ (by
          intro x hx; rw [List.mem_range'_1] at hx; omega)]
        simp only [List.mem_range'_1]
  · intro h
    have h0 : ¬ n = 0 := by omega
    have hl : c0 + n > limitChunks := by omega
    simp [h0, hl]

/-! ## transitions -/

/-- An `update_fn` never asks for a smaller state. -/
def StepMono {σ : Type} (step : σ → Nat → Nat → MapState → σ × Upd) : Prop :=
  ∀ os c len s os' ns, step os c len s = (os', .set ns) → s.rank ≤ ns.rank

/-- Whenever an `update_fn` lets the loop continue, the group is (or becomes) at least `t`. -/
def StepReach {σ : Type} (step : σ → Nat → Nat → MapState → σ × Upd) (t : Nat) : Prop :=
  ∀ os c len s os', (step os c len s = (os', .keep) → t ≤ s.rank) ∧
    (∀ ns, step os c len s = (os', .set ns) → t ≤ ns.rank)

theorem quarantineStep_mono {σ : Type} (os : OS σ) : StepMono (quarantineStep os) := by
  intro st c len s os' ns h
  unfold quarantineStep at h
  cases s <;> simp only at h
  · split at h <;> simp at h
    obtain ⟨_, rfl⟩ := h; simp [MapState.rank]
  · simp at h
  · simp at h

theorem ensureMappedStep_mono {σ : Type} (os : OS σ) : StepMono (ensureMappedStep os) := by
  intro st c len s os' ns h
  unfold ensureMappedStep at h
  cases s <;> simp only at h
  · split at h <;> simp at h
    obtain ⟨_, rfl⟩ := h; simp [MapState.rank]
  · split at h <;> simp at h
    obtain ⟨_, rfl⟩ := h; simp [MapState.rank]
  · simp at h

theorem quarantineStep_reach {σ : Type} (os : OS σ) : StepReach (quarantineStep os) 1 := by
  intro st c len s os'
  unfold quarantineStep
  cases s <;> simp only
  · constructor
    · intro h; split at h <;> simp at h
    · intro ns h; split at h <;> simp at h
      obtain ⟨_, rfl⟩ := h; simp [MapState.rank]
  · constructor <;> simp
  · constructor <;> simp [MapState.rank]

theorem ensureMappedStep_reach {σ : Type} (os : OS σ) : StepReach (ensureMappedStep os) 2 := by
  intro st c len s os'
  unfold ensureMappedStep
  cases s <;> simp only
  · constructor
    · intro h; split at h <;> simp at h
    · intro ns h; split at h <;> simp at h
      obtain ⟨_, rfl⟩ := h; simp [MapState.rank]
  · constructor
    · intro h; split at h <;> simp at h
    · intro ns h; split at h <;> simp at h
      obtain ⟨_, rfl⟩ := h; simp [MapState.rank]
  · constructor <;> simp [MapState.rank]

/-- The group loop: states never go below the initial ones (whatever the result), and on `ok`
every chunk of every group ends at least at `t`, and chunks already at `t` stay there. -/
theorem applyGroups_spec {σ : Type} (step : σ → Nat → Nat → MapState → σ × Upd)
    (hm : StepMono step) (t : Nat) (hr : StepReach step t) (S0 : Storage) (c0 : Nat) :
    ∀ (gs : List (Group Nat MapState)) (si : Nat) (S : Storage) (os : σ),
      (∀ g ∈ gs, ∀ x ∈ g.items, getState S0 x = g.key ∧ x < limitChunks) →
      (∀ c, (getState S0 c).rank ≤ (getState S c).rank) →
      (∀ c, (getState S0 c).rank ≤ (getState (applyGroups step c0 gs si S os).1 c).rank) ∧
      ((applyGroups step c0 gs si S os).2.2 = .ok → ∀ c,
        (t ≤ (getState S c).rank → t ≤ (getState (applyGroups step c0 gs si S os).1 c).rank) ∧
        (c ∈ gs.flatMap (·.items) → t ≤ (getState (applyGroups step c0 gs si S os).1 c).rank)) := by
  intro gs
  induction gs with
  | nil => intro si S os _ hI; simp [applyGroups]; exact hI
  | cons g gs ih =>
    intro si S os hk hI
    have hk' : ∀ g' ∈ gs, ∀ x ∈ g'.items, getState S0 x = g'.key ∧ x < limitChunks :=
      fun g' hg' => hk g' (List.mem_cons_of_mem _ hg')
    have hkg := hk g List.mem_cons_self
    unfold applyGroups
    rcases hstep : step os (c0 + si) g.len g.key with ⟨os', u⟩
    cases u with
    | err => simp only; exact ⟨hI, by intro h; cases h⟩
    | panic => simp only; exact ⟨hI, by intro h; cases h⟩
    | keep =>
      simp only
      obtain ⟨a, b⟩ := ih (si + g.len) S os' hk' hI
      refine ⟨a, fun hok c => ⟨(b hok c).1, ?_⟩⟩
      intro hc
      simp only [List.flatMap_cons, List.mem_append] at hc
      rcases hc with hc | hc
      · apply (b hok c).1
        have h1 := (hr os (c0 + si) g.len g.key os').1 hstep
        have h2 := hI c
        rw [(hkg c hc).1] at h2; omega
      · exact (b hok c).2 hc
    | set ns =>
      simp only
      have hns := hm _ _ _ _ _ _ hstep
      have htn := (hr os (c0 + si) g.len g.key os').2 ns hstep
      have hget : ∀ c, getState (g.items.foldl (fun S c => setChunk S c ns) S) c
          = if c ∈ g.items then ns else getState S c :=
        fun c => getState_foldl_setChunk ns g.items S c (fun x hx => (hkg x hx).2)
      have hI' : ∀ c, (getState S0 c).rank ≤
          (getState (g.items.foldl (fun S c => setChunk S c ns) S) c).rank := by
        intro c; rw [hget]
        by_cases hc : c ∈ g.items
        · simp only [hc, if_true]; rw [(hkg c hc).1]; exact hns
        · simp only [hc, if_false]; exact hI c
      obtain ⟨a, b⟩ := ih (si + g.len) _ os' hk' hI'
      refine ⟨a, fun hok c => ⟨?_, ?_⟩⟩
      · intro hc
        apply (b hok c).1
        rw [hget]; by_cases hc' : c ∈ g.items
        · simp only [hc', if_true]; exact htn
        · simp only [hc', if_false]; exact hc
      · intro hc
        simp only [List.flatMap_cons, List.mem_append] at hc
        rcases hc with hc | hc
        · apply (b hok c).1
          rw [hget]; simp only [hc, if_true]; exact htn
        · exact (b hok c).2 hc

/-- `bulk_transition_state`: monotone always; on `ok` the whole range reaches `t`. -/
theorem bulkTransition_spec {σ : Type} (step : σ → Nat → Nat → MapState → σ × Upd)
    (hm : StepMono step) (t : Nat) (hr : StepReach step t) (S : Storage) (os : σ) (c0 n : Nat) :
    (∀ c, (getState S c).rank ≤ (getState (bulkTransition step S os c0 n).1 c).rank) ∧
    ((bulkTransition step S os c0 n).2.2 = .ok →
      ∀ c, c0 ≤ c → c < c0 + n → t ≤ (getState (bulkTransition step S os c0 n).1 c).rank) := by
  unfold bulkTransition
  by_cases h0 : n = 0
  · simp only [h0, if_true]; exact ⟨fun _ => Nat.le_refl _, fun _ c h1 h2 => by omega⟩
  by_cases hl : c0 + n > limitChunks
  · simp only [h0, if_false, hl, if_true]; exact ⟨fun _ => Nat.le_refl _, fun h => by cases h⟩
  simp only [h0, hl, if_false]
  by_cases h1 : n = 1
  · simp only [h1, if_true]
    rcases hstep : step os c0 1 (getState S c0) with ⟨os', u⟩
    cases u with
    | err => simp only; exact ⟨fun _ => Nat.le_refl _, fun h => by cases h⟩
    | panic => simp only; exact ⟨fun _ => Nat.le_refl _, fun h => by cases h⟩
    | keep =>
      simp only
      refine ⟨fun _ => Nat.le_refl _, fun _ c h1 h2 => ?_⟩
      have : c = c0 := by omega
      subst this; exact (hr os c 1 _ os').1 hstep
    | set ns =>
      simp only
      have hc0 : c0 < limitChunks := by omega
      refine ⟨fun c => ?_, fun _ c h1 h2 => ?_⟩
      · rw [getState_setChunk _ _ _ _ hc0]
        by_cases hc : c = c0
        · subst hc; simp only [if_true]; exact hm _ _ _ _ _ _ hstep
        · simp only [hc, if_false]; exact Nat.le_refl _
      · have : c = c0 := by omega
        subst this
        rw [getState_setChunk _ _ _ _ hc0]; simp only [if_true]
        exact (hr os c 1 _ os').2 ns hstep
  · simp only [h1, if_false]
    have hk : ∀ g ∈ groups (getState S) (visited c0 n), ∀ x ∈ g.items,
        getState S x = g.key ∧ x < limitChunks := by
      intro g hg x hx
      refine ⟨(group_nonempty_same_key (getState S) _ g hg).2 x hx, ?_⟩
      have hmem : x ∈ (groups (getState S) (visited c0 n)).flatMap (·.items) :=
        List.mem_flatMap.2 ⟨g, hg, hx⟩
      rw [groups_concat, slab_slices_cover, List.mem_range'_1] at hmem
      omega
    obtain ⟨a, b⟩ := applyGroups_spec step hm t hr S c0 _ 0 S os hk (fun _ => Nat.le_refl _)
    refine ⟨a, fun hok c h1 h2 => (b hok c).2 ?_⟩
    rw [groups_concat, slab_slices_cover, List.mem_range'_1]; omega

/-! ## the mmapper operations and histories -/

theorem bulkSetState_mapped_mono (S : Storage) (c0 n c : Nat) :
    (getState S c).rank ≤ (getState (bulkSetState S c0 n .mapped).1 c).rank := by
  by_cases h : c0 + n ≤ limitChunks ∨ n = 0
  · have h2 := ((two_level_refines_flat S c0 n .mapped).1 h).2 c
    rw [h2]
    by_cases hc : c0 ≤ c ∧ c < c0 + n
    · rw [if_pos hc]; cases getState S c <;> decide
    · rw [if_neg hc]; exact Nat.le_refl _
  · have h2 := (two_level_refines_flat S c0 n .mapped).2 h
    rw [h2]; exact Nat.le_refl _

theorem bulkSetState_mapped_reaches (S : Storage) (c0 n c : Nat)
    (hok : (bulkSetState S c0 n .mapped).2 = .ok) (h1 : c0 ≤ c) (h2 : c < c0 + n) :
    2 ≤ (getState (bulkSetState S c0 n .mapped).1 c).rank := by
  by_cases h : c0 + n ≤ limitChunks ∨ n = 0
  · have h3 := ((two_level_refines_flat S c0 n .mapped).1 h).2 c
    rw [h3, if_pos ⟨h1, h2⟩]; decide
  · have h3 := (two_level_refines_flat S c0 n .mapped).2 h
    rw [h3] at hok; cases hok

inductive Op
  | quarantine (start pages : Nat)
  | ensureMapped (start pages : Nat)
  | markAsMapped (start bytes : Nat)
deriving Repr

/-- `mark_as_mapped` on the range `r` (no OS call: the OS state is untouched).
By `markAsMapped_eq`, `bulkSetState S r.1 r.2 .mapped` with `r = rangeOfUnaligned start bytes` is
the model's `markAsMapped S start bytes`. -/
def markStep {σ : Type} (S : Storage) (st : σ) (r : Nat × Nat) : Storage × σ × Res :=
  match bulkSetState S r.1 r.2 .mapped with
  | (S', res) => (S', st, res)

def runOp {σ : Type} (os : OS σ) (S : Storage) (st : σ) : Op → Storage × σ × Res
  | .quarantine s p => quarantine os S st s p
  | .ensureMapped s p => ensureMapped os S st s p
  | .markAsMapped s b => markStep S st (rangeOfUnaligned s b)

theorem markStep_fst {σ : Type} (S : Storage) (st : σ) (r : Nat × Nat) :
    (markStep S st r).1 = (bulkSetState S r.1 r.2 .mapped).1 := by
  unfold markStep
  generalize bulkSetState S r.1 r.2 .mapped = X
  cases X; rfl

theorem markStep_res {σ : Type} (S : Storage) (st : σ) (r : Nat × Nat) :
    (markStep S st r).2.2 = (bulkSetState S r.1 r.2 .mapped).2 := by
  unfold markStep
  generalize bulkSetState S r.1 r.2 .mapped = X
  cases X; rfl

/-- Run a whole history (results of the individual ops are irrelevant for monotonicity: the
storage is followed through failures and panics alike). -/
def runHist {σ : Type} (os : OS σ) : List Op → Storage → σ → Storage × σ
  | [], S, st => (S, st)
  | o :: os', S, st => let r := runOp os S st o; runHist os os' r.1 r.2.1

/-- (stated once by `rfl`; unfolding `markAsMapped` in place sends the elaborator into a loop) -/
theorem markAsMapped_eq (S : Storage) (s b : Nat) :
    markAsMapped S s b = bulkSetState S (rangeOfUnaligned s b).1 (rangeOfUnaligned s b).2 .mapped := rfl

theorem runOp_monotone {σ : Type} (os : OS σ) (S : Storage) (st : σ) (o : Op) (c : Nat) :
    (getState S c).rank ≤ (getState (runOp os S st o).1 c).rank := by
  cases o with
  | quarantine s p =>
    simp only [runOp, quarantine]
    generalize rangeOfUnaligned s (p * 2 ^ logBytesInPage) = r
    exact (bulkTransition_spec _ (quarantineStep_mono os) 1 (quarantineStep_reach os) S st r.1 r.2).1 c
  | ensureMapped s p =>
    simp only [runOp, ensureMapped]
    generalize rangeOfUnaligned s (p * 2 ^ logBytesInPage) = r
    exact (bulkTransition_spec _ (ensureMappedStep_mono os) 2 (ensureMappedStep_reach os) S st r.1 r.2).1 c
  | markAsMapped s b =>
    simp only [runOp]
    rw [markStep_fst]
    exact bulkSetState_mapped_mono S _ _ c

/-- **C30 (monotone).** For every history of `quarantine_address_range` / `ensure_mapped` /
`mark_as_mapped` over arbitrary ranges, every OS behaviour (any call may fail) and every chunk: the
recorded state never moves back along Unmapped < Quarantined < Mapped — including across failed
and panicking operations. -/
theorem state_monotone {σ : Type} (os : OS σ) : ∀ (h : List Op) (S : Storage) (st : σ) (c : Nat),
    (getState S c).rank ≤ (getState (runHist os h S st).1 c).rank := by
  intro h
  induction h with
  | nil => intro S st c; exact Nat.le_refl _
  | cons o rest ih =>
    intro S st c
    simp only [runHist]
    exact Nat.le_trans (runOp_monotone os S st o c) (ih _ _ c)

/-- The state an operation requests. -/
def Op.target : Op → Nat
  | .quarantine _ _ => 1 | .ensureMapped _ _ => 2 | .markAsMapped _ _ => 2

/-- The chunk-rounded range of an operation. -/
def Op.range : Op → Nat × Nat
  | .quarantine s p => rangeOfUnaligned s (p * 2 ^ logBytesInPage)
  | .ensureMapped s p => rangeOfUnaligned s (p * 2 ^ logBytesInPage)
  | .markAsMapped s b => rangeOfUnaligned s b

/-- **C30 (reaches).** When an operation succeeds, every chunk of its chunk-rounded range is at
least in the requested state (Quarantined for quarantine — Mapped chunks stay Mapped —, Mapped for
ensure_mapped and mark_as_mapped), for every prior state and OS. -/
theorem range_reaches_state {σ : Type} (os : OS σ) (S : Storage) (st : σ) (o : Op)
    (hok : (runOp os S st o).2.2 = .ok) (c : Nat)
    (h1 : o.range.1 ≤ c) (h2 : c < o.range.1 + o.range.2) :
    o.target ≤ (getState (runOp os S st o).1 c).rank := by
  cases o with
  | quarantine s p =>
    simp only [runOp, quarantine, Op.range, Op.target] at hok h1 h2 ⊢
    generalize rangeOfUnaligned s (p * 2 ^ logBytesInPage) = r at *
    exact (bulkTransition_spec _ (quarantineStep_mono os) 1 (quarantineStep_reach os) S st r.1 r.2).2 hok c h1 h2
  | ensureMapped s p =>
    simp only [runOp, ensureMapped, Op.range, Op.target] at hok h1 h2 ⊢
    generalize rangeOfUnaligned s (p * 2 ^ logBytesInPage) = r at *
    exact (bulkTransition_spec _ (ensureMappedStep_mono os) 2 (ensureMappedStep_reach os) S st r.1 r.2).2 hok c h1 h2
  | markAsMapped s b =>
    simp only [runOp] at hok ⊢
    rw [markStep_res] at hok
    rw [markStep_fst]
    simp only [Op.range] at h1 h2
    simp only [Op.target]
    exact bulkSetState_mapped_reaches S _ _ c hok h1 h2

/-- **C30 (is_mapped).** `is_mapped_address(a)` is true exactly when the chunk containing `a` is
recorded Mapped (for every address, aligned or not, inside or outside the mappable range). -/
theorem is_mapped_iff_M (S : Storage) (a : Nat) :
    isMappedAddress S a = true ↔ getState S (a / 2 ^ 22) = .mapped := by
  unfold isMappedAddress logBytesInChunk; simp

/-! ## satisfiability: a concrete history crossing the slab boundary, with an OS failure -/

end Mmtk.CSM
