import MmtkModel.Model.MsBins
import MmtkModel.Lemmas.MsBinsChecks
import MmtkModel.Lemmas.Bits
/-!
# C35 — Mark-sweep size classes fit every request

*Statement (properties.jsonl)*: for every request size up to the largest size class and every
legal alignment, the selected size class's cell can hold the aligned request, size classes are
monotone in size, and a fresh block's free list contains disjoint cells of that size entirely
within the block.

The quantifier over sizes is finite; it is discharged by an exhaustive kernel evaluation over all
*word* sizes `0 … MI_LARGE_OBJ_WSIZE_MAX` (`checkRange` + `decide +kernel`) on the table
regenerated from the linked crate (`Generated/Bins.lean`), plus a lifting lemma from word sizes to
byte sizes × alignments.

**The full statement is false at the top of the range** (DESIGN §7-F9): `mi_bin` applies
`mi_bin_from_size` to the *worst-case aligned* size `size + align - MIN_ALIGNMENT`, which exceeds
`MAX_BIN_SIZE` for `size` close to `MAX_BIN_SIZE` and `align > MIN_ALIGNMENT`; the result is
`MI_BIN_FULL = 49`, one past the last real bin (debug profile: the `debug_assert!` fires).
`bin_fits_fails_at_top` is the kernel-checked witness, `bin_overflow_region` characterises the
whole failing region, and `bin_fits_partial` is the true part (aligned size ≤ `MAX_BIN_SIZE`).

```
-- FULL STATEMENT (not provable; refuted by `bin_fits_fails_at_top`):
-- theorem bin_fits (debug size align) (hs : size ≤ maxBinSize) (ha : minAlign ≤ align ∧ align ≤ maxAlign)
--     (hd : debug = true → size % minAlign = 0) :
--     ∃ b, miBin debug size align = some b ∧ Fits b (alignedSize size align)
```
-/
namespace Mmtk.MsBins
open Mmtk.Gen.Bins Mmtk.CheckRange Mmtk.Arith

/-! ## Specification vocabulary (independent of the model functions) -/

/-- Worst-case size of a request of `size` bytes at alignment `align` when cells are only known to be
`MIN_ALIGNMENT`-aligned (documented contract of `get_maximum_aligned_size`). -/
def alignedSize (size align : Nat) : Nat :=
  if align ≤ minAlign then size else size + align - minAlign

/-- Bin `b` is a real bin, its cell holds `s` bytes, and no smaller bin would. -/
def Fits (b s : Nat) : Prop :=
  1 ≤ b ∧ b ≤ maxBin ∧ s ≤ binSize b ∧ (b = 1 ∨ binSize (b - 1) < s)

theorem minAlign_eq : minAlign = 8 := rfl
theorem maxAlign_eq : maxAlign = 64 := rfl
theorem maxBinSize_eq : maxBinSize = 65536 := rfl
theorem intptrSize_eq : intptrSize = 8 := rfl

theorem alignedSize_cases (size align : Nat) :
    (align ≤ 8 ∧ alignedSize size align = size) ∨ (8 < align ∧ alignedSize size align = size + align - 8) := by
  unfold alignedSize minAlign
  split <;> omega

/-- `wsize` is the byte size rounded up to words. -/
theorem wsize_bounds (size : Nat) :
    size ≤ intptrSize * wsizeFromSize size ∧ intptrSize * wsizeFromSize size < size + intptrSize := by
  unfold wsizeFromSize intptrSize
  simp only []
  split <;> omega

theorem wsize_mono {a b : Nat} (h : a ≤ b) : wsizeFromSize a ≤ wsizeFromSize b := by
  unfold wsizeFromSize intptrSize
  simp only []
  split <;> split <;> omega

theorem wsize_le_max {size : Nat} (h : size ≤ maxBinSize) : wsizeFromSize size ≤ largeObjWsizeMax := by
  have h1 := wsize_bounds size
  have h2 := largeObjWsizeMax_eq
  rw [intptrSize_eq] at h1 h2
  rw [maxBinSize_eq] at h2 h
  omega

/-! ## `mi_bin_from_size` -/

/-- **C35 (bin_in_range + bin_fits on aligned sizes)** every size up to `MAX_BIN_SIZE` is given a real
bin whose cell holds it, and the smallest such bin; no assertion fires. -/
theorem fromSize_fits (debug : Bool) (s : Nat) (hs : s ≤ maxBinSize) :
    ∃ b, miBinFromSize debug s = some b ∧ Fits b s := by
  have hw := wsize_le_max hs
  have hok := wordOk_of_le hw
  have hb := wsize_bounds s
  refine ⟨binOfWsize (wsizeFromSize s), ?_, ?_⟩
  · simp [miBinFromSize, hw]
  · simp only [wordOk, Bool.and_eq_true, Bool.or_eq_true, decide_eq_true_eq] at hok
    obtain ⟨⟨⟨⟨h1, h2⟩, h3⟩, h4⟩, _⟩ := hok
    refine ⟨h1, h2, by omega, ?_⟩
    rcases h4 with h4 | h4
    · exact Or.inl h4
    · right; rw [intptrSize_eq] at hb h4; omega

/-- `mi_bin_from_size` is monotone on `0 … MAX_BIN_SIZE`. -/
theorem fromSize_monotone (debug : Bool) (s t : Nat) (hst : s ≤ t) (ht : t ≤ maxBinSize) :
    ∃ b c, miBinFromSize debug s = some b ∧ miBinFromSize debug t = some c ∧ b ≤ c := by
  have hwt := wsize_le_max ht
  have hws := wsize_le_max (Nat.le_trans hst ht)
  refine ⟨binOfWsize (wsizeFromSize s), binOfWsize (wsizeFromSize t), by simp [miBinFromSize, hws],
    by simp [miBinFromSize, hwt], ?_⟩
  apply mono_of_adjacent (g := binOfWsize) (hi := largeObjWsizeMax) _ _ _ (wsize_mono hst) hwt
  intro n hn
  have hok := wordOk_of_le (Nat.le_of_lt hn)
  simp only [wordOk, Bool.and_eq_true, decide_eq_true_eq] at hok
  exact hok.2

/-! ## `mi_bin` (size × alignment) -/

/-- The model's `get_maximum_aligned_size` is the specified worst-case size whenever no assertion
fires (release: always; debug: `size` a multiple of `MIN_ALIGNMENT`). -/
theorem maxAligned_eq (debug : Bool) (size align : Nat) (ha : minAlign ≤ align ∧ align ≤ maxAlign)
    (hlt : size < 2^63) (hd : debug = true → size % minAlign = 0) :
    maxAlignedSize vm debug size align vm.minAlign = some (alignedSize size align) := by
  have c1 := minAlign_eq; have c2 := maxAlign_eq
  have hvm1 : vm.minAlign = 8 := rfl
  have hvm2 : vm.maxAlign = 64 := rfl
  have hmask : debug = true → size &&& wnot (8 - 1) = size := by
    intro h
    have : wnot (8 - 1) = 2^64 - 2^3 := by decide
    rw [this, Mmtk.Bits.and_not_mask size 3 (by omega) (by omega)]
    have := hd h
    rw [c1] at this
    omega
  unfold maxAlignedSize
  rw [hvm1, hvm2]
  rcases alignedSize_cases size align with ⟨h8, e⟩ | ⟨h8, e⟩
  · rw [e]
    cases debug with
    | false => simp [h8]
    | true => simp [hmask rfl, h8]
  · rw [e]
    have hn8 : ¬ (align ≤ 8) := by omega
    have h1 : size + align < 2^64 := by omega
    have h2 : 8 ≤ size + align := by omega
    cases debug with
    | false => simp [hn8, cadd, h1, h2]
    | true => simp [hmask rfl, hn8, cadd, h1, h2]

/-- **C35 (bin_fits, true part)** for every size and legal alignment whose worst-case aligned size is
at most `MAX_BIN_SIZE`, `mi_bin` selects a real bin (`1 … 48`) whose cell holds the aligned request,
and the smallest such bin. -/
theorem bin_fits_partial (debug : Bool) (size align : Nat) (ha : minAlign ≤ align ∧ align ≤ maxAlign)
    (hs : alignedSize size align ≤ maxBinSize) (hd : debug = true → size % minAlign = 0) :
    ∃ b, miBin debug size align = some b ∧ Fits b (alignedSize size align) := by
  have hlt : size < 2^63 := by
    have := minAlign_eq; have := maxAlign_eq; have := maxBinSize_eq
    rcases alignedSize_cases size align with ⟨_, e⟩ | ⟨_, e⟩ <;> omega
  obtain ⟨b, hb, hf⟩ := fromSize_fits debug _ hs
  exact ⟨b, by simp [miBin, maxAligned_eq debug size align ha hlt hd, hb], hf⟩

/-- **C35 (bin_in_range)** restated on its own: the selected index is a real bin. -/
theorem bin_in_range (debug : Bool) (size align : Nat) (ha : minAlign ≤ align ∧ align ≤ maxAlign)
    (hs : alignedSize size align ≤ maxBinSize) (hd : debug = true → size % minAlign = 0) :
    ∃ b, miBin debug size align = some b ∧ 1 ≤ b ∧ b ≤ maxBin ∧ b < binSizes.length := by
  obtain ⟨b, hb, h1, h2, _⟩ := bin_fits_partial debug size align ha hs hd
  exact ⟨b, hb, h1, h2, by simp only [maxBin] at h2; simp only [binSizes, List.length]; omega⟩

/-- With the minimum alignment the full range `0 … MAX_BIN_SIZE` is covered. -/
theorem bin_fits_min_align (debug : Bool) (size : Nat) (hs : size ≤ maxBinSize)
    (hd : debug = true → size % minAlign = 0) :
    ∃ b, miBin debug size minAlign = some b ∧ Fits b size := by
  have := bin_fits_partial debug size minAlign ⟨Nat.le_refl _, by decide⟩
    (by simp [alignedSize]; exact hs) hd
  simpa [alignedSize] using this

/-! ## The failing region (genuine defect, key `msbins:aligned-size-exceeds-max-bin`) -/

/-- Witness that the full `bin_fits` is false: `size = MAX_BIN_SIZE`, `align = 16` are legal
(`size ≤ MAX_BIN_SIZE`, `MIN_ALIGNMENT ≤ 16 ≤ MAX_ALIGNMENT`, `size` word aligned) but the release
profile selects bin 49 = `MI_BIN_FULL` (not a real bin: the 49-entry array ends at index 48) and the
debug profile trips `debug_assert!(wsize <= MI_LARGE_OBJ_WSIZE_MAX)`. -/
theorem bin_fits_fails_at_top :
    maxBinSize ≤ maxBinSize ∧ (minAlign ≤ 16 ∧ 16 ≤ maxAlign) ∧ maxBinSize % minAlign = 0 ∧
    miBin false maxBinSize 16 = some binFull ∧ binFull = binSizes.length ∧ binSize binFull = 0 ∧
    miBin true maxBinSize 16 = none := by decide +kernel

/-- The whole failing region: every legal request (`size ≤ MAX_BIN_SIZE`, legal `align`) whose
worst-case aligned size exceeds `MAX_BIN_SIZE` gets `MI_BIN_FULL` in release and an assertion failure
in debug. Together with `bin_fits_partial` this decides the property for every legal input. -/
theorem bin_overflow_region (size align : Nat) (hsz : size ≤ maxBinSize)
    (ha : minAlign ≤ align ∧ align ≤ maxAlign) (hm : size % minAlign = 0)
    (hs : maxBinSize < alignedSize size align) :
    miBin false size align = some binFull ∧ miBin true size align = none := by
  have hlt : size < 2^63 := by have := maxBinSize_eq; omega
  have e1 := maxAligned_eq false size align ha hlt (by simp)
  have e2 := maxAligned_eq true size align ha hlt (fun _ => hm)
  have hb := wsize_bounds (alignedSize size align)
  have hmax := largeObjWsizeMax_eq
  rw [intptrSize_eq] at hb hmax
  have c1 := minAlign_eq; have c2 := maxAlign_eq; have c3 := maxBinSize_eq; have c4 := intptrSize_eq
  have hw1 : largeObjWsizeMax + 1 ≤ wsizeFromSize (alignedSize size align) := by omega
  have hw2 : wsizeFromSize (alignedSize size align) <
      largeObjWsizeMax + (maxAlign - minAlign) / intptrSize + 1 := by
    have : alignedSize size align ≤ maxBinSize + (maxAlign - minAlign) := by
      rcases alignedSize_cases size align with ⟨_, e⟩ | ⟨_, e⟩ <;> omega
    have : (maxAlign - minAlign) / intptrSize = 7 := by decide
    omega
  have hfull := checkRange_sound words_above_max _ hw1 hw2
  simp only [decide_eq_true_eq] at hfull
  have hnot : ¬ (wsizeFromSize (alignedSize size align) ≤ largeObjWsizeMax) := by omega
  constructor
  · simp [miBin, e1, miBinFromSize, hfull]
  · simp [miBin, e2, miBinFromSize, hnot]

/-! ## The table is monotone -/

/-- **C35 (bins_monotone)** cell sizes strictly increase with the bin index over the real bins
`1 … MAX_BIN` (bin 0 is the reserved empty bin and equals bin 1). -/
theorem bins_monotone (i j : Nat) (hi : 1 ≤ i) (hij : i < j) (hj : j ≤ maxBin) :
    binSize i < binSize j := by
  apply strictMono_of_adjacent (g := binSize) (lo := 1) (hi := maxBin) _ i j hi hij hj
  intro n h1 h2
  have := checkRange_sound table_adjacent n h1 h2
  simpa using this

/-- … and so does the bin selected for a request: larger requests never get a smaller bin. -/
theorem bin_monotone_in_size (debug : Bool) (s t align : Nat) (hst : s ≤ t)
    (ha : minAlign ≤ align ∧ align ≤ maxAlign) (ht : alignedSize t align ≤ maxBinSize)
    (hds : debug = true → s % minAlign = 0) (hdt : debug = true → t % minAlign = 0) :
    ∃ b c, miBin debug s align = some b ∧ miBin debug t align = some c ∧ b ≤ c := by
  have hle : alignedSize s align ≤ alignedSize t align := by
    rcases alignedSize_cases s align with ⟨_, e⟩ | ⟨_, e⟩ <;>
      rcases alignedSize_cases t align with ⟨_, e'⟩ | ⟨_, e'⟩ <;> omega
  have hlt : t < 2^63 := by
    have := minAlign_eq; have := maxAlign_eq; have := maxBinSize_eq
    rcases alignedSize_cases t align with ⟨_, e⟩ | ⟨_, e⟩ <;> omega
  obtain ⟨b, c, hb, hc, hbc⟩ := fromSize_monotone debug _ _ hle ht
  exact ⟨b, c, by simp [miBin, maxAligned_eq debug s align ha (by omega) hds, hb],
    by simp [miBin, maxAligned_eq debug t align ha hlt hdt, hc], hbc⟩

/-! ## A fresh block's free list -/

/-- Closed form of `init_block`'s loop started at `new` with exactly `n + 1` cells still fitting. -/
theorem initLoop_eq (cs blockEnd : Nat) (hcs : 0 < cs) :
    ∀ (n old new : Nat), new + n * cs + cs ≤ blockEnd → blockEnd < new + n * cs + cs + cs →
      initLoop cs blockEnd old new =
        ((new, old) :: (List.range n).map (fun k => (new + k * cs + cs, new + k * cs)), new + n * cs) := by
  intro n
  induction n with
  | zero =>
    intro old new h1 h2
    unfold initLoop
    have : cs = 0 ∨ new + cs + cs > blockEnd := by right; omega
    simp [this]
  | succ n ih =>
    intro old new h1 h2
    unfold initLoop
    rw [Nat.add_mul, Nat.one_mul] at h1 h2
    have hne : ¬ (cs = 0 ∨ new + cs + cs > blockEnd) := by omega
    have := ih new (new + cs) (by omega) (by omega)
    simp only [hne, dite_false, this, List.range_succ_eq_map, List.map_cons, List.map_map]
    refine Prod.ext ?_ ?_
    · simp only [List.cons.injEq, true_and]
      refine ⟨by simp, ?_⟩
      apply List.map_congr_left
      intro k _
      simp only [Function.comp, Nat.succ_eq_add_one, Nat.add_mul, Nat.one_mul]
      refine Prod.ext ?_ ?_ <;> simp only <;> omega
    · simp only [Nat.add_mul, Nat.one_mul]; omega

/-- The cells of a fresh block, lowest first: `start + k * cs` for `k < n`. -/
def cellsOf (start cs n : Nat) : List Nat := (List.range n).map (fun k => start + k * cs)

/-- **C35 (init_block_cells)** for a cell size `0 < cs ≤ Block::BYTES`, `init_block` writes exactly
`n = ⌊BYTES / cs⌋` cells `start + k·cs` (`k < n`); cell `0` is linked to null and cell `k+1` to cell
`k`; the free-list head is the last cell; the cells are pairwise disjoint and lie entirely inside
the block. -/
theorem init_block_cells (start cs : Nat) (hcs : 0 < cs) (hle : cs ≤ blockBytes) :
    let n := blockBytes / cs
    let r := initBlock start cs
    r.1.map Prod.fst = cellsOf start cs n ∧
    r.1.map Prod.snd = 0 :: cellsOf start cs (n - 1) ∧
    r.2 = start + (n - 1) * cs ∧
    1 ≤ n ∧
    (∀ k, k < n → start ≤ start + k * cs ∧ start + k * cs + cs ≤ start + blockBytes) ∧
    (∀ j k, j < k → k < n → start + j * cs + cs ≤ start + k * cs) := by
  intro n r
  have hn1 : 1 ≤ n := (Nat.one_le_div_iff hcs).2 hle
  have hdm : cs * n + blockBytes % cs = blockBytes := Nat.div_add_mod blockBytes cs
  have hml := Nat.mod_lt blockBytes hcs
  rw [Nat.mul_comm] at hdm
  obtain ⟨m, hm⟩ : ∃ m, n = m + 1 := ⟨n - 1, by omega⟩
  have hr : r = initLoop cs (start + blockBytes) 0 start := rfl
  have hmul : n * cs = m * cs + cs := by rw [hm, Nat.add_mul, Nat.one_mul]
  have hfit1 : start + m * cs + cs ≤ start + blockBytes := by omega
  have hfit2 : start + blockBytes < start + m * cs + cs + cs := by omega
  rw [initLoop_eq cs _ hcs m 0 start hfit1 hfit2] at hr
  refine ⟨?_, ?_, ?_, hn1, ?_, ?_⟩
  · rw [hr, hm]
    simp only [cellsOf, List.map_cons, List.map_map, List.range_succ_eq_map]
    simp [Function.comp, Nat.add_mul, Nat.add_assoc]
  · rw [hr, hm]
    simp only [cellsOf, List.map_cons, List.map_map, Nat.add_sub_cancel]
    simp [Function.comp]
  · rw [hr, hm]; simp
  · intro k hk
    refine ⟨by omega, ?_⟩
    have : (k + 1) * cs ≤ n * cs := Nat.mul_le_mul_right _ (by omega)
    rw [Nat.add_mul, Nat.one_mul] at this
    omega
  · intro j k hjk _
    have : (j + 1) * cs ≤ k * cs := Nat.mul_le_mul_right _ (by omega)
    rw [Nat.add_mul, Nat.one_mul] at this; omega

theorem bin_cell_size_legal (b : Nat) (hb : b ≤ maxBin) :
    0 < binSize b ∧ binSize b ≤ blockBytes ∧ binSize b % intptrSize = 0 := by
  have := checkRange_sound bin_cell_size_ok b (Nat.zero_le _) (by omega)
  simpa using this

/-! ## Hypotheses are satisfiable; boundary examples -/

example : miBin true 24 8 = some 3 ∧ binSize 3 = 24 := by decide +kernel
example : miBin true 24 16 = some 4 ∧ alignedSize 24 16 = 32 := by decide +kernel
example : miBin true 65536 8 = some 48 ∧ binSize 48 = 65536 := by decide +kernel
example : miBin true 65528 16 = some 48 ∧ alignedSize 65528 16 = 65536 := by decide +kernel
example : miBin false 65480 64 = some 48 ∧ miBin false 65488 64 = some 49 := by decide +kernel
example : miBinFromSize false 65537 = some 49 ∧ miBinFromSize true 65537 = none := by decide +kernel
example : (initBlock 65536 24576).1 = [(65536, 0), (90112, 65536)] ∧ (initBlock 65536 24576).2 = 90112 := by
  decide +kernel
example : walk (initBlock 65536 16384).1 10 (initBlock 65536 16384).2 = [114688, 98304, 81920, 65536] := by
  decide +kernel

end Mmtk.MsBins
