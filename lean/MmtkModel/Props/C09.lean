import MmtkModel.Model.Heap
import MmtkModel.Model.Snap
/-!
# C09 — Garbage is fully reclaimable (no space leak across GC cycles)

The floor rule the monitor applies to the `used_bytes` samples of a cycle program (`floorStep`): the
first `warm` samples establish the floor (their maximum), every later sample must be `≤ floor + slack`.
Proved: after the warm-up the floor never changes (`floorStep_floor_mono`); a run the rule accepts from a
warmed-up state has EVERY sample bounded by the floor + slack (`floorRun_sound`); and for a whole run from
the initial state, every sample after the first `warm` ones is bounded by the maximum of the warm-up
samples + slack (`floorRun_bound`) — for runs of any length.
Level: proof of the verdict function; partial w.r.t. the code (page accounting is sampled).
-/
namespace Mmtk.Heap

theorem floorStep_floor_mono (warm slack : Nat) (f : Floor) (u : Nat) (hw : warm ≤ f.samples) :
    (floorStep warm slack f u).1.floor = f.floor ∧ warm ≤ (floorStep warm slack f u).1.samples := by
  unfold floorStep
  have : ¬ f.samples < warm := by omega
  simp only [this, if_false]
  exact ⟨trivial, by omega⟩

/-- from a warmed-up state, an accepted run has every sample `≤ floor + slack` -/
theorem floorRun_sound (warm slack : Nat) : ∀ (us : List Nat) (f : Floor), warm ≤ f.samples →
    floorRun warm slack f us = true → ∀ u ∈ us, u ≤ f.floor + slack
  | [], _, _, _ => by simp
  | u :: rest, f, hw, h => by
    unfold floorRun at h
    have hm := floorStep_floor_mono warm slack f u hw
    have hnot : ¬ f.samples < warm := by omega
    simp only [Bool.and_eq_true] at h
    have h1 : u ≤ f.floor + slack := by
      have := h.1
      unfold floorStep at this
      simpa [hnot] using this
    intro x hx
    rcases List.mem_cons.1 hx with rfl | hx
    · exact h1
    · have := floorRun_sound warm slack rest (floorStep warm slack f u).1 hm.2 h.2 x hx
      rw [hm.1] at this; exact this

/-- the floor after consuming a warm-up prefix is the maximum of that prefix (and of the old floor) -/
theorem floorRun_bound (warm slack : Nat) : ∀ (pre post : List Nat) (f : Floor), f.samples + pre.length = warm →
    floorRun warm slack f (pre ++ post) = true → ∀ u ∈ post, u ≤ pre.foldl Nat.max f.floor + slack
  | [], post, f, hl, h => by
    simp at hl
    simpa using floorRun_sound warm slack post f (by omega) h
  | p :: pre, post, f, hl, h => by
    simp only [List.length_cons] at hl
    have hlt : f.samples < warm := by omega
    simp only [List.cons_append, floorRun, floorStep, hlt, if_true, Bool.true_and] at h
    have := floorRun_bound warm slack pre post { samples := f.samples + 1, floor := Nat.max f.floor p }
      (by simp; omega) h
    simpa [List.foldl_cons] using this

example : floorRun 3 262144 {} [45056, 45056, 49152, 45056, 300000, 45056] = true := by decide
example : floorRun 3 262144 {} [45056, 45056, 49152, 45056, 400000] = false := by decide

end Mmtk.Heap
