import MmtkModel.Lemmas.MetaBits
/-!
# C23 — In-header metadata fields are isolated and report their own previous value

For every header spec (any bit offset including negative ones, any width up to 64 bits, optional
mask for byte-or-wider fields) every accessor modifies only the bits of its field and
value-returning operations return the previous value of that field only.

`Field` lemmas first (bit-level facts about splicing), then one theorem per accessor.
-/
namespace Mmtk.HeaderMeta
open Mmtk.Mem

/-- **C23 (load, sub-byte)** returns exactly the field, changes nothing. -/
theorem loadBits_spec (s : Spec) (m : Mem) (h : Nat) :
    loadBits s m h = some (m, getBits s (m (s.addr h))) := rfl

/-- **C23 (store, sub-byte)** only the field changes, and it holds `v`. -/
theorem storeBits_spec (debug : Bool) (s : Spec) (hs : s.bitsOk) (m : Mem) (h v : Nat)
    (hb : m (s.addr h) < 256) (hv : v < 2 ^ s.numBits) :
    ∃ m', storeBits debug s m h v = some (m', 0) ∧
      BitsPost s m h m' (getBits s (m (s.addr h))) v := by
  refine ⟨Mmtk.Mem.set m (s.addr h) (setBits s (m (s.addr h)) v), ?_, set_post s hs m h v hb hv⟩
  simp [storeBits, setBitsChecked, hv]

/-- **C23 (compare_exchange, sub-byte)** succeeds iff the field equals `old`; on success only the
field changes (to `new`); both outcomes return the field's previous value — not the raw byte. -/
theorem cmpxchgBits_spec (debug : Bool) (s : Spec) (hs : s.bitsOk) (m : Mem) (h old new : Nat)
    (hb : m (s.addr h) < 256) (ho : old < 2 ^ s.numBits) (hn : new < 2 ^ s.numBits) :
    ∃ m' ok, cmpxchgBits debug s m h old new = some (m', ok, getBits s (m (s.addr h))) ∧
      (ok = true ↔ getBits s (m (s.addr h)) = old) ∧
      BitsPost s m h m' (getBits s (m (s.addr h))) (if ok then new else getBits s (m (s.addr h))) := by
  unfold cmpxchgBits
  simp only [setBitsChecked, ho, hn, decide_true, Bool.not_true, Bool.and_false, Bool.false_eq_true, if_false]
  by_cases e : m (s.addr h) = setBits s (m (s.addr h)) old
  · have hf := (setBits_eq_self_iff s hs _ old hb ho).1 e
    refine ⟨Mmtk.Mem.set m (s.addr h) (setBits s (m (s.addr h)) new), true, ?_, by simp [hf], ?_⟩
    · rw [if_pos e, setBits_setBits s hs _ old new hb ho hn]
    · simp only [if_true]
      exact set_post s hs m h new hb hn
  · have hf : ¬ getBits s (m (s.addr h)) = old := fun c => e ((setBits_eq_self_iff s hs _ old hb ho).2 c)
    refine ⟨m, false, by rw [if_neg e], by simp [hf], ?_⟩
    simp only [Bool.false_eq_true, if_false]
    exact noop_post s m h hb

/-- The pinned tree returned the raw byte: with a non-zero neighbour the returned value is not the
field (witness: byte `0xF7`, field = bits 2..3, `compare_exchange(1 → 2)`). -/
theorem cmpxchgBitsOld_returns_raw_byte_witness :
    let s : Spec := { bitOffset := 2, numBits := 2 }
    let m : Mem := fun x => if x = 100 then 0xF7 else 0
    s.bitsOk ∧ getBits s (m (s.addr 100)) = 1 ∧
    (cmpxchgBitsOld true s m 100 1 2).map (fun r => r.2.2) = some 0xF7 ∧
    (cmpxchgBits true s m 100 1 2).map (fun r => r.2.2) = some 1 := by
  decide

/-- **C23 (fetch_add / fetch_sub / generic update, sub-byte)** only the field changes, to
`update(old) mod 2^bits`; the old field is returned. -/
theorem fetchOpBits_spec (debug : Bool) (s : Spec) (hs : s.bitsOk) (m : Mem) (h : Nat) (update : Nat → Nat)
    (hb : m (s.addr h) < 256) :
    ∃ m', fetchOpBits debug s m h update = some (m', getBits s (m (s.addr h))) ∧
      BitsPost s m h m' (getBits s (m (s.addr h))) (update (getBits s (m (s.addr h))) % 2 ^ s.numBits) := by
  have ht := truncBits_lt s (update (getBits s (m (s.addr h))) % 256)
  refine ⟨Mmtk.Mem.set m (s.addr h) (setBits s (m (s.addr h)) (truncBits s (update (getBits s (m (s.addr h))) % 256))), ?_, ?_⟩
  · simp only [fetchOpBits, setBitsChecked, ht, decide_true, Bool.not_true, Bool.and_false,
      Bool.false_eq_true, if_false]
  · rw [← trunc_mod s hs]
    exact set_post s hs m h _ hb ht

theorem fetchAddBits_spec (debug : Bool) (s : Spec) (hs : s.bitsOk) (m : Mem) (h v : Nat)
    (hb : m (s.addr h) < 256) :
    ∃ m', fetchAddBits debug s m h v = some (m', getBits s (m (s.addr h))) ∧
      BitsPost s m h m' (getBits s (m (s.addr h))) ((getBits s (m (s.addr h)) + v) % 2 ^ s.numBits) := by
  obtain ⟨m', h1, h2⟩ := fetchOpBits_spec debug s hs m h (fun x => (x + v) % 256) hb
  refine ⟨m', h1, ?_⟩
  have e : (256 : Nat) = 2 ^ 8 := by decide
  have : (getBits s (m (s.addr h)) + v) % 256 % 2 ^ s.numBits = (getBits s (m (s.addr h)) + v) % 2 ^ s.numBits := by
    rw [e]; exact Nat.mod_mod_of_dvd _ (Nat.pow_dvd_pow 2 (by have := hs.2.1; omega))
  simpa [this] using h2

/-- **C23 (fetch_and, sub-byte)**. -/
theorem fetchAndBits_spec (s : Spec) (hs : s.bitsOk) (m : Mem) (h v : Nat)
    (hb : m (s.addr h) < 256) (hv : v < 2 ^ s.numBits) :
    ∃ m', fetchAndBits s m h v = some (m', getBits s (m (s.addr h))) ∧
      BitsPost s m h m' (getBits s (m (s.addr h))) (getBits s (m (s.addr h)) &&& v) := by
  have hlt := Nat.lt_of_le_of_lt (Nat.and_le_left (n := getBits s (m (s.addr h))) (m := v)) (getBits_lt s hs (m (s.addr h)))
  have key : m (s.addr h) &&& ((v <<< s.shift) % 256 ||| (255 - mask8 s)) =
      setBits s (m (s.addr h)) (getBits s (m (s.addr h)) &&& v) := by
    apply Nat.eq_of_testBit_eq
    intro i
    rw [testBit_setBits s hs _ _ hb hlt, Nat.testBit_and, Nat.testBit_or, testBit_shifted s hs v hv,
      testBit_notmask8 s hs]
    by_cases hf : InField s i
    · simp only [hf, decide_true, Bool.true_and, Bool.not_true, Bool.and_false, Bool.or_false, if_true]
      rw [Nat.testBit_and, getBits_eq s hs, Nat.testBit_mod_two_pow, Nat.testBit_shiftRight]
      obtain ⟨h1, h2⟩ := hf
      have e : s.shift + (i - s.shift) = i := by omega
      have : i - s.shift < s.numBits := by omega
      simp [e, this]
    · simp only [hf, decide_false, Bool.false_and, Bool.not_false, Bool.and_true, Bool.false_or, if_false]
      by_cases h8 : i < 8
      · simp [h8]
      · have : (m (s.addr h)).testBit i = false := by
          apply Nat.testBit_lt_two_pow
          calc m (s.addr h) < 2 ^ 8 := hb
            _ ≤ 2 ^ i := Nat.pow_le_pow_right (by omega) (by omega)
        simp [this]
  refine ⟨Mmtk.Mem.set m (s.addr h) (setBits s (m (s.addr h)) (getBits s (m (s.addr h)) &&& v)), ?_, set_post s hs m h _ hb hlt⟩
  simp only [fetchAndBits, key]

/-- **C23 (fetch_or, sub-byte)**. -/
theorem fetchOrBits_spec (s : Spec) (hs : s.bitsOk) (m : Mem) (h v : Nat)
    (hb : m (s.addr h) < 256) (hv : v < 2 ^ s.numBits) :
    ∃ m', fetchOrBits s m h v = some (m', getBits s (m (s.addr h))) ∧
      BitsPost s m h m' (getBits s (m (s.addr h))) (getBits s (m (s.addr h)) ||| v) := by
  have hlt : getBits s (m (s.addr h)) ||| v < 2 ^ s.numBits := Nat.or_lt_two_pow (getBits_lt s hs _) hv
  have key : m (s.addr h) ||| ((v <<< s.shift) % 256 &&& mask8 s) =
      setBits s (m (s.addr h)) (getBits s (m (s.addr h)) ||| v) := by
    apply Nat.eq_of_testBit_eq
    intro i
    rw [testBit_setBits s hs _ _ hb hlt, Nat.testBit_or, Nat.testBit_and, testBit_shifted s hs v hv,
      testBit_mask8 s hs]
    by_cases hf : InField s i
    · simp only [hf, decide_true, Bool.true_and, Bool.and_true, if_true]
      rw [Nat.testBit_or, getBits_eq s hs, Nat.testBit_mod_two_pow, Nat.testBit_shiftRight]
      obtain ⟨h1, h2⟩ := hf
      have e : s.shift + (i - s.shift) = i := by omega
      have : i - s.shift < s.numBits := by omega
      simp [e, this]
    · simp [hf]
  refine ⟨Mmtk.Mem.set m (s.addr h) (setBits s (m (s.addr h)) (getBits s (m (s.addr h)) ||| v)), ?_, set_post s hs m h _ hb hlt⟩
  simp only [fetchOrBits, key]

/-- **C23 (fetch_update, sub-byte)** `Err(old field)` and no change when `f` declines; otherwise
`Ok(old field)` and only the field changes (to `f(old) mod 2^bits`). -/
theorem fetchUpdateBits_spec (debug : Bool) (s : Spec) (hs : s.bitsOk) (m : Mem) (h : Nat)
    (f : Nat → Option Nat) (hb : m (s.addr h) < 256) :
    ∃ m' ok, fetchUpdateBits debug s m h f = some (m', ok, getBits s (m (s.addr h))) ∧
      (ok = (f (getBits s (m (s.addr h)))).isSome) ∧
      BitsPost s m h m' (getBits s (m (s.addr h)))
        (match f (getBits s (m (s.addr h))) with
         | some nv => nv % 2 ^ s.numBits
         | none => getBits s (m (s.addr h))) := by
  unfold fetchUpdateBits
  cases hf : f (getBits s (m (s.addr h))) with
  | none => exact ⟨m, false, by simp only [hf], by simp, noop_post s m h hb⟩
  | some nv =>
    have ht := truncBits_lt s (nv % 256)
    refine ⟨Mmtk.Mem.set m (s.addr h) (setBits s (m (s.addr h)) (truncBits s (nv % 256))), true, ?_, by simp, ?_⟩
    · simp only [hf, setBitsChecked, ht, decide_true, Bool.not_true, Bool.and_false, Bool.false_eq_true, if_false]
    · simp only
      rw [← trunc_mod s hs]
      exact set_post s hs m h _ hb ht


/-- **C23 (load, byte-or-wider)** returns the field (the masked bits when a mask is given). -/
theorem loadWord_spec (s : Spec) (w : Nat) (m : Mem) (h : Nat) (mask : Option Nat) :
    loadWord s w m h mask = some (m, match mask with
      | some k => readLE m (s.addr h) w &&& k
      | none => readLE m (s.addr h) w) := rfl

/-- **C23 (store, no mask)**. -/
theorem storeWord_spec (s : Spec) (w : Nat) (m : Mem) (hm : ByteMem m) (h v : Nat) (hv : v < wordMax w) :
    ∃ m', storeWord s w m h v none = some (m', 0) ∧ WordPost s w m h m' v :=
  ⟨writeLE m (s.addr h) w v, rfl, write_post s w m hm h v hv⟩

/-- **C23 (store under a mask)** bytes outside the word are unchanged; inside the word the bits
outside the mask keep their value and the masked bits take those of `v`. -/
theorem storeWord_masked_spec (s : Spec) (w : Nat) (m : Mem) (hm : ByteMem m) (h v k : Nat)
    (hk : k < wordMax w) :
    ∃ m' nw, storeWord s w m h v (some k) = some (m', 0) ∧ WordPost s w m h m' nw ∧
      nw &&& k = v &&& k ∧
      nw &&& (wordMax w - 1 - k) = readLE m (s.addr h) w &&& (wordMax w - 1 - k) := by
  have hc : readLE m (s.addr h) w < wordMax w := readLE_lt m hm (s.addr h) w
  rw [wordMax_eq] at hk hc ⊢
  refine ⟨writeLE m (s.addr h) w ((readLE m (s.addr h) w &&& (2 ^ (8 * w) - 1 - k)) ||| (v &&& k)),
    (readLE m (s.addr h) w &&& (2 ^ (8 * w) - 1 - k)) ||| (v &&& k), ?_, ?_, splice_in _ _ _ _ hk, splice_out _ _ _ _ hk⟩
  · simp only [storeWord, wordMax_eq]
  · exact write_post s w m hm h _ (by rw [wordMax_eq]; exact splice_lt _ _ _ _ hc hk)

/-- **C23 (compare_exchange, no mask)** succeeds iff the word equals `old`; returns the previous word. -/
theorem cmpxchgWord_spec (s : Spec) (w : Nat) (m : Mem) (hm : ByteMem m) (h old new : Nat)
    (hn : new < wordMax w) :
    ∃ m' ok, cmpxchgWord s w m h old new none = some (m', ok, readLE m (s.addr h) w) ∧
      (ok = true ↔ readLE m (s.addr h) w = old) ∧
      WordPost s w m h m' (if ok then new else readLE m (s.addr h) w) := by
  unfold cmpxchgWord
  by_cases e : readLE m (s.addr h) w = old
  · exact ⟨writeLE m (s.addr h) w new, true, by simp only [e, if_true], by simp [e], by simpa using write_post s w m hm h new hn⟩
  · exact ⟨m, false, by simp only [e, if_false], by simp [e], by simpa using keep_post s w m hm h⟩

/-- **C23 (compare_exchange under a mask)** for `old`, `new` inside the mask: succeeds iff the
masked bits equal `old`; on success the masked bits become `new` and the bits outside the mask are
unchanged; both outcomes return the previous *masked* value. -/
theorem cmpxchgWord_masked_spec (s : Spec) (w : Nat) (m : Mem) (hm : ByteMem m) (h old new k : Nat)
    (hk : k < wordMax w) (ho : old &&& k = old) (hn : new &&& k = new) :
    ∃ m' ok nw, cmpxchgWord s w m h old new (some k) = some (m', ok, readLE m (s.addr h) w &&& k) ∧
      (ok = true ↔ readLE m (s.addr h) w &&& k = old) ∧
      WordPost s w m h m' nw ∧
      nw &&& k = (if ok then new else readLE m (s.addr h) w &&& k) ∧
      nw &&& (wordMax w - 1 - k) = readLE m (s.addr h) w &&& (wordMax w - 1 - k) := by
  have hc : readLE m (s.addr h) w < wordMax w := readLE_lt m hm (s.addr h) w
  have hM := wordMax_eq w
  rw [hM] at hk hc
  unfold cmpxchgWord
  simp only [hM]
  generalize hcur : readLE m (s.addr h) w = cur at hc ⊢
  have hsp : ∀ v, v &&& k = v →
      ((cur &&& (2 ^ (8 * w) - 1 - k)) ||| v) = ((cur &&& (2 ^ (8 * w) - 1 - k)) ||| (v &&& k)) := by
    intro v hv; rw [hv]
  by_cases e : cur = (cur &&& (2 ^ (8 * w) - 1 - k)) ||| old
  · have hf : cur &&& k = old := by
      have := splice_in (8 * w) cur old k hk
      rw [← hsp old ho, ← e, ho] at this; exact this
    refine ⟨writeLE m (s.addr h) w ((cur &&& (2 ^ (8 * w) - 1 - k)) ||| new), true,
      (cur &&& (2 ^ (8 * w) - 1 - k)) ||| new, by rw [if_pos e], by simp [hf], ?_, ?_, ?_⟩
    · have := write_post s w m hm h ((cur &&& (2 ^ (8 * w) - 1 - k)) ||| new)
        (by rw [hM, hsp new hn]; exact splice_lt _ _ _ _ hc hk)
      exact this
    · rw [hsp new hn, splice_in _ _ _ _ hk, hn]; simp
    · rw [hsp new hn, splice_out _ _ _ _ hk]
  · have hf : ¬ cur &&& k = old := by
      intro c
      apply e
      rw [← c]
      exact (split_mask (8 * w) cur k hc hk).symm
    refine ⟨m, false, cur, by rw [if_neg e], by simp [hf], ?_, by simp, rfl⟩
    rw [← hcur]; exact keep_post s w m hm h

/-- The pinned tree returned the unmasked word (witness: all-ones word, mask `!3`). -/
theorem cmpxchgWordOld_returns_unmasked_witness :
    let s : Spec := { bitOffset := 0, numBits := 8 }
    let m : Mem := fun x => if x = 100 then 0xFF else 0
    (cmpxchgWordOld s 1 m 100 0xFC 8 (some 0xFC)).map (fun r => r.2.2) = some 0xFF ∧
    (cmpxchgWord s 1 m 100 0xFC 8 (some 0xFC)).map (fun r => r.2.2) = some 0xFC := by
  decide

/-- **C23 (fetch_add / sub / and / or, byte-or-wider)** only the word changes, to
`update(old) mod 2^bits`; the old word is returned. -/
theorem fetchOpWord_spec (s : Spec) (w : Nat) (m : Mem) (hm : ByteMem m) (h : Nat) (update : Nat → Nat) :
    ∃ m', fetchOpWord s w m h update = some (m', readLE m (s.addr h) w) ∧
      WordPost s w m h m' (update (readLE m (s.addr h) w) % wordMax w) :=
  ⟨_, rfl, write_post s w m hm h _ (Nat.mod_lt _ (by rw [wordMax_eq]; exact Nat.two_pow_pos _))⟩

/-- **C23 (fetch_update, byte-or-wider)**. -/
theorem fetchUpdateWord_spec (s : Spec) (w : Nat) (m : Mem) (hm : ByteMem m) (h : Nat) (f : Nat → Option Nat) :
    ∃ m' ok, fetchUpdateWord s w m h f = some (m', ok, readLE m (s.addr h) w) ∧
      ok = (f (readLE m (s.addr h) w)).isSome ∧
      WordPost s w m h m' (match f (readLE m (s.addr h) w) with
        | some nv => nv % wordMax w
        | none => readLE m (s.addr h) w) := by
  unfold fetchUpdateWord
  cases hf : f (readLE m (s.addr h) w) with
  | none => exact ⟨m, false, by simp only [hf], by simp, keep_post s w m hm h⟩
  | some nv =>
    exact ⟨_, true, by simp only [hf], by simp,
      write_post s w m hm h _ (Nat.mod_lt _ (by rw [wordMax_eq]; exact Nat.two_pow_pos _))⟩

/-! ## fields of different specs in the same header do not interfere (negative offsets included) -/

/-- A sub-byte accessor on `s` leaves every other sub-byte field `t` of the header intact when the
two fields occupy different bits (different bytes, or disjoint bit ranges of the same byte). -/
theorem bits_fields_independent (s t : Spec) (ht : t.bitsOk) (m m' : Mem) (h ret nf : Nat)
    (post : BitsPost s m h m' ret nf)
    (hdisj : t.addr h ≠ s.addr h ∨ ∀ i, InField t i → ¬ InField s i) :
    getBits t (m' (t.addr h)) = getBits t (m (t.addr h)) := by
  rcases hdisj with hne | hd
  · rw [post.other_bytes _ hne]
  · by_cases hne : t.addr h = s.addr h
    · rw [hne, getBits_eq t ht, getBits_eq t ht]
      apply Nat.eq_of_testBit_eq
      intro i
      simp only [Nat.testBit_mod_two_pow, Nat.testBit_shiftRight]
      by_cases hi : i < t.numBits
      · have hin : InField t (t.shift + i) := ⟨by omega, by omega⟩
        rw [post.other_bits _ (hd _ hin)]
      · simp [hi]
    · rw [post.other_bytes _ hne]

/-! ## non-vacuity: a negative bit offset addresses the byte before the header -/
example : ({ bitOffset := -1, numBits := 1 } : Spec).bitsOk := by decide
example : ({ bitOffset := -1, numBits := 1 } : Spec).addr 100 = 99 ∧ ({ bitOffset := -1, numBits := 1 } : Spec).shift = 7 := by decide
example : ({ bitOffset := -64, numBits := 64 } : Spec).wordOk 8 := by decide

end Mmtk.HeaderMeta
