import MmtkModel.Model.HeaderMeta
/-!
# C23 — In-header metadata fields are isolated and report their own previous value

For every header spec (any bit offset including negative ones, any width up to 64 bits, optional
mask for byte-or-wider fields) every accessor modifies only the bits of its field and
value-returning operations return the previous value of that field only.

`Field` lemmas first (bit-level facts about splicing), then one theorem per accessor.
-/
namespace Mmtk.HeaderMeta
open Mmtk.Mem

/-! ## sub-byte splice lemmas -/

/-- bit `i` lies inside the field of `s`. -/
def InField (s : Spec) (i : Nat) : Prop := s.shift ≤ i ∧ i < s.shift + s.numBits
instance (s : Spec) (i : Nat) : Decidable (InField s i) := by unfold InField; exact inferInstance

theorem shift_lt (s : Spec) : s.shift < 8 := by
  unfold Spec.shift
  have h1 : 0 ≤ s.bitOffset % 8 := Int.emod_nonneg _ (by omega)
  have h2 : s.bitOffset % 8 < 8 := Int.emod_lt_of_pos _ (by omega)
  omega

theorem mask8_eq (s : Spec) (h : s.bitsOk) : mask8 s = (2 ^ s.numBits - 1) * 2 ^ s.shift := by
  obtain ⟨_, _, h3⟩ := h
  unfold mask8
  rw [Nat.shiftLeft_eq]
  apply Nat.mod_eq_of_lt
  have : (2 ^ s.numBits - 1) * 2 ^ s.shift < 2 ^ s.numBits * 2 ^ s.shift := by
    apply Nat.mul_lt_mul_of_pos_right
    · have := Nat.two_pow_pos s.numBits; omega
    · exact Nat.two_pow_pos _
  rw [← Nat.pow_add] at this
  calc _ < 2 ^ (s.numBits + s.shift) := this
    _ ≤ 2 ^ 8 := Nat.pow_le_pow_right (by omega) (by omega)

theorem testBit_mask8 (s : Spec) (h : s.bitsOk) (i : Nat) :
    (mask8 s).testBit i = decide (InField s i) := by
  rw [mask8_eq s h, Nat.testBit_mul_two_pow, Nat.testBit_two_pow_sub_one]
  unfold InField
  by_cases h1 : s.shift ≤ i <;> simp [h1] <;> omega

theorem mask8_lt (s : Spec) : mask8 s < 256 := by
  unfold mask8; exact Nat.mod_lt _ (by omega)

theorem testBit_notmask8 (s : Spec) (h : s.bitsOk) (i : Nat) :
    (255 - mask8 s).testBit i = (decide (i < 8) && !decide (InField s i)) := by
  have hm := mask8_lt s
  have e : 255 - mask8 s = 2 ^ 8 - (mask8 s + 1) := by omega
  rw [e, Nat.testBit_two_pow_sub_succ (by omega), testBit_mask8 s h]

theorem testBit_shifted (s : Spec) (h : s.bitsOk) (v : Nat) (hv : v < 2 ^ s.numBits) (i : Nat) :
    ((v <<< s.shift) % 256).testBit i = (decide (InField s i) && v.testBit (i - s.shift)) := by
  obtain ⟨_, _, h3⟩ := h
  have e : (256 : Nat) = 2 ^ 8 := by decide
  rw [e, Nat.testBit_mod_two_pow, Nat.testBit_shiftLeft]
  unfold InField
  by_cases h1 : s.shift ≤ i
  · by_cases h2 : i < s.shift + s.numBits
    · have : i < 8 := by omega
      simp [h1, h2, this]
    · have : v.testBit (i - s.shift) = false := by
        apply Nat.testBit_lt_two_pow
        calc v < 2 ^ s.numBits := hv
          _ ≤ 2 ^ (i - s.shift) := Nat.pow_le_pow_right (by omega) (by omega)
      simp [this]
  · simp [h1]

/-- bit-level description of `set_bits_to_u8`. -/
theorem testBit_setBits (s : Spec) (h : s.bitsOk) (raw v : Nat) (hr : raw < 256) (hv : v < 2 ^ s.numBits)
    (i : Nat) :
    (setBits s raw v).testBit i = if InField s i then v.testBit (i - s.shift) else raw.testBit i := by
  unfold setBits
  rw [Nat.testBit_or, Nat.testBit_and, testBit_notmask8 s h, testBit_shifted s h v hv]
  by_cases hf : InField s i
  · simp [hf]
  · simp only [hf, decide_false, Bool.not_false, Bool.and_true, Bool.false_and, Bool.or_false, if_false]
    by_cases h8 : i < 8
    · simp [h8]
    · have : raw.testBit i = false := by
        apply Nat.testBit_lt_two_pow
        calc raw < 2 ^ 8 := hr
          _ ≤ 2 ^ i := Nat.pow_le_pow_right (by omega) (by omega)
      simp [this]

theorem getBits_eq (s : Spec) (h : s.bitsOk) (raw : Nat) :
    getBits s raw = (raw >>> s.shift) % 2 ^ s.numBits := by
  unfold getBits
  apply Nat.eq_of_testBit_eq
  intro i
  rw [Nat.testBit_shiftRight, Nat.testBit_and, testBit_mask8 s h, Nat.testBit_mod_two_pow,
    Nat.testBit_shiftRight]
  unfold InField
  by_cases h2 : i < s.numBits
  · have : s.shift + i < s.shift + s.numBits := by omega
    simp [h2, this, Bool.and_comm]
  · have : ¬ (s.shift + i < s.shift + s.numBits) := by omega
    simp [h2, this]

theorem getBits_lt (s : Spec) (h : s.bitsOk) (raw : Nat) : getBits s raw < 2 ^ s.numBits := by
  rw [getBits_eq s h]; exact Nat.mod_lt _ (Nat.two_pow_pos _)

/-- reading back what was spliced in. -/
theorem getBits_setBits (s : Spec) (h : s.bitsOk) (raw v : Nat) (hr : raw < 256) (hv : v < 2 ^ s.numBits) :
    getBits s (setBits s raw v) = v := by
  rw [getBits_eq s h]
  apply Nat.eq_of_testBit_eq
  intro i
  rw [Nat.testBit_mod_two_pow, Nat.testBit_shiftRight, testBit_setBits s h raw v hr hv]
  by_cases h2 : i < s.numBits
  · have : InField s (s.shift + i) := ⟨by omega, by omega⟩
    simp [h2, this]
  · have : v.testBit i = false := by
      apply Nat.testBit_lt_two_pow
      calc v < 2 ^ s.numBits := hv
        _ ≤ 2 ^ i := Nat.pow_le_pow_right (by omega) (by omega)
    simp [h2, this]

/-- Two bytes agree on every bit outside the field of `s`. -/
def OutsideSame (s : Spec) (a b : Nat) : Prop := ∀ i, ¬ InField s i → a.testBit i = b.testBit i

theorem setBits_outside (s : Spec) (h : s.bitsOk) (raw v : Nat) (hr : raw < 256) (hv : v < 2 ^ s.numBits) :
    OutsideSame s (setBits s raw v) raw := by
  intro i hi
  rw [testBit_setBits s h raw v hr hv]; simp [hi]

theorem setBits_lt (s : Spec) (h : s.bitsOk) (raw v : Nat) (hr : raw < 256) (hv : v < 2 ^ s.numBits) :
    setBits s raw v < 256 := by
  have e : (256 : Nat) = 2 ^ 8 := by decide
  rw [e]
  apply Nat.lt_pow_two_of_testBit
  intro i hi
  rw [testBit_setBits s h raw v hr hv]
  have hnf : ¬ InField s i := by
    obtain ⟨_, _, h3⟩ := h
    unfold InField; omega
  simp only [hnf, if_false]
  apply Nat.testBit_lt_two_pow
  calc raw < 2 ^ 8 := by omega
    _ ≤ 2 ^ i := Nat.pow_le_pow_right (by omega) hi

theorem truncBits_lt (s : Spec) (v : Nat) : truncBits s v < 2 ^ s.numBits := by
  unfold truncBits
  rw [Nat.and_two_pow_sub_one_eq_mod]
  exact Nat.mod_lt _ (Nat.two_pow_pos _)


theorem setBits_getBits_self (s : Spec) (h : s.bitsOk) (raw : Nat) (hr : raw < 256) :
    setBits s raw (getBits s raw) = raw := by
  apply Nat.eq_of_testBit_eq
  intro i
  rw [testBit_setBits s h raw _ hr (getBits_lt s h raw)]
  by_cases hf : InField s i
  · simp only [hf, if_true]
    rw [getBits_eq s h, Nat.testBit_mod_two_pow, Nat.testBit_shiftRight]
    obtain ⟨h1, h2⟩ := hf
    have e : s.shift + (i - s.shift) = i := by omega
    have : i - s.shift < s.numBits := by omega
    simp [e, this]
  · simp [hf]

theorem setBits_setBits (s : Spec) (h : s.bitsOk) (raw a b : Nat) (hr : raw < 256)
    (ha : a < 2 ^ s.numBits) (hb : b < 2 ^ s.numBits) :
    setBits s (setBits s raw a) b = setBits s raw b := by
  apply Nat.eq_of_testBit_eq
  intro i
  rw [testBit_setBits s h _ b (setBits_lt s h raw a hr ha) hb, testBit_setBits s h raw b hr hb,
    testBit_setBits s h raw a hr ha]
  by_cases hf : InField s i <;> simp [hf]

theorem setBits_eq_self_iff (s : Spec) (h : s.bitsOk) (raw v : Nat) (hr : raw < 256) (hv : v < 2 ^ s.numBits) :
    raw = setBits s raw v ↔ getBits s raw = v := by
  constructor
  · intro e
    have := getBits_setBits s h raw v hr hv
    rw [← e] at this; exact this
  · intro e
    rw [← e, setBits_getBits_self s h raw hr]

/-! ## What C23 demands of an accessor on a sub-byte field -/

/-- `m'` differs from `m` only inside the field of `s` (at header `h`), the field now holds
`newField`, and `ret` is the field's previous value. -/
structure BitsPost (s : Spec) (m : Mem) (h : Nat) (m' : Mem) (ret newField : Nat) : Prop where
  other_bytes : ∀ x, x ≠ s.addr h → m' x = m x
  other_bits : OutsideSame s (m' (s.addr h)) (m (s.addr h))
  ret_old : ret = getBits s (m (s.addr h))
  field_new : getBits s (m' (s.addr h)) = newField
  byte_ok : m' (s.addr h) < 256

theorem set_post (s : Spec) (hs : s.bitsOk) (m : Mem) (h v : Nat) (hb : m (s.addr h) < 256)
    (hv : v < 2 ^ s.numBits) :
    BitsPost s m h (Mmtk.Mem.set m (s.addr h) (setBits s (m (s.addr h)) v)) (getBits s (m (s.addr h))) v := by
  refine ⟨?_, ?_, rfl, ?_, ?_⟩
  · intro x hx; simp [Mmtk.Mem.set, hx]
  · simp only [Mmtk.Mem.set, if_true]; exact setBits_outside s hs _ v hb hv
  · simp only [Mmtk.Mem.set, if_true]; exact getBits_setBits s hs _ v hb hv
  · simp only [Mmtk.Mem.set, if_true]; exact setBits_lt s hs _ v hb hv

theorem noop_post (s : Spec) (m : Mem) (h : Nat) (hb : m (s.addr h) < 256) :
    BitsPost s m h m (getBits s (m (s.addr h))) (getBits s (m (s.addr h))) :=
  ⟨fun _ _ => rfl, fun _ _ => rfl, rfl, rfl, hb⟩

/-- **C23 (load, sub-byte)** returns exactly the field, changes nothing. -/
theorem loadBits_spec (s : Spec) (m : Mem) (h : Nat) :
    loadBits s m h = some (m, getBits s (m (s.addr h))) := rfl

/-- **C23 (store, sub-byte)** only the field changes, and it holds `v`. -/
theorem storeBits_spec (debug : Bool) (s : Spec) (hs : s.bitsOk) (m : Mem) (h v : Nat)
    (hb : m (s.addr h) < 256) (hv : v < 2 ^ s.numBits) :
    ∃ m', storeBits debug s m h v = some (m', 0) ∧
      BitsPost s m h m' (getBits s (m (s.addr h))) v := by
  refine ⟨Mmtk.Mem.set m (s.addr h) (setBits s (m (s.addr h)) v), ?_, set_post s hs m h v hb hv⟩
  simp [storeBits, setBitsChecked, hv]

/-- **C23 (compare_exchange, sub-byte)** succeeds iff the field equals `old`; on success only the
field changes (to `new`); both outcomes return the field's previous value — not the raw byte. -/
theorem cmpxchgBits_spec (debug : Bool) (s : Spec) (hs : s.bitsOk) (m : Mem) (h old new : Nat)
    (hb : m (s.addr h) < 256) (ho : old < 2 ^ s.numBits) (hn : new < 2 ^ s.numBits) :
    ∃ m' ok, cmpxchgBits debug s m h old new = some (m', ok, getBits s (m (s.addr h))) ∧
      (ok = true ↔ getBits s (m (s.addr h)) = old) ∧
      BitsPost s m h m' (getBits s (m (s.addr h))) (if ok then new else getBits s (m (s.addr h))) := by
  unfold cmpxchgBits
  simp only [setBitsChecked, ho, hn, decide_true, Bool.not_true, Bool.and_false, Bool.false_eq_true, if_false]
  by_cases e : m (s.addr h) = setBits s (m (s.addr h)) old
  · have hf := (setBits_eq_self_iff s hs _ old hb ho).1 e
    refine ⟨Mmtk.Mem.set m (s.addr h) (setBits s (m (s.addr h)) new), true, ?_, by simp [hf], ?_⟩
    · rw [if_pos e, setBits_setBits s hs _ old new hb ho hn]
    · simp only [if_true]
      exact set_post s hs m h new hb hn
  · have hf : ¬ getBits s (m (s.addr h)) = old := fun c => e ((setBits_eq_self_iff s hs _ old hb ho).2 c)
    refine ⟨m, false, by rw [if_neg e], by simp [hf], ?_⟩
    simp only [Bool.false_eq_true, if_false]
    exact noop_post s m h hb

/-- The pinned tree returned the raw byte: with a non-zero neighbour the returned value is not the
field (witness: byte `0xF7`, field = bits 2..3, `compare_exchange(1 → 2)`). -/
theorem cmpxchgBitsOld_returns_raw_byte_witness :
    let s : Spec := { bitOffset := 2, numBits := 2 }
    let m : Mem := fun x => if x = 100 then 0xF7 else 0
    s.bitsOk ∧ getBits s (m (s.addr 100)) = 1 ∧
    (cmpxchgBitsOld true s m 100 1 2).map (fun r => r.2.2) = some 0xF7 ∧
    (cmpxchgBits true s m 100 1 2).map (fun r => r.2.2) = some 1 := by
  decide

theorem trunc_mod (s : Spec) (hs : s.bitsOk) (x : Nat) : truncBits s (x % 256) = x % 2 ^ s.numBits := by
  unfold truncBits
  rw [Nat.and_two_pow_sub_one_eq_mod]
  have e : (256 : Nat) = 2 ^ 8 := by decide
  rw [e]
  exact Nat.mod_mod_of_dvd _ (Nat.pow_dvd_pow 2 (by have := hs.2.1; omega))

/-- **C23 (fetch_add / fetch_sub / generic update, sub-byte)** only the field changes, to
`update(old) mod 2^bits`; the old field is returned. -/
theorem fetchOpBits_spec (debug : Bool) (s : Spec) (hs : s.bitsOk) (m : Mem) (h : Nat) (update : Nat → Nat)
    (hb : m (s.addr h) < 256) :
    ∃ m', fetchOpBits debug s m h update = some (m', getBits s (m (s.addr h))) ∧
      BitsPost s m h m' (getBits s (m (s.addr h))) (update (getBits s (m (s.addr h))) % 2 ^ s.numBits) := by
  have ht := truncBits_lt s (update (getBits s (m (s.addr h))) % 256)
  refine ⟨Mmtk.Mem.set m (s.addr h) (setBits s (m (s.addr h)) (truncBits s (update (getBits s (m (s.addr h))) % 256))), ?_, ?_⟩
  · simp only [fetchOpBits, setBitsChecked, ht, decide_true, Bool.not_true, Bool.and_false,
      Bool.false_eq_true, if_false]
  · rw [← trunc_mod s hs]
    exact set_post s hs m h _ hb ht

theorem fetchAddBits_spec (debug : Bool) (s : Spec) (hs : s.bitsOk) (m : Mem) (h v : Nat)
    (hb : m (s.addr h) < 256) :
    ∃ m', fetchAddBits debug s m h v = some (m', getBits s (m (s.addr h))) ∧
      BitsPost s m h m' (getBits s (m (s.addr h))) ((getBits s (m (s.addr h)) + v) % 2 ^ s.numBits) := by
  obtain ⟨m', h1, h2⟩ := fetchOpBits_spec debug s hs m h (fun x => (x + v) % 256) hb
  refine ⟨m', h1, ?_⟩
  have e : (256 : Nat) = 2 ^ 8 := by decide
  have : (getBits s (m (s.addr h)) + v) % 256 % 2 ^ s.numBits = (getBits s (m (s.addr h)) + v) % 2 ^ s.numBits := by
    rw [e]; exact Nat.mod_mod_of_dvd _ (Nat.pow_dvd_pow 2 (by have := hs.2.1; omega))
  simpa [this] using h2

/-- **C23 (fetch_and, sub-byte)**. -/
theorem fetchAndBits_spec (s : Spec) (hs : s.bitsOk) (m : Mem) (h v : Nat)
    (hb : m (s.addr h) < 256) (hv : v < 2 ^ s.numBits) :
    ∃ m', fetchAndBits s m h v = some (m', getBits s (m (s.addr h))) ∧
      BitsPost s m h m' (getBits s (m (s.addr h))) (getBits s (m (s.addr h)) &&& v) := by
  have hlt := Nat.lt_of_le_of_lt (Nat.and_le_left (n := getBits s (m (s.addr h))) (m := v)) (getBits_lt s hs (m (s.addr h)))
  have key : m (s.addr h) &&& ((v <<< s.shift) % 256 ||| (255 - mask8 s)) =
      setBits s (m (s.addr h)) (getBits s (m (s.addr h)) &&& v) := by
    apply Nat.eq_of_testBit_eq
    intro i
    rw [testBit_setBits s hs _ _ hb hlt, Nat.testBit_and, Nat.testBit_or, testBit_shifted s hs v hv,
      testBit_notmask8 s hs]
    by_cases hf : InField s i
    · simp only [hf, decide_true, Bool.true_and, Bool.not_true, Bool.and_false, Bool.or_false, if_true]
      rw [Nat.testBit_and, getBits_eq s hs, Nat.testBit_mod_two_pow, Nat.testBit_shiftRight]
      obtain ⟨h1, h2⟩ := hf
      have e : s.shift + (i - s.shift) = i := by omega
      have : i - s.shift < s.numBits := by omega
      simp [e, this]
    · simp only [hf, decide_false, Bool.false_and, Bool.not_false, Bool.and_true, Bool.false_or, if_false]
      by_cases h8 : i < 8
      · simp [h8]
      · have : (m (s.addr h)).testBit i = false := by
          apply Nat.testBit_lt_two_pow
          calc m (s.addr h) < 2 ^ 8 := hb
            _ ≤ 2 ^ i := Nat.pow_le_pow_right (by omega) (by omega)
        simp [this]
  refine ⟨Mmtk.Mem.set m (s.addr h) (setBits s (m (s.addr h)) (getBits s (m (s.addr h)) &&& v)), ?_, set_post s hs m h _ hb hlt⟩
  simp only [fetchAndBits, key]

/-- **C23 (fetch_or, sub-byte)**. -/
theorem fetchOrBits_spec (s : Spec) (hs : s.bitsOk) (m : Mem) (h v : Nat)
    (hb : m (s.addr h) < 256) (hv : v < 2 ^ s.numBits) :
    ∃ m', fetchOrBits s m h v = some (m', getBits s (m (s.addr h))) ∧
      BitsPost s m h m' (getBits s (m (s.addr h))) (getBits s (m (s.addr h)) ||| v) := by
  have hlt : getBits s (m (s.addr h)) ||| v < 2 ^ s.numBits := Nat.or_lt_two_pow (getBits_lt s hs _) hv
  have key : m (s.addr h) ||| ((v <<< s.shift) % 256 &&& mask8 s) =
      setBits s (m (s.addr h)) (getBits s (m (s.addr h)) ||| v) := by
    apply Nat.eq_of_testBit_eq
    intro i
    rw [testBit_setBits s hs _ _ hb hlt, Nat.testBit_or, Nat.testBit_and, testBit_shifted s hs v hv,
      testBit_mask8 s hs]
    by_cases hf : InField s i
    · simp only [hf, decide_true, Bool.true_and, Bool.and_true, if_true]
      rw [Nat.testBit_or, getBits_eq s hs, Nat.testBit_mod_two_pow, Nat.testBit_shiftRight]
      obtain ⟨h1, h2⟩ := hf
      have e : s.shift + (i - s.shift) = i := by omega
      have : i - s.shift < s.numBits := by omega
      simp [e, this]
    · simp [hf]
  refine ⟨Mmtk.Mem.set m (s.addr h) (setBits s (m (s.addr h)) (getBits s (m (s.addr h)) ||| v)), ?_, set_post s hs m h _ hb hlt⟩
  simp only [fetchOrBits, key]

/-- **C23 (fetch_update, sub-byte)** `Err(old field)` and no change when `f` declines; otherwise
`Ok(old field)` and only the field changes (to `f(old) mod 2^bits`). -/
theorem fetchUpdateBits_spec (debug : Bool) (s : Spec) (hs : s.bitsOk) (m : Mem) (h : Nat)
    (f : Nat → Option Nat) (hb : m (s.addr h) < 256) :
    ∃ m' ok, fetchUpdateBits debug s m h f = some (m', ok, getBits s (m (s.addr h))) ∧
      (ok = (f (getBits s (m (s.addr h)))).isSome) ∧
      BitsPost s m h m' (getBits s (m (s.addr h)))
        (match f (getBits s (m (s.addr h))) with
         | some nv => nv % 2 ^ s.numBits
         | none => getBits s (m (s.addr h))) := by
  unfold fetchUpdateBits
  cases hf : f (getBits s (m (s.addr h))) with
  | none => exact ⟨m, false, by simp only [hf], by simp, noop_post s m h hb⟩
  | some nv =>
    have ht := truncBits_lt s (nv % 256)
    refine ⟨Mmtk.Mem.set m (s.addr h) (setBits s (m (s.addr h)) (truncBits s (nv % 256))), true, ?_, by simp, ?_⟩
    · simp only [hf, setBitsChecked, ht, decide_true, Bool.not_true, Bool.and_false, Bool.false_eq_true, if_false]
    · simp only
      rw [← trunc_mod s hs]
      exact set_post s hs m h _ hb ht


/-! ## little-endian word lemmas -/

/-- every byte of memory is a byte. -/
def ByteMem (m : Mem) : Prop := ∀ x, m x < 256

theorem writeLE_other (m : Mem) (a w v x : Nat) (hx : x < a ∨ a + w ≤ x) : writeLE m a w v x = m x := by
  induction w generalizing m a v with
  | zero => rfl
  | succ w ih =>
    simp only [writeLE]
    rw [ih _ _ _ (by omega)]
    have : x ≠ a := by omega
    simp [Mmtk.Mem.set, this]

theorem readLE_writeLE (m : Mem) (a w v : Nat) : readLE (writeLE m a w v) a w = v % 256 ^ w := by
  induction w generalizing m a v with
  | zero => simp [readLE, Nat.mod_one]
  | succ w ih =>
    simp only [writeLE, readLE]
    rw [writeLE_other _ _ _ _ _ (Or.inl (Nat.lt_succ_self a)), ih]
    simp only [Mmtk.Mem.set, if_true]
    rw [Nat.pow_succ, Nat.mul_comm (256 ^ w) 256, Nat.mod_mul]

theorem readLE_congr (m m' : Mem) (a w : Nat) (h : ∀ x, a ≤ x → x < a + w → m' x = m x) :
    readLE m' a w = readLE m a w := by
  induction w generalizing a with
  | zero => rfl
  | succ w ih =>
    simp only [readLE]
    rw [h a (by omega) (by omega), ih (a + 1) (fun x h1 h2 => h x (by omega) (by omega))]

theorem readLE_lt (m : Mem) (hm : ByteMem m) (a w : Nat) : readLE m a w < 256 ^ w := by
  induction w generalizing a with
  | zero => simp [readLE]
  | succ w ih =>
    simp only [readLE, Nat.pow_succ]
    have := hm a
    have := ih (a + 1)
    omega

theorem writeLE_byteMem (m : Mem) (hm : ByteMem m) (a w v : Nat) : ByteMem (writeLE m a w v) := by
  induction w generalizing m a v with
  | zero => exact hm
  | succ w ih =>
    simp only [writeLE]
    apply ih
    intro x
    simp only [Mmtk.Mem.set]
    split
    · exact Nat.mod_lt _ (by omega)
    · exact hm x

theorem wordMax_eq (w : Nat) : wordMax w = 2 ^ (8 * w) := by
  unfold wordMax
  have e : (256 : Nat) = 2 ^ 8 := by decide
  rw [e, ← Nat.pow_mul]

/-! ## mask splice lemmas (`n`-bit words) -/

theorem testBit_compl (n k : Nat) (hk : k < 2 ^ n) (i : Nat) :
    (2 ^ n - 1 - k).testBit i = (decide (i < n) && !k.testBit i) := by
  have e : 2 ^ n - 1 - k = 2 ^ n - (k + 1) := by omega
  rw [e, Nat.testBit_two_pow_sub_succ hk]

theorem testBit_high {n x : Nat} (hx : x < 2 ^ n) {i : Nat} (hi : n ≤ i) : x.testBit i = false :=
  Nat.testBit_lt_two_pow (Nat.lt_of_lt_of_le hx (Nat.pow_le_pow_right (by omega) hi))

/-- `(cur & !mask) | (v & mask)` keeps `cur` outside the mask and takes `v` inside it. -/
theorem splice_in (n cur v k : Nat) (hk : k < 2 ^ n) :
    ((cur &&& (2 ^ n - 1 - k)) ||| (v &&& k)) &&& k = v &&& k := by
  apply Nat.eq_of_testBit_eq
  intro i
  simp only [Nat.testBit_and, Nat.testBit_or, testBit_compl n k hk]
  cases k.testBit i <;> simp

theorem splice_out (n cur v k : Nat) (hk : k < 2 ^ n) :
    ((cur &&& (2 ^ n - 1 - k)) ||| (v &&& k)) &&& (2 ^ n - 1 - k) = cur &&& (2 ^ n - 1 - k) := by
  apply Nat.eq_of_testBit_eq
  intro i
  simp only [Nat.testBit_and, Nat.testBit_or, testBit_compl n k hk]
  cases k.testBit i <;> simp

theorem splice_lt (n cur v k : Nat) (hc : cur < 2 ^ n) (hk : k < 2 ^ n) :
    (cur &&& (2 ^ n - 1 - k)) ||| (v &&& k) < 2 ^ n := by
  apply Nat.or_lt_two_pow
  · exact Nat.lt_of_le_of_lt Nat.and_le_left hc
  · exact Nat.lt_of_le_of_lt Nat.and_le_right hk

/-- a word splits into its masked and unmasked parts. -/
theorem split_mask (n x k : Nat) (hx : x < 2 ^ n) (hk : k < 2 ^ n) :
    (x &&& (2 ^ n - 1 - k)) ||| (x &&& k) = x := by
  apply Nat.eq_of_testBit_eq
  intro i
  simp only [Nat.testBit_and, Nat.testBit_or, testBit_compl n k hk]
  by_cases hi : i < n
  · cases k.testBit i <;> simp [hi]
  · simp [testBit_high hx (Nat.le_of_not_lt hi)]

/-! ## What C23 demands of an accessor on a byte-or-wider field -/

/-- `m'` differs from `m` only inside the `w` bytes of the field, whose word value is now `newWord`;
`ret` is what the accessor returned. -/
structure WordPost (s : Spec) (w : Nat) (m : Mem) (h : Nat) (m' : Mem) (newWord : Nat) : Prop where
  other_bytes : ∀ x, x < s.addr h ∨ s.addr h + w ≤ x → m' x = m x
  word_new : readLE m' (s.addr h) w = newWord
  bytes_ok : ByteMem m'

theorem write_post (s : Spec) (w : Nat) (m : Mem) (hm : ByteMem m) (h v : Nat) (hv : v < wordMax w) :
    WordPost s w m h (writeLE m (s.addr h) w v) v :=
  ⟨fun x hx => writeLE_other m _ w v x hx, by rw [readLE_writeLE]; exact Nat.mod_eq_of_lt hv,
   writeLE_byteMem m hm _ _ _⟩

theorem keep_post (s : Spec) (w : Nat) (m : Mem) (hm : ByteMem m) (h : Nat) :
    WordPost s w m h m (readLE m (s.addr h) w) := ⟨fun _ _ => rfl, rfl, hm⟩

/-- **C23 (load, byte-or-wider)** returns the field (the masked bits when a mask is given). -/
theorem loadWord_spec (s : Spec) (w : Nat) (m : Mem) (h : Nat) (mask : Option Nat) :
    loadWord s w m h mask = some (m, match mask with
      | some k => readLE m (s.addr h) w &&& k
      | none => readLE m (s.addr h) w) := rfl

/-- **C23 (store, no mask)**. -/
theorem storeWord_spec (s : Spec) (w : Nat) (m : Mem) (hm : ByteMem m) (h v : Nat) (hv : v < wordMax w) :
    ∃ m', storeWord s w m h v none = some (m', 0) ∧ WordPost s w m h m' v :=
  ⟨writeLE m (s.addr h) w v, rfl, write_post s w m hm h v hv⟩

/-- **C23 (store under a mask)** bytes outside the word are unchanged; inside the word the bits
outside the mask keep their value and the masked bits take those of `v`. -/
theorem storeWord_masked_spec (s : Spec) (w : Nat) (m : Mem) (hm : ByteMem m) (h v k : Nat)
    (hk : k < wordMax w) :
    ∃ m' nw, storeWord s w m h v (some k) = some (m', 0) ∧ WordPost s w m h m' nw ∧
      nw &&& k = v &&& k ∧
      nw &&& (wordMax w - 1 - k) = readLE m (s.addr h) w &&& (wordMax w - 1 - k) := by
  have hc : readLE m (s.addr h) w < wordMax w := readLE_lt m hm (s.addr h) w
  rw [wordMax_eq] at hk hc ⊢
  refine ⟨writeLE m (s.addr h) w ((readLE m (s.addr h) w &&& (2 ^ (8 * w) - 1 - k)) ||| (v &&& k)),
    (readLE m (s.addr h) w &&& (2 ^ (8 * w) - 1 - k)) ||| (v &&& k), ?_, ?_, splice_in _ _ _ _ hk, splice_out _ _ _ _ hk⟩
  · simp only [storeWord, wordMax_eq]
  · exact write_post s w m hm h _ (by rw [wordMax_eq]; exact splice_lt _ _ _ _ hc hk)

/-- **C23 (compare_exchange, no mask)** succeeds iff the word equals `old`; returns the previous word. -/
theorem cmpxchgWord_spec (s : Spec) (w : Nat) (m : Mem) (hm : ByteMem m) (h old new : Nat)
    (hn : new < wordMax w) :
    ∃ m' ok, cmpxchgWord s w m h old new none = some (m', ok, readLE m (s.addr h) w) ∧
      (ok = true ↔ readLE m (s.addr h) w = old) ∧
      WordPost s w m h m' (if ok then new else readLE m (s.addr h) w) := by
  unfold cmpxchgWord
  by_cases e : readLE m (s.addr h) w = old
  · exact ⟨writeLE m (s.addr h) w new, true, by simp only [e, if_true], by simp [e], by simpa using write_post s w m hm h new hn⟩
  · exact ⟨m, false, by simp only [e, if_false], by simp [e], by simpa using keep_post s w m hm h⟩

/-- **C23 (compare_exchange under a mask)** for `old`, `new` inside the mask: succeeds iff the
masked bits equal `old`; on success the masked bits become `new` and the bits outside the mask are
unchanged; both outcomes return the previous *masked* value. -/
theorem cmpxchgWord_masked_spec (s : Spec) (w : Nat) (m : Mem) (hm : ByteMem m) (h old new k : Nat)
    (hk : k < wordMax w) (ho : old &&& k = old) (hn : new &&& k = new) :
    ∃ m' ok nw, cmpxchgWord s w m h old new (some k) = some (m', ok, readLE m (s.addr h) w &&& k) ∧
      (ok = true ↔ readLE m (s.addr h) w &&& k = old) ∧
      WordPost s w m h m' nw ∧
      nw &&& k = (if ok then new else readLE m (s.addr h) w &&& k) ∧
      nw &&& (wordMax w - 1 - k) = readLE m (s.addr h) w &&& (wordMax w - 1 - k) := by
  have hc : readLE m (s.addr h) w < wordMax w := readLE_lt m hm (s.addr h) w
  have hM := wordMax_eq w
  rw [hM] at hk hc
  unfold cmpxchgWord
  simp only [hM]
  generalize hcur : readLE m (s.addr h) w = cur at hc ⊢
  have hsp : ∀ v, v &&& k = v →
      ((cur &&& (2 ^ (8 * w) - 1 - k)) ||| v) = ((cur &&& (2 ^ (8 * w) - 1 - k)) ||| (v &&& k)) := by
    intro v hv; rw [hv]
  by_cases e : cur = (cur &&& (2 ^ (8 * w) - 1 - k)) ||| old
  · have hf : cur &&& k = old := by
      have := splice_in (8 * w) cur old k hk
      rw [← hsp old ho, ← e, ho] at this; exact this
    refine ⟨writeLE m (s.addr h) w ((cur &&& (2 ^ (8 * w) - 1 - k)) ||| new), true,
      (cur &&& (2 ^ (8 * w) - 1 - k)) ||| new, by rw [if_pos e], by simp [hf], ?_, ?_, ?_⟩
    · have := write_post s w m hm h ((cur &&& (2 ^ (8 * w) - 1 - k)) ||| new)
        (by rw [hM, hsp new hn]; exact splice_lt _ _ _ _ hc hk)
      exact this
    · rw [hsp new hn, splice_in _ _ _ _ hk, hn]; simp
    · rw [hsp new hn, splice_out _ _ _ _ hk]
  · have hf : ¬ cur &&& k = old := by
      intro c
      apply e
      rw [← c]
      exact (split_mask (8 * w) cur k hc hk).symm
    refine ⟨m, false, cur, by rw [if_neg e], by simp [hf], ?_, by simp, rfl⟩
    rw [← hcur]; exact keep_post s w m hm h

/-- The pinned tree returned the unmasked word (witness: all-ones word, mask `!3`). -/
theorem cmpxchgWordOld_returns_unmasked_witness :
    let s : Spec := { bitOffset := 0, numBits := 8 }
    let m : Mem := fun x => if x = 100 then 0xFF else 0
    (cmpxchgWordOld s 1 m 100 0xFC 8 (some 0xFC)).map (fun r => r.2.2) = some 0xFF ∧
    (cmpxchgWord s 1 m 100 0xFC 8 (some 0xFC)).map (fun r => r.2.2) = some 0xFC := by
  decide

/-- **C23 (fetch_add / sub / and / or, byte-or-wider)** only the word changes, to
`update(old) mod 2^bits`; the old word is returned. -/
theorem fetchOpWord_spec (s : Spec) (w : Nat) (m : Mem) (hm : ByteMem m) (h : Nat) (update : Nat → Nat) :
    ∃ m', fetchOpWord s w m h update = some (m', readLE m (s.addr h) w) ∧
      WordPost s w m h m' (update (readLE m (s.addr h) w) % wordMax w) :=
  ⟨_, rfl, write_post s w m hm h _ (Nat.mod_lt _ (by rw [wordMax_eq]; exact Nat.two_pow_pos _))⟩

/-- **C23 (fetch_update, byte-or-wider)**. -/
theorem fetchUpdateWord_spec (s : Spec) (w : Nat) (m : Mem) (hm : ByteMem m) (h : Nat) (f : Nat → Option Nat) :
    ∃ m' ok, fetchUpdateWord s w m h f = some (m', ok, readLE m (s.addr h) w) ∧
      ok = (f (readLE m (s.addr h) w)).isSome ∧
      WordPost s w m h m' (match f (readLE m (s.addr h) w) with
        | some nv => nv % wordMax w
        | none => readLE m (s.addr h) w) := by
  unfold fetchUpdateWord
  cases hf : f (readLE m (s.addr h) w) with
  | none => exact ⟨m, false, by simp only [hf], by simp, keep_post s w m hm h⟩
  | some nv =>
    exact ⟨_, true, by simp only [hf], by simp,
      write_post s w m hm h _ (Nat.mod_lt _ (by rw [wordMax_eq]; exact Nat.two_pow_pos _))⟩

/-! ## fields of different specs in the same header do not interfere (negative offsets included) -/

/-- A sub-byte accessor on `s` leaves every other sub-byte field `t` of the header intact when the
two fields occupy different bits (different bytes, or disjoint bit ranges of the same byte). -/
theorem bits_fields_independent (s t : Spec) (ht : t.bitsOk) (m m' : Mem) (h ret nf : Nat)
    (post : BitsPost s m h m' ret nf)
    (hdisj : t.addr h ≠ s.addr h ∨ ∀ i, InField t i → ¬ InField s i) :
    getBits t (m' (t.addr h)) = getBits t (m (t.addr h)) := by
  rcases hdisj with hne | hd
  · rw [post.other_bytes _ hne]
  · by_cases hne : t.addr h = s.addr h
    · rw [hne, getBits_eq t ht, getBits_eq t ht]
      apply Nat.eq_of_testBit_eq
      intro i
      simp only [Nat.testBit_mod_two_pow, Nat.testBit_shiftRight]
      by_cases hi : i < t.numBits
      · have hin : InField t (t.shift + i) := ⟨by omega, by omega⟩
        rw [post.other_bits _ (hd _ hin)]
      · simp [hi]
    · rw [post.other_bytes _ hne]

/-! ## non-vacuity: a negative bit offset addresses the byte before the header -/
example : ({ bitOffset := -1, numBits := 1 } : Spec).bitsOk := by decide
example : ({ bitOffset := -1, numBits := 1 } : Spec).addr 100 = 99 ∧ ({ bitOffset := -1, numBits := 1 } : Spec).shift = 7 := by decide
example : ({ bitOffset := -64, numBits := 64 } : Spec).wordOk 8 := by decide

end Mmtk.HeaderMeta
