import MmtkModel.Props.C17
import MmtkModel.Model.FwdByte
import Mathlib.Tactic.SplitIfs
/-!
# C17, different objects of one metadata byte forwarded at the same time

The byte model `Mmtk.FwdByte` (two objects whose forwarding bits share a metadata byte, BYTE-wide
CAS, any number of threads per object) projects, for each object, onto the per-object forwarding
model `Mmtk.Fwd`: the byte load and every failed byte CAS — genuine or caused by the neighbour — are
stutter steps of the per-object model, a successful byte CAS is its two steps `.start → .cas → .won`
back to back, everything else is the same step.  Hence every C17 theorem — and the executable
per-object verdict `outcomeOk` — holds for each object independently while its neighbour in the
same byte is being forwarded too.  This needs the retry: `attempt_to_forward` LOOPS on a failed CAS.
A variant that takes the failed CAS's view of its own bits (`00`) for a win copies twice
(`noRetry_copies_twice`).
-/
namespace Mmtk.FwdByte

/-! ## bookkeeping -/

theorem other_ne (k : Obj) : k.other ≠ k := by cases k <;> decide
theorem eq_other_of_ne {j k : Obj} (h : j ≠ k) : j = k.other := by
  cases j <;> cases k <;> first | rfl | exact absurd rfl h

theorem obj_setObj (sh : Shared) (k : Obj) (o : Fwd.Shared) : (sh.setObj k o).obj k = o := by
  simp only [Shared.setObj, if_true]
theorem obj_setObj_ne (sh : Shared) (j k : Obj) (h : k ≠ j) (o : Fwd.Shared) :
    (sh.setObj j o).obj k = sh.obj k := by
  simp only [Shared.setObj, if_neg h]
theorem rest_setObj (sh : Shared) (k : Obj) (o : Fwd.Shared) : (sh.setObj k o).rest = sh.rest := rfl

theorem state_ext {a b : Fwd.State} (h1 : a.sh = b.sh) (h2 : ∀ x, a.pc x = b.pc x) : a = b := by
  cases a; cases b
  simp only at h1 h2
  subst h1
  congr
  exact funext h2

variable (immix oneStep : Bool)

theorem exec_append (s : Fwd.State) (r1 r2 : List (Nat × Bool)) :
    Fwd.exec immix oneStep s (r1 ++ r2) = Fwd.exec immix oneStep (Fwd.exec immix oneStep s r1) r2 := by
  induction r1 generalizing s with
  | nil => rfl
  | cons a r ih => obtain ⟨t, d⟩ := a; exact ih _

/-- a thread step of the byte model, not at the CAS, is the per-object step on the own object -/
theorem base_step (k : Obj) (x : Nat) (d : Bool) (sh : Shared) (p : Fwd.PC) (hp : p ≠ .cas) :
    localStep immix oneStep k x d sh (.base p) =
      (sh.setObj k (Fwd.localStep immix oneStep x d (sh.obj k) p).1,
       .base (Fwd.localStep immix oneStep x d (sh.obj k) p).2) := by
  cases p <;> first | exact absurd rfl hp | rfl

/-- the per-object step reaches `.cas` only from the loop head with bits `00` -/
theorem next_ne_cas (x : Nat) (d : Bool) (o : Fwd.Shared) (p : Fwd.PC) (hp : p ≠ .cas)
    (h : p = .start → o.bits ≠ Fwd.NOT_TRIGGERED) :
    (Fwd.localStep immix oneStep x d o p).2 ≠ .cas := by
  cases p with
  | cas => exact absurd rfl hp
  | start =>
    have := h rfl
    simp only [Fwd.localStep, if_neg this]
    split_ifs <;> simp
  | spin => simp only [Fwd.localStep]; split_ifs <;> simp
  | readPtr => simp [Fwd.localStep]
  | won => simp only [Fwd.localStep]; split_ifs <;> simp
  | decide => simp only [Fwd.localStep]; split_ifs <;> simp
  | copied c => simp only [Fwd.localStep]; split_ifs <;> simp
  | ptrWritten c => simp [Fwd.localStep]
  | markPending => simp [Fwd.localStep]
  | clearAfterMark => simp [Fwd.localStep]
  | clearSeenMarked => simp [Fwd.localStep]
  | done r => simp [Fwd.localStep]

theorem projPC_base (q : Fwd.PC) (hq : q ≠ .cas) : projPC (.base q) = q := by
  cases q <;> first | exact absurd rfl hq | rfl

theorem projLocal_base (k : Obj) (sh : Shared) (p : Fwd.PC) (x : Nat) (d : Bool) (hp : p ≠ .cas)
    (h : p = .start → (sh.obj k).bits ≠ Fwd.NOT_TRIGGERED) :
    projLocal k sh (.base p) x d = [(x, d)] := by
  cases p with
  | cas => exact absurd rfl hp
  | start => simp only [projLocal, if_neg (h rfl)]
  | _ => rfl

/-- **one thread step, seen from its own object**: the per-object model, started in the projection,
runs the projected steps and arrives at the projection of the result. -/
theorem proj_local (k : Obj) (x : Nat) (d : Bool) (sh : Shared) (pc : PC) (S : Fwd.State)
    (hS : S.sh = sh.obj k) (hpc : S.pc x = projPC pc) :
    Fwd.exec immix oneStep S (projLocal k sh pc x d) =
      { sh := (localStep immix oneStep k x d sh pc).1.obj k,
        pc := fun y => if y = x then projPC (localStep immix oneStep k x d sh pc).2 else S.pc y } := by
  -- a stutter step: nothing changes and the projected program point is still the loop head
  have stutter : ∀ (q : PC), projPC pc = .start → projPC q = .start →
      S = { sh := sh.obj k, pc := fun y => if y = x then projPC q else S.pc y } := by
    intro q h1 h2
    refine state_ext hS (fun y => ?_)
    by_cases hy : y = x
    · subst hy; simp only [if_true]; rw [hpc, h1, h2]
    · simp only [if_neg hy]
  cases pc with
  | casB o r =>
    simp only [projLocal, localStep]
    by_cases hc : (sh.obj k).bits = Fwd.NOT_TRIGGERED ∧ (sh.obj k.other).bits = o ∧ sh.rest = r
    · rw [if_pos hc, if_pos hc]
      have hpc' : S.pc x = .start := hpc
      have hb : S.sh.bits = Fwd.NOT_TRIGGERED := by rw [hS]; exact hc.1
      refine state_ext ?_ (fun y => ?_)
      · simp only [Fwd.exec, Fwd.step, Fwd.localStep, hpc', hb, if_true, obj_setObj]
        rw [hS]
      · simp only [Fwd.exec, Fwd.step, Fwd.localStep, hpc', hb, if_true]
        by_cases hy : y = x
        · simp only [hy, if_true]; rfl
        · simp only [if_neg hy]
    · rw [if_neg hc, if_neg hc]
      exact stutter (.base .start) rfl rfl
  | base p =>
    by_cases hcas : p = .cas
    · subst hcas
      exact stutter (.casB (sh.obj k.other).bits sh.rest) rfl rfl
    · by_cases hst : p = .start ∧ (sh.obj k).bits = Fwd.NOT_TRIGGERED
      · obtain ⟨hp, hb⟩ := hst
        subst hp
        have e1 : projLocal k sh (.base .start) x d = [] := by simp only [projLocal, if_pos hb]
        have e2 : localStep immix oneStep k x d sh (.base .start) = (sh.setObj k (sh.obj k), .base .cas) := by
          simp only [localStep, Fwd.localStep, if_pos hb]
        rw [e1, e2]
        have := stutter (.base .cas) rfl rfl
        simp only [obj_setObj]
        exact this
      · have hst' : p = .start → (sh.obj k).bits ≠ Fwd.NOT_TRIGGERED := fun h1 h2 => hst ⟨h1, h2⟩
        rw [projLocal_base k sh p x d hcas hst', base_step immix oneStep k x d sh p hcas]
        have hne := next_ne_cas immix oneStep x d (sh.obj k) p hcas hst'
        have hpc' : S.pc x = p := by rw [hpc]; exact projPC_base p hcas
        refine state_ext ?_ (fun y => ?_)
        · simp only [Fwd.exec, Fwd.step, obj_setObj, hpc', hS]
        · simp only [Fwd.exec, Fwd.step, hpc', hS]
          by_cases hy : y = x
          · simp only [hy, if_true]; exact (projPC_base _ hne).symm
          · simp only [if_neg hy]

/-- **projection, one step** -/
theorem proj_step (k : Obj) (s : State) (a : Act) :
    proj k (step immix oneStep s a) = Fwd.exec immix oneStep (proj k s) (projAct k s a) := by
  cases a with
  | env v => rfl
  | thread j x d =>
    by_cases hj : j = k
    · subst hj
      simp only [projAct, if_true]
      rw [proj_local immix oneStep j x d s.sh (s.pc j x) (proj j s) rfl rfl]
      refine state_ext rfl (fun y => ?_)
      simp only [proj, step]
      by_cases hy : y = x
      · simp only [hy, and_self, if_true]
      · simp only [hy, and_false, if_false]
    · have hkj : ¬ k = j := fun e => hj e.symm
      simp only [projAct, if_neg hj, Fwd.exec]
      refine state_ext ?_ (fun y => ?_)
      · show (localStep immix oneStep j x d s.sh (s.pc j x)).1.obj k = s.sh.obj k
        cases hp : s.pc j x with
        | casB o r =>
          simp only [localStep]
          split_ifs
          · exact obj_setObj_ne _ _ _ hkj _
          · rfl
        | base p =>
          by_cases hcas : p = .cas
          · subst hcas; rfl
          · rw [base_step immix oneStep j x d s.sh p hcas]
            exact obj_setObj_ne _ _ _ hkj _
      · simp only [proj, step, hkj, false_and, if_false]

/-- **projection**: every run of the byte model is, seen from object `k`, a run of the per-object
forwarding model. -/
theorem proj_exec (k : Obj) (s : State) (run : List Act) :
    proj k (exec immix oneStep s run) =
      Fwd.exec immix oneStep (proj k s) (projRun immix oneStep k s run) := by
  induction run generalizing s with
  | nil => rfl
  | cons a rest ih =>
    simp only [exec, projRun]
    rw [exec_append, ← proj_step]
    exact ih _

theorem proj_init (k : Obj) (m0A m0B : Bool) (r0 : Nat) :
    proj k (init m0A m0B r0) = Fwd.init (m0of m0A m0B k) := rfl

theorem proj_reachable (k : Obj) (m0A m0B : Bool) (r0 : Nat) (run : List Act) :
    Fwd.Reachable immix oneStep (m0of m0A m0B k)
      (proj k (exec immix oneStep (init m0A m0B r0) run)) :=
  ⟨projRun immix oneStep k (init m0A m0B r0) run, by rw [proj_exec, proj_init]⟩

/-- **neighbours are independent**: for every run of the byte model — tracers of BOTH objects and
the environment interleaved arbitrarily — each object's view is a run of its own per-object model. -/
theorem neighbours_independent (m0A m0B : Bool) (r0 : Nat) (run : List Act) :
    Fwd.Reachable immix oneStep m0A (proj .A (exec immix oneStep (init m0A m0B r0) run)) ∧
    Fwd.Reachable immix oneStep m0B (proj .B (exec immix oneStep (init m0A m0B r0) run)) :=
  ⟨proj_reachable immix oneStep .A m0A m0B r0 run, proj_reachable immix oneStep .B m0A m0B r0 run⟩

/-- **a byte-level CAS on one object's bits leaves the neighbour unchanged**: a thread step on
object `k` changes neither the neighbour's shared state nor the remaining bits of the byte. -/
theorem cas_leaves_neighbour (k : Obj) (x : Nat) (d : Bool) (s : State) :
    (step immix oneStep s (.thread k x d)).sh.obj k.other = s.sh.obj k.other ∧
    (step immix oneStep s (.thread k x d)).sh.rest = s.sh.rest := by
  simp only [step]
  cases hp : s.pc k x with
  | casB o r =>
    simp only [localStep]
    split_ifs
    · exact ⟨obj_setObj_ne _ _ _ (other_ne k) _, rfl⟩
    · exact ⟨rfl, rfl⟩
  | base p =>
    by_cases hcas : p = .cas
    · subst hcas; exact ⟨rfl, rfl⟩
    · rw [base_step immix oneStep k x d s.sh p hcas]
      exact ⟨obj_setObj_ne _ _ _ (other_ne k) _, rfl⟩

/-! ## the C17 theorems, per object, while the neighbour is being forwarded too -/

section PerObject
variable {immix oneStep} {m0A m0B : Bool} {r0 : Nat} {run : List Act}

/-- **C17 (2) per object**: each object is copied at most once. -/
theorem copy_at_most_once_per_object (k : Obj) (hcs : immix = false → m0of m0A m0B k = false) :
    ((exec immix oneStep (init m0A m0B r0) run).sh.obj k).copies.length ≤ 1 :=
  Fwd.copy_at_most_once hcs (proj_reachable immix oneStep k m0A m0B r0 run)

/-- **C17 (3) per object**: all finished tracers of object `k` returned the same reference — the
unique copy, or the unmoved object if no copy was made. -/
theorem agreement_per_object (k : Obj) (hcs : immix = false → m0of m0A m0B k = false) (x y r r' : Nat)
    (hx : (exec immix oneStep (init m0A m0B r0) run).pc k x = .base (.done r))
    (hy : (exec immix oneStep (init m0A m0B r0) run).pc k y = .base (.done r')) :
    r = r' ∧ ((r = Fwd.orig ∧ ((exec immix oneStep (init m0A m0B r0) run).sh.obj k).copies = []) ∨
      ((exec immix oneStep (init m0A m0B r0) run).sh.obj k).copies = [r]) := by
  refine Fwd.agreement hcs (proj_reachable immix oneStep k m0A m0B r0 run) x y r r' ?_ ?_
  · show projPC ((exec immix oneStep (init m0A m0B r0) run).pc k x) = .done r
    rw [hx]; rfl
  · show projPC ((exec immix oneStep (init m0A m0B r0) run).pc k y) = .done r'
    rw [hy]; rfl

/-- **C17 (1) per object**: at most one tracer of object `k` is between its successful CAS and its
final store / clear. -/
theorem one_winner_at_a_time_per_object (k : Obj) (hcs : immix = false → m0of m0A m0B k = false)
    (x y : Nat)
    (hx : Fwd.inCrit (projPC ((exec immix oneStep (init m0A m0B r0) run).pc k x)) = true)
    (hy : Fwd.inCrit (projPC ((exec immix oneStep (init m0A m0B r0) run).pc k y)) = true) : x = y :=
  Fwd.one_winner_at_a_time hcs (proj_reachable immix oneStep k m0A m0B r0 run) x y hx hy

/-- **C17 tie, per object**: in every quiescent race on object `k` — its tracers `0..n-1` (any
`n ≥ 1`) have all returned, its other threads never moved; the NEIGHBOUR's tracers may be anywhere —
the outcome of object `k` is accepted by the per-object verdict `Fwd.outcomeOk`. -/
theorem outcome_sound_per_object (k : Obj) (hcs : immix = false → m0of m0A m0B k = false) (n : Nat)
    (hn : 0 < n)
    (hfin : ∀ x, x < n → ∃ r, (exec immix oneStep (init m0A m0B r0) run).pc k x = .base (.done r))
    (hidle : ∀ x, n ≤ x → (exec immix oneStep (init m0A m0B r0) run).pc k x = .base .start) :
    Fwd.outcomeOk immix (m0of m0A m0B k)
      (Fwd.outcomeOf n (proj k (exec immix oneStep (init m0A m0B r0) run))) = true := by
  refine Fwd.outcome_sound hcs (proj_reachable immix oneStep k m0A m0B r0 run) n hn ?_ ?_
  · intro x hx
    obtain ⟨r, hr⟩ := hfin x hx
    refine ⟨r, ?_⟩
    show projPC ((exec immix oneStep (init m0A m0B r0) run).pc k x) = .done r
    rw [hr]; rfl
  · intro x hx
    show projPC ((exec immix oneStep (init m0A m0B r0) run).pc k x) = .start
    rw [hidle x hx]; rfl

end PerObject

/-! ## non-vacuity and the spurious failure -/

/-- **a neighbour makes the byte CAS fail spuriously; `attempt_to_forward` loops and wins**
(CopySpace, two-store layout, tracer `(A,0)` and tracer `(B,0)`): `A` loads the byte; `B` wins its
CAS; `A`'s CAS fails although `A`'s own bits are still `00`; `A` goes round the loop and wins.  Both
objects end `FORWARDED` with one copy each. -/
theorem spurious_failure_then_retry :
    let s1 := exec false false (init false false 0)
      [.thread .A 0 false, .thread .A 0 false, .thread .B 0 false, .thread .B 0 false, .thread .B 0 false,
       .thread .A 0 false]
    let s := exec false false s1
      [.thread .A 0 false, .thread .A 0 false, .thread .A 0 false, .thread .A 0 false, .thread .A 0 false,
       .thread .A 0 false, .thread .B 0 false, .thread .B 0 false, .thread .B 0 false]
    -- after the failed CAS: own bits still 00, the neighbour's are 10, tracer (A,0) is back at the loop head
    (s1.sh.obj .A).bits = 0 ∧ (s1.sh.obj .B).bits = 2 ∧ s1.pc .A 0 = .base .start ∧ s1.pc .B 0 = .base .won ∧
    -- after the retry
    (s.sh.obj .A).bits = 3 ∧ (s.sh.obj .B).bits = 3 ∧ (s.sh.obj .A).copies = [2] ∧ (s.sh.obj .B).copies = [2] ∧
    s.pc .A 0 = .base (.done 2) ∧ s.pc .B 0 = .base (.done 2) ∧
    (s.sh.obj .A).queue = [2] ∧ (s.sh.obj .B).queue = [2] := by
  decide

/-- hypotheses of `outcome_sound_per_object` are satisfiable: Immix, one-store layout, two tracers on
`A` (one wins and copies, the other spins and reads the pointer), one on `B` (declines, marks in
place), the environment rewrites the remaining bits in between. -/
example :
    let s := exec true true (init false false 7)
      [.thread .A 0 false, .thread .A 1 false, .thread .B 0 true, .thread .A 0 false, .thread .B 0 true,
       .env 9, .thread .A 0 false, .thread .A 0 false, .thread .A 0 false, .thread .A 0 false,
       .thread .A 1 false, .thread .A 1 false, .thread .A 1 false, .thread .A 0 false,
       .thread .A 0 false, .thread .A 0 false, .thread .A 1 false, .thread .A 1 false,
       .thread .B 0 true, .thread .B 0 true, .thread .B 0 true, .thread .B 0 true, .thread .B 0 true,
       .thread .B 0 true, .thread .B 0 true, .thread .B 0 true]
    s.pc .A 0 = .base (.done 2) ∧ s.pc .A 1 = .base (.done 2) ∧ s.pc .A 2 = .base .start ∧
    s.pc .B 0 = .base (.done 0) ∧ (s.sh.obj .A).copies = [2] ∧ (s.sh.obj .B).copies = [] ∧
    (s.sh.obj .B).marked = true ∧ s.sh.rest = 9 := by
  decide

/-! ## a mutant: a failed CAS that reports the own bits as `00` is taken for a win -/

/-- `localStep`, except that a failing byte CAS with the object's own bits still `00` goes on as the
winner WITHOUT having set the bits (the failed compare-exchange's view of the own field, `00`, is
what a caller that compares it with the expected value reads as "I won").  Not the code. -/
def noRetryStep (immix oneStep : Bool) (k : Obj) (x : Nat) (decline : Bool) (sh : Shared) (pc : PC) :
    Shared × PC :=
  match pc with
  | .casB o r =>
    if (sh.obj k).bits = Fwd.NOT_TRIGGERED ∧ (sh.obj k.other).bits = o ∧ sh.rest = r
    then (sh.setObj k { sh.obj k with bits := Fwd.BEING_FORWARDED, triggered := true }, .base .won)
    else if (sh.obj k).bits = Fwd.NOT_TRIGGERED then (sh, .base .won)
    else (sh, .base .start)
  | pc => localStep immix oneStep k x decline sh pc

def noRetryExec (immix oneStep : Bool) (s : State) : List (Obj × Nat × Bool) → State
  | [] => s
  | (k, x, d) :: rest =>
    let r := noRetryStep immix oneStep k x d s.sh (s.pc k x)
    noRetryExec immix oneStep { sh := r.1, pc := fun j y => if j = k ∧ y = x then r.2 else s.pc j y } rest

/-- With the mutant (CopySpace): tracers `(A,0)`, `(A,1)` both load the byte; `(B,0)` wins its CAS;
both `A` tracers' CASes fail because of `B`, both see their own bits `00`, both go on as winners:
object `A` is copied twice.  (In the byte model both go back to the loop head — at most one copy,
`copy_at_most_once_per_object`.) -/
theorem noRetry_copies_twice :
    let s := noRetryExec false false (init false false 0)
      [(.A, 0, false), (.A, 0, false), (.A, 1, false), (.A, 1, false),
       (.B, 0, false), (.B, 0, false), (.B, 0, false),
       (.A, 0, false), (.A, 1, false), (.A, 0, false), (.A, 1, false)]
    (s.sh.obj .A).copies = [4, 2] ∧ (s.sh.obj .A).copies.length = 2 ∧
    s.pc .A 0 = .base (.copied 2) ∧ s.pc .A 1 = .base (.copied 4) := by
  decide

end Mmtk.FwdByte
